"""Witnesses of the findings made by the C13 / C18 checks (same contract as corpus/witnesses.py:
each function runs on the implementation importable as `fieldcompare` and returns (fails, detail))."""
from __future__ import annotations
import contextlib
import io
import os
import shutil
import tempfile
import warnings

import numpy as np


def F14():
    """C13: a table written to .csv does not read back to itself when a column name contains a character numpy's
    name validator deletes (or is one of return/file/print), when an unsigned integer is >= 2**63, or when a string
    cell reads as a number"""
    from fieldcompare.io import write, read_field_data
    from fieldcompare.tabular import Table, TabularFields
    d = tempfile.mkdtemp(prefix="fcv_w_")
    try:
        t = TabularFields(Table(num_rows=2), {"p-x": np.array([1.5, 2.5]),
                                              "u": np.array([2 ** 64 - 1, 1], dtype=np.uint64),
                                              "s": np.array(["12", "13"])})
        with warnings.catch_warnings():
            warnings.simplefilter("ignore")
            back = read_field_data(write(t, os.path.join(d, "t")), {"dsv": {"delimiter": ",", "use_names": True}})
        got = {f.name: (f.values.dtype.name, f.values.tolist()) for f in back}
    finally:
        shutil.rmtree(d, ignore_errors=True)
    want = {"p-x": ("float64", [1.5, 2.5]), "u": ("uint64", [2 ** 64 - 1, 1]), "s": ("str", ["12", "13"])}
    bad = []
    if "p-x" not in got:
        bad.append(f"name 'p-x' read back as {sorted(got)[0]!r}")
    u = got.get("u")
    if u is None or [int(x) for x in u[1]] != want["u"][1] or not u[0].startswith(("int", "uint")):
        bad.append(f"uint64 column read back as {u}")
    s = got.get("s")
    if s is None or s[1] != ["12", "13"]:
        bad.append(f"string column read back as {s}")
    return bool(bad), "; ".join(bad) or "round trip exact"


def F15():
    """C18: a .csv whose last cell is the integer -1, cut right after the last delimiter, compares as passed
    (numpy.genfromtxt fills the missing integer cell with -1)"""
    from fieldcompare._cli import main
    d = tempfile.mkdtemp(prefix="fcv_w_")
    try:
        full = "t,x,k\n0.5,1.25,3\n1.5,2.5,-1\n"
        a, b = os.path.join(d, "cut.csv"), os.path.join(d, "full.csv")
        open(b, "w").write(full)
        open(a, "w").write(full[:full.rindex("-1")])
        out = io.StringIO()
        with contextlib.redirect_stdout(out), contextlib.redirect_stderr(out), warnings.catch_warnings():
            warnings.simplefilter("ignore")
            codes = [main(["file", a, b, "--verbosity", "0"]), main(["file", b, a, "--verbosity", "0"])]
    finally:
        shutil.rmtree(d, ignore_errors=True)
    return codes != [1, 1] and 0 in codes, f"exit codes (cut as result, cut as reference) = {codes}"
