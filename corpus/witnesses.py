"""Concrete witnesses of defects found in dglaeser/fieldcompare (see DESIGN.md §8, KNOWN_FINDINGS.json).

Each function runs the witness on the *implementation currently importable as `fieldcompare`*
and returns (fails: bool, detail: str): `fails` = the property is violated on this input.
They are replayed by the checks on every run (known entries must still fail, fixed ones must pass).
"""
from __future__ import annotations
import io
import os
import shutil
import tempfile
import warnings

import numpy as np


def _quad_lattice(nx, ny, plane="xz"):
    from fieldcompare.mesh import Mesh, CellTypes
    pts, idx = [], {}
    for j in range(ny + 1):
        for i in range(nx + 1):
            idx[(i, j)] = len(pts)
            p = {"xy": (i, j, 0.0), "xz": (i, 0.0, j), "yz": (0.0, i, j)}[plane]
            pts.append([float(c) for c in p])
    quads = [[idx[(i, j)], idx[(i + 1, j)], idx[(i + 1, j + 1)], idx[(i, j + 1)]]
             for j in range(ny) for i in range(nx)]
    return np.array(pts), np.array(quads)


def _permuted(points, cells, seed):
    rng = np.random.default_rng(seed)
    perm = rng.permutation(len(points))          # new -> old
    inv = np.empty_like(perm); inv[perm] = np.arange(len(perm))
    cperm = rng.permutation(len(cells))
    return points[perm], inv[cells][cperm], perm, cperm


def F1():
    """C02: a 2-d lattice in the x–z plane stored with 3 coordinates vs a permutation of itself"""
    from fieldcompare.mesh import Mesh, MeshFields, CellTypes, MeshFieldsComparator
    pts, quads = _quad_lattice(8, 8, "xz")
    p2, q2, perm, cperm = _permuted(pts, quads, 3)
    pf = np.arange(len(pts), dtype=float)
    a = MeshFields(Mesh(pts, [(CellTypes.quad, quads)]), {"p": pf}, {})
    b = MeshFields(Mesh(p2, [(CellTypes.quad, q2)]), {"p": pf[perm]}, {})
    suite = MeshFieldsComparator(a, b)()
    ok = bool(suite)
    return (not ok), f"comparison of an 9x9 x–z lattice with its permutation: passed={ok}"


def F2():
    """C03/C16: quad-only mesh vs the same mesh plus a triangle block"""
    from fieldcompare.mesh import Mesh, CellTypes
    pts = np.array([[0, 0], [1, 0], [1, 1], [0, 1], [2, 0]], dtype=float)
    a = Mesh(pts, [(CellTypes.quad, [[0, 1, 2, 3]])])
    b = Mesh(pts, [(CellTypes.quad, [[0, 1, 2, 3]]), (CellTypes.triangle, [[1, 4, 2]])])
    res = []
    for x, y in ((a, b), (b, a)):
        try:
            res.append(str(bool(x.equals(y))))
        except Exception as e:  # noqa: BLE001
            res.append(type(e).__name__)
    return res != ["False", "False"], f"equals(quad-only, quad+tri)={res[0]}, equals(quad+tri, quad-only)={res[1]}"


def F3():
    """C06/C08: merge(m1, m2) where every point of m2 already exists in m1 drops m2's cells"""
    from fieldcompare.mesh import Mesh, MeshFields, CellTypes, merge
    q = Mesh(np.array([[0., 0.], [1., 0.], [1., 1.], [0., 1.]]), [(CellTypes.quad, [[0, 1, 2, 3]])])
    t = Mesh(np.array([[0., 0.], [1., 0.], [1., 1.]]), [(CellTypes.triangle, [[0, 1, 2]])])
    m = merge(MeshFields(q, {}, {"c": [[1.0]]}), MeshFields(t, {}, {"c": [[2.0]]}))
    ncells = sum(len(m.domain.connectivity(ct)) for ct in m.domain.cell_types)
    return ncells != 2, f"merge(quad, triangle on three of its corners): {ncells} cell(s) in the result, expected 2"


def F4():
    """C06: structured merger loses the numeric type of integer fields"""
    from fieldcompare.mesh import StructuredFieldMerger
    m = StructuredFieldMerger(((1, 1),))
    out = m.merge_cell_fields(lambda loc: np.array([7 + loc[0]], dtype=np.int32))
    return out.dtype != np.int32, f"merged int32 cell field has dtype {out.dtype}"


def F5():
    """C20: `fieldcompare file` on two tables with different numbers of rows exits with 1 while the JUnit report shows
    tests=0 failures=0 errors=0 (the failure is carried by the suite's own status only)"""
    import shutil
    import xml.etree.ElementTree as ET
    from fieldcompare._cli import main
    from fieldcompare._cli._logger import CLILogger
    d = tempfile.mkdtemp(prefix="fcv_w_")
    try:
        a, b, j = os.path.join(d, "a.csv"), os.path.join(d, "b.csv"), os.path.join(d, "r.xml")
        with open(a, "w") as fh:
            fh.write("x,y\n1.0,2.0\n2.0,3.0\n3.0,4.0\n")
        with open(b, "w") as fh:
            fh.write("x,y\n1.0,2.0\n2.0,3.0\n")
        rc = main(["file", a, b, "--junit-xml", j], CLILogger(output_stream=io.StringIO()))
        if not os.path.exists(j):
            return rc != 0, f"exit={rc}, no report written"
        root = ET.parse(j).getroot()
        shown = sum(1 for tc in root.iter("testcase") for c in tc if c.tag in ("failure", "error"))
        return (rc != 0 and shown == 0), (f"exit={rc} tests={root.attrib['tests']} failures={root.attrib['failures']} "
                                          f"errors={root.attrib['errors']}")
    finally:
        shutil.rmtree(d, ignore_errors=True)


def F6():
    """C16: rectilinear grids that differ only in the flat direction compare equal"""
    from fieldcompare.mesh import RectilinearMesh, Mesh
    a = RectilinearMesh((2, 2, 0), ([0.0, 1.0, 2.0], [0.0, 1.0, 2.0], [0.0]))
    b = RectilinearMesh((2, 2, 0), ([0.0, 1.0, 2.0], [0.0, 1.0, 2.0], [5.0]))
    structured = bool(a.equals(b))
    ct = list(a.cell_types)[0]
    ea = Mesh(a.points, [(ct, a.connectivity(ct))])
    eb = Mesh(b.points, [(ct, b.connectivity(ct))])
    explicit = bool(ea.equals(eb))
    return structured and not explicit, f"rectilinear equals={structured}, explicit equals={explicit}"


_VTS_3D = """<?xml version="1.0"?>
<VTKFile type="StructuredGrid" version="0.1" byte_order="LittleEndian">
<StructuredGrid WholeExtent="0 1 0 1 0 1">
<Piece Extent="0 1 0 1 0 1">
<PointData></PointData>
<CellData><DataArray type="Float64" Name="c" NumberOfComponents="1" format="ascii">42.0</DataArray></CellData>
<Points><DataArray type="Float64" NumberOfComponents="3" format="ascii">
0 0 0 1 0 0 0 1 0 1 1 0 0 0 1 1 0 1 0 1 1 1 1 1
</DataArray></Points>
</Piece></StructuredGrid></VTKFile>
"""


def F8():
    """C07: a 3-d .vts file with cell data cannot be read"""
    from fieldcompare.io import read_field_data
    d = tempfile.mkdtemp(prefix="fcv_w_")
    p = os.path.join(d, "g.vts")
    try:
        with open(p, "w") as fh:
            fh.write(_VTS_3D)
        try:
            f = read_field_data(p)
            vals = {fl.name: np.array(fl.values).tolist() for fl in f}
            ok = any(v == [42.0] for v in vals.values())
            return (not ok), f"fields read: {vals}"
        except Exception as e:  # noqa: BLE001
            return True, f"read raised {type(e).__name__}: {e}"
    finally:
        os.remove(p); os.rmdir(d)


def F10():
    """C19: to_meshio reorders the input mesh's own pixel connectivity in place"""
    from fieldcompare.mesh import Mesh, CellTypes, MeshFields, meshio_utils
    pts = np.array([[0, 0], [1, 0], [2, 0], [0, 1], [1, 1], [2, 1]], dtype=float)
    m = Mesh(pts, [(CellTypes.pixel, [[0, 1, 3, 4], [1, 2, 4, 5]])])
    f = MeshFields(m, {}, {})
    ct = CellTypes.pixel
    before = np.array(m.connectivity(ct)).copy()
    with warnings.catch_warnings():
        warnings.simplefilter("ignore")
        meshio_utils.to_meshio(f)
    after = np.array(m.connectivity(ct))
    return not np.array_equal(before, after), f"connectivity before {before.tolist()} after {after.tolist()}"


def F11():
    """C05: zero-length array in a zlib-compressed file (num_blocks = 0)"""
    import base64
    from fieldcompare.io import read_field_data
    hdr = base64.b64encode(np.array([0, 32768, 0], dtype=np.uint64).tobytes()).decode()

    def comp(arr):
        import zlib
        raw = arr.tobytes()
        c = zlib.compress(raw)
        h = np.array([1, 32768, len(raw), len(c)], dtype=np.uint64).tobytes()
        return base64.b64encode(h).decode() + base64.b64encode(c).decode()

    pts = comp(np.array([[0, 0, 0], [1, 0, 0]], dtype=np.float64))
    pd = comp(np.array([1.0, 2.0]))
    xml = f"""<?xml version="1.0"?>
<VTKFile type="UnstructuredGrid" version="1.0" byte_order="LittleEndian" header_type="UInt64" compressor="vtkZLibDataCompressor">
<UnstructuredGrid><Piece NumberOfPoints="2" NumberOfCells="0">
<PointData><DataArray type="Float64" Name="p" format="binary">{pd}</DataArray></PointData>
<CellData></CellData>
<Points><DataArray type="Float64" NumberOfComponents="3" format="binary">{pts}</DataArray></Points>
<Cells>
<DataArray type="Int64" Name="connectivity" format="binary">{hdr}</DataArray>
<DataArray type="Int64" Name="offsets" format="binary">{hdr}</DataArray>
<DataArray type="UInt8" Name="types" format="binary">{hdr}</DataArray>
</Cells></Piece></UnstructuredGrid></VTKFile>
"""
    d = tempfile.mkdtemp(prefix="fcv_w_")
    p = os.path.join(d, "e.vtu")
    try:
        with open(p, "w") as fh:
            fh.write(xml)
        try:
            f = read_field_data(p)
            vals = {fl.name: np.array(fl.values).tolist() for fl in f}
            return vals != {"p": [1.0, 2.0]}, f"fields read: {vals}"
        except Exception as e:  # noqa: BLE001
            return True, f"read raised {type(e).__name__}: {e}"
    finally:
        os.remove(p); os.rmdir(d)


def F14():
    """a tabular/point field whose own name contains ' @ ' is filtered by its prefix: including exactly
    'a @ b' does not select the (differing) field, the suite is truthy"""
    import numpy as np
    from fieldcompare import FieldDataComparator
    from fieldcompare.tabular import Table, TabularFields
    mk = lambda v: TabularFields(Table(num_rows=1), {"a @ b": np.array([v])})
    suite = FieldDataComparator(mk(1.0), mk(2.0), field_inclusion_filter=lambda n: n == "a @ b")(
        fieldcomp_callback=lambda c: None)
    st = [(c.name, c.status.name) for c in suite]
    fails = bool(suite) or st != [("a @ b", "failed")]
    return fails, {"report": st, "verdict": bool(suite)}


def F15():
    """C05: raw-appended .vtu whose UInt8 point field contains the bytes </AppendedData>"""
    import struct
    from fieldcompare.io import read_field_data

    def raw(arr):
        b = arr.tobytes()
        return struct.pack("<I", len(b)) + b

    payload = np.frombuffer(b"ab</AppendedData>c", dtype=np.uint8)
    n = len(payload)
    pts = np.zeros((n, 3), dtype=np.float32)
    pts[:, 0] = np.arange(n)
    parts = [raw(payload), raw(pts), raw(np.array([0, 1], dtype=np.int32)), raw(np.array([2], dtype=np.int32)),
             raw(np.array([3], dtype=np.uint8))]
    offs = [0]
    for p_ in parts:
        offs.append(offs[-1] + len(p_))
    head = f"""<?xml version="1.0"?>
<VTKFile type="UnstructuredGrid" version="1.0" byte_order="LittleEndian" header_type="UInt32">
<UnstructuredGrid><Piece NumberOfPoints="{n}" NumberOfCells="1">
<PointData><DataArray type="UInt8" Name="p" format="appended" offset="{offs[0]}"/></PointData>
<CellData></CellData>
<Points><DataArray type="Float32" NumberOfComponents="3" format="appended" offset="{offs[1]}"/></Points>
<Cells>
<DataArray type="Int32" Name="connectivity" format="appended" offset="{offs[2]}"/>
<DataArray type="Int32" Name="offsets" format="appended" offset="{offs[3]}"/>
<DataArray type="UInt8" Name="types" format="appended" offset="{offs[4]}"/>
</Cells></Piece></UnstructuredGrid>
<AppendedData encoding="raw">
_""".encode()
    d = tempfile.mkdtemp(prefix="fcv_w_")
    path = os.path.join(d, "w.vtu")
    try:
        with open(path, "wb") as fh:
            fh.write(head + b"".join(parts) + b"\n</AppendedData>\n</VTKFile>\n")
        try:
            f = read_field_data(path)
            vals = {fl.name: np.asarray(fl.values).tobytes() for fl in f.point_fields}
            return vals != {"p": payload.tobytes()}, f"point fields read: {vals}"
        except Exception as e:  # noqa: BLE001
            return True, f"read raised {type(e).__name__}: {e}"
    finally:
        os.remove(path); os.rmdir(d)


def _vtr(extent, whole, xs, ys, zs, pvals, cvals):
    def arr(name, v):
        return (f'<DataArray type="Float64" Name="{name}" NumberOfComponents="1" format="ascii">'
                f'{" ".join(repr(float(x)) for x in v)}</DataArray>')
    return (f'<?xml version="1.0"?>\n<VTKFile type="RectilinearGrid" version="1.0" byte_order="LittleEndian" '
            f'header_type="UInt64">\n<RectilinearGrid WholeExtent="{whole}"><Piece Extent="{extent}">'
            f'<PointData>{arr("p", pvals)}</PointData><CellData>{arr("c", cvals)}</CellData>'
            f'<Coordinates>{arr("X_0", xs)}{arr("X_1", ys)}{arr("X_2", zs)}</Coordinates></Piece>'
            f'</RectilinearGrid>\n</VTKFile>\n')


def _pvtr_vs_whole(pieces, whole_extent, whole):
    from fieldcompare.io import read_field_data
    d = tempfile.mkdtemp(prefix="fcv_w_")
    try:
        lines = []
        for i, (ext, xs, ys, zs, pv, cv) in enumerate(pieces):
            with open(os.path.join(d, f"p{i}.vtr"), "w") as fh:
                fh.write(_vtr(ext, whole_extent, xs, ys, zs, pv, cv))
            lines.append(f'<Piece Extent="{ext}" Source="p{i}.vtr"/>')
        with open(os.path.join(d, "w.vtr"), "w") as fh:
            fh.write(_vtr(*([whole[0], whole_extent] + list(whole[1:]))))
        with open(os.path.join(d, "g.pvtr"), "w") as fh:
            fh.write(f'<?xml version="1.0"?>\n<VTKFile type="PRectilinearGrid">\n<PRectilinearGrid '
                     f'WholeExtent="{whole_extent}">{"".join(lines)}</PRectilinearGrid>\n</VTKFile>\n')
        seq = np.asarray(read_field_data(os.path.join(d, "w.vtr")).domain.points).tolist()
        try:
            par = np.asarray(read_field_data(os.path.join(d, "g.pvtr")).domain.points).tolist()
        except Exception as e:  # noqa: BLE001
            return f"{type(e).__name__}: {e}", seq
        return par, seq
    finally:
        shutil.rmtree(d, ignore_errors=True)


def F16():
    """C06: .pvtr of a grid in the x-z plane split along z: wrong piece consulted for the z ordinates"""
    par, seq = _pvtr_vs_whole(
        [("0 1 0 0 0 1", [0, 1], [0], [0, 5], [1, 2, 3, 4], [1]),
         ("0 1 0 0 1 3", [0, 1], [0], [5, 6, 7], [3, 4, 5, 6, 7, 8], [2, 3])],
        "0 1 0 0 0 3", ("0 1 0 0 0 3", [0, 1], [0], [0, 5, 6, 7], [1, 2, 3, 4, 5, 6, 7, 8], [1, 2, 3]))
    return par != seq, f"z of the parallel grid: {sorted({p[2] for p in par}) if isinstance(par, list) else par}, whole: {sorted({p[2] for p in seq})}"


def F17():
    """C06: .pvtr of an x-y grid lying at z = 7: the merged grid sits at z = 0"""
    par, seq = _pvtr_vs_whole(
        [("0 1 0 1 0 0", [0, 1], [0, 1], [7], [1, 2, 4, 5], [1]),
         ("1 2 0 1 0 0", [1, 2], [0, 1], [7], [2, 3, 5, 6], [2])],
        "0 2 0 1 0 0", ("0 2 0 1 0 0", [0, 1, 2], [0, 1], [7], [1, 2, 3, 4, 5, 6], [1, 2]))
    return par != seq, f"z of the parallel grid: {sorted({p[2] for p in par}) if isinstance(par, list) else par}, whole: {sorted({p[2] for p in seq})}"


def F9():
    """C07: meshio mesh with two blocks of one cell type through from_meshio"""
    import meshio
    from fieldcompare.mesh import meshio_utils, CellTypes
    pts = np.array([[0, 0], [1, 0], [2, 0], [0, 1], [1, 1], [2, 1]], dtype=float)
    with warnings.catch_warnings():
        warnings.simplefilter("ignore")
        mm = meshio.Mesh(pts, [("quad", np.array([[0, 1, 4, 3]])), ("quad", np.array([[1, 2, 5, 4]]))],
                         cell_data={"c": [np.array([1.0]), np.array([2.0])]})
        f = meshio_utils.from_meshio(mm)
    conn = np.asarray(f.domain.connectivity(CellTypes.quad)).tolist()
    vals = [np.asarray(fl.values).tolist() for fl in f.cell_fields]
    ok = sorted(map(tuple, conn)) == [(0, 1, 4, 3), (1, 2, 5, 4)] and vals == [[1.0, 2.0]]
    return (not ok), f"quads read: {conn}, cell values: {vals} (expected both quads with values [1.0, 2.0])"


_VTI_OFFSET = """<?xml version="1.0"?>
<VTKFile type="ImageData" version="1.0" byte_order="LittleEndian" header_type="UInt64">
<ImageData WholeExtent="1 2 0 0 0 0" Origin="0 0 0" Spacing="1 1 1">
<Piece Extent="1 2 0 0 0 0">
<PointData><DataArray type="Float64" Name="p" format="ascii">10 20</DataArray></PointData>
<CellData></CellData>
</Piece></ImageData></VTKFile>
"""


def F20():
    """C07: image data whose extent does not start at 0 (VTK: point index i sits at Origin + i*Spacing)"""
    from fieldcompare.io import read_field_data
    d = tempfile.mkdtemp(prefix="fcv_w_")
    p = os.path.join(d, "g.vti")
    try:
        with open(p, "w") as fh:
            fh.write(_VTI_OFFSET)
        xs = np.asarray(read_field_data(p).domain.points)[:, 0].tolist()
        return xs != [1.0, 2.0], f"x coordinates read: {xs} (VTK semantics: [1.0, 2.0])"
    finally:
        os.remove(p); os.rmdir(d)


def F7():
    """C16: ImageMesh.equals compares the spacing with the coordinate-scaled absolute tolerance"""
    from fieldcompare.mesh import ImageMesh, Mesh
    a = ImageMesh((2, 0, 0), (1000.0, 0.0, 0.0), (1.0, 1.0, 1.0))
    b = ImageMesh((2, 0, 0), (1000.0, 0.0, 0.0), (1.000009, 1.0, 1.0))
    structured = bool(a.equals(b))
    ct = list(a.cell_types)[0]
    ea = Mesh(a.points, [(ct, a.connectivity(ct))])
    eb = Mesh(b.points, [(ct, b.connectivity(ct))])
    explicit = bool(ea.equals(eb))
    return structured and not explicit, f"image equals={structured}, explicit equals={explicit}"


def F21():
    """C16: structured short-cuts / PermutedMesh.equals use the receiver's tolerances only -> asymmetric"""
    from fieldcompare.mesh import RectilinearMesh
    a = RectilinearMesh((1, 0, 0), ([0.0, 4.0], [0.0], [0.0]))
    a.set_tolerances(abs_tol=1.0)
    b = RectilinearMesh((1, 0, 0), ([0.5, 4.0], [0.0], [0.0]))
    ab, ba = bool(a.equals(b)), bool(b.equals(a))
    return ab != ba, f"a.equals(b)={ab}, b.equals(a)={ba}"


ALL = {n: f for n, f in globals().items() if n.startswith("F") and n[1:].isdigit() and callable(f)}

if __name__ == "__main__":
    import sys
    sys.path.insert(0, os.environ.get("FCV_REPO", "/repo"))
    for n in sorted(ALL, key=lambda s: int(s[1:])):
        try:
            print(n, ALL[n]())
        except Exception as e:  # noqa: BLE001
            print(n, "WITNESS-ERROR", type(e).__name__, e)


def F22():
    """C10 / C16: explicit FuzzyEquality on an integer array with two dimensions compared with itself, and Mesh.equals on
    a mesh with integer-typed coordinates, raised (in-place product of an integer array and a float tolerance)"""
    from fieldcompare.predicates import FuzzyEquality
    from fieldcompare.mesh import Mesh, CellTypes
    a = np.array([[1, 2, 3], [4, 5, 6]], dtype=np.int64)
    out = []
    for p in (FuzzyEquality(), FuzzyEquality(rel_tol=1e-3), FuzzyEquality(rel_tol=0.0, abs_tol=1.0)):
        try:
            out.append(bool(p(a, a)))
        except Exception as e:  # noqa: BLE001
            out.append(type(e).__name__)
    try:
        m = Mesh(np.array([[0, 0], [1, 0], [0, 1]]), [(CellTypes.triangle, [[0, 1, 2]])])
        out.append(bool(m.equals(m)))
    except Exception as e:  # noqa: BLE001
        out.append(type(e).__name__)
    return out != [True, True, True, True], f"(a,a) under three tolerance settings + mesh.equals(mesh): {out}"


def F23():
    """C04 / C06 / C15: `fieldcompare file out.pvd ../reference/out.pvd` run from INSIDE the results directory read the
    result's step file for the reference, too (relative step / piece names were looked up in the working directory
    first) and passed although the data differ"""
    import shutil
    from fieldcompare._cli import main
    from fieldcompare._cli._logger import CLILogger
    from fieldcompare.mesh import Mesh, MeshFields, CellTypes
    from fieldcompare.io import write
    d = tempfile.mkdtemp(prefix="fcv_w_")
    old = os.getcwd()
    try:
        for sub, val in (("results", 3.0), ("reference", 30.0)):
            os.makedirs(os.path.join(d, sub))
            mesh = Mesh(np.array([[0.0, 0.0], [1.0, 0.0], [0.0, 1.0]]), [(CellTypes.triangle, [[0, 1, 2]])])
            write(MeshFields(mesh, point_data={"u": np.array([1.0, 2.0, val])}), os.path.join(d, sub, "out_0"))
            with open(os.path.join(d, sub, "out.pvd"), "w") as fh:
                fh.write('<?xml version="1.0"?>\n<VTKFile type="Collection" version="0.1"><Collection>'
                         '<DataSet timestep="0" file="out_0.vtu"/></Collection></VTKFile>\n')
        os.chdir(os.path.join(d, "results"))
        rc_inside = main(["file", "out.pvd", "../reference/out.pvd"], CLILogger(output_stream=io.StringIO()))
        os.chdir(d)
        rc_outside = main(["file", "results/out.pvd", "reference/out.pvd"], CLILogger(output_stream=io.StringIO()))
        return rc_inside == 0 or rc_outside == 0, f"exit from inside the results directory {rc_inside}, from the parent {rc_outside}"
    finally:
        os.chdir(old)
        shutil.rmtree(d, ignore_errors=True)


def F24():
    """C08 / C06: `merge(a, b)` where b stores its connectivity with a narrow index type (uint8) and a has more points than
    that type can count: the renumbered corners of b's cells wrapped silently (cells referred to a's points); and a piece
    with uint64 connectivity next to one with int64 connectivity gave float64 indices, so every later sort raised"""
    from fieldcompare.mesh import Mesh, MeshFields, CellTypes, merge, sort
    pts_a = np.array([[float(i), 0.0] for i in range(300)])
    a = MeshFields(Mesh(pts_a, [(CellTypes.line, np.array([[i, i + 1] for i in range(299)], dtype=np.int64))]))
    pts_b = np.array([[1000.0, 0.0], [1001.0, 0.0]])
    b = MeshFields(Mesh(pts_b, [(CellTypes.line, np.array([[0, 1]], dtype=np.uint8))]))
    m = merge(a, b)
    conn = np.asarray(m.domain.connectivity(CellTypes.line))
    last = [tuple(np.asarray(m.domain.points)[int(i)]) for i in conn[-1]]
    wrapped = last != [(1000.0, 0.0), (1001.0, 0.0)]
    c = MeshFields(Mesh(pts_b + 5000.0, [(CellTypes.line, np.array([[0, 1]], dtype=np.uint64))]))
    try:
        sort(merge(a, c)).domain.points  # noqa: B018
        raised = None
    except Exception as e:  # noqa: BLE001
        raised = type(e).__name__
    return (wrapped or raised is not None), f"corners of the appended cell: {last}; sort after merging int64 with uint64 connectivity: {raised or 'ok'}"
