#!/venv/bin/python
"""mutation / neutral-refactor experiments: exp.py <name>... (or 'all')"""
import os, re, shutil, subprocess, sys
sys.path.insert(0, "/tmp/wk5/E/harness")
REPO = "/tmp/wk5/E_repo"
CM = "fieldcompare/_cli/_common.py"; FM = "fieldcompare/_cli/_file_mode.py"; DM = "fieldcompare/_cli/_dir_mode.py"
FCM = "fieldcompare/_cli/_file_comparison.py"; MAIN = "fieldcompare/_cli/_main.py"
PROPS = ["FcProofs.Props.C04_Plumbing", "FcProofs.Props.C12_Plumbing", "FcProofs.Props.C17_Plumbing"]

EXP = {}
def exp(name, kind):
    def deco(f):
        EXP[name] = (kind, f); return f
    return deco

def sub(rel, old, new, count=1):
    p = os.path.join(REPO, rel); s = open(p).read()
    assert s.count(old) >= 1, (rel, old)
    s = s.replace(old, new) if count == 0 else s.replace(old, new, count)
    open(p, "w").write(s)

# ------------------------------------------------------------------ mutants
@exp("M1-ftm-falsy", "mutant")
def _(): sub(CM, "return tol if tol is not None else self._default", "return tol if tol else self._default")
@exp("M2-ftm-default-first", "mutant")
def _(): sub(CM, "return tol if tol is not None else self._default", "return self._default if self._default is not None else tol")
@exp("M3-pf-all", "mutant")
def _(): sub(CM, "return any(fnmatch(name, pattern) for pattern in self._patterns)", "return all(fnmatch(name, pattern) for pattern in self._patterns)")
@exp("M4-pf-swapped-args", "mutant")
def _(): sub(CM, "fnmatch(name, pattern)", "fnmatch(pattern, name)")
@exp("M5-include-all-empty", "mutant")
def _(): sub(CM, 'return PatternFilter(["*"])', "return PatternFilter([])")
@exp("M6-ftmap-last-match", "mutant")
def _(): sub(CM, """        for file_type_with_opts, regex in self._mapping:
            if regex(filename):
                return self._split_file_type_and_opts(file_type_with_opts)
        return None""", """        result = None
        for file_type_with_opts, regex in self._mapping:
            if regex(filename):
                result = self._split_file_type_and_opts(file_type_with_opts)
        return result""")
@exp("M7-readas-drop-later", "mutant")
def _(): sub(CM, "            regexes[file_types_with_opts.index(ft_with_opts)].append(regex)", "            pass")
@exp("M7b-readas-wrong-index", "mutant")
def _(): sub(CM, "regexes[file_types_with_opts.index(ft_with_opts)].append(regex)", "regexes[0].append(regex)")
@exp("M8-parse-first-default-wins", "mutant")
def _(): sub(CM, "                default_tol = _make_tolerance(tol_string)", "                default_tol = default_tol if default_tol is not None else _make_tolerance(tol_string)")
@exp("M8b-parse-dynamic-or", "mutant")
def _(): sub(CM, 'if allow_dynamic_tolerances and tol_string.endswith("*max")', 'if allow_dynamic_tolerances or tol_string.endswith("*max")')
@exp("M8c-parse-setdefault-like", "mutant")
def _(): sub(CM, "                field_tols[name] = _make_tolerance(value_str)", "                if name not in field_tols:\n                    field_tols[name] = _make_tolerance(value_str)")
@exp("M9-dir-swapped-flags", "mutant")
def _(): sub(DM, 'disable_unconnected_points_removal=bool(args["disable_mesh_orphan_point_removal"])', 'disable_unconnected_points_removal=bool(args["disable_mesh_reordering"])')
@exp("M10-file-ignore-swapped", "mutant")
def _(): sub(FM, 'ignore_missing_source_fields=args["ignore_missing_source_fields"]', 'ignore_missing_source_fields=args["ignore_missing_reference_fields"]')
@exp("M11-dir-get-misspelt", "mutant")
def _(): sub(DM, 'args["exclude_files"]) if args["exclude_files"]', 'args["exclude_files"]) if args.get("exclude-files")')
@exp("M12-dir-negated-flag", "mutant")
def _(): sub(DM, 'disable_mesh_reordering=bool(args["disable_mesh_reordering"])', 'disable_mesh_reordering=not bool(args["disable_mesh_reordering"])')
@exp("M13-comparator-wrong-field", "mutant")
def _(): sub(FCM, "disable_space_dimension_matching=self._opts.disable_mesh_space_dimension_matching", "disable_space_dimension_matching=self._opts.disable_mesh_reordering")
@exp("M14-dest-renamed", "mutant")
def _(): sub(FM, '        "--disable-mesh-orphan-point-removal",\n        required=False,', '        "--disable-mesh-orphan-point-removal",\n        dest="disable_orphan_point_removal",\n        required=False,')

@exp("M15-ftm-init-drops-dict", "mutant")
def _(): sub(CM, "self._field_tolerances = tolerances or {}", "self._field_tolerances = {}")
@exp("M16-ftm-init-default-or", "mutant")
def _(): sub(CM, "self._default = default_tol", "self._default = default_tol or None")
@exp("M17-ftmap-init-empty", "mutant")
def _(): sub(CM, "self._mapping = mapping or []", "self._mapping = []")
# ------------------------------------------------------------------ neutral refactors
@exp("N13-init-reordered", "neutral")
def _(): sub(CM, """        self._field_tolerances = tolerances or {}
        self._default = default_tol""", """        self._default = default_tol
        # the per-field values
        self._field_tolerances = tolerances or {}""")
@exp("N1-renames-reformat", "neutral")
def _():
    sub(CM, """    def __call__(self, field_name: str) -> float | DynamicTolerance | None:
        tol = self._field_tolerances.get(field_name)
        return tol if tol is not None else self._default""", """    def __call__(self, key: str):
        \"\"\"tolerance for the field `key` (falls back to the default)\"\"\"
        # look the field up first
        found = self._field_tolerances.get(
            key
        )
        return (found if found is not None
                else self._default)""")
    sub(CM, "return any(fnmatch(name, pattern) for pattern in self._patterns)", "return any(fnmatch(n, p) for p in self._patterns)  # any pattern")
    sub(CM, "    def __call__(self, name: str) -> bool:\n        return any(fnmatch(n, p)", "    def __call__(self, n):\n        return any(fnmatch(n, p)")
    sub(CM, """        for file_type_with_opts, regex in self._mapping:
            if regex(filename):
                return self._split_file_type_and_opts(file_type_with_opts)""", """        for reader, matcher in self._mapping:
            if matcher(filename):   # first match wins
                return self._split_file_type_and_opts(reader)""")
    for a, b in [("file_types_with_opts", "readers"), ("regexes", "pattern_lists"), ("ft_with_opts", "rd"), ("map_args", "read_as")]:
        sub(CM, a, b, 0)
    sub(CM, "for mapping in read_as:\n        rd, regex = _split_regex(mapping)", "for one_arg in read_as:\n        rd, regex = _split_regex(one_arg)")
    for a, b in [("tolerance_strings", "tol_args"), ("field_tols", "per_field"), ("default_tol", "global_tol"), ("value_str", "val")]:
        sub(CM, a, b, 0)
    sub(CM, "FieldToleranceMap(per_field, global_tol=global_tol)", "FieldToleranceMap(per_field, default_tol=global_tol)")
    sub(CM, "        global_tol: float | DynamicTolerance | None = None,\n    ) -> None:", "        default_tol: float | DynamicTolerance | None = None,\n    ) -> None:")
    sub(CM, "self._default = global_tol", "self._default = default_tol")
@exp("N2-ftm-if-statement", "neutral")
def _(): sub(CM, "        return tol if tol is not None else self._default", "        if tol is not None:\n            return tol\n        return self._default")
@exp("N2b-ftm-if-else-statement", "neutral")
def _(): sub(CM, "        return tol if tol is not None else self._default", "        if tol is not None:\n            return tol\n        else:\n            return self._default")
@exp("N3-pf-for-loop", "neutral")
def _(): sub(CM, "        return any(fnmatch(name, pattern) for pattern in self._patterns)", "        for pattern in self._patterns:\n            if fnmatch(name, pattern):\n                return True\n        return False")
@exp("N4-helpers-renamed", "neutral")
def _():
    sub(CM, "_split_regex", "_reader_and_pattern", 0); sub(CM, "_has_opts", "_with_options", 0)
    sub(CM, "_is_field_tolerance_string", "_names_a_field", 0); sub(CM, "_get_field_name_tolerance_str_pair", "_split_pair", 0)
    sub(CM, "_make_tolerance", "_tolerance_of", 0)
@exp("N5-keywords-reordered", "neutral")
def _():
    sub(FM, """        ignore_missing_source_fields=args["ignore_missing_source_fields"],
        ignore_missing_reference_fields=args["ignore_missing_reference_fields"],""", """        ignore_missing_reference_fields=args["ignore_missing_reference_fields"],
        ignore_missing_source_fields=args["ignore_missing_source_fields"],""")
    sub(DM, """            disable_mesh_reordering=bool(args["disable_mesh_reordering"]),
            disable_mesh_space_dimension_matching=bool(args["disable_mesh_space_dimension_matching"]),""", """            disable_mesh_space_dimension_matching=bool(args["disable_mesh_space_dimension_matching"]),
            disable_mesh_reordering=bool(args["disable_mesh_reordering"]),""")
    sub(CM, "return FieldToleranceMap(field_tols, default_tol=default_tol)", "return FieldToleranceMap(default_tol=default_tol, tolerances=field_tols)")
@exp("N5b-positional-vs-keyword", "neutral")
def _():
    sub(CM, "return FileTypeMap(mapping=[(ft_opts, PatternFilter(rx)) for ft_opts, rx in zip(file_types_with_opts, regexes)])",
        "return FileTypeMap([(ft_opts, PatternFilter(patterns=rx)) for ft_opts, rx in zip(file_types_with_opts, regexes)])")
    sub(CM, 'return PatternFilter(["*"])', 'return PatternFilter(patterns=["*"])')
@exp("N6-dir-opts-once-get-alias", "neutral")
def _():
    sub(DM, """    _rel_tol_map = _parse_field_tolerances(args.get("relative_tolerance"))
    _abs_tol_map = _parse_field_tolerances(args.get("absolute_tolerance"), allow_dynamic_tolerances=True)
""", """    cfg = args
    opts = FileComparisonOptions(
        ignore_missing_source_fields=bool(cfg.get("ignore_missing_source_fields")),
        ignore_missing_reference_fields=bool(cfg.get("ignore_missing_reference_fields")),
        ignore_missing_sequence_steps=bool(cfg.get("ignore_missing_sequence_steps")),
        relative_tolerances=_parse_field_tolerances(cfg.get("relative_tolerance")),
        absolute_tolerances=_parse_field_tolerances(cfg.get("absolute_tolerance"), allow_dynamic_tolerances=True),
        field_inclusion_filter=PatternFilter(cfg["include_fields"]) if cfg.get("include_fields") else _include_all(),
        field_exclusion_filter=PatternFilter(cfg["exclude_fields"]) if cfg.get("exclude_fields") else _exclude_all(),
        disable_mesh_reordering=cfg.get("disable_mesh_reordering"),
        disable_mesh_space_dimension_matching=bool(cfg.get("disable_mesh_space_dimension_matching")),
        disable_unconnected_points_removal=bool(cfg.get("disable_mesh_orphan_point_removal")),
        file_type_map=_make_file_type_map(cfg.get("read_as", [])),
    )
""")
    s = open(os.path.join(REPO, DM)).read()
    a = s.index("        opts = FileComparisonOptions(\n            ignore_missing_source_fields=args"); b = s.index("        try:\n            sub_logger")
    open(os.path.join(REPO, DM), "w").write(s[:a] + s[b:])
@exp("N7-make-tolerance-single-return", "neutral")
def _(): sub(CM, """        if allow_dynamic_tolerances and tol_string.endswith("*max"):
            return ScaledTolerance(base_tolerance=float(tol_string.rsplit("*max")[0]))
        return float(tol_string)""", """        return (
            ScaledTolerance(base_tolerance=float(tol_string.rsplit("*max")[0]))
            if allow_dynamic_tolerances and tol_string.endswith("*max")
            else float(tol_string)
        )""")
@exp("N8-ftmap-explicit-unpack", "neutral")
def _(): sub(CM, """        for file_type_with_opts, regex in self._mapping:
            if regex(filename):""", """        for entry in self._mapping:
            file_type_with_opts, regex = entry
            if regex(filename):""")
@exp("N9-add-args-renamed-explicit-dest", "neutral")
def _():
    sub(FM, "_add_mesh_reorder_options_args", "_add_mesh_switches", 0); sub(DM, "_add_mesh_reorder_options_args", "_add_mesh_switches", 0)
    sub(FM, '        "--disable-mesh-reordering",\n        required=False,', '        "--disable-mesh-reordering",\n        dest="disable_mesh_reordering",\n        required=False,')
@exp("N10-entry-points-renamed", "neutral")
def _():
    sub(DM, "def _run(args: dict, in_logger: CLILogger) -> int:", "def _run_dir(arguments: dict, in_logger: CLILogger) -> int:")
    s = open(os.path.join(REPO, DM)).read(); a = s.index("def _run_dir("); b = s.index("@dataclass\nclass CategorizedFiles")
    body = s[a:b].replace("args", "arguments").replace("def _run_dir(argumentsuments", "def _run_dir(arguments")
    open(os.path.join(REPO, DM), "w").write(s[:a] + body + s[b:])
    sub(MAIN, "from ._dir_mode import _run as _run_dir_mode", "from ._dir_mode import _run_dir as _run_dir_mode")
@exp("N11-readas-not-in", "neutral")
def _(): sub(CM, "if not any(_t == ft_with_opts for _t in file_types_with_opts):", "if ft_with_opts not in file_types_with_opts:")
@exp("N12-parse-pair-inlined", "neutral")
def _(): sub(CM, "                name, value_str = _get_field_name_tolerance_str_pair(tol_string)", '                name, value_str = tol_string.split(":")')

def theorem_at(path, line):
    name = "?"
    for i, l in enumerate(open(path), 1):
        m = re.match(r"\s*theorem\s+(\w+)", l)
        if m and i <= line: name = m.group(1)
    return name

def run(name):
    kind, f = EXP[name]
    shutil.rmtree(REPO, ignore_errors=True); shutil.copytree("/repo", REPO, ignore=shutil.ignore_patterns(".git"))
    f()
    r = subprocess.run(["/venv/bin/python", "-c", "import compileall,sys; sys.exit(0 if compileall.compile_dir('%s/fieldcompare/_cli', quiet=1) else 1)" % REPO])
    env = dict(os.environ, FCV_REPO=REPO)
    out = subprocess.run(["/venv/bin/python", "-c", "import sys; sys.path.insert(0,'/tmp/wk5/E/harness')\nfrom fcv import gen_tables\nst=gen_tables.regenerate(); print({k:v[:110] for k,v in st.items() if v!='same'})"],
                         env=env, capture_output=True, text=True, cwd="/tmp/wk5/E/harness")
    status = out.stdout.strip() + out.stderr.strip()[-300:]
    b = subprocess.run(["lake", "build"] + PROPS, cwd="/tmp/wk5/E/lean", capture_output=True, text=True)
    broken = []
    for m in re.finditer(r"^error: (FcProofs/Props/\w+\.lean):(\d+):", b.stdout, flags=re.M):
        t = theorem_at("/tmp/wk5/E/lean/" + m.group(1), int(m.group(2)))
        if t not in broken: broken.append(t)
    other = [l for l in b.stdout.splitlines() if l.startswith("error:") and "FcProofs/Props" not in l and "Lean exited" not in l and "build failed" not in l]
    print(f"{name} [{kind}] compiles={r.returncode == 0} tables={status} broken={broken} {other[:2]}", flush=True)

names = sys.argv[1:]
if names == ["all"]: names = list(EXP)
for n in names: run(n)
# restore
shutil.rmtree(REPO, ignore_errors=True)
subprocess.run(["/venv/bin/python", "-c", "import sys; sys.path.insert(0,'/tmp/wk5/E/harness')\nfrom fcv import gen_tables\ngen_tables.regenerate()"], cwd="/tmp/wk5/E/harness")
subprocess.run(["lake", "build"] + PROPS, cwd="/tmp/wk5/E/lean", capture_output=True)
