#!/usr/bin/env python3
"""Builds the round-3 neutral-refactor variants of fieldcompare as copies of /tmp/wk6/repo_clean under /tmp/wk6/Q_wt/Nxx.
Every refactor is a list of (file, old text, new text) replacements (old must occur exactly once) + optional new files."""
import os
import re
import shutil
import subprocess
import sys

CLEAN = "/tmp/wk6/repo_clean"
WT = "/tmp/wk6/Q_wt"
CM = "fieldcompare/_cli/_common.py"
FM = "fieldcompare/_cli/_file_mode.py"
DM = "fieldcompare/_cli/_dir_mode.py"
FC = "fieldcompare/_cli/_file_comparison.py"
TS = "fieldcompare/_cli/_test_suite.py"
JU = "fieldcompare/_cli/_junit.py"
MA = "fieldcompare/_cli/_main.py"
MT = "fieldcompare/_matching.py"
FDC = "fieldcompare/_field_data_comparison.py"
ME = "fieldcompare/mesh/_mesh_equal.py"
CT = "fieldcompare/mesh/_cell_type.py"
TR = "fieldcompare/mesh/_transformations.py"
HLP = "fieldcompare/io/vtk/_helpers.py"
ENC = "fieldcompare/io/vtk/_encoders.py"
PR = "fieldcompare/predicates/_predicates.py"
NU = "fieldcompare/_numpy_utils.py"

R = {}      # id -> {"why": str, "edits": [(file, old, new)], "new": {file: text}, "fn": callable(dir) or None}

# ----------------------------------------------------------------------------------------------------------------- N01
R["N01"] = dict(why="FieldToleranceMap: `x or {}` == `x if x else {}`; `get(k)` == `get(k, None)`; the two branches of the "
                    "decision `tol is not None` swapped; the two independent attribute assignments swapped",
                edits=[(CM, '''        self._field_tolerances = tolerances or {}
        self._default = default_tol

    def __call__(self, field_name: str) -> float | DynamicTolerance | None:
        tol = self._field_tolerances.get(field_name)
        return tol if tol is not None else self._default
''', '''        self._default = default_tol
        self._field_tolerances = tolerances if tolerances else {}

    def __call__(self, field_name: str) -> float | DynamicTolerance | None:
        """Return the tolerance registered for the field, or the general one."""
        tol = self._field_tolerances.get(field_name, None)
        if tol is None:
            return self._default
        return tol
''')])

# ----------------------------------------------------------------------------------------------------------------- N02
R["N02"] = dict(why="PatternFilter: defensive copy `list(patterns)` of a list nobody mutates; `any(...)` as a loop over a local "
                    "alias; `_include_all/_exclude_all`: the pattern list bound to an annotated local, keyword argument",
                edits=[(CM, '''    def __init__(self, patterns: list[str]) -> None:
        self._patterns = patterns

    def __call__(self, name: str) -> bool:
        return any(fnmatch(name, pattern) for pattern in self._patterns)


def _include_all() -> PatternFilter:
    return PatternFilter(["*"])


def _exclude_all() -> PatternFilter:
    return PatternFilter([])
''', '''    def __init__(self, patterns: list[str]) -> None:
        self._patterns = list(patterns)  # defensive copy: later changes of the caller's list must not affect us

    def __call__(self, name: str) -> bool:
        candidates = self._patterns
        for candidate in candidates:
            if fnmatch(name, candidate):
                return True
        return False


def _include_all() -> PatternFilter:
    """Filter accepting every name"""
    match_everything: list[str] = ["*"]
    return PatternFilter(patterns=match_everything)


def _exclude_all() -> PatternFilter:
    """Filter accepting no name"""
    no_patterns: list[str] = []
    return PatternFilter(patterns=no_patterns)
''')])

# ----------------------------------------------------------------------------------------------------------------- N03
R["N03"] = dict(why="_parse_field_tolerances: guard clause (`if x is None: return A` first) instead of `if x is not None: ...; return A`; "
                    "if/else branches swapped under `not`; helpers/locals renamed; constructor arguments by keyword",
                edits=[(CM, '''    def _is_field_tolerance_string(tol_string: str) -> bool:
        return ":" in tol_string

    def _get_field_name_tolerance_str_pair(tol_string: str) -> tuple[str, str]:
        name, tol_string = tol_string.split(":")
        return name, tol_string

    def _make_tolerance(tol_string: str) -> float | DynamicTolerance:
        if allow_dynamic_tolerances and tol_string.endswith("*max"):
            return ScaledTolerance(base_tolerance=float(tol_string.rsplit("*max")[0]))
        return float(tol_string)

    if tolerance_strings is not None:
        field_tols = {}
        default_tol: float | DynamicTolerance | None = None
        for tol_string in tolerance_strings:
            if _is_field_tolerance_string(tol_string):
                name, value_str = _get_field_name_tolerance_str_pair(tol_string)
                field_tols[name] = _make_tolerance(value_str)
            else:
                default_tol = _make_tolerance(tol_string)
        return FieldToleranceMap(field_tols, default_tol=default_tol)
    return FieldToleranceMap()
''', '''    def _names_a_field(text: str) -> bool:
        return ":" in text

    def _split_name_and_value(text: str) -> tuple[str, str]:
        field_name, value = text.split(":")
        return field_name, value

    def _to_tolerance(text: str) -> float | DynamicTolerance:
        if allow_dynamic_tolerances and text.endswith("*max"):
            return ScaledTolerance(base_tolerance=float(text.rsplit("*max")[0]))
        return float(text)

    if tolerance_strings is None:
        return FieldToleranceMap()

    per_field = {}
    fallback: float | DynamicTolerance | None = None
    for entry in tolerance_strings:
        if not _names_a_field(entry):
            fallback = _to_tolerance(entry)
        else:
            field_name, value = _split_name_and_value(entry)
            per_field[field_name] = _to_tolerance(value)
    return FieldToleranceMap(tolerances=per_field, default_tol=fallback)
''')])

# ----------------------------------------------------------------------------------------------------------------- N04
R["N04"] = dict(why="FileTypeMap: `mapping or []` -> `mapping if mapping is not None else []` (differs only for the empty list, "
                    "where both give an empty list); result bound to a local before `return`; loop variable renamed",
                edits=[(CM, '''        self._mapping = mapping or []

    def __call__(self, filename: str) -> tuple[str, dict] | None:
        for file_type_with_opts, regex in self._mapping:
            if regex(filename):
                return self._split_file_type_and_opts(file_type_with_opts)
        return None
''', '''        self._mapping = mapping if mapping is not None else []

    def __call__(self, filename: str) -> tuple[str, dict] | None:
        for file_type_with_opts, accepts in self._mapping:
            if accepts(filename):
                selected = self._split_file_type_and_opts(file_type_with_opts)
                return selected
        return None
''')])

# ----------------------------------------------------------------------------------------------------------------- N05
R["N05"] = dict(why="_make_file_type_map: the two closed nested helpers hoisted to module level (same bodies); "
                    "`not any(_t == x for _t in xs)` -> `x not in xs` (membership by ==)",
                edits=[(CM, '''def _make_file_type_map(map_args: list[str] | None) -> FileTypeMap:
    if map_args is None:
        return FileTypeMap()

    def _has_opts(mapping: str) -> bool:
        brace_pos = mapping.find("{") if "{" in mapping else len(mapping)
        colon_pos = mapping.find(":") if ":" in mapping else len(mapping)
        return brace_pos < colon_pos

    def _split_regex(mapping: str) -> tuple[str, str]:
        if _has_opts(mapping):
            if mapping.endswith("}"):
                return mapping, "*"
            result = mapping.split("}:")
            if len(result) != 2:  # noqa: PLR2004
                raise IOError(f"Could not parse reader mapping '{mapping}'.")
            return result[0] + "}", result[1]
        result = mapping.split(":", maxsplit=1)
        return (result[0], "*") if len(result) == 1 else (result[0], result[1])

    file_types_with_opts: list[str] = []
    regexes: list[list[str]] = []
    for mapping in map_args:
        ft_with_opts, regex = _split_regex(mapping)
        if not any(_t == ft_with_opts for _t in file_types_with_opts):
''', '''def _reader_mapping_has_opts(mapping: str) -> bool:
    brace_pos = mapping.find("{") if "{" in mapping else len(mapping)
    colon_pos = mapping.find(":") if ":" in mapping else len(mapping)
    return brace_pos < colon_pos


def _split_reader_mapping(mapping: str) -> tuple[str, str]:
    if _reader_mapping_has_opts(mapping):
        if mapping.endswith("}"):
            return mapping, "*"
        result = mapping.split("}:")
        if len(result) != 2:  # noqa: PLR2004
            raise IOError(f"Could not parse reader mapping '{mapping}'.")
        return result[0] + "}", result[1]
    result = mapping.split(":", maxsplit=1)
    return (result[0], "*") if len(result) == 1 else (result[0], result[1])


def _make_file_type_map(map_args: list[str] | None) -> FileTypeMap:
    if map_args is None:
        return FileTypeMap()

    file_types_with_opts: list[str] = []
    regexes: list[list[str]] = []
    for mapping in map_args:
        ft_with_opts, regex = _split_reader_mapping(mapping)
        if ft_with_opts not in file_types_with_opts:
''')])

# ----------------------------------------------------------------------------------------------------------------- N06
R["N06"] = dict(why="_bool_to_exit_code moved to the new private module _cli/_exit_codes.py and re-exported from _common.py "
                    "(all importers keep importing it from ._common)",
                edits=[(CM, '''def _bool_to_exit_code(value: bool) -> int:
    return int(not value)


''', ''''''),
                       (CM, '''from ._test_suite import TestStatus
''', '''from ._test_suite import TestStatus
from ._exit_codes import _bool_to_exit_code  # noqa: F401  (re-exported: the CLI modes import it from here)
''')],
                new={"fieldcompare/_cli/_exit_codes.py": '''# SPDX-FileCopyrightText: 2023 Dennis Gläser <dennis.glaeser@iws.uni-stuttgart.de>
# SPDX-License-Identifier: GPL-3.0-or-later

"""Exit codes of the command-line interface"""


def _bool_to_exit_code(value: bool) -> int:
    return int(not value)
'''})


# ----------------------------------------------------------------------------------------------------------------- N07
def n07(d):
    p = os.path.join(d, FM)
    s = open(p).read()
    n = s.count("        required=False,\n")
    assert n >= 10, n
    s = s.replace("        required=False,\n", "")
    s = s.replace('"--verbosity", required=False, default=2,', '"--verbosity", default=2,')
    s = s.replace('"--junit-xml", required=False, help=', '"--junit-xml", help=')
    assert "required=False" not in s
    old = '''    _add_field_options_args(parser)
    _add_tolerance_options_args(parser)
    _add_field_filter_options_args(parser)
    _add_mesh_reorder_options_args(parser)
    _add_junit_export_arg(parser)
    _add_reader_selection_options_args(parser)
    _add_diff_output_options_args(parser)
'''
    new = '''    _add_reader_selection_options_args(parser)
    _add_field_filter_options_args(parser)
    _add_tolerance_options_args(parser)
    _add_field_options_args(parser)
    _add_mesh_reorder_options_args(parser)
    _add_diff_output_options_args(parser)
    _add_junit_export_arg(parser)
'''
    assert s.count(old) == 1
    s = s.replace(old, new)
    # swap the first two declarations of `_add_mesh_reorder_options_args` and give one an explicit (identical) dest
    a = s.index('    parser.add_argument(\n        "--disable-mesh-reordering",')
    b = s.index('    parser.add_argument(\n        "--disable-mesh-orphan-point-removal",')
    c = s.index('    parser.add_argument(\n        "--disable-mesh-space-dimension-matching",')
    first, second = s[a:b], s[b:c]
    second = second.replace('        "--disable-mesh-orphan-point-removal",\n',
                            '        "--disable-mesh-orphan-point-removal",\n        dest="disable_mesh_orphan_point_removal",\n')
    s = s[:a] + second + first + s[c:]
    open(p, "w").write(s)


R["N07"] = dict(why="_file_mode.py: `required=False` (argparse's default) dropped everywhere, the `_add_*_args` calls and two "
                    "`add_argument` declarations reordered (options are independent), an explicit `dest=` equal to the derived one",
                edits=[], fn=n07)

# ----------------------------------------------------------------------------------------------------------------- N08
R["N08"] = dict(why="_file_mode._run: option values read into locals first, the first four options passed positionally (dataclass "
                    "field order), the two filters chosen by if/else statements instead of conditional expressions, the dead "
                    "default of `args.get('read_as', [])` dropped (`_make_file_type_map(None)` and `([])` both give the empty map)",
                edits=[(FM, '''    opts = FileComparisonOptions(
        ignore_missing_source_fields=args["ignore_missing_source_fields"],
        ignore_missing_reference_fields=args["ignore_missing_reference_fields"],
        ignore_missing_sequence_steps=args["ignore_missing_sequence_steps"],
        force_sequence_comparison=args["force_sequence_comparison"],
        relative_tolerances=_parse_field_tolerances(args.get("relative_tolerance")),
        absolute_tolerances=_parse_field_tolerances(args.get("absolute_tolerance"), allow_dynamic_tolerances=True),
        field_inclusion_filter=PatternFilter(args["include_fields"]) if args["include_fields"] else _include_all(),
        field_exclusion_filter=PatternFilter(args["exclude_fields"]) if args["exclude_fields"] else _exclude_all(),
        disable_mesh_reordering=bool(args["disable_mesh_reordering"]),
        disable_mesh_space_dimension_matching=bool(args["disable_mesh_space_dimension_matching"]),
        disable_unconnected_points_removal=bool(args["disable_mesh_orphan_point_removal"]),
        file_type_map=_make_file_type_map(args.get("read_as", [])),
    )
''', '''    ignore_missing_source = args["ignore_missing_source_fields"]
    ignore_missing_reference = args["ignore_missing_reference_fields"]
    ignore_missing_steps = args["ignore_missing_sequence_steps"]
    force_sequences = args["force_sequence_comparison"]
    rel_tols = _parse_field_tolerances(args.get("relative_tolerance"))
    abs_tols = _parse_field_tolerances(args.get("absolute_tolerance"), allow_dynamic_tolerances=True)
    if args["include_fields"]:
        inclusion_filter = PatternFilter(args["include_fields"])
    else:
        inclusion_filter = _include_all()
    if args["exclude_fields"]:
        exclusion_filter = PatternFilter(args["exclude_fields"])
    else:
        exclusion_filter = _exclude_all()
    reader_map = _make_file_type_map(args.get("read_as"))
    opts = FileComparisonOptions(
        ignore_missing_source,
        ignore_missing_reference,
        ignore_missing_steps,
        force_sequences,
        relative_tolerances=rel_tols,
        absolute_tolerances=abs_tols,
        field_inclusion_filter=inclusion_filter,
        field_exclusion_filter=exclusion_filter,
        disable_mesh_reordering=bool(args["disable_mesh_reordering"]),
        disable_mesh_space_dimension_matching=bool(args["disable_mesh_space_dimension_matching"]),
        disable_unconnected_points_removal=bool(args["disable_mesh_orphan_point_removal"]),
        file_type_map=reader_map,
    )
''')])

# ----------------------------------------------------------------------------------------------------------------- N09
R["N09"] = dict(why="_dir_mode: the construction of FileComparisonOptions extracted into the private helper "
                    "`_make_comparison_options(args, rel_tol_map, abs_tol_map)` (same expressions, same evaluation per file)",
                edits=[(DM, '''        opts = FileComparisonOptions(
            ignore_missing_source_fields=args["ignore_missing_source_fields"],
            ignore_missing_reference_fields=args["ignore_missing_reference_fields"],
            ignore_missing_sequence_steps=args["ignore_missing_sequence_steps"],
            relative_tolerances=_rel_tol_map,
            absolute_tolerances=_abs_tol_map,
            field_inclusion_filter=PatternFilter(args["include_fields"]) if args["include_fields"] else _include_all(),
            field_exclusion_filter=PatternFilter(args["exclude_fields"]) if args["exclude_fields"] else _exclude_all(),
            disable_mesh_reordering=bool(args["disable_mesh_reordering"]),
            disable_mesh_space_dimension_matching=bool(args["disable_mesh_space_dimension_matching"]),
            disable_unconnected_points_removal=bool(args["disable_mesh_orphan_point_removal"]),
            file_type_map=_make_file_type_map(args.get("read_as", [])),
        )
        try:
''', '''        opts = _make_comparison_options(args, _rel_tol_map, _abs_tol_map)
        try:
'''), (DM, '''def _get_failing_field_test_names(test_suite: TestSuite) -> str | None:
''', '''def _make_comparison_options(args: dict, rel_tol_map, abs_tol_map) -> FileComparisonOptions:
    return FileComparisonOptions(
        ignore_missing_source_fields=args["ignore_missing_source_fields"],
        ignore_missing_reference_fields=args["ignore_missing_reference_fields"],
        ignore_missing_sequence_steps=args["ignore_missing_sequence_steps"],
        relative_tolerances=rel_tol_map,
        absolute_tolerances=abs_tol_map,
        field_inclusion_filter=PatternFilter(args["include_fields"]) if args["include_fields"] else _include_all(),
        field_exclusion_filter=PatternFilter(args["exclude_fields"]) if args["exclude_fields"] else _exclude_all(),
        disable_mesh_reordering=bool(args["disable_mesh_reordering"]),
        disable_mesh_space_dimension_matching=bool(args["disable_mesh_space_dimension_matching"]),
        disable_unconnected_points_removal=bool(args["disable_mesh_orphan_point_removal"]),
        file_type_map=_make_file_type_map(args.get("read_as", [])),
    )


def _get_failing_field_test_names(test_suite: TestSuite) -> str | None:
''')])

# ----------------------------------------------------------------------------------------------------------------- N10
R["N10"] = dict(why="FileComparisonOptions: dataclass fields reordered (every construction uses keywords), `X | None` -> `Optional[X]`; "
                    "_run_mesh_fields_comparison reads the options through a local alias `opts = self._opts`, keywords reordered",
                edits=[(FC, '''from typing import Callable
''', '''from typing import Callable, Optional, Union
'''), (FC, '''    ignore_missing_source_fields: bool = False
    ignore_missing_reference_fields: bool = False
    ignore_missing_sequence_steps: bool = False
    force_sequence_comparison: bool = False
    relative_tolerances: Callable[[str], float | DynamicTolerance | None] = _default_base_tolerance_callable
    absolute_tolerances: Callable[[str], float | DynamicTolerance | None] = _default_abs_tolerance_callable
    field_inclusion_filter: Callable[[str], bool] = _always_true_callable
    field_exclusion_filter: Callable[[str], bool] = _always_false_callable
    disable_unconnected_points_removal: bool = False
    disable_mesh_space_dimension_matching: bool = False
    disable_mesh_reordering: bool = False
    file_type_map: FileTypeMap = FileTypeMap()
''', '''    # mesh handling
    disable_mesh_reordering: bool = False
    disable_unconnected_points_removal: bool = False
    disable_mesh_space_dimension_matching: bool = False
    # tolerances and filters
    relative_tolerances: Callable[[str], Optional[Union[float, DynamicTolerance]]] = _default_base_tolerance_callable
    absolute_tolerances: Callable[[str], Optional[Union[float, DynamicTolerance]]] = _default_abs_tolerance_callable
    field_inclusion_filter: Callable[[str], bool] = _always_true_callable
    field_exclusion_filter: Callable[[str], bool] = _always_false_callable
    # missing fields / steps
    ignore_missing_source_fields: bool = False
    ignore_missing_reference_fields: bool = False
    ignore_missing_sequence_steps: bool = False
    force_sequence_comparison: bool = False
    # reader selection
    file_type_map: FileTypeMap = FileTypeMap()
'''), (FC, '''        return self._invoke_comparator(
            MeshFieldsComparator(
                result,
                reference,
                disable_mesh_reordering=self._opts.disable_mesh_reordering,
                disable_orphan_point_removal=self._opts.disable_unconnected_points_removal,
                disable_space_dimension_matching=self._opts.disable_mesh_space_dimension_matching,
                field_inclusion_filter=self._opts.field_inclusion_filter,
                field_exclusion_filter=self._opts.field_exclusion_filter,
            ),
''', '''        opts = self._opts
        return self._invoke_comparator(
            MeshFieldsComparator(
                result,
                reference,
                field_inclusion_filter=opts.field_inclusion_filter,
                field_exclusion_filter=opts.field_exclusion_filter,
                disable_space_dimension_matching=opts.disable_mesh_space_dimension_matching,
                disable_orphan_point_removal=opts.disable_unconnected_points_removal,
                disable_mesh_reordering=opts.disable_mesh_reordering,
            ),
''')])

# ----------------------------------------------------------------------------------------------------------------- N11
R["N11"] = dict(why="_parse_status: `==` -> `is` on enum members (FieldComparisonStatus defines no __eq__: equality IS identity), "
                    "`a and not b` -> nested ifs",
                edits=[(FC, '''        if status == FieldComparisonStatus.passed:
            return TestStatus.passed
        if status == FieldComparisonStatus.failed:
            return TestStatus.failed
        if status == FieldComparisonStatus.error:
            return TestStatus.error
        if status == FieldComparisonStatus.missing_reference and not self._opts.ignore_missing_reference_fields:
            return TestStatus.failed
        if status == FieldComparisonStatus.missing_source and not self._opts.ignore_missing_source_fields:
            return TestStatus.failed
        return TestStatus.skipped
''', '''        if status is FieldComparisonStatus.passed:
            return TestStatus.passed
        if status is FieldComparisonStatus.failed:
            return TestStatus.failed
        if status is FieldComparisonStatus.error:
            return TestStatus.error
        if status is FieldComparisonStatus.missing_reference:
            if not self._opts.ignore_missing_reference_fields:
                return TestStatus.failed
        if status is FieldComparisonStatus.missing_source:
            if not self._opts.ignore_missing_source_fields:
                return TestStatus.failed
        return TestStatus.skipped
''')])

# ----------------------------------------------------------------------------------------------------------------- N12
R["N12"] = dict(why="_merged_result / _merge_test_suites: parameters renamed only (r1, r2 -> lhs, rhs; s1, s2 -> first, second; unused `i` kept)",
                edits=[(FC, '''        def _merge_test_suites(s1: TestSuite, s2: TestSuite, i: int) -> TestSuite:
            def _merged_result(r1: TestStatus | None, r2: TestStatus | None) -> TestStatus | None:
                if any(r == TestStatus.failed for r in [r1, r2]):
                    return TestStatus.failed
                if any(r == TestStatus.error for r in [r1, r2]):
                    return TestStatus.error
                if any(r == TestStatus.skipped for r in [r1, r2]):
                    return TestStatus.skipped
                return None

            return _make_test_suite(
                tests=list(s1) + list(s2),
                status=_merged_result(s1.status, s2.status),
                shortlog=s1.shortlog + (f"; {s2.shortlog}" if s1.shortlog else f"{s2.shortlog}"),
            )
''', '''        def _merge_test_suites(first: TestSuite, second: TestSuite, i: int) -> TestSuite:
            def _merged_result(lhs: TestStatus | None, rhs: TestStatus | None) -> TestStatus | None:
                if any(status == TestStatus.failed for status in [lhs, rhs]):
                    return TestStatus.failed
                if any(status == TestStatus.error for status in [lhs, rhs]):
                    return TestStatus.error
                if any(status == TestStatus.skipped for status in [lhs, rhs]):
                    return TestStatus.skipped
                return None

            return _make_test_suite(
                tests=list(first) + list(second),
                status=_merged_result(first.status, second.status),
                shortlog=first.shortlog + (f"; {second.shortlog}" if first.shortlog else f"{second.shortlog}"),
            )
''')])

# ----------------------------------------------------------------------------------------------------------------- N13
R["N13"] = dict(why="_merged_result: three copied `if any(r == X ...): return X` -> one loop over the priorities (failed, error, skipped) "
                    "returning the first one that equals either argument",
                edits=[(FC, '''                if any(r == TestStatus.failed for r in [r1, r2]):
                    return TestStatus.failed
                if any(r == TestStatus.error for r in [r1, r2]):
                    return TestStatus.error
                if any(r == TestStatus.skipped for r in [r1, r2]):
                    return TestStatus.skipped
                return None
''', '''                for dominant in (TestStatus.failed, TestStatus.error, TestStatus.skipped):
                    if r1 == dominant or r2 == dominant:
                        return dominant
                return None
''')])

# ----------------------------------------------------------------------------------------------------------------- N14
R["N14"] = dict(why="_select_predicate: conditional expressions -> `if x is None: x = default` statements, keywords reordered; "
                    "_set_mesh_tolerances: values bound to locals first (absolute before relative, as before)",
                edits=[(FC, '''        abs_tol = self._opts.absolute_tolerances(res_field.name)
        rel_tol = self._opts.relative_tolerances(res_field.name)
        return DefaultEquality(
            abs_tol=abs_tol if abs_tol is not None else 0.0,
            rel_tol=rel_tol if rel_tol is not None else _default_base_tolerance(),
        )
''', '''        abs_tol = self._opts.absolute_tolerances(res_field.name)
        rel_tol = self._opts.relative_tolerances(res_field.name)
        if abs_tol is None:
            abs_tol = 0.0
        if rel_tol is None:
            rel_tol = _default_base_tolerance()
        return DefaultEquality(rel_tol=rel_tol, abs_tol=abs_tol)
'''), (FC, '''        fields.domain.set_tolerances(
            abs_tol=self._opts.absolute_tolerances("domain"), rel_tol=self._opts.relative_tolerances("domain")
        )
''', '''        domain_abs_tol = self._opts.absolute_tolerances("domain")
        domain_rel_tol = self._opts.relative_tolerances("domain")
        fields.domain.set_tolerances(rel_tol=domain_rel_tol, abs_tol=domain_abs_tol)
''')])

# ----------------------------------------------------------------------------------------------------------------- N15
R["N15"] = dict(why="falsy sets of the status enums as SET literals (`x not in {A, B}`; enum members are hashable, membership by "
                    "hash + identity gives the same decision), `Status.__bool__` as `self is not Status.failed`",
                edits=[(TS, '''        return self not in [TestStatus.failed, TestStatus.error]
''', '''        return self not in {TestStatus.failed, TestStatus.error}
'''), (TS, '''            return result not in [TestStatus.failed, TestStatus.error]
''', '''            return result not in {TestStatus.failed, TestStatus.error}
'''), (FDC, '''        return self not in (Status.failed,)
''', '''        return self is not Status.failed
'''), (FDC, '''        return self not in [FieldComparisonStatus.failed, FieldComparisonStatus.error]
''', '''        return self not in {FieldComparisonStatus.failed, FieldComparisonStatus.error}
''')])

# ----------------------------------------------------------------------------------------------------------------- N16
R["N16"] = dict(why="TestSuite.__bool__: the nested helper `_is_true` hoisted to the module-level private function "
                    "`_counts_as_success` (same body, it reads nothing of the enclosing scope)",
                edits=[(TS, '''@dataclass
class TestResult:
''', '''def _counts_as_success(status: TestStatus) -> bool:
    return status not in [TestStatus.failed, TestStatus.error]


@dataclass
class TestResult:
'''), (TS, '''        def _is_true(result: TestStatus) -> bool:
            return result not in [TestStatus.failed, TestStatus.error]

        if self._status is not None:
            return _is_true(self._status)
        return all(_is_true(t.status) for t in self._tests)
''', '''        if self._status is not None:
            return _counts_as_success(self._status)
        return all(_counts_as_success(t.status) for t in self._tests)
''')])

# ----------------------------------------------------------------------------------------------------------------- N17
R["N17"] = dict(why="status enums: `auto()` -> explicit values, TestStatus members declared in another order with other numbers, "
                    "FieldComparisonStatus with string values (values are never read: only identity / name matter)",
                edits=[(TS, '''    passed = auto()
    failed = auto()
    error = auto()
    skipped = auto()
''', '''    passed = 10
    skipped = 20
    failed = 30
    error = 40
'''), (TS, '''from enum import Enum, auto
''', '''from enum import Enum
'''), (FDC, '''    passed = auto()
    failed = auto()
    error = auto()
    missing_source = auto()
    missing_reference = auto()
    filtered = auto()
''', '''    passed = "passed"
    failed = "failed"
    error = "error"
    missing_source = "missing-source"
    missing_reference = "missing-reference"
    filtered = "filtered"
''')])

# ----------------------------------------------------------------------------------------------------------------- N18
R["N18"] = dict(why="as_junit_xml_element: `sum(1 for t in suite if c)` -> `len([t for t in suite if c])` (same count), the name computed once",
                edits=[(JU, '''    xml_tree.set("name", _as_string_or("n/a", suite.name))
    xml_tree.set("tests", str(sum(1 for _ in suite)))
    xml_tree.set("disabled", "0")
    xml_tree.set("errors", str(sum(1 for t in suite if t.status == TestStatus.error)))
    xml_tree.set("failures", str(sum(1 for t in suite if t.status == TestStatus.failed)))
    xml_tree.set("skipped", str(sum(1 for t in suite if t.status == TestStatus.skipped)))
''', '''    suite_name = _as_string_or("n/a", suite.name)
    xml_tree.set("name", suite_name)
    xml_tree.set("tests", str(len([t for t in suite])))
    xml_tree.set("disabled", "0")
    xml_tree.set("errors", str(len([t for t in suite if t.status == TestStatus.error])))
    xml_tree.set("failures", str(len([t for t in suite if t.status == TestStatus.failed])))
    xml_tree.set("skipped", str(len([t for t in suite if t.status == TestStatus.skipped])))
'''), (JU, '''        _add_test_case(xml_tree, test, _as_string_or("n/a", suite.name))
''', '''        _add_test_case(xml_tree, test, suite_name)
''')])

# ----------------------------------------------------------------------------------------------------------------- N19
R["N19"] = dict(why="_junit.py: counts bound to locals before they are written, `==` -> `is` on TestStatus members (identity IS equality), "
                    "branches of the exclusive elif chain reordered (skipped first), message text in a local",
                edits=[(JU, '''    xml_tree.set("tests", str(sum(1 for _ in suite)))
    xml_tree.set("disabled", "0")
    xml_tree.set("errors", str(sum(1 for t in suite if t.status == TestStatus.error)))
    xml_tree.set("failures", str(sum(1 for t in suite if t.status == TestStatus.failed)))
    xml_tree.set("skipped", str(sum(1 for t in suite if t.status == TestStatus.skipped)))
''', '''    num_tests = sum(1 for _ in suite)
    num_errors = sum(1 for t in suite if t.status is TestStatus.error)
    num_failures = sum(1 for t in suite if t.status is TestStatus.failed)
    num_skipped = sum(1 for t in suite if t.status is TestStatus.skipped)
    xml_tree.set("tests", str(num_tests))
    xml_tree.set("disabled", "0")
    xml_tree.set("errors", str(num_errors))
    xml_tree.set("failures", str(num_failures))
    xml_tree.set("skipped", str(num_skipped))
'''), (JU, '''    if test.status == TestStatus.failed:
        _set_with_message(testcase, "failure", "comparison failed", stdout.text)
    elif test.status == TestStatus.skipped:
        _set_with_message(testcase, "skipped", stdout.text)
    elif test.status == TestStatus.error:
        _set_with_message(testcase, "failure", "error upon comparison", stdout.text)
        _set_with_message(testcase, "error", "error upon comparison", stdout.text)
    elif not test:
''', '''    output = stdout.text
    if test.status is TestStatus.skipped:
        _set_with_message(testcase, "skipped", output)
    elif test.status is TestStatus.failed:
        _set_with_message(testcase, "failure", "comparison failed", output)
    elif test.status is TestStatus.error:
        error_message = "error upon comparison"
        _set_with_message(testcase, "failure", error_message, output)
        _set_with_message(testcase, "error", error_message, output)
    elif not test:
''')])

# ----------------------------------------------------------------------------------------------------------------- N20
R["N20"] = dict(why="find_matches: `list(v for v in reference)` -> `list(reference)`, annotated local, helper/locals renamed, "
                    "MatchResult constructed with keywords (same fields)",
                edits=[(MT, '''    matches = []
    orphans_target = list(v for v in reference)

    def _find_and_add(s) -> bool:
        for t in orphans_target:
            if eq_predicate(s, t):
                matches.append((s, t))
                orphans_target.remove(t)
                return True
        return False

    orphans_source = [s for s in source if not _find_and_add(s)]
    return MatchResult(matches, orphans_source, orphans_target)
''', '''    pairs: list[tuple[Any, Any]] = []
    unmatched_reference = list(reference)

    def _match_and_consume(candidate) -> bool:
        for other in unmatched_reference:
            if eq_predicate(candidate, other):
                pairs.append((candidate, other))
                unmatched_reference.remove(other)
                return True
        return False

    unmatched_source = [candidate for candidate in source if not _match_and_consume(candidate)]
    return MatchResult(matches=pairs, orphans_in_source=unmatched_source, orphans_in_reference=unmatched_reference)
''')])

# ----------------------------------------------------------------------------------------------------------------- N21
R["N21"] = dict(why="FieldComparisonSuite: `elif not c` -> `elif c.is_failure` (FieldComparison.__bool__ is `not self.is_failure`), "
                    "`__bool__` as nested if with `len(..) == 0`, `.status` with a result variable",
                edits=[(FDC, '''                elif not c:
                    self._failed.append(c)
''', '''                elif c.is_failure:
                    self._failed.append(c)
'''), (FDC, '''        if not self._domain_eq_check:
            return False
        return not len(self._failed)
''', '''        if self._domain_eq_check:
            return len(self._failed) == 0
        return False
'''), (FDC, '''        if not self._domain_eq_check:
            return Status.failed
        if self.num_failed > 0:
            return Status.failed
        return Status.passed
''', '''        result: Status
        if not self._domain_eq_check:
            result = Status.failed
        elif self.num_failed > 0:
            result = Status.failed
        else:
            result = Status.passed
        return result
''')])

# ----------------------------------------------------------------------------------------------------------------- N22
R["N22"] = dict(why="_mesh_equal.py: `set([c1, c2])` -> `set((c1, c2))`, parameters/locals renamed, `typing.Set` annotations, "
                    "RuntimeError text, `len(x) != 0` -> `len(x) > 0`",
                edits=[(ME, '''from itertools import product
''', '''from itertools import product
from typing import Set
'''), (ME, '''    if len(_without_compatibles(source_only, target_only)) != 0:
''', '''    if len(_without_compatibles(source_only, target_only)) > 0:
'''), (ME, '''def _without_compatibles(source_only: set[CellType], target_only: set[CellType]) -> set[CellType]:
    to_remove: set[CellType] = set()
    for c1, c2 in product(source_only, target_only):
        if c1.is_compatible_with(c2):
            to_remove = to_remove.union(set([c1, c2]))
    return source_only.union(target_only).difference(to_remove)


def _find_compatible(cts: set[CellType], ct: CellType) -> CellType:
    for c in cts:
        if c.is_compatible_with(ct):
            return c
    raise RuntimeError("Could not find compatible cell type")
''', '''def _without_compatibles(only_in_source: Set[CellType], only_in_target: Set[CellType]) -> Set[CellType]:
    """Return the cell types of the two sets that have no compatible partner in the other set"""
    matched: Set[CellType] = set()
    for source_type, target_type in product(only_in_source, only_in_target):
        if source_type.is_compatible_with(target_type):
            matched = matched.union(set((source_type, target_type)))
    return only_in_source.union(only_in_target).difference(matched)


def _find_compatible(candidates: Set[CellType], cell_type: CellType) -> CellType:
    """Return the first of the candidates that is compatible with the given cell type"""
    for candidate in candidates:
        if candidate.is_compatible_with(cell_type):
            return candidate
    raise RuntimeError(f"No cell type compatible with '{cell_type.name}' found")
''')])

# ----------------------------------------------------------------------------------------------------------------- N23
R["N23"] = dict(why="CellType.is_compatible_with: the table row bound to a local, tuple default; `_insert_compatibles` with "
                    "`dict.setdefault` (the module-level table gets the same content in the same order)",
                edits=[(CT, '''        if self._id == other._id:
            return True
        return other.id in _COMPATIBLES.get(self._id, [])
''', '''        if self._id == other._id:
            return True
        compatible_ids = _COMPATIBLES.get(self._id, ())
        return other.id in compatible_ids
'''), (CT, '''        if id1 not in _COMPATIBLES:
            _COMPATIBLES[id1] = []
        if id2 not in _COMPATIBLES[id1]:
            _COMPATIBLES[id1].append(id2)
''', '''        partners = _COMPATIBLES.setdefault(id1, [])
        if id2 not in partners:
            partners.append(id2)
''')])

# ----------------------------------------------------------------------------------------------------------------- N24
R["N24"] = dict(why="_transformations.py: `i not in m` -> `not (i in m)`, comprehension bound to a local; `_map_external_indices`: the shift "
                    "`offset - mapped` bound to a local (integer arithmetic: (r + o) - m == r + (o - m)); positional instead of keyword call",
                edits=[(TR, '''    return make_array([i for i in range(num_values) if i not in external_indices])
''', '''    kept = [i for i in range(num_values) if not (i in external_indices)]
    return make_array(kept)
'''), (TR, '''            result[i] = result[i] + external_indices_offset - mapped_index_offset
''', '''            shift = external_indices_offset - mapped_index_offset
            result[i] = result[i] + shift
'''), (TR, '''    points2_filter = _filter_external_indices(
        num_values=len(fields2.domain.points), external_indices=duplicate_point_idx_map
    )
''', '''    points2_filter = _filter_external_indices(len(fields2.domain.points), duplicate_point_idx_map)
''')])

# ----------------------------------------------------------------------------------------------------------------- N25
R["N25"] = dict(why="_helpers.py: `reduce(mul, it, 1)` -> `math.prod(it)` (product of ints, start 1), the six extents unpacked into names "
                    "after the length check",
                edits=[(HLP, '''from functools import reduce
from operator import mul
''', '''from math import prod
'''), (HLP, '''    cells = (extents[1] - extents[0], extents[3] - extents[2], extents[5] - extents[4])
''', '''    x_min, x_max, y_min, y_max, z_min, z_max = extents
    cells = (x_max - x_min, y_max - y_min, z_max - z_min)
'''), (HLP, '''    return reduce(mul, (max(c, 1) for c in cells), 1)
''', '''    return prod(max(c, 1) for c in cells)
'''), (HLP, '''    return reduce(mul, (c + 1 for c in cells), 1)
''', '''    return prod(c + 1 for c in cells)
''')])

# ----------------------------------------------------------------------------------------------------------------- N26
R["N26"] = dict(why="Base64Encoder.encoded_bytes: ceil(n/3)*4 written with quotient and remainder (`q = n // 3; if n % 3 != 0: q += 1; return 4 * q`)",
                edits=[(ENC, '''        decoded_bytes = int(decoded_bytes)
        return -(-decoded_bytes // 3) * 4
''', '''        num_bytes = int(decoded_bytes)
        num_groups = num_bytes // 3
        if num_bytes % 3 != 0:
            num_groups += 1
        return 4 * num_groups
''')])

# ----------------------------------------------------------------------------------------------------------------- N27
R["N27"] = dict(why="_predicates.py: `_reshape`: tuple assignments, the two mutually exclusive `if` blocks swapped; "
                    "DefaultEquality.__call__: `FuzzyEquality.__call__(self, a, b)` -> `super().__call__(a, b)` (single inheritance), tuple assignment",
                edits=[(PR, '''    arr1 = as_array(arr1)
    arr2 = as_array(arr2)
    dim1 = len(arr1.shape)
    dim2 = len(arr2.shape)

    # reshape the arrays in case scalars are compared against 1d vectors
    if dim1 == dim2 + 1 and arr1.shape[-1] == 1:
        arr2 = arr2.reshape(*arr2.shape, 1)
    if dim2 == dim1 + 1 and arr2.shape[-1] == 1:
        arr1 = arr1.reshape(*arr1.shape, 1)
''', '''    arr1, arr2 = as_array(arr1), as_array(arr2)
    dim1, dim2 = len(arr1.shape), len(arr2.shape)

    # reshape the arrays in case scalars are compared against 1d vectors
    if dim2 == dim1 + 1 and arr2.shape[-1] == 1:
        arr1 = arr1.reshape(*arr1.shape, 1)
    if dim1 == dim2 + 1 and arr1.shape[-1] == 1:
        arr2 = arr2.reshape(*arr2.shape, 1)
'''), (PR, '''        first = as_array(first)
        second = as_array(second)
        if has_floats(first) or has_floats(second):
            return FuzzyEquality.__call__(self, first, second)
        return ExactEquality()(first, second)
''', '''        first, second = as_array(first), as_array(second)
        if has_floats(first) or has_floats(second):
            return super().__call__(first, second)
        return ExactEquality()(first, second)
''')])

# ----------------------------------------------------------------------------------------------------------------- N28
R["N28"] = dict(why="_numpy_utils.py: walk_adjacent_true_index_ranges reads `bool_array[i]` once into a local, length in a local; "
                    "fuzzy_equal's shape check as a loop over a tuple instead of `any(...)` over a list",
                edits=[(NU, '''    begin, end, in_true_block = 0, 0, False
    for i in range(len(bool_array)):
        if bool_array[i] and not in_true_block:
            begin, in_true_block = i, True
        elif not bool_array[i] and in_true_block:
            end, in_true_block = i, False
            yield (begin, end + 1 if include_upper_edge else end)
''', '''    begin, end, in_true_block = 0, 0, False
    num_entries = len(bool_array)
    for i in range(num_entries):
        is_set = bool_array[i]
        if is_set and not in_true_block:
            begin, in_true_block = i, True
        elif not is_set and in_true_block:
            end, in_true_block = i, False
            yield (begin, end + 1 if include_upper_edge else end)
'''), (NU, '''        if isinstance(tol, Array) and any(_op.shape[1:] != tol.shape for _op in [first, second]):
            raise ValueError("Given tolerance shape does not match array value shapes")
''', '''        if not isinstance(tol, Array):
            return
        for operand in (first, second):
            if operand.shape[1:] != tol.shape:
                raise ValueError("Given tolerance shape does not match array value shapes")
''')])

# ----------------------------------------------------------------------------------------------------------------- N29
R["N29"] = dict(why="_main.py: the two one-use helpers `_add_file_mode_parser/_add_directory_mode_parser` merged into one "
                    "`_add_mode_parsers(sub_parsers)`; `Optional[X]` annotation spelled `X | None` (postponed evaluation)",
                edits=[(MA, '''"""Command-line interface for fieldcompare"""

from sys import version_info
''', '''"""Command-line interface for fieldcompare"""

from __future__ import annotations
from sys import version_info
'''), (MA, '''from typing import Optional

''', '''
'''), (MA, '''def main(argv=None, logger: Optional[CLILogger] = None):
''', '''def main(argv=None, logger: CLILogger | None = None):
'''), (MA, '''    _add_file_mode_parser(sub_parsers)
    _add_directory_mode_parser(sub_parsers)
''', '''    _add_mode_parsers(sub_parsers)
'''), (MA, '''def _add_file_mode_parser(sub_parsers) -> None:
    file_mode_parser = sub_parsers.add_parser("file", help="Compare a pair of files")
    _file_mode_add_arguments(file_mode_parser)
    file_mode_parser.set_defaults(func=_run_file_mode)


def _add_directory_mode_parser(sub_parsers) -> None:
    dir_mode_parser = sub_parsers.add_parser("dir", help="Compare the files in two directories")
    _dir_mode_add_arguments(dir_mode_parser)
    dir_mode_parser.set_defaults(func=_run_dir_mode)
''', '''def _add_mode_parsers(sub_parsers) -> None:
    file_mode_parser = sub_parsers.add_parser("file", help="Compare a pair of files")
    dir_mode_parser = sub_parsers.add_parser("dir", help="Compare the files in two directories")
    _file_mode_add_arguments(file_mode_parser)
    _dir_mode_add_arguments(dir_mode_parser)
    file_mode_parser.set_defaults(func=_run_file_mode)
    dir_mode_parser.set_defaults(func=_run_dir_mode)
''')])

# ----------------------------------------------------------------------------------------------------------------- N30
R["N30"] = dict(why="_dir_mode._run & co: the two directory checks joined by `or` (same short circuit), junit path in a local, summary suite "
                    "built by a loop, `info_message` as conditional expression, `all(...)` as a loop, keyword arguments for the skipped-file helper, "
                    "`.format` -> f-string",
                edits=[(DM, '''    if not _check_if_is_dir(res_dir):
        return _bool_to_exit_code(False)
    if not _check_if_is_dir(ref_dir):
        return _bool_to_exit_code(False)

    logger.log(
        "Comparing files in the directories '{}' and '{}'\\n\\n".format(highlighted(res_dir), highlighted(ref_dir)),
        verbosity_level=1,
    )
''', '''    if not _check_if_is_dir(res_dir) or not _check_if_is_dir(ref_dir):
        return _bool_to_exit_code(False)

    logger.log(
        f"Comparing files in the directories '{highlighted(res_dir)}' and '{highlighted(ref_dir)}'\\n\\n",
        verbosity_level=1,
    )
'''), (DM, '''    if args["junit_xml"] is not None:
        suites = Element("testsuites")
        suites.extend([as_junit_xml_element(suite, timestamp) for _, timestamp, suite in comparisons])
        ElementTree(suites).write(args["junit_xml"], xml_declaration=True)

    # create a test suite of test suites for printing a summary
    test_suite = TestSuite(
        [
            TestResult(
                name=suite.name,
                status=suite.status,
                shortlog=suite.shortlog,
                stdout=suite.stdout,
                cpu_time=suite.cpu_time,
            )
            for _, _, suite in comparisons
        ]
    )

    info_message: str | None = None
    if categories.discarded_orphan_files:
        info_message = (
            f"{len(categories.discarded_orphan_files)} "
            "missing source/reference files have been filtered out by the given filters."
        )
    logger.log("\\n", verbosity_level=2)
    _log_suite_summary(test_suite, "file", logger, info_message)

    passed = all(comp for _, _, comp in comparisons)
    return _bool_to_exit_code(passed)
''', '''    junit_path = args["junit_xml"]
    if junit_path is not None:
        suites = Element("testsuites")
        for _, timestamp, suite in comparisons:
            suites.append(as_junit_xml_element(suite, timestamp))
        ElementTree(suites).write(junit_path, xml_declaration=True)

    # create a test suite of test suites for printing a summary
    summary_entries = []
    for _, _, suite in comparisons:
        summary_entries.append(
            TestResult(
                name=suite.name,
                status=suite.status,
                shortlog=suite.shortlog,
                stdout=suite.stdout,
                cpu_time=suite.cpu_time,
            )
        )
    test_suite = TestSuite(tests=summary_entries)

    num_discarded = len(categories.discarded_orphan_files)
    info_message = (
        f"{num_discarded} missing source/reference files have been filtered out by the given filters."
        if num_discarded > 0
        else None
    )
    logger.log("\\n", verbosity_level=2)
    _log_suite_summary(test_suite, "file", logger, info_msg=info_message)

    passed = True
    for _, _, comparison in comparisons:
        if not comparison:
            passed = False
    return _bool_to_exit_code(passed)
'''), (DM, '''    _add_skipped_file_comparisons(
        comparisons, categories.missing_sources, "Missing source file", not args["ignore_missing_source_files"]
    )
    _add_skipped_file_comparisons(
        comparisons, categories.missing_references, "Missing reference file", not args["ignore_missing_reference_files"]
    )
''', '''    _add_skipped_file_comparisons(
        comparisons,
        categories.missing_sources,
        reason="Missing source file",
        treat_as_failure=not args["ignore_missing_source_files"],
    )
    _add_skipped_file_comparisons(
        comparisons,
        categories.missing_references,
        reason="Missing reference file",
        treat_as_failure=not args["ignore_missing_reference_files"],
    )
''')])


def build(rid: str) -> str:
    d = os.path.join(WT, rid)
    if os.path.exists(d):
        shutil.rmtree(d)
    shutil.copytree(CLEAN, d, symlinks=True, ignore=shutil.ignore_patterns(".git", "__pycache__", ".pytest_cache"))
    spec = R[rid]
    for f, old, new in spec.get("edits", []):
        p = os.path.join(d, f)
        s = open(p, encoding="utf-8").read()
        assert s.count(old) == 1, (rid, f, s.count(old), old[:80])
        open(p, "w", encoding="utf-8").write(s.replace(old, new))
    for f, text in spec.get("new", {}).items():
        open(os.path.join(d, f), "w", encoding="utf-8").write(text)
    if spec.get("fn"):
        spec["fn"](d)
    # every file must still parse
    import ast
    for root, _, files in os.walk(os.path.join(d, "fieldcompare")):
        for f in files:
            if f.endswith(".py"):
                ast.parse(open(os.path.join(root, f), encoding="utf-8").read())
    return d


def diff(rid: str, outdir: str):
    os.makedirs(outdir, exist_ok=True)
    p = subprocess.run(["diff", "-ruN", "--exclude=__pycache__", "fieldcompare", os.path.join(WT, rid, "fieldcompare")],
                       cwd=CLEAN, stdout=subprocess.PIPE)
    text = p.stdout.decode()
    text = text.replace(os.path.join(WT, rid) + "/", "b/").replace("--- fieldcompare/", "--- a/fieldcompare/")
    header = f"# {rid}: {R[rid]['why']}\n"
    open(os.path.join(outdir, f"{rid}.diff"), "w").write(header + text)


if __name__ == "__main__":
    ids = sys.argv[1:] or sorted(R)
    for rid in ids:
        build(rid)
        diff(rid, "/tmp/wk6/Q_res/diffs")
        print(rid, "built")


# ======================================================================================================================
# property-BREAKING mutants written in the newly tolerated spellings: (base refactor, extra edits, checks that must alarm)
M = {
    "M01": ("N15", [(TS, "        return self not in {TestStatus.failed, TestStatus.error}\n", "        return self not in {TestStatus.failed}\n")],
            ["C04", "C15"], "set-literal falsy set of TestStatus without `error`"),
    "M02": ("N18", [(JU, 'xml_tree.set("errors", str(len([t for t in suite if t.status == TestStatus.error])))',
                     'xml_tree.set("errors", str(len([t for t in suite if t.status == TestStatus.failed])))')],
            ["C20"], "len([...]) count of `errors` counts the failed tests"),
    "M03": ("N08", [(FM, "        inclusion_filter = PatternFilter(args[\"include_fields\"])\n",
                     "        inclusion_filter = PatternFilter(args[\"exclude_fields\"])\n")],
            ["C04"], "if/else-assigned inclusion filter built from the exclusion patterns"),
    "M04": ("N09", [(DM, "        opts = _make_comparison_options(args, _rel_tol_map, _abs_tol_map)\n",
                     "        opts = _make_comparison_options(args, _abs_tol_map, _rel_tol_map)\n")],
            ["C12"], "helper called with the two tolerance maps swapped"),
    "M05": ("N13", [(FC, "                for dominant in (TestStatus.failed, TestStatus.error, TestStatus.skipped):\n",
                     "                for dominant in (TestStatus.error, TestStatus.failed, TestStatus.skipped):\n")],
            ["C15", "C04"], "priority loop of _merged_result with error before failed"),
    "M06": ("N11", [(FC, "        if status is FieldComparisonStatus.error:\n            return TestStatus.error\n",
                     "        if status is FieldComparisonStatus.error:\n            return TestStatus.skipped\n")],
            ["C04"], "`is`-spelled _parse_status mapping error to skipped"),
    "M07": ("N06", [("fieldcompare/_cli/_exit_codes.py", "    return int(not value)\n", "    return int(not value) * 2\n")],
            ["C04"], "moved + re-exported _bool_to_exit_code returning 2 for failure"),
    "M08": ("N20", [(MT, "orphans_in_source=unmatched_source, orphans_in_reference=unmatched_reference",
                     "orphans_in_source=unmatched_reference, orphans_in_reference=unmatched_source")],
            ["C11"], "keyword-constructed MatchResult with the two orphan lists swapped"),
    "M09": ("N16", [(TS, "    return status not in [TestStatus.failed, TestStatus.error]\n",
                     "    return status not in [TestStatus.failed]\n")],
            ["C15", "C04"], "hoisted module-level suite helper without `error`"),
    "M10": ("N25", [(HLP, "    return prod(c + 1 for c in cells)\n", "    return prod(c + 2 for c in cells)\n")],
            ["C07"], "math.prod point count with a wrong factor"),
    "M11": ("N10", [(FC, "                disable_orphan_point_removal=opts.disable_unconnected_points_removal,\n",
                     "                disable_orphan_point_removal=opts.disable_mesh_reordering,\n")],
            ["C17"], "aliased options: orphan-point switch fed from the reordering switch"),
    "M12": ("N29", [(MA, "    file_mode_parser.set_defaults(func=_run_file_mode)\n    dir_mode_parser.set_defaults(func=_run_dir_mode)\n",
                     "    file_mode_parser.set_defaults(func=_run_dir_mode)\n    dir_mode_parser.set_defaults(func=_run_file_mode)\n")],
            ["C04"], "merged parser set-up with the two run functions swapped"),
    "M13": ("N19", [(JU, '        _set_with_message(testcase, "skipped", output)\n', '        _set_with_message(testcase, "failure", output)\n')],
            ["C20"], "`is`-spelled junit chain writing <failure> for skipped tests"),
}


def build_mutant(mid: str) -> str:
    base, edits, _, _ = M[mid]
    d0 = build(base)
    d = os.path.join(WT, mid)
    if os.path.exists(d):
        shutil.rmtree(d)
    shutil.copytree(d0, d)
    for f, old, new in edits:
        p = os.path.join(d, f)
        s = open(p, encoding="utf-8").read()
        assert s.count(old) == 1, (mid, f, s.count(old))
        open(p, "w", encoding="utf-8").write(s.replace(old, new))
    return d
