/-
  FcModel.CliPlumbing — model of the option PLUMBING of the command-line interface
  (fieldcompare/_cli/_common.py, _file_mode.py, _dir_mode.py), phase 5.

  FcModel/Cli.lean and FcModel/DirMode.lean take the truth of the filters and of the `--read-as` mapping as
  parameters (`incl`, `excl`, `mapped`).  This file says how those parameters arise from the option values:

    * `PatternFilter(patterns)(name)`            → `patternFilter fnm patterns name`  (`any` over `fnmatch`)
    * `PatternFilter(v) if v else _include_all()`→ `inclusionPats v`, likewise `exclusionPats`
    * `FileTypeMap(mapping)(filename)`           → `fileTypeOf fnm mapping filename`  (first entry whose filter accepts)
    * the loop of `_make_file_type_map`          → `makeFileTypeMap split args`       (patterns grouped per reader string,
                                                   readers in the order of their first appearance)
    * which argparse destination feeds which `FileComparisonOptions` field, and which model parameter that field is
      (`expectedWiring`, `meshFlagWiring`) — compared by `decide` with the tables extracted from the source
      (harness/fcv/tables/cli_options.py) in FcProofs/Props/C04_Plumbing.lean, C12_Plumbing.lean, C17_Plumbing.lean.

  `fnm name pattern` is the truth of `fnmatch(name, pattern)`, `split` the READER{opts}:PATTERN grammar of
  `_split_regex` (`none` = it raises `IOError`); both are external facts.  The translated bodies of the Python
  functions are proved equal to these definitions in the `*_Plumbing.lean` files.  Core Lean only.
-/
import FcModel.Cli
import FcModel.DirMode
namespace Fc.Plumb
open Fc.C04

/-! ### filters -/

/-- `PatternFilter(pats)(name)` -/
def patternFilter (fnm : String → String → Bool) (pats : List String) (name : String) : Bool :=
  pats.any (fnm name)

/-- the patterns of `_include_all()` -/
def includeAllPats : List String := ["*"]

/-- the patterns of `_exclude_all()` -/
def excludeAllPats : List String := []

/-- `PatternFilter(v) if v else _include_all()` for the value `v` of an `action="append"` option
    (`None` when the option is absent; an empty list is falsy, too) -/
def inclusionPats : Option (List String) → List String
  | none => includeAllPats
  | some [] => includeAllPats
  | some (p :: ps) => p :: ps

/-- `PatternFilter(v) if v else _exclude_all()` -/
def exclusionPats : Option (List String) → List String
  | none => excludeAllPats
  | some l => l

/-- what `Cli.Opts.incl` / `excl` are for a list of patterns and the (finitely many) bare field names that occur:
    the names a pattern matches -/
def matchedNames (fnm : String → String → Bool) (pats : List String) (names : List String) : List String :=
  names.filter (patternFilter fnm pats)

/-! ### `--read-as`: `FileTypeMap` -/

/-- `FileTypeMap._mapping`: reader string (file type with options) and the patterns of its `PatternFilter` -/
abbrev FileTypeMap := List (String × List String)

/-- `FileTypeMap.__call__` before `_split_file_type_and_opts`: the reader string of the FIRST entry whose filter
    accepts the name -/
def fileTypeOf (fnm : String → String → Bool) (m : FileTypeMap) (name : String) : Option String :=
  (m.find? fun e => patternFilter fnm e.2 name).map (·.1)

/-- `DirMode.categorize`'s parameter `mapped`: `file_type_map(filename) is not None` -/
def mapped (fnm : String → String → Bool) (m : FileTypeMap) (name : String) : Bool :=
  (fileTypeOf fnm m name).isSome

/-- one step of the loop of `_make_file_type_map`: the pattern joins the list of the first entry with that reader
    string, or a new entry is appended -/
def addPattern : FileTypeMap → String → String → FileTypeMap
  | [], r, p => [(r, [p])]
  | (r', ps) :: rest, r, p => if r' = r then (r', ps ++ [p]) :: rest else (r', ps) :: addPattern rest r p

/-- the loop over the `--read-as` values; `none` = `_split_regex` raises `IOError` -/
def groupLoop (split : String → Option (String × String)) : List String → FileTypeMap → Option FileTypeMap
  | [], acc => some acc
  | a :: rest, acc =>
    match split a with
    | none => none
    | some (r, p) => groupLoop split rest (addPattern acc r p)

/-- `_make_file_type_map(args.get("read_as"))`; `none` as argument = option absent (empty map) -/
def makeFileTypeMap (split : String → Option (String × String)) : Option (List String) → Option FileTypeMap
  | none => some []
  | some l => groupLoop split l []

/-! ### wiring of the options

  One row per keyword of `FileComparisonOptions(...)`: the argparse destination it is computed from.  This is what
  the models rely on when they take the option values of a scenario as the fields of `Cli.Opts` / the parameters of
  `Extend` / `GlueLadder`. -/

/-- keyword of `FileComparisonOptions` ↦ argparse destination it must be fed from (file mode; directory mode feeds
    the same ones, except that it never passes `force_sequence_comparison`) -/
def expectedWiring : List (String × String) :=
  [("ignore_missing_source_fields", "ignore_missing_source_fields"),          -- Cli.Opts.ignSrc
   ("ignore_missing_reference_fields", "ignore_missing_reference_fields"),    -- Cli.Opts.ignRef
   ("ignore_missing_sequence_steps", "ignore_missing_sequence_steps"),        -- Cli.Opts.ignSeq
   ("force_sequence_comparison", "force_sequence_comparison"),                -- Cli.Opts.forceSeq
   ("relative_tolerances", "relative_tolerance"),                             -- Cli.Opts.rtol  (`-rtol`)
   ("absolute_tolerances", "absolute_tolerance"),                             -- Cli.Opts.atol  (`-atol`)
   ("field_inclusion_filter", "include_fields"),                              -- Cli.Opts.incl
   ("field_exclusion_filter", "exclude_fields"),                              -- Cli.Opts.excl
   ("disable_mesh_reordering", "disable_mesh_reordering"),                    -- Cli.Opts.disableReorder
   ("disable_mesh_space_dimension_matching", "disable_mesh_space_dimension_matching"),  -- Extend.compareDims `disable`
   ("disable_unconnected_points_removal", "disable_mesh_orphan_point_removal"),         -- GlueLadder `stripOrphans = !·`
   ("file_type_map", "read_as")]                                              -- DirMode.categorize `mapped`

/-- the three mesh switches: command-line flag ↦ `FileComparisonOptions` field ↦ keyword of `MeshFieldsComparator`
    (the object whose behaviour FcModel/Extend.lean, GlueLadder.lean, Cli.meshDomainEq describe) -/
def meshFlagWiring : List (String × String × String) :=
  [("--disable-mesh-reordering", "disable_mesh_reordering", "disable_mesh_reordering"),
   ("--disable-mesh-space-dimension-matching", "disable_mesh_space_dimension_matching", "disable_space_dimension_matching"),
   ("--disable-mesh-orphan-point-removal", "disable_unconnected_points_removal", "disable_orphan_point_removal")]

/-- argparse's rule for the destination of an optional argument: the first long option string without the leading
    `--`, inner `-` replaced by `_` -/
def destOfFlag (flag : String) : String :=
  String.ofList (((flag.toList.dropWhile (· == '-'))).map fun c => if c == '-' then '_' else c)

/-- every key of `reads` is one of `dests` -/
def allDeclared (dests reads : List String) : Bool := reads.all dests.contains

/-- the destination a wiring table gives for an option field -/
def wiredFrom (w : List (String × List String)) (field : String) : Option (List String) := w.lookup field

/-- two wiring tables agree on every field that both feed -/
def sameSources (w1 w2 : List (String × List String)) : Bool :=
  w1.all fun e => match w2.lookup e.1 with | some s => s == e.2 | none => true

end Fc.Plumb
