/-
  FcModel.GlueLadder — the bridge between C03's control-flow skeleton of
  `MeshFieldsComparator.__call__` (`Fc.C03.ladder` over ABSTRACT operations `LadderOps α`) and the
  CONCRETE transformations modelled for C08 / C17 over `Fc.applyPermuted`
  (`stripOrphanPoints`, `sortPoints`, `sortCells`, `extendSpaceDim`).

  A rung value is `Option MeshFields`: `none` = the transformation raised (the exception leaves
  `__call__`; it is never a PASS — `compare` answers `(false, false)` on it).

  Core Lean only (this file may be linked into the driver).
-/
import FcModel.Spec.C03
import FcModel.Transform
import FcModel.Extend
import FcModel.SortPoints
import FcModel.Effects
namespace Fc.Glue
open Fc

/-- what the comparator is constructed with, as far as the transformations are concerned:
    the unspecified library routines (`np.argsort` of the orphan mask, `_sorting_points_indices`,
    Python's `hash`, `np.argsort` of the hashes — C08's `SortParams`) and
    `stripOrphans` = `not disable_orphan_point_removal` -/
structure LadderParams where
  sort : SortParams
  stripOrphans : Bool

/-- `_permute` of `MeshFieldsComparator.__call__`: strip orphan points (unless disabled), then
    `sort_points` -/
def permuteFields (L : LadderParams) (f : MeshFields) : Option MeshFields :=
  match (if L.stripOrphans then stripOrphanPoints L.sort.argsortB f else some f) with
  | none => none
  | some f1 => sortPoints L.sort.sorter f1

/-- the ladder's operations on concrete data sets; `cmp` = one `FieldDataComparator` run
    (domain equality check, bool(suite)) -/
def ladderOps (L : LadderParams) (cmp : MeshFields → MeshFields → Bool × Bool) :
    C03.LadderOps (Option MeshFields) where
  spaceDim := fun x => match x with
    | some f => f.mesh.dim
    | none => 0
  extend := fun d x => x.bind (extendSpaceDim d)
  permute := fun x => x.bind (permuteFields L)
  sortCells := fun x => x.bind (sortCells L.sort.h L.sort.argsortI)
  bothStructured := fun _ _ => false        -- `MeshFields` over an explicit `Mesh` is unstructured
  compare := fun x y => match x, y with
    | some a, some b => cmp a b
    | _, _ => (false, false)

/-- one step of the ladder on one side: a public transformation -/
inductive PubStep where
  | extend (d : Nat)
  | reorder (t : Reordering)
deriving Repr

def applyPub (P : SortParams) : PubStep → MeshFields → Option MeshFields
  | .extend d, f => extendSpaceDim d f
  | .reorder t, f => applyReordering P t f

/-- a finite chain of public transformations, applied left to right -/
def applyPubs (P : SortParams) : List PubStep → MeshFields → Option MeshFields
  | [], f => some f
  | s :: ss, f =>
    match applyPub P s f with
    | none => none
    | some f1 => applyPubs P ss f1

/-- "rung `x` is what a chain of public transformations makes of rung `y`" (both may have raised) -/
def Produced (P : SortParams) (x y : Option MeshFields) : Prop :=
  ∃ steps : List PubStep, x = y.bind (applyPubs P steps)

/-- one `FieldDataComparator` run with C03's models: `mesh_equal` with the tolerances `tol a b`
    (the code takes the smaller of both sides' tolerances on explicit meshes and the receiver's on
    `PermutedMesh` views — any choice is allowed here), then `DefaultEquality()` on all matched fields -/
def compareTol (tol : MeshFields → MeshFields → Nat × Nat) (a b : MeshFields) : Bool × Bool :=
  let dom := C03.meshEqualWith (tol a b).1 (tol a b).2 a.mesh b.mesh == .ok true
  (dom, dom && C03.fieldsPass a b)

/-! ### C02's model of `_sorting_points_indices` as the point sorter of C08's `SortParams` -/

/-- C02's `_sorting_points_indices` (fuzzy lexicographic sort + duplicate tie break, mesh
    tolerances `meshTolOf`) for the argsort `as`, GUARDED: an index list that is not a permutation
    of the point range counts as a raise.  Under C02's hypothesis (`C02_sort_points_sorted`) the
    guard never fires; it makes `SortParamsOk` hold for every mesh. -/
def guardedSorter (as : List Int → List Nat) (m : Mesh) : Option (List Nat) :=
  match C02.sortPointsIdx as (C02.meshTolOf m) m with
  | some σ => if σ.isPerm (List.range m.numPoints) then some σ else none
  | none => none

/-- comparator parameters built from one `argsort` routine (used for the hashes and inside the
    point sort), a hash, and the stable argsort of the orphan mask -/
def paramsOf (as : List Int → List Nat) (h : List Nat → Int) (stripOrphans : Bool) : LadderParams :=
  ⟨⟨stableArgsortBool, guardedSorter as, h, as⟩, stripOrphans⟩

/-! ### the comparator OBJECT of C19 (`runComparator`, mutable `_source/_reference`) over the concrete transformations -/

/-- a view held by the comparator object: the number of coordinate columns it reports
    (`domain.points.shape[1]`) and the data set (`none` = a transformation raised).  Keeping the
    column count as a separate component makes it available on raised rungs too; on every rung that
    exists it IS the data set's dimension (`Glue.tag_consistent`). -/
abbrev CView := Nat × Option MeshFields

def viewOf (f : MeshFields) : CView := (f.mesh.dim, some f)

/-- C19's `LadderOps` (operations of `MeshFieldsComparator.__call__` on its mutable state) built
    from C08's transformations; suites are (domain_equality_check, bool(suite)) -/
def cmpOps (L : LadderParams) (cmp : MeshFields → MeshFields → Bool × Bool) :
    C19.LadderOps CView (Bool × Bool) where
  cmp := fun x y => match x.2, y.2 with
    | some a, some b => cmp a b
    | _, _ => (false, false)
  ok := fun s => s.1
  dim := fun x => x.1
  structured := fun _ => false
  ext := fun m x => (m, x.2.bind (extendSpaceDim m))
  perm := fun x => (x.1, x.2.bind (permuteFields L))
  sortc := fun x => (x.1, x.2.bind (sortCells L.sort.h L.sort.argsortI))

/-- the view's column count is that of its data set, whenever the data set exists -/
def Consistent (x : CView) : Prop := ∀ f, x.2 = some f → f.mesh.dim = x.1

/-- the fully sorted view of a data set, as the ladder builds it: `sort_cells(_permute(f))` -/
def sortedView (L : LadderParams) (f : MeshFields) : Option MeshFields :=
  (permuteFields L f).bind (sortCells L.sort.h L.sort.argsortI)

end Fc.Glue
