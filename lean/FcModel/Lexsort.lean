/-
  FcModel.Lexsort — model of the fuzzy lexicographic sort of fieldcompare/_numpy_utils.py
  (`get_fuzzy_lex_sorting_index_map`, `walk_adjacent_true_index_ranges`,
  `get_adjacent_fuzzy_equal_indices`) written at the level of what the code does *now*
  (after the F1 repair: the run mask of column j is AND-ed with the masks of all previous columns).

  * `argsort` (numpy's `np.argsort`, default = unstable introsort) is a PARAMETER
    `as : List Int → List Nat`; all that is assumed about it is `IsArgsort as`: it returns a
    permutation of `range n` under which the keys are non-decreasing.  How ties are broken is
    left open.  The driver instantiates it with a stable merge sort (`argsortStable`) and, to
    exercise the freedom, with the reversed-tie variant (`argsortRevTies`).
  * The loop works on *positions*: a boolean mask over positions is walked for runs of `True`
    (`walkRuns`, incl. the "+1 upper edge") and every run is re-sorted in place by the next column.
    The model keeps the list of *items* (an item = whatever is being sorted, e.g. (index, row));
    `idx_map` of the code is the list of the items' indices, `sorted` is the list of their rows.

  Core Lean only (linked into `fcdrv`).
-/
import FcModel.F64
namespace Fc.C02

/-! ### `np.isclose` on finite binary64 values (units) -/

/-- right-hand side of `np.isclose` for `|b| = m`: `atol + rtol * |b|` (two binary64 roundings;
    an overflowing value is `+inf` = `none`) -/
def iscloseThr (atol rtol m : Nat) : Option Nat :=
  match rndMag f64 (rtol * m) UNIT with
  | none => none
  | some p => rndMag f64 (atol + p) 0

/-- `np.isclose(a, b, atol=atol, rtol=rtol)`: `|a - b| <= atol + rtol * |b|`, every operation
    rounded to binary64 (`a - b`, `rtol * |b|`, `atol + …`); an overflowing right-hand side is
    `+inf` (comparison true). Note the asymmetry in `b`. -/
def isclose (atol rtol : Nat) (a b : Int) : Bool :=
  leInf (rndMag f64 (a - b).natAbs 0) (iscloseThr atol rtol b.natAbs)

/-! ### `get_adjacent_fuzzy_equal_indices` -/

/-- `append(isclose(values[:-1], values[1:]), False)` -/
def adjacentClose (close : Int → Int → Bool) : List Int → List Bool
  | a :: b :: t => close a b :: adjacentClose close (b :: t)
  | _ => [false]

/-! ### `walk_adjacent_true_index_ranges` (include_upper_edge = True) -/

/-- the generator's loop: position `i`, remembered `begin`, flag `in_true_block`.
    A block that is still open at the end of the array is *not* yielded (as in the code; the
    masks produced by `adjacentClose` always end with `False`). -/
def walkRunsAux : List Bool → Nat → Nat → Bool → List (Nat × Nat)
  | [], _, _, _ => []
  | b :: t, i, bg, inb =>
    if b && !inb then walkRunsAux t (i + 1) i true
    else if !b && inb then (bg, i + 1) :: walkRunsAux t (i + 1) bg false
    else walkRunsAux t (i + 1) bg inb

def walkRuns (mask : List Bool) : List (Nat × Nat) := walkRunsAux mask 0 0 false

/-! ### argsort as a parameter -/

/-- what is assumed about `np.argsort`: a permutation of `range n` that sorts the keys
    (ties arbitrary) -/
structure IsArgsort (as : List Int → List Nat) : Prop where
  perm : ∀ keys : List Int, (as keys).Perm (List.range keys.length)
  sorted : ∀ keys : List Int, ((as keys).map fun i => keys.getD i 0).Pairwise (· ≤ ·)

/-- fancy indexing `l[as(keys of l)]`: the sorter on items induced by an argsort -/
def sorterOf (as : List Int → List Nat) {α : Type} (k : α → Int) (l : List α) : List α :=
  (as (l.map k)).filterMap fun i => l[i]?

/-- stable merge sort on (position, key) pairs — the driver's instance of `argsort` -/
def argsortStable (keys : List Int) : List Nat :=
  (((List.range keys.length).zip keys).mergeSort fun a b => decide (a.2 ≤ b.2)).map (·.1)

/-- a second instance with the opposite tie-breaking (equal keys come out in *descending*
    position order): used by the driver to check that nothing observable depends on ties -/
def argsortRevTies (keys : List Int) : List Nat :=
  ((((List.range keys.length).zip keys).reverse).mergeSort fun a b => decide (a.2 ≤ b.2)).map (·.1)

/-! ### the loop of `get_fuzzy_lex_sorting_index_map` -/

section loop
variable {α : Type}

/-- `idx_map[start:end] = idx_map[start:end][argsort(sorted[start:end][:, dim])]` (and the
    matching update of `sorted`): re-sort the slice `[start, end)` in place -/
def applyRun (srt : List α → List α) (l : List α) (r : Nat × Nat) : List α :=
  l.take r.1 ++ srt ((l.drop r.1).take (r.2 - r.1)) ++ l.drop r.2

/-- body of `for dim in range(1, ncols)`; `fuel` = remaining iterations, `eq` = the variable
    `equals` (`None` before the first iteration) -/
def lexLoop (srt : (α → Int) → List α → List α) (close : Int → Int → Bool) (key : Nat → α → Int) :
    Nat → Nat → Option (List Bool) → List α → List α
  | 0, _, _, l => l
  | fuel + 1, dim, eq, l =>
    let dimEq := adjacentClose close (l.map (key (dim - 1)))
    -- entries only belong to the same range if they are equal in all previous dimensions
    let eq' := match eq with
      | none => dimEq
      | some e => List.zipWith (· && ·) e dimEq
    let l' := (walkRuns eq').foldl (applyRun (srt (key dim))) l
    lexLoop srt close key fuel (dim + 1) (some eq') l'

/-- `get_fuzzy_lex_sorting_index_map` on items: argsort by column 0, then the loop over the
    remaining `ncols - 1` columns -/
def fuzzyLexSortBy (srt : (α → Int) → List α → List α) (close : Int → Int → Bool)
    (key : Nat → α → Int) (ncols : Nat) (l : List α) : List α :=
  lexLoop srt close key (ncols - 1) 1 none (srt (key 0) l)

end loop

/-- the index map itself: rows of a 2-d array → permutation (new position ↦ old index) -/
def fuzzyLexSortIdx (as : List Int → List Nat) (close : Int → Int → Bool) (ncols : Nat)
    (rows : List (List Int)) : List Nat :=
  (fuzzyLexSortBy (fun k l => sorterOf as k l) close (fun j (it : Nat × List Int) => it.2.getD j 0) ncols
    ((List.range rows.length).zip rows)).map (·.1)

end Fc.C02
