/-
  FcModel.Seq — sequences (time series).

  * `Src`: the cursor machine shared by `_PVDSequenceSource` (io/vtk/_pvd_reader.py) and
    `_XDMFSequenceSource` (io/_mesh_io.py): `reset`, `step`, `get`, `number_of_steps`.
  * `iterSeq`: `FieldDataSequence.__iter__` run to exhaustion (`reset; yield get; while step: yield get`);
    well-founded recursion on `n - cursor`.
  * `genNext` / `runHist`: the same generator as a small-step machine, several live generators sharing one
    source object, driven by an arbitrary history of `next(g)` calls (abandoned / interleaved iteration).
  * `TSuite`, `mergeSuites`, `compareSequences`: `_cli/_test_suite.py: TestSuite.__bool__/status`,
    `_cli/_file_comparison.py: _compare_field_sequences/_merge_test_suites/_merged_result`.
  * `fileModeExit`: `_compare_fields` dispatch on the kinds of the two data sets + `_file_mode._run`.

  External facts (parameters): numbers of steps, the per-step comparison result `step i j : TSuite`
  (what `_compare_field_data` returns for result step i and reference step j), the three options.
  Literal tables (falsy lists, derived status, merge rules) come from FcGen.Tables (regenerated from source).
-/
import FcGen.Tables
namespace Fc

abbrev TStatus := Gen.TestStatus

/-! ### the source cursor machine -/

structure Src where
  n : Nat
  cur : Nat
  deriving Repr, DecidableEq

def Src.reset (s : Src) : Src := { s with cur := 0 }

/-- `self._step_idx += 1; return self._step_idx < len(self._pieces)` -/
def Src.step (s : Src) : Src × Bool := ({ s with cur := s.cur + 1 }, decide (s.cur + 1 < s.n))

/-- `self._pieces[self._step_idx]`: `none` = IndexError -/
def Src.get (s : Src) : Option Nat := if s.cur < s.n then some s.cur else none

/-- the `while self._source.step(): yield self._source.get()` loop -/
def iterLoop (s : Src) : List (Option Nat) × Src :=
  if _h : s.cur + 1 < s.n then
    let r := iterLoop (s.step).1
    ((s.step).1.get :: r.1, r.2)
  else ([], (s.step).1)
termination_by s.n - s.cur
decreasing_by
  simp only [Src.step]
  omega

/-- `FieldDataSequence.__iter__` run to exhaustion: yielded items (`none` = the `get` raised) and the
    source state left behind -/
def iterSeq (s : Src) : List (Option Nat) × Src :=
  let s0 := s.reset
  let r := iterLoop s0
  (s0.get :: r.1, r.2)

/-! ### the generator as a small-step machine -/

inductive GenSt where
  | fresh | running | done
  deriving DecidableEq, Repr

inductive Ev where
  | yield (i : Nat)
  | raise
  | stop
  deriving DecidableEq, Repr

inductive Call where
  | reset | get | step
  deriving DecidableEq, Repr

/-- one `next()` on a generator of `__iter__`: new source state, new generator state, what the caller sees,
    and the calls made on the source -/
def genNext (s : Src) (g : GenSt) : Src × GenSt × Ev × List Call :=
  match g with
  | .fresh =>
    let s0 := s.reset
    match s0.get with
    | some i => (s0, .running, .yield i, [.reset, .get])
    | none => (s0, .done, .raise, [.reset, .get])
  | .running =>
    let p := s.step
    if p.2 then
      match p.1.get with
      | some i => (p.1, .running, .yield i, [.step, .get])
      | none => (p.1, .done, .raise, [.step, .get])
    else (p.1, .done, .stop, [.step])
  | .done => (s, .done, .stop, [])

/-- `k` successive `next()` calls on ONE generator: events, source state and generator state afterwards -/
def genRun (s : Src) (g : GenSt) : Nat → List Ev × Src × GenSt
  | 0 => ([], s, g)
  | k + 1 =>
    let r := genNext s g
    let rest := genRun r.1 r.2.1 k
    (r.2.2.1 :: rest.1, rest.2)

/-- successive, possibly abandoned iterations of the same sequence object: round i creates a fresh
    generator and calls `next` on it `k_i` times, starting from the source state the previous round left -/
def rounds (s : Src) : List Nat → List (List Ev)
  | [] => []
  | k :: ks =>
    let r := genRun s .fresh k
    r.1 :: rounds r.2.1 ks

def setAt {α} : List α → Nat → α → List α
  | [], _, _ => []
  | _ :: xs, 0, v => v :: xs
  | x :: xs, k + 1, v => x :: setAt xs k v

/-- history of `next(g)` calls on generators sharing one source; out-of-range ids are ignored -/
def runHist (s : Src) (gens : List GenSt) : List Nat → List (Nat × Ev × List Call) × Src
  | [] => ([], s)
  | g :: hs =>
    match gens[g]? with
    | none => runHist s gens hs
    | some st =>
      let r := genNext s st
      let rest := runHist r.1 (setAt gens g r.2.1) hs
      ((g, r.2.2.1, r.2.2.2) :: rest.1, rest.2)

/-! ### test suites and merging -/

structure TSuite where
  tests : List TStatus
  status : Option TStatus
  deriving Repr, DecidableEq

/-- `_is_true` of `TestSuite.__bool__` -/
def tsTrue (r : TStatus) : Bool := !(Gen.testSuiteFalsy.contains r)

def TSuite.bool (s : TSuite) : Bool :=
  match s.status with
  | some r => tsTrue r
  | none => s.tests.all tsTrue

/-- the `status` property -/
def TSuite.statusProp (s : TSuite) : TStatus :=
  match s.status with
  | some r => r
  | none => if s.bool then Gen.testSuiteDerived.1 else Gen.testSuiteDerived.2

/-- `_merged_result`: the first rule `(x, y)` with `r1 == x or r2 == x` returns `y`; otherwise `None` -/
def mergedResult (r1 r2 : Option TStatus) : Option TStatus :=
  match Gen.mergedRules.find? (fun p => r1 == some p.1 || r2 == some p.1) with
  | some p => some p.2
  | none => none

def mergeSuites (s1 s2 : TSuite) : TSuite :=
  ⟨s1.tests ++ s2.tests, mergedResult (some s1.statusProp) (some s2.statusProp)⟩

/-! ### `_compare_field_sequences` -/

structure SeqOpts where
  ignoreMissing : Bool
  force : Bool
  deriving Repr, DecidableEq

/-- Python's lazy `zip` of the two generators: `next(res)` first, then `next(ref)`; `none` = an
    exception escaped from a `get` -/
def zipOpt : List (Option Nat) → List (Option Nat) → Option (List (Nat × Nat))
  | [], _ => some []
  | none :: _, _ => none
  | some _ :: _, [] => some []
  | some _ :: _, none :: _ => none
  | some i :: as, some j :: bs => (zipOpt as bs).map (fun r => (i, j) :: r)

inductive SeqResult where
  /-- returned suite and the (result step, reference step) pairs handed to `_compare_field_data`, in order -/
  | suite (s : TSuite) (compared : List (Nat × Nat))
  /-- an exception escaped (IndexError of an empty sequence) -/
  | raised
  deriving Repr, DecidableEq

def compareSequences (o : SeqOpts) (res ref : Src) (step : Nat → Nat → TSuite) : SeqResult :=
  let mismatch := res.n != ref.n
  let check : Option TStatus := if mismatch && !o.ignoreMissing then some .failed else none
  if mismatch && !o.ignoreMissing && !o.force then .suite ⟨[], some .failed⟩ []
  else
    match zipOpt (iterSeq res).1 (iterSeq ref).1 with
    | none => .raised
    | some pairs =>
      .suite (pairs.foldl (fun acc p => mergeSuites acc (step p.1 p.2)) ⟨[], check⟩) pairs

def SeqResult.passed : SeqResult → Bool
  | .suite s _ => s.bool
  | .raised => false

def SeqResult.compared : SeqResult → List (Nat × Nat)
  | .suite _ c => c
  | .raised => []

/-! ### file mode: dispatch on the kinds of the two data sets, exit code -/

inductive DataKind where
  | fieldData | sequence | unknown
  deriving DecidableEq, Repr

/-- `_bool_to_exit_code`: `int(not value)` -/
def boolToExit (b : Bool) : Nat := if b then 0 else 1

/-- `FileComparison._compare_fields` + `_file_mode._run`: both field data → the single comparison's
    verdict; both sequences → `_compare_field_sequences`; anything else raises `ValueError`, which `_run`
    turns into `passed = False` -/
def fileModeExit (kRes kRef : DataKind) (single : Bool) (seq : SeqResult) : Nat :=
  match kRes, kRef with
  | .fieldData, .fieldData => boolToExit single
  | .sequence, .sequence => boolToExit seq.passed
  | _, _ => boolToExit false

end Fc
