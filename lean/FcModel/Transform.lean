/-
  FcModel.Transform — model of the reordering transformations of
  `fieldcompare.mesh._transformations`: `strip_orphan_points` (with
  `_unconnected_points_filter_map`), `sort_points`, `sort_cells`, `sort`.

  Everything numpy / CPython decides in an unspecified way is a PARAMETER:
  * `argsortB`  — `np.argsort` of the boolean "is unconnected" mask (default kind = introsort,
                  NOT stable: on 17+ entries the connected points do come out permuted),
  * `sorter`    — `_sorting_points_indices` (fuzzy lexicographic sort + duplicate tie-break): its
                  canonicity is property C02's business; here it is any function returning an index
                  list (or raising: "Cannot uniquely sort duplicate points …"),
  * `h`, `argsortI` — Python's `hash` of the sorted corner tuple and `np.argsort` of the hashes.
  The conservation theorems (C08) quantify over all parameters that return permutations.
-/
import FcModel.Permuted
namespace Fc

/-! ### `_unconnected_points_filter_map` -/

/-- `is_unconnected`: initialised `True`, set to `False` for every index in every connectivity -/
def isUnconnectedMask (m : Mesh) : List Bool :=
  (List.range m.numPoints).map fun p => !m.connected p

/-- all corner indices address an existing point (otherwise `is_unconnected[i] = False` raises) -/
def Mesh.indicesInRange (m : Mesh) : Bool :=
  m.cells.all fun b => b.2.all fun row => row.all (· < m.numPoints)

/-- `sub_array(argsort(is_unconnected), 0, len - sum(is_unconnected))` -/
def unconnectedFilterMap (argsortB : List Bool → List Nat) (m : Mesh) : Option (List Nat) :=
  if m.indicesInRange then
    let mask := isUnconnectedMask m
    some ((argsortB mask).take (mask.length - mask.count true))
  else none

/-- what `np.argsort` guarantees: a permutation of `range n` along which the keys are sorted
    (`le` on the keys; ties in any order) -/
def IsArgsortBy {κ} (le : κ → κ → Prop) (n : Nat) (key : Nat → κ) (σ : List Nat) : Prop :=
  σ.Perm (List.range n) ∧ (σ.map key).Pairwise le

/-- `False <= True` -/
def boolLe (a b : Bool) : Prop := a = true → b = true

def IsBoolArgsort (keys : List Bool) (σ : List Nat) : Prop :=
  IsArgsortBy boolLe keys.length (fun i => keys.getD i false) σ

/-- the *stable* argsort of a boolean mask (what the driver instantiates) -/
def stableArgsortBool (keys : List Bool) : List Nat :=
  (List.range keys.length).filter (fun i => !keys.getD i false) ++
  (List.range keys.length).filter (fun i => keys.getD i false)

/-! ### the public transformations -/

/-- `strip_orphan_points` -/
def stripOrphanPoints (argsortB : List Bool → List Nat) (f : MeshFields) : Option MeshFields :=
  match unconnectedFilterMap argsortB f.mesh with
  | none => none
  | some fm => applyPermuted (some fm) none f

/-- `sort_points`; `sorter mesh` = `_sorting_points_indices(...)`, `none` = it raises -/
def sortPoints (sorter : Mesh → Option (List Nat)) (f : MeshFields) : Option MeshFields :=
  match sorter f.mesh with
  | none => none
  | some σ => applyPermuted (some σ) none f

/-- `tuple(sorted(corners))` -/
def sortCellsKey (row : List Nat) : List Nat := row.mergeSort (fun a b => decide (a ≤ b))

/-- `_get_cell_corners_sorting_index_map` -/
def cellSortMap (h : List Nat → Int) (argsortI : List Int → List Nat) (rows : List (List Nat)) :
    List Nat :=
  argsortI (rows.map fun r => h (sortCellsKey r))

/-- `sort_cells` -/
def sortCells (h : List Nat → Int) (argsortI : List Int → List Nat) (f : MeshFields) :
    Option MeshFields :=
  applyPermuted none (some (f.mesh.cells.map fun b => (b.1, cellSortMap h argsortI b.2))) f

structure SortParams where
  argsortB : List Bool → List Nat
  sorter : Mesh → Option (List Nat)
  h : List Nat → Int
  argsortI : List Int → List Nat

/-- `sort = sort_cells ∘ sort_points ∘ strip_orphan_points` -/
def sortAll (P : SortParams) (f : MeshFields) : Option MeshFields :=
  match stripOrphanPoints P.argsortB f with
  | none => none
  | some f1 =>
    match sortPoints P.sorter f1 with
    | none => none
    | some f2 => sortCells P.h P.argsortI f2

/-- the public reordering transformations -/
inductive Reordering where
  | strip | sortPoints | sortCells | sort
deriving Repr, DecidableEq

def applyReordering (P : SortParams) : Reordering → MeshFields → Option MeshFields
  | .strip, f => stripOrphanPoints P.argsortB f
  | .sortPoints, f => sortPoints P.sorter f
  | .sortCells, f => sortCells P.h P.argsortI f
  | .sort, f => sortAll P f

/-- a finite composition, applied left to right (lazily nested `TransformedMeshFields` in the
    code; each layer is materialised here) -/
def applyReorderings (P : SortParams) : List Reordering → MeshFields → Option MeshFields
  | [], f => some f
  | t :: ts, f =>
    match applyReordering P t f with
    | none => none
    | some f1 => applyReorderings P ts f1

end Fc
