/-
  FcModel.VtuLayout — how the readers turn the flat `connectivity / offsets / types` arrays into
  per-cell-type corner arrays and cell-data index maps.
    VTUReader._make_mesh            (fieldcompare/io/vtk/_vtu_reader.py)
    VTPReader._make_mesh / _get_cell_corners  (fieldcompare/io/vtk/_vtp_reader.py)
    VTKXMLReader._make_cell_data_array        (fieldcompare/io/vtk/_xml_reader.py)
  Index errors of numpy are `none`.
-/
namespace Fc

/-- insert into a strictly increasing list, keeping it strictly increasing (no duplicates) -/
def insertUniq (x : Nat) : List Nat → List Nat
  | [] => [x]
  | y :: ys => if x < y then x :: y :: ys else if x = y then y :: ys else y :: insertUniq x ys

/-- `np.unique(types)`: the occurring values, ascending, once each -/
def uniqueSorted : List Nat → List Nat
  | [] => []
  | x :: xs => insertUniq x (uniqueSorted xs)

/-- `np.equal(types, t).nonzero()[0]` counted from `i0` -/
def indicesOfFrom (t : Nat) : List Nat → Nat → List Nat
  | [], _ => []
  | x :: xs, i => if x = t then i :: indicesOfFrom t xs (i + 1) else indicesOfFrom t xs (i + 1)

def indicesOf (t : Nat) (types : List Nat) : List Nat := indicesOfFrom t types 0

/-- all of `l[i]` for `i` in `idxs` (fancy indexing; out of range = IndexError) -/
def gather {α} (l : List α) (idxs : List Nat) : Option (List α) := idxs.mapM (fun i => l[i]?)

/-- `_cell_type_corners_array`: the corner count is read off the FIRST cell of the type and used for
    all of them; row of cell `i` = `corners[offsets0[i] + j]`, `j < ncorners`, with `offsets0 = 0 :: offsets`
    (`np.linspace(start, start + nc, num = nc, endpoint = False)` = `start + j`) -/
def vtuCornerRows (corners offsets : List Nat) (idxs : List Nat) : Option (List (List Nat)) := do
  let offsets0 := 0 :: offsets
  let i0 ← idxs[0]?
  let a ← offsets0[i0]?
  let b ← offsets0[i0 + 1]?
  let nc := b - a
  idxs.mapM (fun i => do
    let s ← offsets0[i]?
    gather corners ((List.range nc).map (s + ·)))

/-- `VTUReader._make_mesh`: per occurring type (ascending type index) its corner rows and the indices
    of its cells in file order -/
def vtuLayout (corners offsets types : List Nat) : Option (List (Nat × List (List Nat) × List Nat)) :=
  (uniqueSorted types).mapM (fun t => do
    let idxs := indicesOf t types
    let rows ← vtuCornerRows corners offsets idxs
    some (t, rows, idxs))

/-- `_make_cell_data_array`: `entire[index_map[ct]]` per cell type; `entire` is a list of rows -/
def splitCellData {α} (entire : List α) (layout : List (Nat × List (List Nat) × List Nat)) :
    Option (List (Nat × List α)) :=
  layout.mapM (fun e => do
    let vals ← gather entire e.2.2
    some (e.1, vals))

/-- `VTPReader._get_cell_corners`: row `i` = `flat[offsets0[i] : offsets0[i+1]]` -/
def vtpRowsFrom (flat : List Nat) : List Nat → Nat → List (List Nat)
  | [], _ => []
  | o :: os, prev => (flat.drop prev).take (o - prev) :: vtpRowsFrom flat os o

def vtpRows (flat offsets : List Nat) : List (List Nat) := vtpRowsFrom flat offsets 0

/-- `VTPReader._make_mesh`: consecutive index ranges for the non-empty sections
    (Verts, Lines, Polys, Strips in this order) -/
def vtpIndexRanges : List Nat → Nat → List (List Nat)
  | [], _ => []
  | n :: ns, start => (List.range n).map (start + ·) :: vtpIndexRanges ns (start + n)

/-- `VTPReader._make_mesh`, whole: the sections in the fixed order Verts, Lines, Polys, Strips, each
    given as (cell type id, count attribute `NumberOf…`, flat connectivity, offsets).  Sections whose
    count attribute is 0 are skipped; the rows come from the offsets array, the index ranges from the
    cumulative sum of the count ATTRIBUTES.  Same result type as `vtuLayout`, so `splitCellData`
    (`_make_cell_data_array`) applies to it. -/
def vtpLayout (secs : List (Nat × Nat × List Nat × List Nat)) : List (Nat × List (List Nat) × List Nat) :=
  let present := secs.filter (fun s => 0 < s.2.1)
  let ranges := vtpIndexRanges (present.map (·.2.1)) 0
  (present.zip ranges).map (fun sr => (sr.1.1, vtpRows sr.1.2.2.1 sr.1.2.2.2, sr.2))

end Fc
