/-
  FcModel.Matching — `fieldcompare/_matching.py: find_matches` as a pure list function.

  Python:
      matches = []; orphans_target = list(reference)
      def _find_and_add(s):
          for t in orphans_target:
              if eq_predicate(s, t): matches.append((s, t)); orphans_target.remove(t); return True
          return False
      orphans_source = [s for s in source if not _find_and_add(s)]

  `findAndRemove` is the inner loop (first match, removal of the matched occurrence),
  `findMatches` the comprehension over the source.  `eq` is an arbitrary predicate (parameter).
  `list.remove(t)` removes the occurrence that was matched whenever no earlier element is `==` t (for name
  matching on `Field` dataclasses an earlier element has another name); for elements whose `==` is equality this is
  proved against the translated source (`C11_source_find_matches`, `Fc.PyLite.C11M.findAndRemove_eq_erase`).
-/
namespace Fc

structure MatchResult (α β : Type) where
  pairs : List (α × β)
  orphansSrc : List α
  orphansRef : List β
  deriving Repr

/-- first `t` in the list with `eq s t`, together with the list without that occurrence -/
def findAndRemove {α β : Type} (eq : α → β → Bool) (s : α) : List β → Option (β × List β)
  | [] => none
  | t :: ts =>
    if eq s t then some (t, ts)
    else match findAndRemove eq s ts with
      | none => none
      | some (m, r) => some (m, t :: r)

def findMatches {α β : Type} (eq : α → β → Bool) : List α → List β → MatchResult α β
  | [], ref => ⟨[], [], ref⟩
  | s :: ss, ref =>
    match findAndRemove eq s ref with
    | some (t, ref') =>
      let r := findMatches eq ss ref'
      ⟨(s, t) :: r.pairs, r.orphansSrc, r.orphansRef⟩
    | none =>
      let r := findMatches eq ss ref
      ⟨r.pairs, s :: r.orphansSrc, r.orphansRef⟩

end Fc
