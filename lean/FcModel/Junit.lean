/-
  FcModel.Junit — model of the JUnit report (fieldcompare/_cli/_junit.py) and of its assembly in
  file mode (_file_mode._run) and directory mode (_dir_mode._run, _do_file_comparisons,
  _add_unhandled_comparisons, _add_skipped_file_comparisons).

  A `testcase` element is modelled by its name and the tags of its outcome children
  (`failure`, `error`, `skipped`; `system-out` is present on every test case and not modelled).
  The status → children table and the status counted by each count attribute are regenerated
  from the source text (`Gen.cliJunitChildren`, `Gen.cliJunitCounts`).
-/
import FcModel.Cli
namespace Fc.C04
open Fc

structure TestCase where
  name : String
  children : List String
deriving Repr, DecidableEq

/-- `<testsuite>`: the four count attributes and the test cases -/
structure JSuite where
  name : String
  tests : Nat
  failures : Nat
  errors : Nat
  skipped : Nat
  cases : List TestCase
deriving Repr, DecidableEq

/-- outcome children added by `_add_test_case` for a test of status `st` -/
def junitChildren (st : TestStatus) : List String :=
  (Gen.cliJunitChildren.lookup st.name).getD []

/-- `sum(1 for t in suite if t.status == TestStatus.X)` resp. `sum(1 for _ in suite)` for attribute `attr` -/
def countAttr (attr : String) (tests : List Test) : Nat :=
  match Gen.cliJunitCounts.lookup attr with
  | none => 0
  | some which =>
    if which == "*" then tests.length
    else (tests.filter fun t => t.status.name == which).length

/-- `as_junit_xml_element` -/
def junitElement (name : String) (s : Suite) : JSuite :=
  { name := name
    tests := countAttr "tests" s.tests
    failures := countAttr "failures" s.tests
    errors := countAttr "errors" s.tests
    skipped := countAttr "skipped" s.tests
    cases := s.tests.map fun t => ⟨t.name, junitChildren t.status⟩ }

/-- how a JUnit consumer classifies a test case: an `error` child makes it an error, otherwise a
    `failure` child a failure, otherwise a `skipped` child a skipped test, otherwise it passed.
    (An error test case of fieldcompare carries *both* a `failure` and an `error` child.) -/
inductive CaseKind where
  | passed | failure | error | skipped
deriving Repr, DecidableEq

def TestCase.kind (c : TestCase) : CaseKind :=
  if c.children.contains "error" then .error
  else if c.children.contains "failure" then .failure
  else if c.children.contains "skipped" then .skipped
  else .passed

def CaseKind.name : CaseKind → String
  | .passed => "passed" | .failure => "failure" | .error => "error" | .skipped => "skipped"

def JSuite.count (j : JSuite) (k : CaseKind) : Nat := (j.cases.filter fun c => c.kind == k).length

/-! ### file mode: exit outcome + report -/

/-- `(exit outcome, report)` of `fieldcompare file RES REF --junit-xml F`; `none` = no file is written -/
def fileReport (pf : String → FloatLit) (s : Scenario) : ExitOutcome × Option JSuite :=
  let r := fileMode pf s
  (r.1, r.2.map (junitElement (suiteName s.nameParts)))

/-! ### directory mode -/

/-- one pair of files that is compared -/
structure DirFile where
  /-- name relative to the two directories -/
  filename : String
  /-- the file scenario (options are those of the directory run; `nameParts` = parts of `join(res_dir, filename)`) -/
  scen : Scenario
deriving Repr

structure DirScenario where
  /-- the option tokens of the run (parsed once before the loop; a malformed one raises out of `main`) -/
  rtolToks : Option (List String)
  atolToks : Option (List String)
  ignMissingSrcFiles : Bool
  ignMissingRefFiles : Bool
  compared : List DirFile
  missingSources : List String
  missingReferences : List String
  unsupported : List String
  discarded : List String
deriving Repr

/-- `_add_skipped_file_comparisons`: a dummy test case carries the status -/
def skippedFileSuite (treatAsFailure : Bool) (name : String) : String × Suite :=
  let st : TestStatus := if treatAsFailure then .failed else .skipped
  (name, ⟨[⟨"file comparison", st⟩], some st⟩)

/-- suite of one compared pair (`_do_file_comparisons`): the file comparison's suite under the
    name `_suite_name(res_file)`, or — on any exception — an empty suite of status `error` under the bare name.
    The options object is built without `force_sequence_comparison`. -/
def dirFileSuite (pf : String → FloatLit) (f : DirFile) : String × Suite :=
  match mkOpts pf { f.scen with forceSeq := false } with
  | none => (f.filename, ⟨[], some .error⟩)       -- unreachable: the tokens were parsed before the loop
  | some o =>
    match runComparison o { f.scen with forceSeq := false } with
    | .suite su => (suiteName f.scen.nameParts, su)
    | .exc => (f.filename, ⟨[], some .error⟩)

/-- all suites of a directory run, in the order of the report -/
def dirSuites (pf : String → FloatLit) (d : DirScenario) : List (String × Suite) :=
  d.compared.map (dirFileSuite pf)
    ++ d.missingSources.map (skippedFileSuite (!d.ignMissingSrcFiles))
    ++ d.missingReferences.map (skippedFileSuite (!d.ignMissingRefFiles))
    ++ d.unsupported.map (skippedFileSuite false)
    ++ d.discarded.map (skippedFileSuite false)

/-- `_dir_mode._run` (both directories exist): exit outcome and the `<testsuites>` report -/
def dirReport (pf : String → FloatLit) (d : DirScenario) : ExitOutcome × Option (List JSuite) :=
  match parseTols pf false d.rtolToks, parseTols pf true d.atolToks with
  | .ok _ _, .ok _ _ =>
    let suites := dirSuites pf d
    (.exit (boolToExitCode (suites.all fun s => s.2.bool)),
     some (suites.map fun s => junitElement s.1 s.2))
  | _, _ => (.raisedOut, none)

end Fc.C04
