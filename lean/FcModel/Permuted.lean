/-
  FcModel.Permuted — model of `fieldcompare.mesh._permuted_mesh.PermutedMesh` and of
  `fieldcompare.mesh._mesh_fields.TransformedMeshFields`, written at the level of what the code does.

  * `point_permutation` is an index map  new index → old index  (numpy fancy indexing
    `points[point_permutation]`).  It need not be a full permutation: `strip_orphan_points`
    passes the list of *connected* old indices only.
  * `_make_inverse_point_permutation` allocates an UNINITIALISED integer array of size
    `max(point_permutation) + 1` and assigns `inverse[point_permutation] = arange(len)`.
    In the model every slot is an `Option Nat`; unassigned slots are `none`, and reading one
    (the real code would read garbage) is an ERROR (`none` result).  Theorem `C08_permuted_iso`
    shows that under the property's hypothesis no such read ever happens.
  * `np.argmax` of an empty array raises: an empty point permutation makes the constructor raise.
  * `cell_permutations` is a dict cell type → index map (new cell → old cell); a missing key is a
    `KeyError`; an out-of-range index an `IndexError`.  Every raise is `none` in the model.
  * `TransformedMeshFields` is lazy in the code; the model materialises each layer.  This is
    observationally the same because no operation of the cluster mutates an array (C19 is the
    property that looks at aliasing).
-/
import FcModel.Mesh
namespace Fc

/-! ### small helpers -/

/-- all entries present, or nothing -/
def optAll {α} : List (Option α) → Option (List α)
  | [] => some []
  | none :: _ => none
  | some x :: r =>
    match optAll r with
    | some xs => some (x :: xs)
    | none => none

/-- numpy fancy indexing `data[idx]` along axis 0 of a list of rows; `none` = IndexError -/
def gatherList {α} (dflt : α) (l : List α) (idx : List Nat) : Option (List α) :=
  if idx.all (· < l.length) then some (idx.map (l.getD · dflt)) else none

/-- `shape[0]` -/
def NdArr.numRows (a : NdArr) : Nat := a.shape.headD 0

/-- `values[idx]` along axis 0 of an n-d array -/
def NdArr.gather (a : NdArr) (idx : List Nat) : Option NdArr :=
  if idx.all (· < a.numRows) then some ⟨a.dtype, idx.length :: a.shape.tail, idx.flatMap a.row⟩
  else none

/-! ### the inverse point permutation -/

def maxIdx : List Nat → Nat
  | [] => 0
  | x :: xs => max x (maxIdx xs)

/-- `inverse[index_map] = [0, 1, …]` — sequential assignment, a repeated index keeps the last -/
def fillInverse : List Nat → Nat → List (Option Nat) → List (Option Nat)
  | [], _, inv => inv
  | p :: ps, i, inv => fillInverse ps (i + 1) (inv.set p (some i))

/-- `_make_inverse_point_permutation`: size `max + 1`, unassigned slots stay `none` -/
def makeInverse (perm : List Nat) : Option (List (Option Nat)) :=
  if perm.isEmpty then none          -- np.argmax([]) raises ValueError
  else some (fillInverse perm 0 (List.replicate (maxIdx perm + 1) none))

/-- `inverse[p]`: out of range = IndexError, unassigned slot = use of uninitialised memory;
    both are errors of the model -/
def readInverse (inv : List (Option Nat)) (p : Nat) : Option Nat :=
  match inv[p]? with
  | some (some j) => some j
  | _ => none

/-! ### PermutedMesh -/

abbrev CellPerms := List (String × List Nat)

structure PermutedMesh where
  base : Mesh
  pointPerm : Option (List Nat)
  cellPerms : Option CellPerms
  inverse : Option (List (Option Nat))
deriving Repr

/-- the constructor (`__init__`): builds the inverse table, may raise -/
def PermutedMesh.make (m : Mesh) (pp : Option (List Nat)) (cp : Option CellPerms) :
    Option PermutedMesh :=
  match pp with
  | none => some ⟨m, none, cp, none⟩
  | some perm =>
    match makeInverse perm with
    | none => none
    | some inv => some ⟨m, some perm, cp, some inv⟩

def cellPermOf (cps : CellPerms) (ct : String) : Option (List Nat) :=
  (cps.find? (·.1 == ct)).map (·.2)

/-- `PermutedMesh.points` -/
def PermutedMesh.points (pm : PermutedMesh) : Option (List (List Int)) :=
  match pm.pointPerm with
  | some perm => gatherList [] pm.base.points perm
  | none => some pm.base.points

/-- `transform_cell_data` applied to a list of connectivity rows -/
def PermutedMesh.transformCellRows (pm : PermutedMesh) (ct : String) (rows : List (List Nat)) :
    Option (List (List Nat)) :=
  match pm.cellPerms with
  | none => some rows
  | some cps =>
    match cellPermOf cps ct with
    | none => none
    | some cp => gatherList [] rows cp

/-- `self._inverse_point_permutation[corner_indices]` -/
def mapRowsInverse (inv : List (Option Nat)) (rows : List (List Nat)) : Option (List (List Nat)) :=
  optAll (rows.map fun row => optAll (row.map (readInverse inv)))

/-- `PermutedMesh.connectivity(ct)` on the block `(ct, rows)` of the base mesh -/
def PermutedMesh.connectivityOf (pm : PermutedMesh) (ct : String) (rows : List (List Nat)) :
    Option (List (List Nat)) :=
  match pm.inverse with
  | none => pm.transformCellRows ct rows
  | some inv =>
    match mapRowsInverse inv rows with
    | none => none
    | some rows' => pm.transformCellRows ct rows'

/-- `transform_point_data` -/
def PermutedMesh.transformPointData (pm : PermutedMesh) (a : NdArr) : Option NdArr :=
  match pm.pointPerm with
  | some perm => a.gather perm
  | none => some a

/-- `transform_cell_data` on a field array -/
def PermutedMesh.transformCellData (pm : PermutedMesh) (ct : String) (a : NdArr) : Option NdArr :=
  match pm.cellPerms with
  | none => some a
  | some cps =>
    match cellPermOf cps ct with
    | none => none
    | some cp => a.gather cp

/-- the permuted view read out completely through `points` / `cell_types` / `connectivity` -/
def PermutedMesh.toMesh (pm : PermutedMesh) : Option Mesh :=
  match pm.points,
        optAll (pm.base.cells.map fun b => (pm.connectivityOf b.1 b.2).map fun r => (b.1, r)) with
  | some pts, some cells => some ⟨pm.base.dim, pts, cells⟩
  | _, _ => none

/-- `TransformedMeshFields(field_data, transformation)` read out completely: domain, point fields,
    cell fields — every field goes through the SAME maps as the mesh -/
def transformedMeshFields (f : MeshFields) (pm : PermutedMesh) : Option MeshFields :=
  match pm.toMesh,
        optAll (f.pointFields.map fun pf =>
          (pm.transformPointData pf.values).map fun v => PointField.mk pf.name v),
        optAll (f.cellFields.map fun cf =>
          (pm.transformCellData cf.ctype cf.values).map fun v => CellField.mk cf.name cf.ctype v) with
  | some m, some pfs, some cfs => some ⟨m, pfs, cfs⟩
  | _, _, _ => none

/-- `TransformedMeshFields(fields, lambda mesh: PermutedMesh(mesh, pp, cp))` -/
def applyPermuted (pp : Option (List Nat)) (cp : Option CellPerms) (f : MeshFields) :
    Option MeshFields :=
  match PermutedMesh.make f.mesh pp cp with
  | none => none
  | some pm => transformedMeshFields f pm

/-! ### the decidable hypothesis of `C08_permuted_iso` (printed by the driver as `hyp`) -/

/-- the point index map is non-empty, injective, in range, and covers every point some cell references -/
def pointPermOk (m : Mesh) (perm : List Nat) : Bool :=
  !perm.isEmpty && decide perm.Nodup && perm.all (· < m.numPoints) &&
  (List.range m.numPoints).all fun p => !m.connected p || perm.contains p

/-- every cell type of the mesh has an index map that is a permutation of its cell range -/
def cellPermsOk (m : Mesh) (cps : CellPerms) : Bool :=
  m.cells.all fun b =>
    match cellPermOf cps b.1 with
    | some cp => cp.isPerm (List.range b.2.length)
    | none => false

/-- well-formed data set as fieldcompare builds them: `MeshFields.wf`, one block per cell type,
    cell fields only on cell types of the mesh -/
def MeshFields.wf2 (f : MeshFields) : Bool :=
  f.wf && decide f.mesh.cellTypes.Nodup && f.cellFields.all fun cf => f.mesh.cellTypes.contains cf.ctype

def permHypB (f : MeshFields) (pp : Option (List Nat)) (cp : Option CellPerms) : Bool :=
  f.wf2 &&
  (match pp with | some perm => pointPermOk f.mesh perm | none => true) &&
  (match cp with | some cps => cellPermsOk f.mesh cps | none => true)

end Fc
