/-
  FcModel.Base64 — base64 at the byte level (bytes are `Nat`s < 256, characters their ASCII codes).

  * `b64encode`         = Python's `base64.b64encode` (standard alphabet, `=` padding)
  * `b64decodeLenient`  = Python's `base64.b64decode(s)` with the default `validate=False`, i.e.
                          CPython's `binascii.a2b_base64` in non-strict mode:  characters outside the
                          alphabet are skipped, a *completed* padding ends the decoding (everything behind
                          it is ignored), a dangling quad at the end of the input is an error (`none`).
  Core Lean only; linked into `fcdrv`.
-/
namespace Fc

/-- ASCII code of the base64 character of a sextet -/
def b64chr (s : Nat) : Nat :=
  if s < 26 then 65 + s            -- 'A'..'Z'
  else if s < 52 then 97 + (s - 26) -- 'a'..'z'
  else if s < 62 then 48 + (s - 52) -- '0'..'9'
  else if s = 62 then 43            -- '+'
  else 47                           -- '/'

/-- sextet of an ASCII code, `none` for every character outside the alphabet (incl. `=`) -/
def b64val (c : Nat) : Option Nat :=
  if 65 ≤ c ∧ c ≤ 90 then some (c - 65)
  else if 97 ≤ c ∧ c ≤ 122 then some (c - 97 + 26)
  else if 48 ≤ c ∧ c ≤ 57 then some (c - 48 + 52)
  else if c = 43 then some 62
  else if c = 47 then some 63
  else none

/-- the padding character `=` -/
def b64pad : Nat := 61

/-- `base64.b64encode` -/
def b64encode : List Nat → List Nat
  | a :: b :: c :: rest =>
      b64chr (a / 4) :: b64chr ((a % 4) * 16 + b / 16) :: b64chr ((b % 16) * 4 + c / 64) :: b64chr (c % 64)
        :: b64encode rest
  | [a, b] => [b64chr (a / 4), b64chr ((a % 4) * 16 + b / 16), b64chr ((b % 16) * 4), b64pad]
  | [a] => [b64chr (a / 4), b64chr ((a % 4) * 16), b64pad, b64pad]
  | [] => []

/-- The loop of `binascii.a2b_base64` (non-strict).  State: position in the current quad `qp`,
    the bits left over from the previous character `left`, number of padding characters seen since
    the last data character `pads` (only counted while `qp ≥ 2`, as in the C code, where `++pads`
    sits behind the short-circuit `quad_pos >= 2 &&`).  Result: the bytes produced from here on. -/
def b64decLoop : List Nat → Nat → Nat → Nat → Option (List Nat)
  | [], qp, _, _ => if qp = 0 then some [] else none
  | c :: cs, qp, left, pads =>
    if c = b64pad then
      if 2 ≤ qp then
        if 4 ≤ qp + (pads + 1) then some []            -- completed padding: stop, ignore the rest
        else b64decLoop cs qp left (pads + 1)
      else b64decLoop cs qp left pads
    else match b64val c with
      | none => b64decLoop cs qp left pads             -- skipped
      | some v =>
        match qp with
        | 0 => b64decLoop cs 1 v 0
        | 1 => (b64decLoop cs 2 (v % 16) 0).map ((left * 4 + v / 16) :: ·)
        | 2 => (b64decLoop cs 3 (v % 4) 0).map ((left * 16 + v / 4) :: ·)
        | _ => (b64decLoop cs 0 0 0).map ((left * 64 + v) :: ·)

/-- `base64.b64decode(s)` (lenient); `none` = `binascii.Error` -/
def b64decodeLenient (s : List Nat) : Option (List Nat) := b64decLoop s 0 0 0

end Fc
