/-
  FcModel.C18XmlLite — `XmlLite`: a tag-balance scanner for the restricted XML that the VTK writers (and the
  harness' generators) emit, and a serializer for documents of that shape (work package C18).

  The scanner is a finite-state machine over bytes with a depth counter:
    declaration `<?…?>` (only before the root element), start tags `<name attr="value" …>`, empty-element tags
    `<name …/>`, end tags `</name>`, text.  Attribute values are double-quoted; a `<` inside a tag or a value,
    non-blank text outside the root element, a second root element and an end tag at depth 0 are errors.
  It accepts iff it is outside every tag, the depth is back to 0 and a root element has been seen.  It does NOT
  check that end-tag names match, nor entity references, nor the character set: it is an *upper bound* on
  well-formedness, which is what the prefix theorem (FcProofs/Props/C18.lean: `C18_xml_prefix`) needs —
  "every strict prefix is rejected even by this lenient scanner".  The harness compares its verdict with expat's
  on every enumerated cut (harness/corr/c18.py: `corr_xml`).

  Core Lean only (linked into `fcdrv`).
-/
namespace Fc.XmlLite

inductive Mode where
  | text      -- outside every tag
  | lt        -- just behind `<`
  | decl      -- inside `<?…`
  | declQ     -- inside a declaration, just behind a `?`
  | stag      -- inside a start / empty-element tag, outside quotes
  | quot      -- inside a quoted attribute value
  | slash     -- behind the `/` of `…/>`
  | etag      -- inside an end tag
  | err
deriving Repr, DecidableEq

structure St where
  mode : Mode
  depth : Nat
  seen : Bool        -- a root element has been opened
deriving Repr, DecidableEq

def isWs (c : Nat) : Bool := c == 32 || c == 10 || c == 9 || c == 13

def isNameStart (c : Nat) : Bool := (65 ≤ c && c ≤ 90) || (97 ≤ c && c ≤ 122) || c == 95

def isNameChar (c : Nat) : Bool := isNameStart c || (48 ≤ c && c ≤ 57) || c == 45 || c == 46 || c == 58

def step (s : St) (c : Nat) : St :=
  match s.mode with
  | .err => s
  | .text =>
    if c = 60 then { s with mode := .lt }
    else if s.depth = 0 ∧ isWs c = false then { s with mode := .err }
    else s
  | .lt =>
    if c = 63 then (if s.depth = 0 ∧ s.seen = false then { s with mode := .decl } else { s with mode := .err })
    else if c = 47 then { s with mode := .etag }
    else if isNameStart c = true then
      (if s.depth = 0 ∧ s.seen = true then { s with mode := .err } else { s with mode := .stag })
    else { s with mode := .err }
  | .decl => if c = 63 then { s with mode := .declQ } else s
  | .declQ =>
    if c = 62 then { s with mode := .text }
    else if c = 63 then s
    else { s with mode := .decl }
  | .stag =>
    if c = 34 then { s with mode := .quot }
    else if c = 47 then { s with mode := .slash }
    else if c = 62 then ⟨.text, s.depth + 1, true⟩
    else if c = 60 then { s with mode := .err }
    else s
  | .quot =>
    if c = 34 then { s with mode := .stag }
    else if c = 60 then { s with mode := .err }
    else s
  | .slash => if c = 62 then ⟨.text, s.depth, true⟩ else { s with mode := .err }
  | .etag =>
    if c = 62 then (if s.depth = 0 then { s with mode := .err } else ⟨.text, s.depth - 1, s.seen⟩)
    else if c = 60 then { s with mode := .err }
    else s

def init : St := ⟨.text, 0, false⟩

def run (s : St) (cs : List Nat) : St := cs.foldl step s

def accept (s : St) : Bool := s.mode == .text && s.depth == 0 && s.seen

/-- the verdict on a byte string: `true` = a complete document of the restricted shape -/
def scan (cs : List Nat) : Bool := accept (run init cs)

/-! ### documents and their serialization -/

abbrev Attrs := List (List Nat × List Nat)

/-- a sequence of sibling nodes (first node, then the remaining siblings) -/
inductive Forest where
  | nil
  | text (t : List Nat) (rest : Forest)
  | empty (name : List Nat) (attrs : Attrs) (rest : Forest)                 -- `<name …/>`
  | elem (name : List Nat) (attrs : Attrs) (children rest : Forest)         -- `<name …>children</name>`
deriving Repr

/-- ` name="value"` for every attribute -/
def serAttrs (a : Attrs) : List Nat := a.flatMap fun kv => 32 :: kv.1 ++ [61, 34] ++ kv.2 ++ [34]

def Forest.ser : Forest → List Nat
  | .nil => []
  | .text t r => t ++ r.ser
  | .empty n a r => 60 :: n ++ serAttrs a ++ [47, 62] ++ r.ser
  | .elem n a ch r => 60 :: n ++ serAttrs a ++ [62] ++ ch.ser ++ [60, 47] ++ n ++ [62] ++ r.ser

def nameOk (n : List Nat) : Bool :=
  match n with
  | [] => false
  | c :: r => isNameStart c && r.all isNameChar

/-- attribute values: no `"`, no `<`, no `&` -/
def attrsOk (a : Attrs) : Bool := a.all fun kv => nameOk kv.1 && kv.2.all fun c => c != 34 && c != 60 && c != 38

def Forest.wf : Forest → Bool
  | .nil => true
  | .text t r => t.all (fun c => c != 60 && c != 38) && r.wf
  | .empty n a r => nameOk n && attrsOk a && r.wf
  | .elem n a ch r => nameOk n && attrsOk a && ch.wf && r.wf

/-- a document: optional declaration, blanks, ONE root element, blanks -/
structure Doc where
  decl : Option (List Nat)       -- what stands between `<?` and `?>`
  ws1 : List Nat
  name : List Nat
  attrs : Attrs
  body : Option Forest           -- `none`: the root is an empty-element tag
  ws2 : List Nat
deriving Repr

def Doc.wf (d : Doc) : Bool :=
  (match d.decl with | none => true | some t => t.all (· != 63)) &&
  d.ws1.all isWs && d.ws2.all isWs && nameOk d.name && attrsOk d.attrs &&
  (match d.body with | none => true | some f => f.wf)

def Doc.prolog (d : Doc) : List Nat :=
  (match d.decl with | none => [] | some t => [60, 63] ++ t ++ [63, 62]) ++ d.ws1

/-- the root element without its very last byte `>` -/
def Doc.rootInit (d : Doc) : List Nat :=
  match d.body with
  | none => 60 :: d.name ++ serAttrs d.attrs ++ [47]
  | some f => 60 :: d.name ++ serAttrs d.attrs ++ [62] ++ f.ser ++ [60, 47] ++ d.name

def Doc.ser (d : Doc) : List Nat := d.prolog ++ d.rootInit ++ [62] ++ d.ws2

end Fc.XmlLite
