/-
  FcModel.Effects — property C19 ("comparing is free of side effects and repeatable").

  A pure language cannot mutate, so storage and aliasing are modelled explicitly:

  (1) **Effect summaries.**  Every numpy array has an identity (`Nat`).  A data set object exposes
      *slots* (points, connectivity per cell type, point/cell field values); a slot either hands out a
      **stored** array (the caller receives the object's own storage — `Mesh.points`, `as_array`) or is
      **computed** on every access (fancy indexing of a `PermutedMesh` / `TransformedMeshFields` returns a
      new array each time).  Every public operation has a hand-written summary, written from the code:
      which stored arrays it reads, which arrays it writes, which it allocates, and which slots of its
      result alias which existing arrays.  `World` carries the pool of objects, the allocation counter and
      the accumulated set of written identities.

  (2) **State machines.**  `PredObj` is a FuzzyEquality/DefaultEquality/ExactEquality object with its
      mutable fields `_rel_tol/_abs_tol` and `_last_used_rel_tol/_last_used_abs_tol`;
      `runComparator` is `MeshFieldsComparator.__call__` over its mutable `_source/_reference`,
      abstract in the data-set type and in the operations owned by other properties.

  The summaries are *hand-written*: their tie to the code is the snapshot correspondence of
  harness/corr/c19.py (bytes of every tracked array before/after every operation, `np.shares_memory`
  of every exposed result array against every tracked array).
-/
import FcModel.Predicates
namespace Fc.C19

-- array identities are natural numbers (`Nat` in the comments)

/-! ## (1) objects, slots, world -/

inductive Slot where
  | stored (i : Nat)     -- the object hands out its own storage
  | computed               -- a new array on every access
deriving Repr, DecidableEq

structure EField where
  name : String
  tail : List Nat          -- shape[1:]
  slot : Slot
deriving Repr, DecidableEq

structure ECellField where
  name : String
  ctype : String
  tail : List Nat
  slot : Slot
deriving Repr, DecidableEq

/-- a MeshFields / TransformedMeshFields / meshio.Mesh as the effect model sees it -/
structure EObj where
  dim : Nat
  points : Slot
  conn : List (String × Slot)
  pf : List EField
  cf : List ECellField
  /-- stored arrays that computed slots are computed from (reads on access) -/
  deps : List Nat
deriving Repr, DecidableEq

def Slot.ids : Slot → List Nat
  | .stored i => [i]
  | .computed => []

/-- identities of the arrays an object hands out -/
def EObj.storedIds (o : EObj) : List Nat :=
  o.points.ids ++ o.conn.flatMap (·.2.ids) ++ o.pf.flatMap (·.slot.ids) ++ o.cf.flatMap (·.slot.ids)

/-- every array reachable from the object (read when it is used) -/
def EObj.reach (o : EObj) : List Nat := o.storedIds ++ o.deps

structure World where
  next : Nat                    -- allocation counter: identities `< next` exist
  objs : List EObj                -- the pool; operations refer to objects by index
  written : List Nat            -- every identity written so far
  files : Nat                     -- number of files created so far (each one explicitly requested)
deriving Repr

def World.reachable (w : World) : List Nat := w.objs.flatMap EObj.reach

/-- allocate `k` new arrays -/
def World.alloc (w : World) (k : Nat) : World × List Nat :=
  ({ w with next := w.next + k }, List.range' w.next k)

/-- what one access to a slot returns: the stored array, or a newly allocated one.
    Returns the array and whether it is new. -/
def World.access (w : World) : Slot → World × Nat
  | .stored i => (w, i)
  | .computed => ({ w with next := w.next + 1 }, w.next)

def accessMany {α} (w : World) (slotOf : α → Slot) (mk : α → Nat → α) : List α → World × List α
  | [] => (w, [])
  | x :: xs =>
    let (w1, i) := w.access (slotOf x)
    let (w2, r) := accessMany w1 slotOf mk xs
    (w2, mk x i :: r)

/-- allocate one new stored array per list element -/
def freshMany {α} (w : World) (mk : α → Nat → α) : List α → World × List α
  | [] => (w, [])
  | x :: xs =>
    let (w2, r) := freshMany { w with next := w.next + 1 } mk xs
    (w2, mk x w.next :: r)

/-- `extend_space_dimension_to` on a list of fields: a field whose entry shape is smaller than the target
    gets a new zero-padded array (allocated and written by slice assignment); the others are handed on.
    Returns the world, the new fields and the arrays that were allocated-and-written. -/
def extendMany {α} (n : Nat) (tailOf : α → List Nat) (slotOf : α → Slot) (mk : α → List Nat → Nat → α)
    (grows : List Nat → Bool) (w : World) : List α → World × List α × List Nat
  | [] => (w, [], [])
  | f :: fs =>
    if grows (tailOf f) then
      let r := extendMany n tailOf slotOf mk grows { w with next := w.next + 1 } fs
      (r.1, mk f ((tailOf f).map fun _ => n) w.next :: r.2.1, w.next :: r.2.2)
    else
      let a := w.access (slotOf f)
      let r := extendMany n tailOf slotOf mk grows a.1 fs
      (r.1, mk f (tailOf f) a.2 :: r.2.1, r.2.2)

/-- `_merge` on the cell fields: concatenated (new array) where both pieces carry the field on that cell type,
    otherwise the one piece's own array is handed on -/
def mergeMany {α} (slotOf : α → Slot) (mk : α → Nat → α) (both : α → Bool) (w : World) : List α → World × List α
  | [] => (w, [])
  | f :: fs =>
    if both f then
      let r := mergeMany slotOf mk both { w with next := w.next + 1 } fs
      (r.1, mk f w.next :: r.2)
    else
      let a := w.access (slotOf f)
      let r := mergeMany slotOf mk both a.1 fs
      (r.1, mk f a.2 :: r.2)

inductive ViewKind where
  | sort | sortPoints | sortCells | strip
deriving Repr, DecidableEq

/-- public operations on pool objects.  `toMeshioInPlace` is the summary of `to_meshio` *before* the
    repair of defect F10 (kept to show that the no-write theorem is not vacuous); it is not an operation
    of the current code. -/
inductive EOp where
  | compare (s r : Nat)            -- MeshFieldsComparator(pool[s], pool[r])(…), same or new comparator object
  | equals (a b : Nat)             -- pool[a].domain.equals(pool[b].domain)
  | predEval (a b : Nat)           -- a predicate object evaluated on the fields of two pool objects
  | view (k : ViewKind) (o : Nat)  -- sort / sort_points / sort_cells / strip_orphan_points
  | extend (o : Nat) (dim : Nat)   -- extend_space_dimension_to(dim, pool[o])
  | merge (a b : Nat) (allDuplicates : Bool)
  | diff (src ref : Nat)           -- pool[src].diff_to(pool[ref])
  | write (o : Nat)                -- fieldcompare.io.write(pool[o], <requested name>)
  | toMeshio (o : Nat)
  | fromMeshio (o : Nat)
  | toMeshioInPlace (o : Nat)
deriving Repr, DecidableEq

def EOp.isCurrent : EOp → Bool
  | .toMeshioInPlace _ => false
  | _ => true

/-- one step of a history; `ok = false`: the operation raised (no result object) -/
structure EStep where
  op : EOp
  ok : Bool
deriving Repr, DecidableEq

structure Effect where
  reads : List Nat
  writes : List Nat
  fresh : List Nat
  /-- `some (.inl k)`: the operation returned pool object `k` itself; `some (.inr o)`: a new object -/
  result : Option (Nat ⊕ EObj)
  filesCreated : Nat
deriving Repr

def getObj (w : World) (k : Nat) : EObj := w.objs.getD k ⟨0, .computed, [], [], [], []⟩

def isScalarTail (t : List Nat) : Bool := t == [] || t == [1]

/-- does `extend_space_dimension_to` allocate a new array for a field of this entry shape? -/
def extendsField (n : Nat) (tail : List Nat) : Option Bool :=
  if isScalarTail tail then some false
  else match tail with
    | [k] => some (decide (k < n))
    | [k, l] => some (decide (k < n) && decide (l < n))
    | _ => none          -- "Unsupported field shape"

def meshioTypeName (ct : String) : String :=
  if ct == "PIXEL" then "QUAD" else if ct == "VOXEL" then "HEXAHEDRON" else ct

/-- slots of a view (`TransformedMeshFields` over a `PermutedMesh`) -/
def viewObj (k : ViewKind) (o : EObj) : EObj :=
  let pointPerm := k != .sortCells          -- a point permutation is set
  let cellPerm := k == .sortCells || k == .sort
  -- points / point data: fancy-indexed iff a point permutation is set, else the underlying array itself
  let pslot : Slot → Slot := fun s => if pointPerm then .computed else s
  -- connectivity: `inverse[corners]` iff a point permutation is set, `data[perm]` iff cell permutations are set
  let cslot : Slot → Slot := fun s => if pointPerm || cellPerm then .computed else s
  let dslot : Slot → Slot := fun s => if cellPerm then .computed else s
  { dim := o.dim
    points := pslot o.points
    conn := o.conn.map fun c => (c.1, cslot c.2)
    pf := o.pf.map fun f => { f with slot := pslot f.slot }
    cf := o.cf.map fun f => { f with slot := dslot f.slot }
    deps := o.reach }

/-- number of temporary arrays an operation allocates *and writes* (index maps filled by item
    assignment, row-sorted corner copies, `thresholds *= rel_tol`, NaN-filled arrays, …) -/
def tempsOf (w : World) : EOp → Nat
  | .compare s r => 4 * (2 + 2 * (getObj w s).conn.length + (getObj w r).pf.length + (getObj w r).cf.length)
  | .equals a _ => 2 + 2 * (getObj w a).conn.length
  | .predEval a _ => 2 * ((getObj w a).pf.length + (getObj w a).cf.length)
  | .view .sort _ => 7
  | .view .sortPoints _ => 3
  | .view .sortCells _ => 1
  | .view .strip _ => 3
  | .extend _ _ => 0
  | .merge _ _ _ => 3
  | .diff _ _ => 2
  | .write o => 1 + (getObj w o).pf.length
  | .toMeshio _ => 0
  | .fromMeshio _ => 0
  | .toMeshioInPlace _ => 0

def operands : EOp → List Nat
  | .compare s r => [s, r]
  | .equals a b => [a, b]
  | .predEval a b => [a, b]
  | .view _ o => [o]
  | .extend o _ => [o]
  | .merge a b _ => [a, b]
  | .diff s r => [s, r]
  | .write o => [o]
  | .toMeshio o => [o]
  | .fromMeshio o => [o]
  | .toMeshioInPlace o => [o]

/-- result object of an operation that succeeded, built in world `w` (allocating what the code
    allocates); also returns the additional arrays written because they are results filled in place -/
def resultOf (w : World) : EOp → World × Option (Nat ⊕ EObj) × List Nat
  | .compare _ _ => (w, none, [])
  | .equals _ _ => (w, none, [])
  | .predEval _ _ => (w, none, [])
  | .write _ => (w, none, [])
  | .view k o => (w, some (.inr (viewObj k (getObj w o))), [])
  | .fromMeshio o =>
    -- Mesh(mesh.points, (type, block.data)…), point_data / cell_data through `as_array`: all aliases
    let m := getObj w o
    let (w1, p) := w.access m.points
    let (w2, conn) := accessMany w1 (·.2) (fun c i => (c.1, Slot.stored i)) m.conn
    let (w3, pf) := accessMany w2 (·.slot) (fun f i => { f with slot := .stored i }) m.pf
    let (w4, cf) := accessMany w3 (·.slot) (fun f i => { f with slot := .stored i }) m.cf
    (w4, some (.inr ⟨m.dim, .stored p, conn, pf, cf, []⟩), [])
  | .toMeshio o =>
    -- points and point data: the arrays handed out by the object; connectivity: `connectivity.copy()`
    -- for every type (reordered in the copy for pixel/voxel); cell data: lists rebuilt → new arrays
    let m := getObj w o
    let (w1, p) := w.access m.points
    let (w2, conn) := freshMany w1 (fun c i => (meshioTypeName c.1, Slot.stored i)) m.conn
    let (w3, pf) := accessMany w2 (·.slot) (fun f i => { f with slot := .stored i }) m.pf
    let (w4, cf) := freshMany w3 (fun f i => { f with ctype := meshioTypeName f.ctype, slot := .stored i }) m.cf
    -- rows of pixel / voxel blocks are re-assigned *in the copy*
    let px := (List.zip m.conn conn).filter (fun p => p.1.1 == "PIXEL" || p.1.1 == "VOXEL")
    (w4, some (.inr ⟨m.dim, .stored p, conn, pf, cf, []⟩), px.flatMap (·.2.2.ids))
  | .toMeshioInPlace o =>
    -- pre-fix: `reordered = connectivity` aliases the mesh's own array, rows are assigned in place
    let m := getObj w o
    let (w1, p) := w.access m.points
    let (w2, conn) := accessMany w1 (·.2) (fun c i => (meshioTypeName c.1, Slot.stored i)) m.conn
    let (w3, pf) := accessMany w2 (·.slot) (fun f i => { f with slot := .stored i }) m.pf
    let (w4, cf) := freshMany w3 (fun f i => { f with ctype := meshioTypeName f.ctype, slot := .stored i }) m.cf
    let px := (List.zip m.conn conn).filter (fun p => p.1.1 == "PIXEL" || p.1.1 == "VOXEL")
    (w4, some (.inr ⟨m.dim, .stored p, conn, pf, cf, []⟩), px.flatMap (·.2.2.ids))
  | .extend o n =>
    let m := getObj w o
    if n == m.dim then (w, some (.inl o), [])
    else
      -- new Mesh with zero-padded points (allocated, written by slice assignment); connectivity as handed out
      let (w1, pts) := w.alloc 1
      let (w2, conn) := accessMany w1 (·.2) (fun c i => (c.1, Slot.stored i)) m.conn
      let grows : List Nat → Bool := fun t => (extendsField n t).getD false
      let (w3, pf, wr1) := extendMany n (·.tail) (·.slot) (fun (f : EField) t i => { f with tail := t, slot := .stored i }) grows w2 m.pf
      let (w4, cf, wr2) := extendMany n (·.tail) (·.slot) (fun (f : ECellField) t i => { f with tail := t, slot := .stored i }) grows w3 m.cf
      (w4, some (.inr ⟨n, .stored (pts.headD 0), conn, pf, cf, []⟩), pts ++ wr1 ++ wr2)
  | .merge a b allDup =>
    if allDup then (w, some (.inl a), [])
    else
      let m1 := getObj w a
      let m2 := getObj w b
      -- points: concatenate → new; connectivity: make_array copies (remapped in place), concatenated → new
      let (w1, pts) := w.alloc 1
      let types := m1.conn.map (·.1) ++ (m2.conn.map (·.1)).filter (fun t => !(m1.conn.map (·.1)).contains t)
      let (w2, conn) := freshMany w1 (fun (t : String × Slot) i => (t.1, Slot.stored i)) (types.map fun t => (t, Slot.computed))
      -- point fields: always concatenated → new
      let pnames : List EField := m1.pf ++ m2.pf.filter (fun f => !(m1.pf.any (·.name == f.name)))
      let (w3, pf) := freshMany w2 (fun f i => { f with slot := .stored i }) pnames
      -- cell fields: concatenated (new) if both sides carry (name, type); otherwise the one side's array itself
      let cnames : List ECellField := m1.cf ++ m2.cf.filter (fun f => !(m1.cf.any fun g => g.name == f.name && g.ctype == f.ctype))
      let both : ECellField → Bool := fun f =>
        (m1.cf.any fun g => g.name == f.name && g.ctype == f.ctype) && (m2.cf.any fun g => g.name == f.name && g.ctype == f.ctype)
      let (w4, cf) := mergeMany (·.slot) (fun (f : ECellField) i => { f with slot := .stored i }) both w3 cnames
      (w4, some (.inr ⟨m1.dim, .stored (pts.headD 0), conn, pf, cf, []⟩), conn.flatMap (·.2.ids))
  | .diff s r =>
    -- `MeshFields(mesh=fields1.domain, …)`: the reference's domain object itself; every field array is new
    -- (a subtraction result, or `make_array(…, dtype=float)` filled with NaN in place)
    let ms := getObj w s
    let mr := getObj w r
    let pnames : List EField := mr.pf ++ ms.pf.filter (fun f => !(mr.pf.any (·.name == f.name)))
    let (w1, pf) := freshMany w (fun f i => { f with slot := .stored i }) pnames
    let cnames : List ECellField := mr.cf ++ ms.cf.filter (fun f => !(mr.cf.any fun g => g.name == f.name && g.ctype == f.ctype))
    let cnames := cnames.filter fun f => (mr.conn.map (·.1)).contains f.ctype
    let (w2, cf) := freshMany w1 (fun f i => { f with slot := .stored i }) cnames
    (w2, some (.inr ⟨mr.dim, mr.points, mr.conn, pf, cf, mr.deps⟩), pf.flatMap (·.slot.ids) ++ cf.flatMap (·.slot.ids))

/-- the effect summary of one step in world `w`, and the world after it -/
def stepEffect (w : World) (s : EStep) : World × Effect :=
  let reads := (operands s.op).flatMap fun k => (getObj w k).reach
  -- temporaries: allocated and written
  let (w1, temps) := w.alloc (tempsOf w s.op)
  if !s.ok then
    ({ w1 with written := w1.written ++ temps }, ⟨reads, temps, temps, none, 0⟩)
  else
    let (w2, res, filled) := resultOf w1 s.op
    let fresh := List.range' w.next (w2.next - w.next)
    let objs := match res with
      | some (.inr o) => w2.objs ++ [o]
      | some (.inl k) => w2.objs ++ [getObj w2 k]
      | none => w2.objs
    let nfiles := match s.op with | .write _ => 1 | _ => 0
    ({ w2 with objs := objs, written := w2.written ++ temps ++ filled, files := w2.files + nfiles },
     ⟨reads, temps ++ filled, fresh, res, nfiles⟩)

def runSteps (w : World) : List EStep → World
  | [] => w
  | s :: r => runSteps (stepEffect w s).1 r

/-- the effects of a history, step by step -/
def effectsOf (w : World) : List EStep → List Effect
  | [] => []
  | s :: r => (stepEffect w s).2 :: effectsOf (stepEffect w s).1 r

/-- identities written by step `e` that existed before the step (`next0` = counter before it) -/
def Effect.writesToExisting (e : Effect) (next0 : Nat) : List Nat := e.writes.filter (· < next0)

/-! ### contents: a heap of array contents, written only where the summaries say -/

abbrev Heap := Nat → Nat

/-- after a step the written arrays hold arbitrary new contents `junk`, all others keep theirs -/
def heapAfter (h : Heap) (e : Effect) (junk : Heap) : Heap :=
  fun i => if e.writes.contains i then junk i else h i

def runHeap (w : World) (h : Heap) (junk : Nat → Heap) : List EStep → Heap
  | [] => h
  | s :: r => runHeap (stepEffect w s).1 (heapAfter h (stepEffect w s).2 (junk r.length)) junk r

/-! ## (2a) predicate objects -/

inductive PredKind where
  | fuzzy | default | exact
deriving Repr, DecidableEq

structure PredObj where
  kind : PredKind
  rel : Tol
  abs : Tol
  lastRel : Option RTol       -- `_last_used_rel_tol`
  lastAbs : Option RTol       -- `_last_used_abs_tol`
deriving Repr, DecidableEq

def PredObj.fresh (kind : PredKind) (rel abs : Tol) : PredObj := ⟨kind, rel, abs, none, none⟩

/-- the verdict as a function of the configuration only -/
def verdictOf (kind : PredKind) (rel abs : Tol) (a b : NdArr) : Verdict :=
  match kind with
  | .fuzzy => fuzzyCheck rel abs a b
  | .default => defaultCheck rel abs a b
  | .exact => exactCheck a b

/-- tolerance stored by `_check` (`self._last_used_… = self._get_tol(…)`); `none` = `_get_tol` raised -/
def resolvedFor (t : Tol) (a b : NdArr) : Option RTol :=
  match a.dtype, b.dtype with
  | .flt F, .flt G => resolveTol (if F.prec ≥ G.prec then F else G) t a b
  | .flt F, _ => resolveTol F t a b
  | _, .flt G => resolveTol G t a b
  | _, _ => resolveTol f64 t a b

/-- the object after one call `p(a, b)`: `_check` stores the resolved tolerances once the shapes agree -/
def PredObj.remember (p : PredObj) (a b : NdArr) : PredObj :=
  let fuzzyPath := match p.kind with
    | .fuzzy => true
    | .default => a.dtype.hasFloats || b.dtype.hasFloats
    | .exact => false
  let sh := reshapePair a.shape b.shape
  if fuzzyPath && sh.1 == sh.2 then
    let a' := { a with shape := sh.1 }
    let b' := { b with shape := sh.2 }
    match resolvedFor p.rel a' b' with
    | none => p                                  -- `_get_tol` raised before anything was stored
    | some r =>
      match resolvedFor p.abs a' b' with
      | none => { p with lastRel := some r }
      | some t => { p with lastRel := some r, lastAbs := some t }
  else p

/-- one call `p(a, b)`: the object afterwards, and the verdict -/
def PredObj.call (p : PredObj) (a b : NdArr) : PredObj × Verdict :=
  (p.remember a b, verdictOf p.kind p.rel p.abs a b)

inductive PredEvent where
  | call (a b : NdArr)
  | setRel (t : Tol)          -- `p.relative_tolerance = t`
  | setAbs (t : Tol)
deriving Repr, DecidableEq

/-- run a history on one object; returns the verdicts of the calls in order -/
def runPred (p : PredObj) : List PredEvent → PredObj × List Verdict
  | [] => (p, [])
  | .call a b :: r =>
    let (p1, v) := p.call a b
    let (p2, vs) := runPred p1 r
    (p2, v :: vs)
  | .setRel t :: r => runPred { p with rel := t } r
  | .setAbs t :: r => runPred { p with abs := t } r

/-! ## (2b) `MeshFieldsComparator.__call__` over its mutable `_source/_reference` -/

/-- the operations the comparator uses; they belong to other properties (C02, C08, C16, C17) and are
    parameters here.  `D` = data sets (views), `S` = comparison suites. -/
structure LadderOps (D S : Type) where
  cmp : D → D → S                  -- FieldDataComparator(source, reference)(…)
  ok : S → Bool                    -- suite.domain_equality_check
  dim : D → Nat                    -- domain.points.shape[1]
  structured : D → Bool            -- isinstance(domain, StructuredMesh)
  ext : Nat → D → D                -- extend_space_dimension_to
  perm : D → D                     -- strip_orphan_points (unless disabled), then sort_points
  sortc : D → D                    -- sort_cells

structure CmpFlags where
  noReorder : Bool
  noDimMatch : Bool
deriving Repr, DecidableEq

structure CmpState (D : Type) where
  src : D
  ref : D

/-- result of one `__call__`: the suite, the number of `reordering_callback` invocations, the object's
    state afterwards -/
structure CmpRun (D S : Type) where
  suite : S
  callbacks : Nat
  state : CmpState D

def runComparator {D S} (L : LadderOps D S) (fl : CmpFlags) (st : CmpState D) : CmpRun D S :=
  let s0 := L.cmp st.src st.ref
  if L.ok s0 then ⟨s0, 0, st⟩
  else
    -- (maybe) retry with matching space dimension
    let needExt := L.dim st.src != L.dim st.ref && !fl.noDimMatch
    let m := max (L.dim st.src) (L.dim st.ref)
    let st1 : CmpState D := if needExt then ⟨L.ext m st.src, L.ext m st.ref⟩ else st
    let s1 := if needExt then L.cmp st1.src st1.ref else s0
    let n1 := if needExt then 1 else 0
    if needExt && L.ok s1 then ⟨s1, n1, st1⟩
    else if !fl.noReorder && L.structured st1.src && L.structured st1.ref then
      -- "Skipping mesh reordering because both meshes are structured", then the final failure message
      ⟨s1, n1 + 2, st1⟩
    else if !fl.noReorder then
      let st2 : CmpState D := ⟨L.perm st1.src, L.perm st1.ref⟩
      let s2 := L.cmp st2.src st2.ref
      if L.ok s2 then ⟨s2, n1 + 1, st2⟩
      else
        let st3 : CmpState D := ⟨L.sortc st2.src, L.sortc st2.ref⟩
        let s3 := L.cmp st3.src st3.ref
        ⟨s3, n1 + 2 + (if L.ok s3 then 0 else 1), st3⟩
    else ⟨s1, n1 + 1, st1⟩

/-- the suites of `k` consecutive calls of one comparator object -/
def rerun {D S} (L : LadderOps D S) (fl : CmpFlags) : Nat → CmpState D → List S
  | 0, _ => []
  | k + 1, st =>
    let r := runComparator L fl st
    r.suite :: rerun L fl k r.state

end Fc.C19
