/-
  FcModel.MeshEqual — model of fieldcompare/mesh/_mesh_equal.py (`mesh_equal`), of
  `CellType.is_compatible_with`, and of the `equals` methods of `Mesh` and `PermutedMesh`,
  written at the level of what the code does:

    rel_tol, abs_tol   = min of both sides' tolerances unless given            (`meshEqual`)
    points             FuzzyEquality(rel, abs) on the two point arrays          (`Fc.fuzzyCheck`)
    cell types         source_only / target_only, `_without_compatibles`, non-empty ⇒ unequal
    per source type    target type = the same type if present, else `_find_compatible` (raises
                       when there is none), number of cells, ExactEquality on the row-wise sorted
                       corner arrays                                             (`Fc.exactCheck`)

  The compatibility table `Gen.C16.compatPairs` is regenerated from the source text on every run
  (harness/fcv/tables/celltypes.py).  Cell types are identified by their VTK names; the table
  facts that make names and ids interchangeable are proved in FcProofs/Props/C16.lean.
-/
import FcModel.Mesh
import FcGen.Tables
namespace Fc.C03
open Fc

/-! ### cell-type compatibility -/

/-- `c1.is_compatible_with(c2)`: same type, or `c2.id in _COMPATIBLES.get(c1.id, [])` -/
def compatible (c1 c2 : String) : Bool :=
  c1 == c2 || Gen.C16.compatPairs.contains (c1, c2)

/-- the same on VTK ids (what the Python code literally evaluates) -/
def compatibleId (i1 i2 : Nat) : Bool :=
  i1 == i2 || Gen.C16.compatIdPairs.contains (i1, i2)

/-- `CellType.from_name(name).id` -/
def cellTypeId (name : String) : Option Nat :=
  (Gen.C16.cellTypeTable.find? (·.2 == name)).map (·.1)

/-- `_without_compatibles(source_only, target_only)`: every pair (c1, c2) of the product with
    `c1.is_compatible_with(c2)` removes both members from the union -/
def withoutCompatibles (so to : List String) : List String :=
  let toRemove := so.flatMap fun c1 => to.flatMap fun c2 => if compatible c1 c2 then [c1, c2] else []
  (so ++ to).filter fun c => !toRemove.contains c

/-- `_find_compatible(cts, ct)`: the first `c` of `cts` with `c.is_compatible_with(ct)`;
    `none` = RuntimeError.  (The iteration order of the Python set is unspecified; the table is
    proved to have at most one candidate, `C16_compat_functional`.) -/
def findCompatible (cts : List String) (ct : String) : Option String :=
  cts.find? fun c => compatible c ct

/-- the type of the target whose cells are compared with the source's cells of type `ct` -/
def targetType (tct : List String) (ct : String) : Option String :=
  if tct.contains ct then some ct else findCompatible tct ct

/-! ### sorted corner arrays -/

def insertNat (a : Nat) : List Nat → List Nat
  | [] => [a]
  | b :: l => if a ≤ b then a :: b :: l else b :: insertNat a l

/-- `row.sort()` — any correct sort of integers gives this list; insertion sort is used because
    it is structurally recursive (the kernel can evaluate it in the witness files) -/
def sortRow : List Nat → List Nat
  | [] => []
  | a :: l => insertNat a (sortRow l)

/-- `_get_fixed_size_corner_indices_sorted` -/
def sortedRows (rows : List (List Nat)) : List (List Nat) := rows.map sortRow

/-- an (ncells, ncorners) integer array; the corner count is read off the first row -/
def cornerArr (rows : List (List Nat)) : NdArr :=
  ⟨.int true 64, [rows.length, (rows.head?.map List.length).getD 0], rows.flatten.map Int.ofNat⟩

/-- the (npoints, dim) float64 point array -/
def pointArr (m : Mesh) : NdArr := ⟨.flt f64, [m.points.length, m.dim], m.points.flatten⟩

/-! ### `mesh_equal` -/

/-- the loop `for cell_type in source.cell_types` -/
def cellLoop (A B : Mesh) : List String → Verdict
  | [] => .ok true
  | ct :: rest =>
    match targetType B.cellTypes ct with
    | none => .err                                   -- RuntimeError("Could not find compatible cell type")
    | some t =>
      if (A.cellsOf ct).length ≠ (B.cellsOf t).length then .ok false
      else
        match exactCheck (cornerArr (sortedRows (A.cellsOf ct))) (cornerArr (sortedRows (B.cellsOf t))) with
        | .ok true => cellLoop A B rest
        | v => v

/-- the cell-type part of `mesh_equal` (everything after the point comparison) -/
def cellsEqual (A B : Mesh) : Verdict :=
  let sct := A.cellTypes
  let tct := B.cellTypes
  let sourceOnly := sct.filter fun c => !tct.contains c
  let targetOnly := tct.filter fun c => !sct.contains c
  if (withoutCompatibles sourceOnly targetOnly).length ≠ 0 then .ok false
  else cellLoop A B sct

/-- `mesh_equal(source, target, rel_tol=rel, abs_tol=abs)` with both tolerances given -/
def meshEqualWith (rel abs : Nat) (A B : Mesh) : Verdict :=
  match fuzzyCheck (.num rel) (.num abs) (pointArr A) (pointArr B) with
  | .ok true => cellsEqual A B
  | v => v

/-- a mesh together with the tolerances it reports (`relative_tolerance`, `absolute_tolerance`) -/
structure TMesh where
  mesh : Mesh
  rel : Nat
  abs : Nat
deriving Repr, DecidableEq

/-- `Mesh.equals(other)` = `mesh_equal(self, other)`: the smaller tolerance of either side -/
def meshEqual (A B : TMesh) : Verdict :=
  meshEqualWith (min A.rel B.rel) (min A.abs B.abs) A.mesh B.mesh

/-- `PermutedMesh.equals(other)` = `mesh_equal(self, other, abs_tol=self.abs, rel_tol=self.rel)`:
    the receiver's tolerances only (`A.mesh` holds the view's points and connectivity) -/
def permutedEqual (A B : TMesh) : Verdict :=
  meshEqualWith A.rel A.abs A.mesh B.mesh

/-- largest coordinate magnitude, `max_abs_value(points)` -/
def maxAbsList (l : List Int) : Nat := l.foldl (fun m x => max m x.natAbs) 0

/-- `max_abs_value(points) * default_mesh_relative_tolerance()` : one binary64 product -/
def defaultAbsTolOf (maxAbs : Nat) : Option Nat := rndMag f64 (maxAbs * Gen.C16.meshDefaultRelTol) UNIT

def meshDefaultAbsTol (m : Mesh) : Option Nat := defaultAbsTolOf (maxAbsList m.points.flatten)

/-! ### well-formedness (the decidable hypothesis of the C03 / C16 theorems) -/

/-- every point has `dim` coordinates; the type blocks carry pairwise different types (the Python
    mesh keeps them in a dict); the rows of one block have one common length (a numpy 2-d array) -/
def wfEq (m : Mesh) : Bool :=
  m.points.all (·.length == m.dim) &&
  decide m.cellTypes.Nodup &&
  m.cells.all fun b => b.2.all fun row => row.length == (b.2.head?.map List.length).getD 0

end Fc.C03
