/-
  FcModel.VtuWriter — model of `fieldcompare/io/vtk/_vtu_writer.py` (VTUWriter) and of the part of the
  VTK-XML reader that reads such files back (`_xml_reader.py`, `_vtu_reader.py`,
  `_compressors.NoCompressor`, `_encoders.Base64Encoder`), at byte level.  Work package C13.
  Everything lives in namespace `Fc.W` (independent of the general reader model of C05).

  Bytes and base64 characters are `Nat`s (a byte is `< 256`; the well-formedness predicates say so
  where it matters).  A scalar of a numeric array is transported as its *bit pattern*
  (`Nat < 2^(8·itemsize)`, host order little endian), so "bit-identical" is literal.
  The XML layer (ElementTree serialisation/parsing, attribute escaping) is NOT modelled: a file is
  the record `VtuFile` of its data-array elements.
-/
import FcGen.Tables
namespace Fc.W

abbrev Bytes := List Nat

/-! ### base64 (`base64.b64encode`, `binascii.a2b_base64` in its default non-strict mode) -/

/-- the standard alphabet: value → ASCII code -/
def alpha (s : Nat) : Nat :=
  if s < 26 then 65 + s else if s < 52 then 71 + s else if s < 62 then s - 4
  else if s = 62 then 43 else 47

/-- ASCII code → value (`none` for every byte outside the alphabet, `=` included) -/
def charVal (c : Nat) : Option Nat :=
  if 65 ≤ c ∧ c ≤ 90 then some (c - 65) else if 97 ≤ c ∧ c ≤ 122 then some (c - 71)
  else if 48 ≤ c ∧ c ≤ 57 then some (c + 4) else if c = 43 then some 62
  else if c = 47 then some 63 else none

def b64enc : Bytes → List Nat
  | [] => []
  | [a] => [alpha (a / 4), alpha (a % 4 * 16), 61, 61]
  | [a, b] => [alpha (a / 4), alpha (a % 4 * 16 + b / 16), alpha (b % 16 * 4), 61]
  | a :: b :: c :: r =>
    alpha (a / 4) :: alpha (a % 4 * 16 + b / 16) :: alpha (b % 16 * 4 + c / 64) :: alpha (c % 64) :: b64enc r

/-- CPython's decoder loop (Modules/binascii.c, `binascii_a2b_base64_impl`, strict_mode = 0):
    state = (quad_pos, leftchar, pads).  Bytes outside the alphabet are skipped, a completed
    padding ends the input, a dangling quad is an error (`none` = `binascii.Error`). -/
def decGo : List Nat → Nat → Nat → Nat → Option Bytes
  | [], qp, _, _ => if qp = 0 then some [] else none
  | c :: cs, qp, left, pads =>
    if c = 61 then
      if qp ≥ 2 ∧ qp + (pads + 1) ≥ 4 then some [] else decGo cs qp left (pads + 1)
    else match charVal c with
      | none => decGo cs qp left pads
      | some v =>
        match qp with
        | 0 => decGo cs 1 v 0
        | 1 => (decGo cs 2 (v % 16) 0).map ((left * 4 + v / 16) :: ·)
        | 2 => (decGo cs 3 (v % 4) 0).map ((left * 16 + v / 4) :: ·)
        | _ => (decGo cs 0 0 0).map ((left * 64 + v) :: ·)

def b64dec (cs : List Nat) : Option Bytes := decGo cs 0 0 0

/-! ### little-endian integers and items -/

def leBytes : Nat → Nat → Bytes
  | 0, _ => []
  | k + 1, n => n % 256 :: leBytes k (n / 256)

def fromLe : Bytes → Nat
  | [] => 0
  | b :: r => b + 256 * fromLe r

/-- `ndarray.tobytes()` of a flat array of `size`-byte scalars -/
def itemsToBytes (size : Nat) (items : List Nat) : Bytes := items.flatMap (leBytes size)

def takeItems (size : Nat) : Nat → Bytes → List Nat
  | 0, _ => []
  | n + 1, bs => fromLe (bs.take size) :: takeItems size n (bs.drop size)

/-- `np.frombuffer(bytes, dtype)`: `none` = ValueError (length not a multiple of the item size) -/
def frombuffer (size : Nat) (bs : Bytes) : Option (List Nat) :=
  if size = 0 ∨ bs.length % size ≠ 0 then none else some (takeItems size (bs.length / size) bs)

/-! ### numeric types (`_helpers._VTK_TYPE_TO_DTYPE`, regenerated from the source text) -/

/-- numpy dtype name → item size in bytes (numpy itself is trusted) -/
def dtypeSize (d : String) : Nat :=
  match d with
  | "int8" => 1 | "uint8" => 1
  | "int16" => 2 | "uint16" => 2
  | "int32" => 4 | "uint32" => 4 | "float32" => 4
  | "int64" => 8 | "uint64" => 8 | "float64" => 8
  | _ => 0

/-- `dtype_to_vtk_type`: first entry (dict order) whose dtype equals the given one -/
def dtypeToVtk (d : String) : Option String :=
  (Fc.Gen.wVtkTypeToDtype.find? (·.2 == d)).map (·.1)

/-- `vtk_type_to_dtype`: dict lookup (a later duplicate key of a dict literal wins) -/
def vtkToDtype (n : String) : Option String :=
  (Fc.Gen.wVtkTypeToDtype.reverse.find? (·.1 == n)).map (·.2)

/-- `cell_type_to_vtk_cell_type_index` (`{v: k for k, v in table.items()}`: the last key wins) -/
def cellTypeIndex (name : String) : Option Nat :=
  (Fc.Gen.wCellTypeIndexToStr.reverse.find? (·.2 == name)).map (·.1)

/-- `vtk_cell_type_index_to_cell_type` -/
def cellTypeName (idx : Nat) : Option String :=
  (Fc.Gen.wCellTypeIndexToStr.reverse.find? (·.1 == idx)).map (·.2)

/-! ### the data-array element -/

/-- one `<DataArray>` element of a written file -/
structure DataArr where
  name : String
  vtk : String          -- attribute `type`
  ncomps : Nat          -- attribute `NumberOfComponents`
  text : List Nat       -- element text (base64 characters)
deriving Repr, DecidableEq

def prod (l : List Nat) : Nat := l.foldr (· * ·) 1

/-- a numpy array of shape `[rows] ++ tail`, row-major bit patterns -/
structure WArr where
  dt : String           -- numpy dtype name
  rows : Nat
  tail : List Nat
  items : List Nat
deriving Repr, DecidableEq

def WArr.wf (a : WArr) : Bool :=
  dtypeSize a.dt ≠ 0 && a.items.length == a.rows * prod a.tail &&
  a.items.all (· < 256 ^ dtypeSize a.dt)

/-- the element text: `b64encode(uint64(num_bytes).tobytes() + values.flatten().tobytes())` -/
def encodeText (numBytes : Nat) (payload : Bytes) : List Nat :=
  b64enc (leBytes 8 numBytes ++ payload)

/-- `_make_data_array_element(parent, name, values, num_components)`;
    `ncomps` is `_array_num_components(values)` = number of scalars of `values[0]` unless given -/
def numComps (a : WArr) (ncompsGiven : Option Nat) : Option Nat :=
  match ncompsGiven with
  | some k => some k
  | none => if a.rows = 0 then none else some (prod a.tail)     -- RuntimeError on an empty array

def makeDataArray (name : String) (a : WArr) (ncompsGiven : Option Nat) : Option DataArr :=
  match numComps a ncompsGiven, dtypeToVtk a.dt with              -- RuntimeError on an unknown dtype
  | some ncomps, some vtk =>
    some ⟨name, vtk, ncomps, encodeText (a.rows * ncomps * dtypeSize a.dt) (itemsToBytes (dtypeSize a.dt) a.items)⟩
  | _, _ => none

/-- `NoCompressor.get_decompressed_data(data, Base64Encoder())` with `header_type` UInt64:
    joint header unless the first decode yields exactly the header -/
def noCompRead (data : List Nat) : Option Bytes :=
  match b64dec data with
  | none => none
  | some decoded =>
    if decoded.length < 8 then none else
    let n := fromLe (decoded.take 8)
    if decoded.length = 8 then
      match b64dec (data.drop (b64enc decoded).length) with
      | none => none
      | some d2 => some (d2.take n)
    else some ((decoded.drop 8).take n)

/-- `_get_inline_binary_data_array_values`: flat items of the declared type -/
def readItems (e : DataArr) : Option (String × List Nat) :=
  match vtkToDtype e.vtk with
  | none => none
  | some dt =>
    match noCompRead e.text with
    | none => none
    | some bytes =>
      match frombuffer (dtypeSize dt) bytes with
      | none => none
      | some items => some (dt, items)

/-! ### the writer -/

/-- what the writer sees through the public accessors of the field data -/
structure WFields where
  dim : Nat
  ptype : String                                  -- dtype of the point array
  points : List (List Nat)                        -- rows of coordinate bit patterns
  conntype : String                               -- dtype of the connectivity arrays
  cells : List (String × List (List Nat))         -- (cell-type name, corner rows), mesh order
  pf : List (String × WArr)                       -- point fields in iteration order
  cf : List (String × String × WArr)              -- (raw name, cell-type name, values): `cell_fields_types`
deriving Repr, DecidableEq

structure VtuFile where
  numPoints : Nat
  numCells : Nat
  pointData : List DataArr
  cellData : List DataArr
  points : DataArr
  conn : DataArr
  offsets : DataArr
  types : DataArr
deriving Repr, DecidableEq

/-- `_make_3d`: a 3-component point is written as it is, anything shorter is copied into a
    zero-filled float64 triple (the coordinate *values* are kept; `cvt` converts the bit pattern of the
    point dtype to float64 — identity for float64 points) -/
def make3d (cvt : Nat → Nat) (p : List Nat) : List Nat :=
  if p.length = 3 then p else (p.map cvt ++ [0, 0, 0]).take 3

def dedup : List String → List String
  | [] => []
  | x :: r => x :: (dedup r).filter (· != x)

/-- the (type, corners) sequence `_cells()` -/
def allCells (cells : List (String × List (List Nat))) : List (String × List Nat) :=
  cells.flatMap fun b => b.2.map fun row => (b.1, row)

/-- `itertools.accumulate` -/
def runningSums : Nat → List Nat → List Nat
  | _, [] => []
  | acc, x :: r => (acc + x) :: runningSums (acc + x) r

/-- `_get_cell_field_values(name)`: per mesh cell type, every matching field's values, concatenated
    (dtype/tail taken from the first; the hypothesis demands they agree) -/
def cellFieldValues (F : WFields) (name : String) : Option WArr :=
  let parts := F.cells.flatMap fun b => (F.cf.filter fun f => f.2.1 == b.1 && f.1 == name).map (·.2.2)
  match parts with
  | [] => none                                        -- RuntimeError "Could not make cell field"
  | a :: _ => some ⟨a.dt, (parts.map (·.rows)).foldr (· + ·) 0, a.tail, parts.flatMap (·.items)⟩

def mapM' {α β} (f : α → Option β) : List α → Option (List β)
  | [] => some []
  | x :: r => match f x, mapM' f r with
    | some y, some ys => some (y :: ys)
    | _, _ => none

/-- the `Coordinates` array: every point through `_make_3d` -/
def pointArray (cvt : Nat → Nat) (F : WFields) : WArr :=
  let p3 := F.points.map (make3d cvt)
  -- `make_array([])` of an empty point list is a float64 array of shape (0,)
  if F.points.isEmpty then ⟨"float64", 0, [], []⟩
  else ⟨if F.dim = 3 then F.ptype else "float64", p3.length, [3], p3.flatMap id⟩

/-- the three `Cells` arrays: the given items, or an empty `uint64` array for a mesh without cells -/
def cellsArray (hasCells : Bool) (name dt : String) (items : List Nat) : Option DataArr :=
  makeDataArray name (if hasCells then ⟨dt, items.length, [], items⟩ else ⟨"uint64", 0, [], []⟩) (some 1)

/-- one `<CellData>` element: the values gathered over the mesh's cell types, written as one array -/
def cellDataArray (F : WFields) (n : String) : Option DataArr :=
  match cellFieldValues F n with
  | none => none
  | some v => makeDataArray n v none

/-- `VTUWriter.write` (the element tree, not its serialisation).  `cvt` see `make3d`.
    Cell-data elements are listed in first-occurrence order of their names (the code iterates a
    Python `set`: the order in the file is arbitrary, the reader keys them by name). -/
def writeVtu (cvt : Nat → Nat) (F : WFields) : Option VtuFile :=
  let names := dedup (F.cf.map (·.1))
  let cs := allCells F.cells
  let hasCells := !cs.isEmpty
  match mapM' (fun (f : String × WArr) => makeDataArray f.1 f.2 none) F.pf,
        mapM' (cellDataArray F) names,
        makeDataArray "Coordinates" (pointArray cvt F) none,
        cellsArray hasCells "connectivity" F.conntype (cs.flatMap (·.2)),
        cellsArray hasCells "offsets" "int64" (runningSums 0 (cs.map (·.2.length))),
        mapM' (fun (c : String × List Nat) => cellTypeIndex c.1) cs with
  | some pd, some cd, some pts, some conn, some offs, some tys =>
    match cellsArray hasCells "types" "int64" tys with
    | some types =>
      some ⟨F.points.length, (F.cells.map (·.2.length)).foldr (· + ·) 0, pd, cd, pts, conn, offs, types⟩
    | none => none
  | _, _, _, _, _, _ => none

/-! ### the reader (`VTUReader._make_mesh`, `VTKXMLReader.read`) -/

/-- positions (counted from `base`) of the entries equal to `t` -/
def idxFrom (t : Nat) : Nat → List Nat → List Nat
  | _, [] => []
  | base, x :: r => if x == t then base :: idxFrom t (base + 1) r else idxFrom t (base + 1) r

/-- indices `i` with `types[i] == t` (`np.equal(types, t).nonzero()`) -/
def typeIndices (types : List Nat) (t : Nat) : List Nat := idxFrom t 0 types

/-- `np.unique(types)`: sorted distinct values -/
def uniqueTypes (types : List Nat) : List Nat :=
  (List.range (types.foldr max 0 + 1)).filter fun t => types.contains t

/-- `_cell_type_corners_array(t)`: the corner count of the FIRST cell of the type is used for all -/
def cornersOf (conn offsets types : List Nat) (t : Nat) : Option (List (List Nat)) :=
  let offs0 := 0 :: offsets
  match typeIndices types t with
  | [] => none
  | i0 :: rest =>
    let k := offs0.getD (i0 + 1) 0 - offs0.getD i0 0
    some ((i0 :: rest).map fun i => (conn.drop (offs0.getD i 0)).take k)

structure RField where
  name : String
  dt : String
  ncomps : Nat
  items : List Nat
deriving Repr, DecidableEq

structure RCellField where
  name : String
  dt : String
  ncomps : Nat
  perType : List (String × List Nat)          -- (cell-type name, items of that type's cells)
deriving Repr, DecidableEq

structure RFields where
  ptype : String
  points : List Nat                           -- flat, 3 per point
  cells : List (String × List (List Nat))     -- in `np.unique(types)` order
  pf : List RField
  cf : List RCellField
deriving Repr, DecidableEq

/-- rows `idx` of a flat array with `k` scalars per row (`array[idx]` after the reshape) -/
def gatherRows (k : Nat) (items : List Nat) (idx : List Nat) : List Nat :=
  idx.flatMap fun i => (items.drop (i * k)).take k

/-- reshape rule of `_reshape_data_array_values`: number of rows of the returned array -/
def rowsOf (ncomps : Nat) (items : List Nat) : Option Nat :=
  if ncomps ≤ 1 then some items.length
  else if items.length % ncomps = 0 then some (items.length / ncomps) else none   -- reshape ValueError

/-- one cell type of the read mesh: its name and its corner array (`None` = KeyError / IndexError) -/
def readCellBlock (conn offsets types : List Nat) (t : Nat) : Option (String × List (List Nat)) :=
  match cellTypeName t, cornersOf conn offsets types t with
  | some nm, some rows => some (nm, rows)
  | _, _ => none

/-- one `<PointData>` array: flat items, reshaped; its number of rows must be the number of points -/
def readPointField (numPoints : Nat) (e : DataArr) : Option RField :=
  match readItems e with
  | none => none
  | some (dt, items) =>
    match rowsOf e.ncomps items with
    | none => none
    | some n => if n ≠ numPoints then none else some (RField.mk e.name dt e.ncomps items)

/-- one `<CellData>` array: flat items, reshaped, split per cell type (`entire[index_map[t]]`, types in
    `np.unique` order); the per-type row counts must add up to the number of cells -/
def readCellField (types uts : List Nat) (numCells : Nat) (e : DataArr) : Option RCellField :=
  match readItems e with
  | none => none
  | some (dt, items) =>
    match rowsOf e.ncomps items with
    | none => none
    | some _ =>
      let k := if e.ncomps ≤ 1 then 1 else e.ncomps
      match mapM' (fun t => (cellTypeName t).map fun nm => (nm, gatherRows k items (typeIndices types t))) uts with
      | none => none
      | some per =>
        if (per.map fun p => p.2.length / k).foldr (· + ·) 0 ≠ numCells then none
        else some (RCellField.mk e.name dt e.ncomps per)

def readVtu (f : VtuFile) : Option RFields :=
  match readItems f.points, readItems f.conn, readItems f.offsets, readItems f.types with
  | some (pdt, pts), some (_, conn), some (_, offsets), some (_, types) =>
    if pts.length ≠ f.numPoints * 3 then none else
    if offsets.length ≠ f.numCells then none else
    if types.length ≠ f.numCells then none else
    let uts := uniqueTypes types
    match mapM' (readCellBlock conn offsets types) uts with
    | none => none
    | some cells =>
      match mapM' (readPointField (pts.length / 3)) f.pointData,
            mapM' (readCellField types uts ((cells.map (·.2.length)).foldr (· + ·) 0)) f.cellData with
      | some pf, some cf => some ⟨pdt, pts, cells, pf, cf⟩
      | _, _ => none
  | _, _, _, _ => none

end Fc.W
