/-
  FcModel.Predicates — model of fieldcompare.predicates (FuzzyEquality, ExactEquality,
  DefaultEquality, ScaledTolerance) and of the numpy helpers they call
  (_numpy_utils.fuzzy_equal, find_first_fuzzy_unequal, find_first_unequal, has_floats,
  max_abs_value, max_abs_element), written at the level of what the code does.

  Values: a floating-point entry is an `Int` number of units (see F64.lean); an integer entry is
  its value; a string entry is an id such that equal strings have equal ids.
-/
import FcModel.F64
namespace Fc

inductive DType where
  | flt (F : Fmt)                       -- float64 / float32 / float16
  | int (signed : Bool) (bits : Nat)    -- int8 … uint64
  | str                                 -- unicode strings ('<U')
deriving Repr, DecidableEq

def DType.hasFloats : DType → Bool
  | .flt _ => true
  | _ => false

structure NdArr where
  dtype : DType
  shape : List Nat
  data : List Int
deriving Repr, DecidableEq

def prodList (l : List Nat) : Nat := l.foldl (· * ·) 1

/-- number of scalars per entry along axis 0 -/
def NdArr.rowSize (a : NdArr) : Nat := prodList a.shape.tail

/-- a resolved tolerance as it reaches `fuzzy_equal` -/
inductive RTol where
  | weak (u : Nat)                       -- Python float (NEP-50 "weak" scalar)
  | strong (u : Nat)                     -- np.float64 scalar
  | arr (shape : List Nat) (us : List Nat)   -- float64 ndarray
deriving Repr, DecidableEq

/-- a tolerance as given to the predicate's constructor -/
inductive Tol where
  | num (u : Nat)                        -- Python float
  | arr (shape : List Nat) (us : List Nat)
  | dflt                                 -- the default functor: eps of the promoted dtype / 0 for ints
  | scaled (base : Option Nat)           -- ScaledTolerance(base), magnitudes over the whole field
  | scaledComp (base : Nat)              -- ScaledTolerance(base, use_component_magnitudes=True)
deriving Repr, DecidableEq

inductive Verdict where
  | ok (b : Bool)
  | err                                  -- PredicateError
deriving Repr, DecidableEq

/-! ### `_reshape` / `_check_shapes` -/

def reshapePair (s1 s2 : List Nat) : List Nat × List Nat :=
  let d1 := s1.length
  let d2 := s2.length
  let s2' := if d1 = d2 + 1 ∧ s1.getLast? = some 1 then s2 ++ [1] else s2
  -- the second test of the code looks at the (possibly already reshaped) second array
  let s1' := if s2'.length = d1 + 1 ∧ s2'.getLast? = some 1 then s1 ++ [1] else s1
  (s1', s2')

/-! ### scalar kernel of `fuzzy_equal` -/

/-- value of a tolerance for flat position `i` of an operand with `rowSize` scalars per row;
    arrays broadcast along axis 0 -/
def RTol.at (t : RTol) (rowSize i : Nat) : Nat :=
  match t with
  | .weak u => u
  | .strong u => u
  | .arr _ us => us.getD (i % (max rowSize 1)) 0

def RTol.isWeak : RTol → Bool
  | .weak _ => true
  | _ => false

/-- threshold `max(max(|a|,|b|) * rel, abs)` as numpy evaluates it for float operands of
    format `F` (f64: all in binary64;  f32: weak scalars are first rounded to binary32, strong
    operands make the product binary64 — and it STAYS binary64 since the product is computed out of
    place, `thresholds = thresholds * rel_tol` (fix fa67d80 for finding F22; before that the
    in-place `*=` cast it back to the array's format)). -/
def threshold (F : Fmt) (m : Nat) (rel : Nat) (relWeak : Bool) (abs : Nat) (absWeak : Bool) : Option Nat :=
  let prod : Option Nat :=
    if F = f64 then rndMag f64 (m * rel) UNIT
    else if relWeak then
      match rndMag F rel 0 with
      | none => none
      | some r => rndMag F (m * r) UNIT
    else
      rndMag f64 (m * rel) UNIT
  let a : Option Nat := if F = f64 then some abs else if absWeak then rndMag F abs 0 else some abs
  maxInf prod a

/-- one scalar pair: `|b - a| <= max(max(|a|,|b|)*rel, abs)` -/
def fuzzyEq1 (F : Fmt) (a b : Int) (rel : Nat) (relWeak : Bool) (abs : Nat) (absWeak : Bool) : Bool :=
  leInf (rndMag F (b - a).natAbs 0) (threshold F (max a.natAbs b.natAbs) rel relWeak abs absWeak)

/-! ### integers under explicit `FuzzyEquality` (slow per-entry path of the code) -/

def wrapInt (signed : Bool) (bits : Nat) (x : Int) : Int :=
  let m : Int := 2 ^ bits
  let r := x % m
  if signed ∧ r ≥ m / 2 then r - m else r

/-- numpy `abs` on a fixed-width integer (INT_MIN stays negative) -/
def wrapAbs (signed : Bool) (bits : Nat) (x : Int) : Int :=
  wrapInt signed bits (if x < 0 then -x else x)

/-- int → binary64 conversion (value · 2^1074 units, rounded) -/
def intToF64 (x : Int) : Option Int := rndInt f64 (x * 2 ^ UNIT) 0

/-- slow path for same-type integer operands: `|b-a|` and `max(|a|,|b|)` in wrapping integer
    arithmetic, product and comparison in binary64. -/
def fuzzyEqInt1 (signed : Bool) (bits : Nat) (a b : Int) (rel abs : Nat) : Bool :=
  let d := wrapAbs signed bits (wrapInt signed bits (b - a))
  let m := max (wrapAbs signed bits a) (wrapAbs signed bits b)
  -- m * rel : int scalar times float → binary64
  match intToF64 m, intToF64 d with
  | some mu, some du =>
    let prod : Option Int := rndInt f64 (mu * rel) UNIT
    match prod with
    | none => if mu < 0 then false else true
    | some p => decide (du ≤ max p (abs : Int))
  | _, _ => false

/-- element-wise int → binary64 conversion of an integer array -/
def intsToF64 (xs : List Int) : Option (List Int) :=
  xs.foldr (fun x acc => match intToF64 x, acc with
    | some u, some l => some (u :: l)
    | _, _ => none) (some [])

/-! ### tolerance resolution -/

def maxAbsUnits (a : NdArr) : Nat := a.data.foldl (fun m x => max m x.natAbs) 0

/-- `max_abs_element`: per-component maxima (shape `a.shape[1:]`) -/
def maxAbsComp (a : NdArr) : List Nat :=
  let rs := max a.rowSize 1
  (List.range rs).map fun c =>
    (List.range (a.data.length / rs)).foldl (fun m r => max m (a.data.getD (r * rs + c) 0).natAbs) 0

def promoteFmt (a b : NdArr) : Option Fmt :=
  match a.dtype, b.dtype with
  | .flt F, .flt G => some (if F.prec ≥ G.prec then F else G)
  | .flt F, .int _ _ => some F
  | .int _ _, .flt G => some G
  | _, _ => none

/-- resolve a constructor tolerance against the (reshaped) operands; `none` = raises.
    `F` is the format of the float operands. -/
def resolveTol (F : Fmt) (t : Tol) (a b : NdArr) : Option RTol :=
  match t with
  | .num u => some (.weak u)
  | .arr s us => some (.arr s us)
  | .dflt => some (.weak (epsUnits F))
  | .scaled base =>
    if a.data.isEmpty ∨ b.data.isEmpty then none   -- np.max of an empty array raises
    else
      let bt := base.getD (epsUnits F)
      let m := max (maxAbsUnits a) (maxAbsUnits b)
      -- np.float64(base) * float(max): one binary64 product
      match rndMag f64 (bt * m) UNIT with
      | none => none       -- inf tolerance: excluded by hyp (never produced by the generators)
      | some p => some (.strong p)
  | .scaledComp base =>
    if a.data.isEmpty ∨ b.data.isEmpty then none
    else
      let ma := maxAbsComp a
      let mb := maxAbsComp b
      let ms := List.zipWith max ma mb
      let ps := ms.map fun m => (rndMag f64 (m * base) UNIT)
      if ps.any Option.isNone then none
      else
        let us := ps.map (·.getD 0)
        if a.shape.length ≤ 1 then some (.strong (us.getD 0 0))
        else some (.arr a.shape.tail us)

/-! ### `find_first_fuzzy_unequal` on float operands -/

/-- does the fast path's tolerance-shape validation pass? -/
def tolShapeOk (t : RTol) (opShape : List Nat) : Bool :=
  match t with
  | .arr s _ => opShape.tail == s
  | _ => true

def allFuzzy (F : Fmt) (a b : List Int) (rowSize : Nat) (rel abs : RTol) : Bool :=
  (List.range a.length).all fun i =>
    fuzzyEq1 F (a.getD i 0) (b.getD i 0) (rel.at rowSize i) rel.isWeak (abs.at rowSize i) abs.isWeak

/-- float operands of equal shape.  Fast path when the tolerance shapes validate, otherwise the
    per-row fallback (rows have shape `shape[1:]`, so array tolerances must have shape
    `shape[2:]`), otherwise `ValueError`. -/
def findFuzzy (F : Fmt) (a b : NdArr) (rel abs : RTol) : Verdict :=
  if tolShapeOk rel a.shape ∧ tolShapeOk abs a.shape then
    .ok (allFuzzy F a.data b.data a.rowSize rel abs)
  else if a.shape.isEmpty then .err
  else
    let rowShape := a.shape.tail
    if tolShapeOk rel rowShape ∧ tolShapeOk abs rowShape then
      .ok (allFuzzy F a.data b.data (prodList rowShape.tail) rel abs)
    else .err

/-! ### the predicates -/

def sameFloat (a b : NdArr) : Option Fmt :=
  match a.dtype, b.dtype with
  | .flt F, .flt G => if F = G then some F else none
  | _, _ => none

/-- `FuzzyEquality(rel, abs)(a, b)` for two float arrays of the same format, or two integer
    arrays of the same type (1-d).  Other dtype pairs are outside the model (`err` is then
    not meaningful; the driver reports `hyp=0`). -/
def fuzzyCheck (rel abs : Tol) (a b : NdArr) : Verdict :=
  let (s1, s2) := reshapePair a.shape b.shape
  let a := { a with shape := s1 }
  let b := { b with shape := s2 }
  if s1 ≠ s2 then .ok false
  else
    match a.dtype, b.dtype with
    | .flt F, .flt G =>
      if F ≠ G then .err else
      match resolveTol F rel a b, resolveTol F abs a b with
      | some r, some t => findFuzzy F a b r t
      | _, _ => .err
    | .flt F, .int _ _ =>
      -- the integer side is converted to binary64 by numpy's promotion (int × float64 → float64)
      if F ≠ f64 then .err else
      match intsToF64 b.data with
      | none => .err
      | some bd =>
        let b' : NdArr := { b with dtype := .flt f64, data := bd }
        match resolveTol f64 rel a b', resolveTol f64 abs a b' with
        | some r, some t => findFuzzy f64 a b' r t
        | _, _ => .err
    | .int _ _, .flt G =>
      if G ≠ f64 then .err else
      match intsToF64 a.data with
      | none => .err
      | some ad =>
        let a' : NdArr := { a with dtype := .flt f64, data := ad }
        match resolveTol f64 rel a' b, resolveTol f64 abs a' b with
        | some r, some t => findFuzzy f64 a' b r t
        | _, _ => .err
    | .int sg bits, .int sg' bits' =>
      if sg ≠ sg' ∨ bits ≠ bits' then .err else
      -- default tolerance for integers is 0.0
      let tolNum : Tol → Option Nat := fun t => match t with
        | .num u => some u
        | .dflt => some 0
        | _ => none
      match tolNum rel, tolNum abs with
      | some r, some t =>
        .ok ((List.range a.data.length).all fun i =>
              fuzzyEqInt1 sg bits (a.data.getD i 0) (b.data.getD i 0) r t)
      | _, _ => .err
    | _, _ => .err

/-- `ExactEquality()(a, b)` -/
def exactCheck (a b : NdArr) : Verdict :=
  let (s1, s2) := reshapePair a.shape b.shape
  if s1 ≠ s2 then .ok false
  else .ok (a.data == b.data)

/-- `DefaultEquality(rel, abs)(a, b)` -/
def defaultCheck (rel abs : Tol) (a b : NdArr) : Verdict :=
  if a.dtype.hasFloats ∨ b.dtype.hasFloats then fuzzyCheck rel abs a b
  else exactCheck a b

/-- `ScaledTolerance(base)(a, b)` (whole-field magnitude) : value in units -/
def scaledTolerance (base : Nat) (a b : NdArr) : Option Nat :=
  if a.data.isEmpty ∨ b.data.isEmpty then none
  else rndMag f64 (base * max (maxAbsUnits a) (maxAbsUnits b)) UNIT

/-- `ScaledTolerance(base)(a, b)` on two integer arrays of type (signed, bits):
    `max_abs_value` takes numpy's wrapping `abs` first (so the type minimum stays negative),
    converts the maximum to a Python float, and multiplies in binary64. -/
def scaledToleranceInt (signed : Bool) (bits : Nat) (base : Nat) (a b : List Int) : Option Int :=
  if a.isEmpty ∨ b.isEmpty then none
  else
    let mx (l : List Int) : Int := (l.map (wrapAbs signed bits)).foldl max (wrapAbs signed bits (l.headD 0))
    match intToF64 (mx a), intToF64 (mx b) with
    | some ua, some ub => rndInt f64 ((max ua ub) * base) UNIT
    | _, _ => none

/-! ### the predicate *object* and its mutable state (`_last_used_rel_tol/_last_used_abs_tol`) -/

/-- a `FuzzyEquality` object: constructor tolerances plus the tolerances resolved in the
    previous evaluation (kept by the code for reporting only) -/
structure FuzzyObj where
  rel : Tol
  abs : Tol
  lastRel : Option RTol := none
  lastAbs : Option RTol := none
deriving Repr

/-- one evaluation `obj(a, b)`: the resolved tolerances are stored, the verdict is computed
    from the constructor tolerances and the operands -/
def FuzzyObj.call (o : FuzzyObj) (a b : NdArr) : FuzzyObj × Verdict :=
  let (s1, s2) := reshapePair a.shape b.shape
  let a' := { a with shape := s1 }
  let b' := { b with shape := s2 }
  let o' :=
    if s1 ≠ s2 then o
    else match sameFloat a b with
      | some F => { o with lastRel := resolveTol F o.rel a' b', lastAbs := resolveTol F o.abs a' b' }
      | none => o
  (o', fuzzyCheck o.rel o.abs a b)

/-- a whole history of evaluations on one object: the list of verdicts -/
def FuzzyObj.history (o : FuzzyObj) : List (NdArr × NdArr) → List Verdict
  | [] => []
  | (a, b) :: rest => let (o', v) := o.call a b; v :: FuzzyObj.history o' rest

end Fc
