/-
  FcModel.Mesh — shared data model of explicit meshes and mesh field data
  (fieldcompare.mesh.Mesh / MeshFields) and their *geometric content*.

  Coordinates and floating field values are `Int` unit counts (see F64.lean); integer fields are
  their values.  A cell type is identified by its upper-case VTK name ("TRIANGLE", "QUAD", …).
  Connectivity is stored per cell-type block, in the order the mesh lists its types.
-/
import FcModel.Predicates
namespace Fc

structure Mesh where
  /-- number of coordinate columns (1, 2 or 3) -/
  dim : Nat
  /-- point rows, each with `dim` coordinates -/
  points : List (List Int)
  /-- cell-type blocks: (type name, rows of corner point indices) -/
  cells : List (String × List (List Nat))
deriving Repr, DecidableEq

/-- a point field: `values.shape[0]` = number of points -/
structure PointField where
  name : String
  values : NdArr
deriving Repr, DecidableEq

/-- a cell field lives on the cells of one type: `values.shape[0]` = number of cells of `ctype` -/
structure CellField where
  name : String
  ctype : String
  values : NdArr
deriving Repr, DecidableEq

structure MeshFields where
  mesh : Mesh
  pointFields : List PointField
  cellFields : List CellField
deriving Repr, DecidableEq

def Mesh.numPoints (m : Mesh) : Nat := m.points.length

def Mesh.cellsOf (m : Mesh) (ct : String) : List (List Nat) :=
  match m.cells.find? (·.1 == ct) with
  | some b => b.2
  | none => []

def Mesh.cellTypes (m : Mesh) : List String := m.cells.map (·.1)

/-- is point `p` referenced by some cell? -/
def Mesh.connected (m : Mesh) (p : Nat) : Bool :=
  m.cells.any fun b => b.2.any fun row => row.contains p

/-- row `i` of an array along axis 0 (flat, `rowSize` scalars) -/
def NdArr.row (a : NdArr) (i : Nat) : List Int :=
  let rs := a.rowSize
  (a.data.drop (i * rs)).take rs

/-- well-formedness: indices in range, field lengths match -/
def MeshFields.wf (f : MeshFields) : Bool :=
  f.mesh.points.all (·.length == f.mesh.dim) &&
  f.mesh.cells.all (fun b => b.2.all fun row => row.all (· < f.mesh.numPoints)) &&
  f.pointFields.all (fun pf => pf.values.shape.head? == some f.mesh.numPoints &&
                               pf.values.data.length == prodList pf.values.shape) &&
  f.cellFields.all (fun cf => cf.values.shape.head? == some (f.mesh.cellsOf cf.ctype).length &&
                              cf.values.data.length == prodList cf.values.shape)

/-! ### geometric content (independent of any numbering) -/

/-- what is known about a point: its coordinates and the value of every point field there -/
structure PointItem where
  coords : List Int
  values : List (String × List Int)
deriving Repr, DecidableEq

/-- what is known about a cell: type, corner coordinates in order, every cell-field value -/
structure CellItem where
  ctype : String
  corners : List (List Int)
  values : List (String × List Int)
deriving Repr, DecidableEq

def MeshFields.pointItem (f : MeshFields) (p : Nat) : PointItem :=
  ⟨f.mesh.points.getD p [], f.pointFields.map fun pf => (pf.name, pf.values.row p)⟩

def MeshFields.cellItem (f : MeshFields) (ct : String) (c : Nat) (row : List Nat) : CellItem :=
  ⟨ct, row.map fun p => f.mesh.points.getD p [],
   (f.cellFields.filter (·.ctype == ct)).map fun cf => (cf.name, cf.values.row c)⟩

/-- the collection of point items over *connected* points (a list; compare up to permutation) -/
def MeshFields.pointContent (f : MeshFields) : List PointItem :=
  ((List.range f.mesh.numPoints).filter f.mesh.connected).map f.pointItem

/-- the collection of cell items over all cells of all types -/
def MeshFields.cellContent (f : MeshFields) : List CellItem :=
  f.mesh.cells.flatMap fun b =>
    (List.range b.2.length).map fun c => f.cellItem b.1 c (b.2.getD c [])

end Fc
