/-
  FcModel.SortPoints — model of fieldcompare/mesh/_transformations.py:
  `_sorting_points_indices` (fuzzy lexsort of the points + tie break of coincident points by the
  "minimal" adjacent cell centre), `_unconnected_points_filter_map` / `strip_orphan_points`,
  `_get_cell_corners_sorting_index_map` / `sort_cells`, and of the way `PermutedMesh` /
  `TransformedMeshFields` apply the index maps (points, inverse map on the connectivity, field rows).

  `argsort` is the parameter `as` (see Lexsort.lean); Python's `hash` on the tuple of sorted corner
  ids is the parameter `h` (the driver instantiates CPython's tuple hash, `pyTupleHash`).

  Core Lean only (linked into `fcdrv`).
-/
import FcModel.Lexsort
import FcModel.Mesh
namespace Fc.C02

/-- mesh tolerances as they reach the sorting code: Python floats, in units -/
structure MeshTol where
  atol : Nat
  rtol : Nat
deriving Repr, DecidableEq

/-- `default_mesh_relative_tolerance()` = 1e-8 as a binary64 value, in units -/
def relTolDefault : Nat := 3022314549036573 * 2 ^ (1074 - 78)

def maxAbsCoord (pts : List (List Int)) : Nat :=
  pts.foldl (fun m r => r.foldl (fun m x => max m x.natAbs) m) 0

/-- `Mesh.__init__`: rel = 1e-8, abs = max|coordinate| * 1e-8 (one binary64 product) -/
def meshTolOf (m : Mesh) : MeshTol :=
  ⟨(rndMag f64 (maxAbsCoord m.points * relTolDefault) UNIT).getD 0, relTolDefault⟩

/-- the run detection of the lexsort: `np.isclose` -/
def MeshTol.closeIs (t : MeshTol) : Int → Int → Bool := isclose t.atol t.rtol

/-- the duplicate detection and `mesh_equal`: `fuzzy_equal` with Python-float tolerances -/
def MeshTol.closeFz (t : MeshTol) (a b : Int) : Bool := fuzzyEq1 f64 a b t.rtol true t.atol true

/-! ### binary64 sum and division for the cell centres -/

def fadd (a b : Int) : Option Int := rndInt f64 (a + b) 0

/-- round-to-nearest-even of `a / d` (d > 0) to a natural number -/
def rneDiv (a d : Nat) : Nat :=
  let f := a / d
  let r := a % d
  if 2 * r < d then f else if d < 2 * r then f + 1 else if f % 2 = 0 then f else f + 1

/-- binary64 quotient `a / k` of a float by a positive integer (exactly representable as float);
    `none` = overflow or k = 0 -/
def fdivNat (a : Int) (k : Nat) : Option Int :=
  if k = 0 then none else
  let m := a.natAbs
  let sh := (m / k).log2 - 52
  let r := rneDiv m (k * 2 ^ sh) * 2 ^ sh
  if 2 ^ f64.emaxU ≤ r then none else some (if a < 0 then -(r : Int) else (r : Int))

def addRows : List Int → List Int → Option (List Int)
  | a :: as, b :: bs => do
    let s ← fadd a b
    let r ← addRows as bs
    pure (s :: r)
  | _, _ => some []

/-- `accumulate(points[corners], axis=0) / len(corners)`: rows added one after the other -/
def cellCentre (pts : List (List Int)) (row : List Nat) : Option (List Int) :=
  match row with
  | [] => none
  | p :: ps => do
    let s ← ps.foldlM (fun acc q => addRows acc (pts.getD q [])) (pts.getD p [])
    s.mapM fun x => fdivNat x row.length

/-! ### tie break of coincident points -/

/-- `[(ct, index) for ct in cells for index in point_to_cells_map[ct][point]]` — the rows -/
def adjacentCells (m : Mesh) (p : Nat) : List (List Nat) :=
  m.cells.flatMap fun b => b.2.filter fun row => row.contains p

def rowKey (j : Nat) (r : List Int) : Int := r.getD j 0

/-- `_get_min_cell_center_around_point`; `none` = raises `ValueError` (no adjacent cell) or a
    centre is not finite (excluded by the hypotheses) -/
def minCentre (as : List Int → List Nat) (t : MeshTol) (m : Mesh) (p : Nat) : Option (List Int) :=
  let adj := adjacentCells m p
  if adj.isEmpty then none else
  match adj.mapM (cellCentre m.points) with
  | none => none
  | some cs => (fuzzyLexSortBy (fun k l => sorterOf as k l) t.closeIs rowKey m.dim cs).head?

/-- `np_all(fuzzy_equal(P[:-1], P[1:]), axis=1)` followed by `append(…, False)` -/
def adjacentRowsEq (eq : Int → Int → Bool) : List (List Int) → List Bool
  | a :: b :: t => (List.zipWith eq a b).all id :: adjacentRowsEq eq (b :: t)
  | _ => [false]

abbrev PItem := Nat × List Int     -- (original point index, coordinates)

/-- one run `[start, end)` of coincident points: order it by the fuzzy lexsort of the points'
    minimal adjacent cell centres -/
def tieBreakRun (as : List Int → List Nat) (t : MeshTol) (m : Mesh) (l : List PItem) (r : Nat × Nat) :
    Option (List PItem) :=
  let seg := (l.drop r.1).take (r.2 - r.1)
  match seg.mapM fun it => (minCentre as t m it.1).map fun c => (it, c) with
  | none => none
  | some segc =>
    let s := fuzzyLexSortBy (fun k l => sorterOf as k l) t.closeIs
              (fun j (x : PItem × List Int) => rowKey j x.2) m.dim segc
    some (l.take r.1 ++ s.map (·.1) ++ l.drop r.2)

/-- `_sorting_points_indices` on items; `none` = raises -/
def sortPointsItems (as : List Int → List Nat) (t : MeshTol) (m : Mesh) : Option (List PItem) :=
  if m.points.isEmpty then some [] else
  let l := fuzzyLexSortBy (fun k l => sorterOf as k l) t.closeIs (fun j (it : PItem) => rowKey j it.2) m.dim
            ((List.range m.points.length).zip m.points)
  let zero := adjacentRowsEq t.closeFz (l.map (·.2))
  if zero.any id then (walkRuns zero).foldlM (tieBreakRun as t m) l else some l

/-- the index map (new position ↦ old index) -/
def sortPointsIdx (as : List Int → List Nat) (t : MeshTol) (m : Mesh) : Option (List Nat) :=
  (sortPointsItems as t m).map fun l => l.map (·.1)

/-! ### `_unconnected_points_filter_map` -/

/-- argsort of the boolean mask `is_unconnected`, first `#connected` entries -/
def unconnectedFilterMap (as : List Int → List Nat) (m : Mesh) : List Nat :=
  let mask : List Int := (List.range m.numPoints).map fun p => if m.connected p then 0 else 1
  (as mask).take (mask.filter (· == 0)).length

/-! ### `_get_cell_corners_sorting_index_map` -/

def insertNat (x : Nat) : List Nat → List Nat
  | [] => [x]
  | y :: t => if x ≤ y then x :: y :: t else y :: insertNat x t

/-- `sorted(corners)` (insertion sort: a handful of corners; structurally recursive so that the
    kernel can evaluate it in the witnesses) -/
def sortNat (l : List Nat) : List Nat := l.foldr insertNat []

/-- CPython ≥ 3.8 `tuplehash` (xxHash-style, 64-bit) over small non-negative ints (`hash(i) = i`),
    returned as the signed `Py_hash_t` that ends up in the int64 array handed to `argsort` -/
def pyTupleHash (t : List Nat) : Int :=
  let p1 : UInt64 := 11400714785074694791
  let p2 : UInt64 := 14029467366897019727
  let p5 : UInt64 := 2870177450012600261
  let acc := t.foldl (fun (acc : UInt64) i =>
    let a := acc + (UInt64.ofNat i) * p2
    let a := (a <<< 31) ||| (a >>> 33)
    a * p1) p5
  let acc := acc + ((UInt64.ofNat t.length) ^^^ (p5 ^^^ 3527539))
  let acc := if acc == 0xFFFFFFFFFFFFFFFF then 1546275796 else acc
  if acc.toNat < 2 ^ 63 then (acc.toNat : Int) else (acc.toNat : Int) - 2 ^ 64

def cellSortMap (as : List Int → List Nat) (h : List Nat → Int) (rows : List (List Nat)) : List Nat :=
  as (rows.map fun r => h (sortNat r))

/-! ### applying index maps (`PermutedMesh`, `TransformedMeshFields`) -/

def permuteRows (a : NdArr) (idx : List Nat) : NdArr :=
  { a with shape := idx.length :: a.shape.tail, data := idx.flatMap a.row }

/-- `PermutedMesh(mesh, point_permutation=pm)`: points `P[pm]`, corners through the inverse map
    (`inverse[pm[i]] = i`; a slot that was never assigned holds garbage in the code — the model
    answers the out-of-range marker `pm.length`), point-field rows `V[pm]` -/
def applyPointMap (f : MeshFields) (pm : List Nat) : MeshFields :=
  { mesh := { f.mesh with
      points := pm.map fun i => f.mesh.points.getD i [],
      cells := f.mesh.cells.map fun b => (b.1, b.2.map fun row => row.map fun p => pm.idxOf p) },
    pointFields := f.pointFields.map fun pf => { pf with values := permuteRows pf.values pm },
    cellFields := f.cellFields }

/-- `PermutedMesh(mesh, cell_permutations=cm)`, `cm ct` = index map of type `ct` -/
def applyCellMaps (f : MeshFields) (cm : String → List Nat) : MeshFields :=
  { mesh := { f.mesh with
      cells := f.mesh.cells.map fun b => (b.1, (cm b.1).map fun c => b.2.getD c []) },
    pointFields := f.pointFields,
    cellFields := f.cellFields.map fun cf => { cf with values := permuteRows cf.values (cm cf.ctype) } }

def stripOrphans (as : List Int → List Nat) (f : MeshFields) : MeshFields :=
  applyPointMap f (unconnectedFilterMap as f.mesh)

/-- `sort_points`; `none` = `_sorting_points_indices` raises -/
def sortPoints (as : List Int → List Nat) (t : MeshTol) (f : MeshFields) : Option MeshFields :=
  (sortPointsIdx as t f.mesh).map (applyPointMap f)

def sortCells (as : List Int → List Nat) (h : List Nat → Int) (f : MeshFields) : MeshFields :=
  applyCellMaps f fun ct => cellSortMap as h (f.mesh.cellsOf ct)

/-- `sort = sort_cells ∘ sort_points ∘ strip_orphan_points` (tolerances of the original mesh) -/
def sortMesh (as : List Int → List Nat) (h : List Nat → Int) (t : MeshTol) (f : MeshFields) :
    Option MeshFields :=
  (sortPoints as t (stripOrphans as f)).map (sortCells as h)

end Fc.C02
