/-
  FcModel.Diff — model of the difference data sets (property C14):

    fieldcompare/mesh/_mesh_fields.py       MeshFields.diff_to / TransformedMeshFields.diff_to → _subtract(other, self)
    fieldcompare/tabular/_tabular_fields.py TabularFields.diff_to → _subtract(other, self)
    fieldcompare/_matching.py               find_matches (first match wins, matched reference entry is removed)
    fieldcompare/_cli/_file_comparison.py   FileComparison._write_diff_file (sort both sides when the meshes differ)

  written at the level of what the code does.  In `_subtract(fields1, fields2)` the *first* argument is
  the data set handed to `diff_to` (the reference), the second one is `self` (the source):
  `src.diff_to(ref) = _subtract(ref, src)`, values `ref − src`.

  Numbers: an input entry is an `Int` (units for floats, the value for integers, see F64.lean); input
  arrays hold finite values only.  An *output* entry is a `DVal`: a finite number, ±infinity (the
  rounded difference overflowed) or NaN (explicit constructor).
-/
import FcModel.Mesh
namespace Fc.C14

/-! ### output values -/

inductive DVal where
  | fin (v : Int)
  | inf (neg : Bool)
  | nan
deriving Repr, DecidableEq

def DVal.neg : DVal → DVal
  | .fin v => .fin (-v)
  | .inf s => .inf (!s)
  | .nan => .nan

/-- an output array -/
structure DArr where
  dtype : DType
  shape : List Nat
  data : List DVal
deriving Repr, DecidableEq

def DArr.neg (a : DArr) : DArr := { a with data := a.data.map DVal.neg }

/-! ### numpy type promotion of `a - b` (NEP 50, arrays and numpy scalars alike) -/

/-- the smallest float format that numpy associates with an integer type -/
def intFloatFmt (bits : Nat) : Fmt := if bits ≤ 8 then f16 else if bits ≤ 16 then f32 else f64

def maxFmt (F G : Fmt) : Fmt := if F.prec ≥ G.prec then F else G

/-- result dtype of `a - b`; `none`: the subtraction raises (strings) -/
def promote : DType → DType → Option DType
  | .flt F, .flt G => some (.flt (maxFmt F G))
  | .flt F, .int _ b => some (.flt (maxFmt F (intFloatFmt b)))
  | .int _ b, .flt G => some (.flt (maxFmt (intFloatFmt b) G))
  | .int s b, .int s' b' =>
    if s = s' then some (.int s (max b b'))
    else
      -- one signed, one unsigned
      let ub := if s then b' else b      -- bits of the unsigned operand
      let sb := if s then b else b'      -- bits of the signed operand
      if ub < sb then some (.int true sb)
      else if ub < 64 then some (.int true (2 * ub))
      else some (.flt f64)
  | _, _ => none

/-- `rndInt` with the overflow made explicit -/
def rndVal (F : Fmt) (n : Int) : DVal :=
  match rndInt F n 0 with
  | some r => .fin r
  | none => .inf (decide (n < 0))

/-- conversion of an input entry of type `src` to the result type `res` -/
def convTo (res src : DType) (x : Int) : DVal :=
  match res, src with
  | .flt F, .int _ _ => rndVal F (x * 2 ^ UNIT)     -- int → float: correctly rounded
  | .flt _, _ => .fin x                              -- float → wider float: exact
  | _, _ => .fin x                                    -- integer result: value, wrapped by `subVal`

/-- one subtraction in the result type: floats round to nearest even (overflow → ±inf),
    fixed-width integers wrap around -/
def subVal (res : DType) : DVal → DVal → DVal
  | .fin a, .fin b =>
    match res with
    | .flt F => rndVal F (a - b)
    | .int s bits => .fin (wrapInt s bits (a - b))
    | .str => .nan
  | .nan, _ => .nan
  | _, .nan => .nan
  | .inf s, .fin _ => .inf s
  | .fin _, .inf s => .inf (!s)
  | .inf s, .inf t => if s = t then .nan else .inf s

/-- `ref_i − src_i` for one pair of entries of arrays with dtypes `d1`, `d2` and result type `res` -/
def subEntry (res d1 d2 : DType) (x y : Int) : DVal :=
  subVal res (convTo res d1 x) (convTo res d2 y)

/-- `a1 - a2` for two arrays of equal shape; `none` = raises -/
def subArr (a1 a2 : NdArr) : Option DArr :=
  match promote a1.dtype a2.dtype with
  | none => none
  | some res => some ⟨res, a1.shape, List.zipWith (subEntry res a1.dtype a2.dtype) a1.data a2.data⟩

/-- `make_array(values, dtype=float); fill(nan)` -/
def nanLike (a : NdArr) : DArr := ⟨.flt f64, a.shape, List.replicate a.data.length .nan⟩

/-! ### `_matching.find_matches` -/

/-- remove the first element satisfying `p`; returns it and the remaining list -/
def removeFirst {β} (p : β → Bool) : List β → Option (β × List β)
  | [] => none
  | t :: ts =>
    if p t then some (t, ts)
    else match removeFirst p ts with
      | some (m, rest) => some (m, t :: rest)
      | none => none

structure MatchResult (α β : Type) where
  matched : List (α × β)
  orphansSource : List α
  orphansReference : List β

/-- `find_matches(source, reference, eq)`: every source entry takes the first still-unmatched
    reference entry it is equal to -/
def findMatches {α β} (eq : α → β → Bool) : List α → List β → MatchResult α β
  | [], ref => ⟨[], [], ref⟩
  | s :: ss, ref =>
    match removeFirst (eq s) ref with
    | some (t, ref') =>
      let r := findMatches eq ss ref'
      ⟨(s, t) :: r.matched, r.orphansSource, r.orphansReference⟩
    | none =>
      let r := findMatches eq ss ref
      ⟨r.matched, s :: r.orphansSource, r.orphansReference⟩

/-! ### Python `dict` insertion (first insertion fixes the position, later ones overwrite) -/

def dictInsert {κ ν} [BEq κ] (k : κ) (v : ν) : List (κ × ν) → List (κ × ν)
  | [] => [(k, v)]
  | (k', v') :: r => if k' == k then (k', v) :: r else (k', v') :: dictInsert k v r

def dictGet {κ ν} [BEq κ] (k : κ) : List (κ × ν) → Option ν
  | [] => none
  | (k', v') :: r => if k' == k then some v' else dictGet k r

def dictFromList {κ ν} [BEq κ] (l : List (κ × ν)) : List (κ × ν) :=
  l.foldl (fun d kv => dictInsert kv.1 kv.2 d) []

/-! ### mesh `_subtract` -/

structure DPointField where
  name : String
  values : DArr
deriving Repr, DecidableEq

structure DCellField where
  name : String
  ctype : String
  values : DArr
deriving Repr, DecidableEq

/-- the difference data set: it lives on the mesh of `fields1` (the reference) -/
structure DiffFields where
  mesh : Mesh
  pointFields : List DPointField
  cellFields : List DCellField
deriving Repr, DecidableEq

/-- entries for the matched pairs: `none` = "Cannot subtract arrays with differing shape" or the
    numpy subtraction raises -/
def subMatches {κ} : List ((κ × NdArr) × (κ × NdArr)) → Option (List (κ × DArr))
  | [] => some []
  | ((k, a1), (_, a2)) :: r =>
    if a1.shape ≠ a2.shape then none
    else match subArr a1 a2, subMatches r with
      | some d, some ds => some ((k, d) :: ds)
      | _, _ => none

/-- the key/value pairs in the order the code inserts them into its dict:
    matches, then fields of `fields1` only, then fields of `fields2` only -/
def diffEntries {κ} [BEq κ] (l1 l2 : List (κ × NdArr)) : Option (List (κ × DArr)) :=
  let m := findMatches (fun a b => a.1 == b.1) l1 l2
  match subMatches m.matched with
  | none => none
  | some ds =>
    some (ds ++ m.orphansSource.map (fun f => (f.1, nanLike f.2))
             ++ m.orphansReference.map (fun f => (f.1, nanLike f.2)))

def distinctKeys {κ} [BEq κ] : List κ → List κ
  | [] => []
  | k :: r => k :: (distinctKeys r).filter (fun k' => !(k' == k))

/-- `{name: [arrays[ct] for ct in fields1.domain.cell_types] …}`; `none` = KeyError -/
def assembleCells (types : List String) (names : List String)
    (d : List ((String × String) × DArr)) : Option (List DCellField) :=
  let cols := names.map fun n => types.map fun ct => (dictGet (n, ct) d).map (DCellField.mk n ct)
  if cols.any (·.any Option.isNone) then none
  else
    -- MeshFields.cell_fields_types: for every cell type (mesh order), for every name
    some (types.flatMap fun ct => names.filterMap fun n => (dictGet (n, ct) d).map (DCellField.mk n ct))

/-- `_subtract(fields1, fields2)` of `_mesh_fields.py`.  `domEq` is the verdict of
    `fields1.domain.equals(fields2.domain)` (mesh equality is owned by C16/C03). `none` = raises. -/
def subtractMesh (domEq : Bool) (f1 f2 : MeshFields) : Option DiffFields :=
  if !domEq then none
  else
    let p1 := f1.pointFields.map fun f => (f.name, f.values)
    let p2 := f2.pointFields.map fun f => (f.name, f.values)
    let c1 := f1.cellFields.map fun f => ((f.name, f.ctype), f.values)
    let c2 := f2.cellFields.map fun f => ((f.name, f.ctype), f.values)
    match diffEntries p1 p2, diffEntries c1 c2 with
    | some pe, some ce =>
      let pd := dictFromList pe
      let cd := dictFromList ce
      let names := distinctKeys (cd.map (·.1.1))
      match assembleCells f1.mesh.cellTypes names cd with
      | none => none
      | some cfs => some ⟨f1.mesh, pd.map (fun kv => ⟨kv.1, kv.2⟩), cfs⟩
    | _, _ => none

/-- `src.diff_to(ref)` -/
def meshDiffTo (domEq : Bool) (src ref : MeshFields) : Option DiffFields := subtractMesh domEq ref src

/-! ### tabular `_subtract` -/

/-- a table: number of rows and named 1-d columns (already mapped through the table's index map) -/
structure TableFields where
  nrows : Nat
  cols : List (String × NdArr)
deriving Repr, DecidableEq

structure DiffTable where
  nrows : Nat
  cols : List (String × DArr)
deriving Repr, DecidableEq

/-- assignment `diff[i] = value` into a float64 array -/
def toF64 (res : DType) (v : DVal) : DVal :=
  match res, v with
  | .int _ _, .fin x => rndVal f64 (x * 2 ^ UNIT)
  | _, v => v

/-- one matching column: `[nan]*n`, then `diff[i] = a_i - b_i` for `i < min(len a, len b)`; `none` = raises -/
def subColumn (n : Nat) (a1 a2 : NdArr) : Option DArr :=
  match promote a1.dtype a2.dtype with
  | none => if a1.data.isEmpty ∨ a2.data.isEmpty then some ⟨.flt f64, [n], List.replicate n .nan⟩ else none
  | some res =>
    let head := List.zipWith (fun x y => toF64 res (subEntry res a1.dtype a2.dtype x y)) a1.data a2.data
    some ⟨.flt f64, [n], head ++ List.replicate (n - head.length) .nan⟩

def subColumns (n : Nat) : List ((String × NdArr) × (String × NdArr)) → Option (List (String × DArr))
  | [] => some []
  | ((k, a1), (_, a2)) :: r =>
    match subColumn n a1 a2, subColumns n r with
    | some d, some ds => some ((k, d) :: ds)
    | _, _ => none

/-- `_subtract(fields1, fields2)` of `_tabular_fields.py` -/
def subtractTable (t1 t2 : TableFields) : Option DiffTable :=
  let m := findMatches (fun a b => a.1 == b.1) t1.cols t2.cols
  let n := max t1.nrows t2.nrows
  let nanCol : DArr := ⟨.flt f64, [n], List.replicate n .nan⟩
  match subColumns n m.matched with
  | none => none
  | some ds =>
    let names := m.matched.map (·.1.1) ++ m.orphansSource.map (·.1) ++ m.orphansReference.map (·.1)
    -- dict comprehension over the names (all NaN), then the matching columns are overwritten
    let init := dictFromList (names.map fun k => (k, nanCol))
    some ⟨n, ds.foldl (fun d kv => dictInsert kv.1 kv.2 d) init⟩

def tableDiffTo (src ref : TableFields) : Option DiffTable := subtractTable ref src

/-! ### `_write_diff_file`: which data sets are subtracted -/

/-- The CLI sorts both sides iff the meshes did not compare equal and reordering is not disabled.
    `sortF` is `fieldcompare.mesh.sort` (owned by C02/C08) and `meshEq` the mesh equality verdict. -/
def writeDiffInputs (sortF : MeshFields → MeshFields) (meshEq : MeshFields → MeshFields → Bool)
    (disableReordering : Bool) (res ref : MeshFields) : MeshFields × MeshFields :=
  if !meshEq res ref && !disableReordering then (sortF res, sortF ref) else (res, ref)

def writeDiff (sortF : MeshFields → MeshFields) (meshEq : MeshFields → MeshFields → Bool)
    (disableReordering : Bool) (res ref : MeshFields) : Option DiffFields :=
  let p := writeDiffInputs sortF meshEq disableReordering res ref
  meshDiffTo (meshEq p.2 p.1) p.1 p.2

end Fc.C14
