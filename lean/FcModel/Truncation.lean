/-
  FcModel.Truncation — what happens to a damaged file (work package C18).

  1. Python byte search (`bytes.find / rfind`, slices with negative bounds) and, on top of it, the
     hand-written fallback parser for raw appended data of `io/vtk/_xml_reader.py`
     (`_find_appendix_positions`, `_find_enclosed_content_range`, `_determine_encoding`) with the
     original `-1` conventions;
  2. the payload readers on an arbitrary available byte string (`NoCompressor`, `CompressorBase`
     of `_compressors.py`, for the base64 and the raw encoder) followed by the length assertions of
     `VTKXMLReader.read` / `_make_mesh`;
  3. the decision structure of the command-line entry point in file mode
     (`_cli/_file_comparison.py: FileComparison.__call__`, `_cli/_file_mode.py: _run`):
     which failures end where, and what exit code results.
-/
import FcModel.VtuWriter
namespace Fc.W

/-! ### 1a. Python byte search -/

/-- smallest index `≥ i` (counted from `i` at the head of the remaining list) where `pat` starts; `-1` if none -/
def findFrom (pat : List Nat) : List Nat → Nat → Int
  | [], i => if pat.isEmpty then (i : Int) else -1
  | c :: r, i => if pat.isPrefixOf (c :: r) then (i : Int) else findFrom pat r (i + 1)

/-- a Python index argument: negative counts from the end, clamped to `0` -/
def normIdx (len : Nat) (i : Int) : Nat := if i < 0 then (len + i).toNat else i.toNat

/-- `s.find(pat, start)` -/
def pyFind (pat s : List Nat) (start : Int) : Int :=
  let st := normIdx s.length start
  if st > s.length then -1 else findFrom pat (s.drop st) st

/-- last index where `pat` starts (`s.rfind(pat)`), `-1` if none -/
def rfindFrom (pat : List Nat) : List Nat → Nat → Int → Int
  | [], _, last => last
  | c :: r, i, last => rfindFrom pat r (i + 1) (if pat.isPrefixOf (c :: r) then (i : Int) else last)

def pyRfind (pat s : List Nat) : Int := rfindFrom pat s 0 (-1)

/-- `s[a:b]` -/
def pySlice (s : List Nat) (a b : Int) : List Nat :=
  let a' := min (normIdx s.length a) s.length
  let b' := min (normIdx s.length b) s.length
  (s.take b').drop a'

/-- `s[a:]` -/
def pySliceFrom (s : List Nat) (a : Int) : List Nat := s.drop (normIdx s.length a)

def asciiOf (t : String) : List Nat := t.toList.map Char.toNat

def tagAppended : List Nat := asciiOf "<AppendedData"
def tagAppendedEnd : List Nat := asciiOf "</AppendedData>"
def kwEncoding : List Nat := asciiOf "encoding"

/-! ### 1b. the fallback parser -/

/-- the `while` loop of `_find_enclosed_content_range` for different open / close characters;
    `cur` strictly increases, so `fuel = length + 1` is never exhausted -/
def enclosedLoop (s : List Nat) (o c : Nat) (st : Int) : Nat → Int → Nat → Nat → Option (Int × Int)
  | 0, _, _, _ => none
  | fuel + 1, cur, oc, cc =>
    if cur = -1 then none else
    let no := pyFind [o] s (cur + 1)
    let nc := pyFind [c] s (cur + 1)
    if nc ≠ -1 then
      if oc = cc + 1 ∧ (no = -1 ∨ nc < no) then some (st, nc)
      else enclosedLoop s o c st fuel (max no nc) (if no ≠ -1 then oc + 1 else oc) (cc + 1)
    else enclosedLoop s o c st fuel (max no nc) oc cc

/-- `_find_enclosed_content_range(content, start_pos, open_char, close_char)` -/
def findEnclosed (s : List Nat) (start : Int) (o c : Nat) : Option (Int × Int) :=
  let cur := pyFind [o] s start
  if cur = -1 then none
  else if o = c then some (cur + 1, pyFind [c] s (cur + 1))   -- `end_pos is None` never holds: -1 is passed on
  else enclosedLoop s o c (cur + 1) (s.length + 1) cur 1 0

/-- `_find_appendix_positions`: `none` = one of the four assertions fails -/
def appendixPositions (s : List Nat) : Option (Int × Int) :=
  let start := pyFind tagAppended s 0
  if start = -1 then none else
  match findEnclosed s start 60 62 with
  | none => none
  | some (_, close) =>
    let ub := pyFind [95] s (close + 1)
    if ub = -1 then none else
    let e := pyFind tagAppendedEnd s 0
    if e = -1 then none else some (ub + 1, e)

/-- `_determine_encoding(content)` -/
def determineEncoding (s : List Nat) : Option (List Nat) :=
  let pos := pyRfind tagAppended s
  let pos := pyFind kwEncoding s pos
  match findEnclosed s pos 34 34 with
  | none => none
  | some (a, b) => some (pySlice s a b)

structure Fallback where
  xmlPart : List Nat          -- text handed to `ElementTree.fromstring` (before `+ "</VTKFile>"`)
  appendix : List Nat
  encoding : List Nat
deriving Repr, DecidableEq

/-- the `except ParseError` branch of `VTKXMLReader.__init__` up to the second XML parse -/
def fallback (s : List Nat) : Option Fallback :=
  match appendixPositions s with
  | none => none
  | some (b, e) =>
    match determineEncoding (pySliceFrom s (b - 100)) with
    | none => none
    | some enc =>
      -- `content[:app_begin].rsplit("<AppendedData")[0]` = everything before the first occurrence
      let head := pySlice s 0 b
      let first := pyFind tagAppended head 0
      some ⟨if first = -1 then head else pySlice head 0 first, pySlice s b e, enc⟩

/-! ### 2. payload readers on whatever bytes are available -/

structure Enc where
  decode : List Nat → Option Bytes
  encode : Bytes → List Nat
  encodedBytes : Nat → Nat

def b64E : Enc := ⟨b64dec, b64enc, fun n => (n + 2) / 3 * 4⟩     -- `-(-n // 3) * 4`
def rawE : Enc := ⟨some, id, id⟩

/-- `NoCompressor.get_decompressed_data` for a header of `h` bytes -/
def noCompReadE (h : Nat) (E : Enc) (data : List Nat) : Option Bytes :=
  match E.decode data with
  | none => none
  | some decoded =>
    if decoded.length < h then none                    -- frombuffer ValueError / IndexError on `[0]`
    else
      let n := fromLe (decoded.take h)
      if decoded.length = h then
        match E.decode (data.drop (E.encode decoded).length) with
        | none => none
        | some d2 => some (d2.take n)
      else some ((decoded.drop h).take n)

/-- what the writer / a VTK library stores for an uncompressed array: header and data in one stream -/
def encodeE (h : Nat) (E : Enc) (payload : Bytes) : List Nat := E.encode (leBytes h payload.length ++ payload)

def sumList (l : List Nat) : Nat := l.foldr (· + ·) 0

/-- `np.cumsum` with a leading 0 -/
def offsetsOf : Nat → List Nat → List Nat
  | acc, [] => [acc]
  | acc, x :: r => acc :: offsetsOf (acc + x) r

/-- `CompressorBase.get_decompressed_data` (`_read_header` + `_uncompress_blocks`);
    `decompress` is the codec (a parameter; `none` = the codec raises) -/
def compReadE (h : Nat) (E : Enc) (decompress : Bytes → Option Bytes) (data : List Nat) : Option Bytes := do
  let eh := E.encodedBytes (3 * h)
  let hb ← E.decode (data.take eh)
  let header ← frombuffer h (hb.take (3 * h))
  let numBlocks ← header[0]?
  let ebs := E.encodedBytes (numBlocks * h)
  let sb ← E.decode ((data.drop eh).take ebs)
  let sizes ← frombuffer h (sb.take ebs)
  let full := header ++ sizes
  let _ ← full[1]?
  let blockSizes := full.drop 3
  let off := eh + ebs
  let decoded ← E.decode ((data.drop off).take (E.encodedBytes (sumList blockSizes)))
  if blockSizes.isEmpty then some [] else
  let offs := offsetsOf 0 blockSizes
  let parts ← mapM' (fun i => decompress ((decoded.take (offs.getD (i + 1) 0)).drop (offs.getD i 0)))
                    (List.range blockSizes.length)
  some (parts.flatMap id)

/-! ### 2b. what is stored for a compressed array, and the matrix of array encodings -/

/-- what a VTK library stores for a compressed array whose payload is the concatenation of `blocks`:
    the header `[#blocks, block size, size of the last block, compressed size of block 1 … n]` as ONE encoded
    stream, followed by the compressed blocks as a second encoded stream.  `compress` is the codec (parameter);
    the reader ignores the entries `bsz` and `last` -/
def encodeCompE (h : Nat) (E : Enc) (compress : Bytes → Bytes) (bsz last : Nat) (blocks : List Bytes) : List Nat :=
  let comp := blocks.map compress
  E.encode (itemsToBytes h ([blocks.length, bsz, last] ++ comp.map List.length)) ++ E.encode comp.flatten

/-- a payload cut into blocks of `bsz` bytes (the last one may be shorter); the fuel is the payload length -/
def chunksAux (bsz : Nat) : Nat → Bytes → List Bytes
  | 0, _ => []
  | fuel + 1, bs => if bs.isEmpty then [] else bs.take bsz :: chunksAux bsz fuel (bs.drop bsz)

def chunks (bsz : Nat) (bs : Bytes) : List Bytes := chunksAux bsz bs.length bs

/-- the compressed array as the writers produce it: blocks of `bsz` bytes -/
def encodeComp (h : Nat) (E : Enc) (compress : Bytes → Bytes) (bsz : Nat) (payload : Bytes) : List Nat :=
  encodeCompE h E compress bsz (payload.length % bsz) (chunks bsz payload)

/-- one cell of the matrix of binary array encodings: header type (4 = UInt32, 8 = UInt64), base64 (inline or
    appended) or raw (appended), uncompressed or compressed with blocks of `bsz` bytes -/
structure ArrCfg where
  h : Nat
  b64 : Bool
  comp : Option Nat
deriving Repr, DecidableEq

def ArrCfg.enc (c : ArrCfg) : Enc := if c.b64 then b64E else rawE

def encodeArr (c : ArrCfg) (compress : Bytes → Bytes) (payload : Bytes) : List Nat :=
  match c.comp with
  | none => encodeE c.h c.enc payload
  | some bsz => encodeComp c.h c.enc compress bsz payload

/-- `self._compressor.get_decompressed_data(data, encoder)` -/
def readArr (c : ArrCfg) (decompress : Bytes → Option Bytes) (data : List Nat) : Option Bytes :=
  match c.comp with
  | none => noCompReadE c.h c.enc data
  | some _ => compReadE c.h c.enc decompress data

/-- items of `size` bytes, then the length assertion against the declared number of items -/
def checkDeclared (size declared : Nat) (bytes : Option Bytes) : Option (List Nat) :=
  match bytes with
  | none => none
  | some b =>
    match frombuffer size b with
    | none => none
    | some items => if items.length = declared then some items else none    -- AssertionError otherwise

/-! ### 3. decision structure of `fieldcompare file <res> <ref>` -/

/-- exception classes as far as the control flow distinguishes them -/
inductive Exc where
  | io          -- IOError (= OSError) and subclasses
  | other       -- any other subclass of `Exception` (AssertionError, ParseError, ValueError, KeyError, zlib.error …)
deriving Repr, DecidableEq

inductive Read where
  | ok
  | raised (e : Exc)
deriving Repr, DecidableEq

/-- status of one field comparison (`FieldComparisonStatus`) -/
inductive FStatus where
  | passed | failed | error | missingSource | missingReference | filtered
deriving Repr, DecidableEq

/-- what comparing the two data sets yields -/
inductive Cmp where
  | domainMismatch                  -- domains compare unequal (any of the three messages)
  | fields (st : List FStatus)      -- one status per reported field
  | raised                          -- the comparison itself raises (e.g. sequences vs field data)
deriving Repr, DecidableEq

inductive TStatus where
  | passed | failed | error | skipped
deriving Repr, DecidableEq

/-- `_parse_status` with both `ignore_missing_*` flags unset (the configuration of C18) -/
def parseStatus (ignSrc ignRef : Bool) : FStatus → TStatus
  | .passed => .passed
  | .failed => .failed
  | .error => .error
  | .missingReference => if !ignRef then .failed else .skipped
  | .missingSource => if !ignSrc then .failed else .skipped
  | .filtered => .skipped

def tOk : TStatus → Bool
  | .failed => false
  | .error => false
  | _ => true

/-- `TestSuite.__bool__` -/
def suiteBool (status : Option TStatus) (tests : List TStatus) : Bool :=
  match status with
  | some s => tOk s
  | none => tests.all tOk

/-- `FileComparison.__call__`: `.ok (status override, tests)` or the exception that leaves it -/
def fileComparison (ignSrc ignRef : Bool) (res ref : Read) (cmp : Cmp) : Except Exc (Option TStatus × List TStatus) :=
  match res with
  | .raised .io => .ok (some .error, [])                 -- `except IOError` → error suite (reference not read)
  | .raised .other => .error .other
  | .ok =>
    match ref with
    | .raised .io => .ok (some .error, [])
    | .raised .other => .error .other
    | .ok =>
      match cmp with
      | .domainMismatch => .ok (some .failed, [])
      | .fields st => .ok (none, st.map (parseStatus ignSrc ignRef))
      | .raised => .error .other

/-- `_bool_to_exit_code` -/
def exitOfBool (b : Bool) : Nat := if b then 0 else 1

/-- `_file_mode._run`: the `try … except Exception` around the comparison; the result says whether an
    exception leaves `_run` (`.error`) or an exit code is returned -/
def runFileMode (ignSrc ignRef : Bool) (res ref : Read) (cmp : Cmp) : Except Exc Nat :=
  match fileComparison ignSrc ignRef res ref cmp with
  | .ok (status, tests) => .ok (exitOfBool (suiteBool status tests))
  | .error _ => .ok (exitOfBool false)                  -- `except Exception: passed = False`

/-- a status that makes a comparison fail when no `--ignore-missing-*` flag is given -/
def failingStatus : FStatus → Bool
  | .failed | .error | .missingSource | .missingReference => true
  | .passed | .filtered => false

/-- name matching as far as C18 needs it: every source name without partner is `missingReference`,
    every reference name without partner `missingSource`; matched names get the given verdict -/
def matchStatuses (src ref : List String) (verdict : String → FStatus) : List FStatus :=
  (src.map fun n => if ref.contains n then verdict n else .missingReference) ++
  ((ref.filter fun n => !src.contains n).map fun _ => .missingSource)

end Fc.W
