/-
  FcModel.Extend — model of `fieldcompare.mesh._transformations.extend_space_dimension_to` and of
  the "retry with matching space dimension" rung of `MeshFieldsComparator.__call__`
  (`_mesh_fields_comparator.py` lines 83–93), written at the level of what the code does.

  `extend_space_dimension_to(sd, fields)`, `msd = points.shape[1]`:
  * `sd == msd` → the argument itself;  `sd < msd` → ValueError;
  * points: zeros `(n, sd)`, `result[:, :msd] = points`;
  * a field is *scalar* if its shape is `(n,)` or `(n, 1)`  → untouched,
    *vector* if `(n, k)`, k ≠ 1: resized iff `k < sd` by `result[:, :msd] = values`
      — a numpy broadcast assignment: fine for `k == msd`, raises for any other k (k ≠ 1),
    *tensor* if `(n, k1, k2)`: resized iff `k1 < sd and k2 < sd` by
      `result[:, :msd, :msd] = values` — fine for `k1 == k2 == msd`; an axis of length 1 is
      silently BROADCAST (value repeated msd times, see NOTES_C08 "N-bcast"); anything else raises;
    any other rank → ValueError("Unsupported field shape").
  * connectivity and cell types are passed on unchanged.
  A raise is `none`.
-/
import FcModel.Permuted
namespace Fc

inductive FieldKind where
  | scalar | vector | tensor | unsupported
deriving Repr, DecidableEq

/-- `_is_scalar_field` / `_is_vector_field` / `_is_tensor_field`, tested in this order -/
def fieldKind (shape : List Nat) : FieldKind :=
  match shape with
  | [_] => .scalar
  | [_, k] => if k = 1 then .scalar else .vector
  | [_, _, _] => .tensor
  | _ => .unsupported

def zeros (n : Nat) : List Int := List.replicate n 0

/-- can an axis of length `k` be assigned to a slot of length `msd`? (numpy broadcasting) -/
def bcastOk (k msd : Nat) : Bool := k == msd || k == 1

/-- one vector row: the `msd` leading entries receive the (possibly broadcast) values, the rest
    stays zero -/
def resizeVectorRow (msd sd k : Nat) (row : List Int) : List Int :=
  (if k = msd then row else List.replicate msd (row.headD 0)) ++ zeros (sd - msd)

/-- the `k1 × k2` entries of one tensor row as `k1` matrix rows -/
def matRows (k1 k2 : Nat) (row : List Int) : List (List Int) :=
  (List.range k1).map fun r => (row.drop (r * k2)).take k2

/-- one tensor row (flat, row-major `k1 × k2`) → flat `sd × sd` -/
def resizeTensorRow (msd sd k1 k2 : Nat) (row : List Int) : List Int :=
  if k1 = msd ∧ k2 = msd then
    -- every matrix row gets `sd - msd` zeros appended, then `sd - msd` zero rows follow
    ((matRows msd msd row).flatMap fun mr => mr ++ zeros (sd - msd)) ++ zeros ((sd - msd) * sd)
  else
    -- broadcast along the axes of length 1
    (List.range sd).flatMap fun r => (List.range sd).map fun c =>
      if r < msd ∧ c < msd then
        row.getD ((if k1 = 1 then 0 else r) * k2 + (if k2 = 1 then 0 else c)) 0
      else 0

/-- `_resized_vector_field_values` -/
def resizedVector (msd sd : Nat) (a : NdArr) : Option NdArr :=
  match a.shape with
  | [n, k] =>
    if k < sd then
      if bcastOk k msd then
        some ⟨a.dtype, [n, sd], (List.range n).flatMap fun i => resizeVectorRow msd sd k (a.row i)⟩
      else none
    else some a
  | _ => none

/-- `_resized_tensor_field_values` -/
def resizedTensor (msd sd : Nat) (a : NdArr) : Option NdArr :=
  match a.shape with
  | [n, k1, k2] =>
    if k1 < sd ∧ k2 < sd then
      if bcastOk k1 msd && bcastOk k2 msd then
        some ⟨a.dtype, [n, sd, sd],
              (List.range n).flatMap fun i => resizeTensorRow msd sd k1 k2 (a.row i)⟩
      else none
    else some a
  | _ => none

/-- `_resized_field_values` -/
def resizedField (msd sd : Nat) (a : NdArr) : Option NdArr :=
  match fieldKind a.shape with
  | .scalar => some a
  | .vector => resizedVector msd sd a
  | .tensor => resizedTensor msd sd a
  | .unsupported => none

/-- `extend_space_dimension_to` -/
def extendSpaceDim (sd : Nat) (f : MeshFields) : Option MeshFields :=
  let msd := f.mesh.dim
  if sd = msd then some f
  else if sd < msd then none
  else
    match optAll (f.pointFields.map fun pf =>
            (resizedField msd sd pf.values).map fun v => PointField.mk pf.name v),
          optAll (f.cellFields.map fun cf =>
            (resizedField msd sd cf.values).map fun v => CellField.mk cf.name cf.ctype v) with
    | some pfs, some cfs =>
      some ⟨⟨sd, f.mesh.points.map fun p => p ++ zeros (sd - msd), f.mesh.cells⟩, pfs, cfs⟩
    | _, _ => none

/-! ### compositions that include the extension (driver op `c08.chain`, theorem `C08_compose`) -/

inductive Step where
  | layer (pp : Option (List Nat)) (cp : Option CellPerms)   -- one TransformedMeshFields/PermutedMesh layer
  | extend (sd : Nat)
deriving Repr

def applyStep : Step → MeshFields → Option MeshFields
  | .layer pp cp, f => applyPermuted pp cp f
  | .extend sd, f => extendSpaceDim sd f

def applySteps : List Step → MeshFields → Option MeshFields
  | [], f => some f
  | s :: ss, f =>
    match applyStep s f with
    | none => none
    | some f1 => applySteps ss f1

/-! ### the space-dimension rung of `MeshFieldsComparator.__call__` -/

/-- the points of a mesh as the `(n, dim)` float64 array handed to `FuzzyEquality` -/
def Mesh.pointsArr (m : Mesh) : NdArr := ⟨.flt f64, [m.numPoints, m.dim], m.points.flatten⟩

/-- first stage of `mesh_equal`: `FuzzyEquality(rel_tol, abs_tol)(source.points, target.points)` -/
def pointsEqual (rel abs : Nat) (a b : Mesh) : Bool :=
  fuzzyCheck (.num rel) (.num abs) a.pointsArr b.pointsArr == .ok true

/-- `mesh_equal`: the points stage, then the cell stages (`cellsEq`, property C03/C16's business,
    a parameter here) -/
def domainEqual (rel abs : Nat) (cellsEq : Mesh → Mesh → Bool) (a b : Mesh) : Bool :=
  pointsEqual rel abs a b && cellsEq a b

/-- fields as `FieldDataComparator` sees them: name (cell fields annotated with their type) and values -/
def MeshFields.namedFields (f : MeshFields) : List ((String × Option String) × NdArr) :=
  f.pointFields.map (fun pf => ((pf.name, none), pf.values)) ++
  f.cellFields.map (fun cf => ((cf.name, some cf.ctype), cf.values))

/-- `find_matches_by_name`: first match in the remaining reference fields, which is then removed -/
def findFieldMatches {κ} [BEq κ] : List (κ × NdArr) → List (κ × NdArr) → List (NdArr × NdArr)
  | [], _ => []
  | s :: ss, ref =>
    match ref.findIdx? (fun r => r.1 == s.1) with
    | some i => (s.2, (ref.getD i s).2) :: findFieldMatches ss (ref.eraseIdx i)
    | none => findFieldMatches ss ref

/-- one `FieldDataComparator` run: (domain_equality_check, bool(suite)); missing fields are
    skipped, a predicate error counts as failure -/
def runComparison (domEq : Mesh → Mesh → Bool) (pred : NdArr → NdArr → Verdict)
    (s r : MeshFields) : Bool × Bool :=
  if domEq s.mesh r.mesh then
    (true, (findFieldMatches s.namedFields r.namedFields).all fun p => pred p.1 p.2 == .ok true)
  else (false, false)

/-- `MeshFieldsComparator.__call__` up to and including the space-dimension rung; `rest` = the
    reordering rungs that follow (property C02's ladder), `none` = `extend_space_dimension_to` raised -/
def compareDimMatch (run : MeshFields → MeshFields → Bool × Bool)
    (rest : MeshFields → MeshFields → Bool) (disable : Bool) (s r : MeshFields) : Option Bool :=
  let (dom, ok) := run s r
  if dom then some ok
  else if s.mesh.dim ≠ r.mesh.dim ∧ !disable then
    let d := max s.mesh.dim r.mesh.dim
    match extendSpaceDim d s, extendSpaceDim d r with
    | some s', some r' =>
      let (dom', ok') := run s' r'
      if dom' then some ok' else some (rest s' r')
    | _, _ => none
  else some (rest s r)

end Fc
