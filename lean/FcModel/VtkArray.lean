/-
  FcModel.VtkArray — what fieldcompare's VTK XML reader does with the bytes of one <DataArray>
  (fieldcompare/io/vtk/_compressors.py, _encoders.py, _appendix.py, _xml_reader.py), byte level.

  Bytes are `Nat`s < 256.  Python slices `x[a:b]` are `(x.drop a).take (b - a)`.  Exceptions
  (binascii.Error, ValueError of np.frombuffer, IndexError, codec errors) are `none`.
  The codec is a parameter `decompress : block → raw_block_size → Option bytes`.
-/
import FcModel.Base64
import FcGen.Tables
namespace Fc

/-! ### integers ↔ bytes -/

/-- value of a little-endian byte string -/
def leVal : List Nat → Nat
  | [] => 0
  | b :: bs => b + 256 * leVal bs

/-- the `k` little-endian bytes of `n` (mod 256^k) -/
def leBytes : Nat → Nat → List Nat
  | 0, _ => []
  | k + 1, n => n % 256 :: leBytes k (n / 256)

inductive ByteOrder where
  | le | be
  deriving DecidableEq, Repr

/-- file byte order → little-endian (and back: reversing is an involution) -/
def ByteOrder.fix (bo : ByteOrder) (item : List Nat) : List Nat :=
  match bo with
  | .le => item
  | .be => item.reverse

def wordVal (bo : ByteOrder) (bs : List Nat) : Nat := leVal (bo.fix bs)
def wordBytes (bo : ByteOrder) (k n : Nat) : List Nat := bo.fix (leBytes k n)

/-- consecutive groups of `k` items (the last one may be shorter); fuel = length, so structural -/
def chunksAux (k : Nat) : Nat → List Nat → List (List Nat)
  | 0, _ => []
  | fuel + 1, l => if l = [] then [] else l.take k :: chunksAux k fuel (l.drop k)

def chunks (k : Nat) (l : List Nat) : List (List Nat) := chunksAux k l.length l

/-- `np.frombuffer(bs, dtype)` for an unsigned integer dtype of `k` bytes in byte order `bo`:
    `none` (ValueError) unless the length is a multiple of `k` -/
def words (bo : ByteOrder) (k : Nat) (bs : List Nat) : Option (List Nat) :=
  if k = 0 ∨ bs.length % k ≠ 0 then none else some ((chunks k bs).map (wordVal bo))

/-- `np.frombuffer(bs, dtype.newbyteorder(bo))` observed as the little-endian bytes of the items
    (concatenated): grouping into items of `sz` bytes and byte swapping -/
def itemsLE (bo : ByteOrder) (sz : Nat) (bs : List Nat) : Option (List Nat) :=
  if sz = 0 ∨ bs.length % sz ≠ 0 then none else some ((chunks sz bs).map bo.fix).flatten

/-! ### encoders (`_encoders.py`) -/

structure Encoder where
  decode : List Nat → Option (List Nat)
  encode : List Nat → List Nat
  encodedBytes : Nat → Nat

/-- `NoEncoder`; `encoded_bytes` is the translated source expression -/
def rawEncoder : Encoder := ⟨some, id, fun n => (Gen.encodedBytesRaw n).toNat⟩

/-- `Base64Encoder`; `encoded_bytes` is the translated source expression `-(-n // 3) * 4` -/
def b64Encoder : Encoder := ⟨b64decodeLenient, b64encode, fun n => (Gen.encodedBytesB64 n).toNat⟩

/-! ### `NoCompressor.get_decompressed_data` -/

/-- `hs` = header item size (4 / 8), `bo` = byte order of the header type -/
def noCompRead (hs : Nat) (bo : ByteOrder) (enc : Encoder) (data : List Nat) : Option (List Nat) := do
  let decoded ← enc.decode data
  let hdr := decoded.take hs
  -- np.frombuffer(decoded[:hs], header_type)[0]: ValueError / IndexError unless hs bytes are there
  if hdr.length ≠ hs then none else
  let n := wordVal bo hdr
  if decoded.length = hs then
    -- "header was encoded separately"
    let off := (enc.encode decoded).length
    let d2 ← enc.decode (data.drop off)
    some (d2.take n)
  else
    some ((decoded.drop hs).take n)

/-! ### `CompressorBase` -/

/-- `_read_header`: (all header words, offset of the data) -/
def readHeader (hs : Nat) (bo : ByteOrder) (enc : Encoder) (data : List Nat) : Option (List Nat × Nat) := do
  let dhb := hs * 3
  let ehb := enc.encodedBytes dhb
  let h0 ← enc.decode (data.take ehb)
  let header ← words bo hs (h0.take dhb)
  let nb ← header[0]?
  let dbsb := nb * hs
  let ebsb := enc.encodedBytes dbsb
  let s0 ← enc.decode ((data.drop ehb).take ebsb)
  -- (sic) the decoded block-size bytes are cut at the *encoded* size
  let sizes ← words bo hs (s0.take ebsb)
  some (header ++ sizes, ehb + ebsb)

/-- `_uncompress_blocks`: block `i` is `decoded[off_i : off_i + size_i]`, offsets by cumulative sum
    (held in an array of the header type: an offset that does not fit is an error) -/
def uncompressBlocks (hs : Nat) (decompress : List Nat → Nat → Option (List Nat))
    (decoded : List Nat) (rbs : Nat) : List Nat → Nat → Option (List Nat)
  | [], _ => some []
  | s :: ss, off =>
    if 256 ^ hs ≤ off + s then none else do
      let b ← decompress ((decoded.drop off).take s) rbs
      let r ← uncompressBlocks hs decompress decoded rbs ss (off + s)
      some (b ++ r)

/-- `CompressorBase.get_decompressed_data` -/
def compRead (hs : Nat) (bo : ByteOrder) (enc : Encoder) (decompress : List Nat → Nat → Option (List Nat))
    (data : List Nat) : Option (List Nat) := do
  let (header, off) ← readHeader hs bo enc data
  let rbs ← header[1]?
  let sizes := header.drop 3
  let edb := enc.encodedBytes sizes.sum
  let dd ← enc.decode ((data.drop off).take edb)
  uncompressBlocks hs decompress dd rbs sizes 0

/-- the byte strings `compRead` hands to the codec (with the raw block size), without calling it;
    used by the driver to ask the harness for the real codec's answers on files of unknown origin -/
def blockSlices (hs : Nat) (decoded : List Nat) : List Nat → Nat → Option (List (List Nat))
  | [], _ => some []
  | s :: ss, off =>
    if 256 ^ hs ≤ off + s then none else do
      let r ← blockSlices hs decoded ss (off + s)
      some ((decoded.drop off).take s :: r)

def compBlocks (hs : Nat) (bo : ByteOrder) (enc : Encoder) (data : List Nat) :
    Option (Nat × List (List Nat)) := do
  let (header, off) ← readHeader hs bo enc data
  let rbs ← header[1]?
  let sizes := header.drop 3
  let edb := enc.encodedBytes sizes.sum
  let dd ← enc.decode ((data.drop off).take edb)
  let sl ← blockSlices hs dd sizes 0
  some (rbs, sl)

/-! ### one data array -/

/-- how the binary arrays of a file are stored (file-level attributes) -/
structure ReadCfg where
  hs : Nat                -- header_type item size
  bo : ByteOrder          -- byte_order
  b64 : Bool              -- inline binary / appended base64 (true) or appended raw (false)
  compressed : Bool       -- `compressor` attribute present
  deriving Repr

def ReadCfg.enc (c : ReadCfg) : Encoder := if c.b64 then b64Encoder else rawEncoder

/-- `VTKXMLAppendix.get(offset)` -/
def appendixGet (content : List Nat) (offset : Nat) : List Nat := content.drop offset

/-- `_get_inline_binary_data_array_values` / `_get_appended_data_array_values` up to `np.frombuffer`:
    the payload bytes in file byte order -/
def readPayload (c : ReadCfg) (decompress : List Nat → Nat → Option (List Nat)) (data : List Nat) :
    Option (List Nat) :=
  if c.compressed then compRead c.hs c.bo c.enc decompress data else noCompRead c.hs c.bo c.enc data

/-- the items of a binary data array as little-endian bytes -/
def readArray (c : ReadCfg) (decompress : List Nat → Nat → Option (List Nat)) (sz : Nat) (data : List Nat) :
    Option (List Nat) := do
  let p ← readPayload c decompress data
  itemsLE c.bo sz p

/-- ascii arrays, token level (`np.fromstring` itself is delegated): integer tokens are stored in an
    item of `sz` bytes (two's complement); float tokens are transported as their bit patterns -/
def asciiRead (sz : Nat) (toks : List Int) : List Nat :=
  (toks.map (fun v => leBytes sz (v % ((256 ^ sz : Nat) : Int)).toNat)).flatten

/-- `np.fromstring(text, dtype, sep=" ")` observed as the little-endian bytes of the items, for a dtype
    that does (`usesBo`) or does not depend on the file's `byte_order`: numpy's text parser stores the
    NATIVE (host = little-endian) bytes of every value whatever byte order the dtype requests, so a dtype
    of the other byte order reads every item byte-swapped (sampled against numpy by the harness). -/
def asciiItemsWith (usesBo : Bool) (bo : ByteOrder) (sz : Nat) (toks : List Int) : List Nat :=
  if usesBo then ((chunks sz (asciiRead sz toks)).map bo.fix).flatten else asciiRead sz toks

/-- `_get_inline_ascii_data_array_values` under the file's `byte_order`: whether the dtype handed to
    `np.fromstring` depends on the byte order is read off the SOURCE TEXT (`Gen.vtkDtypeByteOrder`,
    regenerated on every run; an unknown shape counts as "depends") -/
def asciiItems (bo : ByteOrder) (sz : Nat) (toks : List Int) : List Nat :=
  asciiItemsWith ((Gen.vtkDtypeByteOrder.lookup "ascii").getD true) bo sz toks

end Fc
