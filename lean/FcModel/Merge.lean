/-
  FcModel.Merge — model of `fieldcompare.mesh.merge` (mesh/_transformations.py:111-362):

    merge                     left fold of `_merge` over the pieces
    _merge                    `merge1`  (early `return fields1` when the later piece brings no new point
                              — finding F3 — is modelled as it is)
    _map_duplicate_points     `mapDuplicatePoints` : lexsort of the later piece (a *parameter* `srt`,
                              the driver instantiates the stable insertion sort `lexsortIdx`) + lower-bound
                              binary search `bsearch` with `_is_lex_smaller` = `lexLt` + exact comparison
    _filter_external_indices  `filterExternal`
    _map_external_indices     `mapExternal`  (offset arithmetic with the running counter)

  Coordinates are `Int` unit counts (order- and equality-preserving image of finite floats;
  +0.0 and -0.0 are the same number, as they are for `<`, `>` and `==` of numpy).
  The Python dict `duplicate_point_idx_map` (index in the later piece -> index in the earlier mesh)
  is a `List (Option Nat)` indexed by the later piece's point index; item assignment = `List.set`.

  Not modelled (outside `mergeHyp`): numpy dtype promotion when the two sides of a concatenation have
  different dtypes; the `KeyError` raised when a cell field is missing on a cell type (the model drops
  the entry instead); pieces of different space dimension.
-/
import FcModel.Mesh
namespace Fc.C06

/-! ### `_map_duplicate_points` -/

/-- `_is_lex_smaller` (the `zip` stops at the shorter row) -/
def lexLt : List Int → List Int → Bool
  | x :: xs, y :: ys => if x < y then true else if y < x then false else lexLt xs ys
  | _, _ => false

/-- insert index `i` into an index list sorted by `lexLt`, behind all entries that are not larger -/
def insertIdx (pts : List (List Int)) (i : Nat) : List Nat → List Nat
  | [] => [i]
  | j :: r => if lexLt (pts.getD i []) (pts.getD j []) then i :: j :: r else j :: insertIdx pts i r

/-- a concrete `np.lexsort`: stable insertion sort of the row indices -/
def lexsortIdx (pts : List (List Int)) : List Nat :=
  (List.range pts.length).foldl (fun acc i => insertIdx pts i acc) []

/-- the `while lower < upper` loop of `_find_candidate`; `fuel` bounds the number of iterations
    (`upper - lower` strictly decreases, so `fuel = upper - lower` is enough) -/
def bsearch (src : List (List Int)) (sidx : List Nat) (t : List Int) : Nat → Nat → Nat → Nat
  | 0, lo, _ => lo
  | fuel + 1, lo, hi =>
    if lo < hi then
      let mid := (lo + hi) / 2
      if lexLt (src.getD (sidx.getD mid 0) []) t then bsearch src sidx t fuel (mid + 1) hi
      else bsearch src sidx t fuel lo mid
    else lo

/-- `_find_candidate` -/
def findCandidate (src : List (List Int)) (sidx : List Nat) (t : List Int) : Option Nat :=
  let lo := bsearch src sidx t src.length 0 src.length
  if lo < src.length then some (sidx.getD lo 0) else none

/-- one iteration of the loop over the target (earlier) points -/
def dupStep (src : List (List Int)) (sidx : List Nat) (tgt : List (List Int))
    (acc : List (Option Nat)) (j : Nat) : List (Option Nat) :=
  let t := tgt.getD j []
  match findCandidate src sidx t with
  | none => acc
  | some c => if src.getD c [] == t then acc.set c (some j) else acc

/-- `_map_duplicate_points(source = later piece, target = earlier mesh)`:
    entry `i` = `some j` iff the dict maps source index `i` to target index `j` -/
def mapDuplicatePoints (sidx : List Nat) (src tgt : List (List Int)) : List (Option Nat) :=
  (List.range tgt.length).foldl (dupStep src sidx tgt) (List.replicate src.length none)

/-! ### `_filter_external_indices`, `_map_external_indices` -/

def filterExternal (dups : List (Option Nat)) : List Nat :=
  (List.range dups.length).filter fun i => (dups.getD i none).isNone

/-- loop of `_map_external_indices` from index `i` on, `m` = `mapped_index_offset` so far -/
def mapExternalGo (offset : Nat) : List (Option Nat) → Nat → Nat → List Nat
  | [], _, _ => []
  | some j :: r, i, m => j :: mapExternalGo offset r (i + 1) (m + 1)
  | none :: r, i, m => (i + offset - m) :: mapExternalGo offset r (i + 1) m

def mapExternal (dups : List (Option Nat)) (offset : Nat) : List Nat :=
  mapExternalGo offset dups 0 0

/-! ### arrays -/

/-- `values[idx]` along axis 0 -/
def NdArr.takeRows (a : NdArr) (idx : List Nat) : NdArr :=
  ⟨a.dtype, idx.length :: a.shape.tail, idx.flatMap a.row⟩

/-- `concatenate((a, b))` along axis 0 for equal dtypes and entry shapes -/
def NdArr.concat (a b : NdArr) : NdArr :=
  ⟨a.dtype, (a.shape.headD 0 + b.shape.headD 0) :: a.shape.tail, a.data ++ b.data⟩

/-- `n` rows of zeros with the dtype / entry shape of `a` -/
def NdArr.zerosLike (a : NdArr) (n : Nat) : NdArr :=
  ⟨a.dtype, n :: a.shape.tail, List.replicate (n * a.rowSize) 0⟩

/-! ### `_merge` -/

def remapRows (pmap : List Nat) (rows : List (List Nat)) : List (List Nat) :=
  rows.map fun row => row.map fun p => pmap.getD p 0

/-- rows of the first block of type `ct` (`connectivity(ct)`; same as `Mesh.cellsOf`) -/
def rowsOfType (cells : List (String × List (List Nat))) (ct : String) : List (List Nat) :=
  match cells.find? (·.1 == ct) with
  | some b => b.2
  | none => []

/-- merged cell blocks: the earlier mesh's types keep their position and receive the later
    piece's remapped rows; types new in the later piece are appended in its order -/
def mergeCells (c1 c2 : List (String × List (List Nat))) (pmap : List Nat) :
    List (String × List (List Nat)) :=
  c1.map (fun b => (b.1, b.2 ++ remapRows pmap (rowsOfType c2 b.1)))
  ++ (c2.filter fun b2 => !(c1.any (·.1 == b2.1))).map fun b2 => (b2.1, remapRows pmap b2.2)

def findCellField (cfs : List CellField) (name ct : String) : Option CellField :=
  cfs.find? fun cf => cf.name == name && cf.ctype == ct

/-- insertion-ordered distinct names (`raw_cell_field_names`; the Python `set` has no defined
    order — observables are compared by name) -/
def dedupNames : List String → List String
  | [] => []
  | n :: r => n :: (dedupNames r).filter (· != n)

/-- `cell_fields[ct][name]` after both loops: concatenated if both sides have the field on `ct` -/
def mergeCellEntry (name ct : String) : Option CellField → Option CellField → Option CellField
  | some a, some b => some ⟨name, ct, NdArr.concat a.values b.values⟩
  | some a, none => some ⟨name, ct, a.values⟩
  | none, some b => some ⟨name, ct, b.values⟩
  | none, none => none   -- Python: KeyError

/-- merged cell fields, listed type-major like `MeshFields.cell_fields_types` -/
def mergeCellFields (types : List String) (cf1 cf2 : List CellField) : List CellField :=
  types.flatMap fun ct => (dedupNames (cf1.map (·.name) ++ cf2.map (·.name))).filterMap fun name =>
    mergeCellEntry name ct (findCellField cf1 name ct) (findCellField cf2 name ct)

/-- a point field of the earlier mesh, extended by the later piece's kept rows (or zeros) -/
def mergePointEntry (n2 : Nat) (filt : List Nat) (a : PointField) : Option PointField → PointField
  | some b => ⟨a.name, NdArr.concat a.values (NdArr.takeRows b.values filt)⟩
  | none => ⟨a.name, NdArr.concat a.values (NdArr.zerosLike a.values n2)⟩

def mergePointFields (n1 n2 : Nat) (filt : List Nat) (pf1 pf2 : List PointField) : List PointField :=
  pf1.map (fun a => mergePointEntry n2 filt a (pf2.find? (·.name == a.name)))
  ++ (pf2.filter fun b => !(pf1.any (·.name == b.name))).map fun b =>
      ⟨b.name, NdArr.concat (NdArr.zerosLike b.values n1) (NdArr.takeRows b.values filt)⟩

/-- `_merge(fields1, fields2, remove_duplicate_points=True)`; `srt` = the lexsort used -/
def merge1 (srt : List (List Int) → List Nat) (f1 f2 : MeshFields) : MeshFields :=
  let p1 := f1.mesh.points
  let p2 := f2.mesh.points
  let dups := mapDuplicatePoints (srt p2) p2 p1
  let filt := filterExternal dups
  let pmap := mapExternal dups p1.length
  if filt.isEmpty then f1      -- `if len(points2_filter) == 0: return fields1`   (finding F3)
  else
    let cells := mergeCells f1.mesh.cells f2.mesh.cells pmap
    { mesh := ⟨f1.mesh.dim, p1 ++ filt.map (fun i => p2.getD i []), cells⟩
      pointFields := mergePointFields p1.length p2.length filt f1.pointFields f2.pointFields
      cellFields := mergeCellFields (cells.map (·.1)) f1.cellFields f2.cellFields }

/-- `merge(*mesh_fields)`; `none` = the `assert result is not None` on an empty argument list -/
def mergeAll (srt : List (List Int) → List Nat) : List MeshFields → Option MeshFields
  | [] => none
  | f :: r => some (r.foldl (merge1 srt) f)

/-! ### hypotheses / classes (decidable) -/

def nodupPoints (pts : List (List Int)) : Bool :=
  (List.range pts.length).all fun i => (List.range i).all fun j => pts.getD j [] != pts.getD i []

def nodupStrings : List String → Bool
  | [] => true
  | s :: r => !r.contains s && nodupStrings r

/-- same names, dtypes and entry shapes, in the same order -/
def samePointSchema (a b : List PointField) : Bool :=
  a.map (fun f => (f.name, f.values.dtype, f.values.shape.tail)) ==
  b.map (fun f => (f.name, f.values.dtype, f.values.shape.tail))

/-- cell-field schema of a piece: for every field name the dtype / entry shape (equal on all of its
    cell types), every name present on every type of the piece -/
def cellSchema (f : MeshFields) : List (String × DType × List Nat) :=
  (dedupNames (f.cellFields.map (·.name))).map fun n =>
    match f.cellFields.find? (·.name == n) with
    | some cf => (n, cf.values.dtype, cf.values.shape.tail)
    | none => (n, .str, [])

def cellFieldsComplete (f : MeshFields) : Bool :=
  let sch := cellSchema f
  nodupStrings (f.cellFields.map fun cf => cf.name ++ "\n" ++ cf.ctype) &&
  f.mesh.cellTypes.all (fun ct => sch.all fun s =>
    match findCellField f.cellFields s.1 ct with
    | some cf => cf.values.dtype == s.2.1 && cf.values.shape.tail == s.2.2
    | none => false) &&
  f.cellFields.all fun cf => f.mesh.cellTypes.contains cf.ctype

/-- a piece the model speaks about -/
def pieceOk (f : MeshFields) : Bool :=
  f.wf && nodupPoints f.mesh.points && nodupStrings f.mesh.cellTypes &&
  nodupStrings (f.pointFields.map (·.name)) && cellFieldsComplete f &&
  f.mesh.cells.all (fun b => !b.2.isEmpty)

/-- `hyp` of the correspondence: every piece is fine and all pieces share dimension and schemas -/
def mergeHyp : List MeshFields → Bool
  | [] => false
  | f :: r => pieceOk f && r.all fun g =>
      pieceOk g && g.mesh.dim == f.mesh.dim && samePointSchema f.pointFields g.pointFields &&
      cellSchema g == cellSchema f

/-- does `pts` contain a point that is not in `seen`? -/
def bringsNewPoint (seen pts : List (List Int)) : Bool :=
  pts.any fun p => !seen.contains p

/-- every later piece brings at least one point not seen in the earlier pieces -/
def laterBringNew : List (List Int) → List MeshFields → Bool
  | _, [] => true
  | seen, f :: r => bringsNewPoint seen f.mesh.points && laterBringNew (seen ++ f.mesh.points) r

/-- class predicate of finding F3 = negation of the extra hypothesis of `C06_unstructured_partial` -/
def f3Class : List MeshFields → Bool
  | [] => false
  | f :: r => !laterBringNew f.mesh.points r

end Fc.C06
