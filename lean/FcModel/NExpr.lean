/-
  FcModel.NExpr — a tiny expression language for the numpy element-wise code that the
  translator (harness/fcv/tables/numpy_exprs.py) extracts from the *source text* of
  `_numpy_utils.fuzzy_equal`, with a binary64 semantics on one scalar lane.

  The translated body lands in `Fc.Gen.fuzzyEqualBody` (FcGen/Tables.lean, regenerated on every
  run); `FcProofs/Props/C01.lean` proves that evaluating it is the model's `fuzzyEq1`, so a change
  of the formula in the source (`<` for `<=`, `minimum` for `maximum`, swapped tolerances, a
  dropped `abs`) breaks a proof obligation.
-/
import FcModel.F64
namespace Fc

/-- extended binary64 value of one lane -/
inductive XV where
  | fin (n : Int)        -- finite, in units
  | pinf | ninf | nan
deriving Repr, DecidableEq

inductive NExpr where
  | var (name : String)
  | abs (e : NExpr)
  | neg (e : NExpr)
  | sub (a b : NExpr)
  | add (a b : NExpr)
  | mul (a b : NExpr)
  | maximum (a b : NExpr)
  | minimum (a b : NExpr)
  | lessEqual (a b : NExpr)
  | less (a b : NExpr)
  | greaterEqual (a b : NExpr)
  | greater (a b : NExpr)
deriving Repr, DecidableEq

inductive NStmt where
  | assign (v : String) (e : NExpr)       -- v = e
  | imul (v : String) (e : NExpr)         -- v *= e
  | ret (e : NExpr)                       -- return e
deriving Repr, DecidableEq

/-- lane value: a float or the boolean result of a comparison -/
inductive LV where
  | num (x : XV)
  | bool (b : Bool)
deriving Repr, DecidableEq

def XV.ofRnd (neg : Bool) : Option Nat → XV
  | some r => .fin (if neg then -(r : Int) else r)
  | none => if neg then .ninf else .pinf

def xvNeg : XV → XV
  | .fin n => .fin (-n)
  | .pinf => .ninf
  | .ninf => .pinf
  | .nan => .nan

def xvAbs : XV → XV
  | .fin n => .fin n.natAbs
  | .pinf => .pinf
  | .ninf => .pinf
  | .nan => .nan

/-- binary64 addition of lane values -/
def xvAdd : XV → XV → XV
  | .fin a, .fin b => XV.ofRnd (decide (a + b < 0)) (rndMag f64 (a + b).natAbs 0)
  | .nan, _ => .nan
  | _, .nan => .nan
  | .pinf, .ninf => .nan
  | .ninf, .pinf => .nan
  | .pinf, _ => .pinf
  | _, .pinf => .pinf
  | .ninf, _ => .ninf
  | _, .ninf => .ninf

def xvSub (a b : XV) : XV := xvAdd a (xvNeg b)

def xvSign : XV → Int
  | .fin n => if n < 0 then -1 else if n = 0 then 0 else 1
  | .pinf => 1
  | .ninf => -1
  | .nan => 0

/-- binary64 multiplication of lane values (finite·finite: one rounding of the exact product) -/
def xvMul : XV → XV → XV
  | .fin a, .fin b => XV.ofRnd (decide (a * b < 0)) (rndMag f64 (a * b).natAbs UNIT)
  | .nan, _ => .nan
  | _, .nan => .nan
  | x, y =>
    let s := xvSign x * xvSign y
    if s = 0 then .nan else if s < 0 then .ninf else .pinf

/-- `x <= y` on lane values; anything involving nan is false -/
def xvLe : XV → XV → Bool
  | .nan, _ => false
  | _, .nan => false
  | .ninf, _ => true
  | _, .pinf => true
  | .pinf, _ => false
  | _, .ninf => false
  | .fin a, .fin b => decide (a ≤ b)

def xvLt (x y : XV) : Bool := xvLe x y && !(xvLe y x)

/-- `np.maximum` / `np.minimum` propagate nan -/
def xvMax (x y : XV) : XV :=
  match x, y with
  | .nan, _ => .nan
  | _, .nan => .nan
  | _, _ => if xvLe x y then y else x

def xvMin (x y : XV) : XV :=
  match x, y with
  | .nan, _ => .nan
  | _, .nan => .nan
  | _, _ => if xvLe x y then x else y

abbrev Env := List (String × LV)

def Env.get (env : Env) (v : String) : Option LV := (env.find? (·.1 == v)).map (·.2)

def evalNum (f : XV → XV) : Option LV → Option LV
  | some (.num x) => some (.num (f x))
  | _ => none

def evalNum2 (f : XV → XV → XV) : Option LV → Option LV → Option LV
  | some (.num x), some (.num y) => some (.num (f x y))
  | _, _ => none

def evalCmp (f : XV → XV → Bool) : Option LV → Option LV → Option LV
  | some (.num x), some (.num y) => some (.bool (f x y))
  | _, _ => none

def NExpr.eval (env : Env) : NExpr → Option LV
  | .var v => env.get v
  | .abs e => evalNum xvAbs (e.eval env)
  | .neg e => evalNum xvNeg (e.eval env)
  | .sub a b => evalNum2 xvSub (a.eval env) (b.eval env)
  | .add a b => evalNum2 xvAdd (a.eval env) (b.eval env)
  | .mul a b => evalNum2 xvMul (a.eval env) (b.eval env)
  | .maximum a b => evalNum2 xvMax (a.eval env) (b.eval env)
  | .minimum a b => evalNum2 xvMin (a.eval env) (b.eval env)
  | .lessEqual a b => evalCmp xvLe (a.eval env) (b.eval env)
  | .less a b => evalCmp xvLt (a.eval env) (b.eval env)
  | .greaterEqual a b => evalCmp (fun x y => xvLe y x) (a.eval env) (b.eval env)
  | .greater a b => evalCmp (fun x y => xvLt y x) (a.eval env) (b.eval env)

/-- run a straight-line body; the value of the first `return` -/
def evalBody : Env → List NStmt → Option LV
  | _, [] => none
  | env, .assign v e :: rest =>
    match e.eval env with
    | some x => evalBody ((v, x) :: env) rest
    | none => none
  | env, .imul v e :: rest =>
    match evalNum2 xvMul (env.get v) (e.eval env) with
    | some x => evalBody ((v, x) :: env) rest
    | none => none
  | env, .ret e :: _ => e.eval env

end Fc
