/-
  FcModel.Spec.C02 — what property C02 demands, and the decidable hypotheses (`Sep`,
  `Distinguishable`, unique cells, hash injectivity) under which the model is proved / checked to
  meet it.

  * **Sep.**  With `A = atol/2` and `B = 4·atol` (exact integers, in units): any two values that
    occur in one coordinate column differ by at most `A` or by more than `B` (`sepCol`, exact
    integer arithmetic), and two floating-point side conditions hold (`boundsOk`): a difference
    `≤ A` is "close" for every closeness test the code applies (`np.isclose` in the run
    detection — asymmetric —, `fuzzy_equal` in the duplicate detection / `mesh_equal`), a
    difference `> B` is not (for operands of magnitude `≤ M`).  Then "close" is an order-convex
    equivalence on the occurring values and `clusterKey` (the smallest occurring value within `A`)
    is a monotone class function: *cluster keys*.  Proved in FcProofs/Lemmas/LexsortSep.lean.
  * **canonical order of the points** (`specSortPoints`): ascending in the lexicographic order of
    the coordinate cluster keys; coincident points (equal key vectors) ascending in the cluster
    keys of their *minimal* adjacent cell centre.  It does not mention `argsort`.
  * **canonical order of the cells** of one type: ascending in `h(sorted corner ids)`.
  * the ladder on a relabelled pair must end with equal domains and every field `passed`.

  Core Lean only (linked into `fcdrv`).
-/
import FcModel.Ladder
namespace Fc.Spec
open Fc

/-! ### Sep: margins, float side conditions, cluster keys -/

def sepA (t : MeshTol) : Nat := t.atol / 2
def sepB (t : MeshTol) : Nat := 4 * t.atol

/-- right-hand side of `np.isclose` for `|b| = m` -/
def thrIs (t : MeshTol) (m : Nat) : Option Nat := iscloseThr t.atol t.rtol m

/-- right-hand side of `fuzzy_equal` for `max(|a|,|b|) = m` -/
def thrFz (t : MeshTol) (m : Nat) : Option Nat := threshold f64 m t.rtol true t.atol true

/-- the floating-point side conditions of `Sep` for margins `A`, `B` and magnitudes `≤ M` -/
def boundsOk (t : MeshTol) (A B M : Nat) : Bool :=
  leInf (rndMag f64 A 0) (thrIs t 0) && leInf (rndMag f64 A 0) (thrFz t 0) &&
  !leInf (rndMag f64 (B + 1) 0) (thrIs t M) && !leInf (rndMag f64 (B + 1) 0) (thrFz t M)

/-- any two occurring values differ by `≤ A` or by `> B` -/
def sepCol (A B : Nat) (vals : List Int) : Bool :=
  vals.all fun u => vals.all fun v => decide ((u - v).natAbs ≤ A) || decide (B < (u - v).natAbs)

/-- cluster key of `u`: the smallest occurring value within `A` of `u` -/
def clusterKey (A : Nat) (vals : List Int) (u : Int) : Int :=
  (vals.filter fun w => decide ((w - u).natAbs ≤ A)).foldl min u

def column (rows : List (List Int)) (j : Nat) : List Int := rows.map (rowKey j)

def maxAbsRows (rows : List (List Int)) : Nat := maxAbsCoord rows

/-! ### Sep / Distinguishable for one mesh as it enters `sort_points` -/

def finiteOk (m : Mesh) : Bool :=
  maxAbsCoord m.points < 2 ^ (f64.emaxU - 16) &&
  m.cells.all fun b => b.2.all fun row =>
    0 < row.length && row.length ≤ 4096 && (2 ≤ m.dim || row.length < 8)

/-- key vector of a row w.r.t. reference rows (column-wise cluster keys) -/
def keyVec (A : Nat) (rows : List (List Int)) (dim : Nat) (row : List Int) : List Int :=
  (List.range dim).map fun j => clusterKey A (column rows j) (rowKey j row)

/-- the points that have a coincident partner (same coordinate key vector) -/
def coincident (kv : List (List Int)) : List Nat :=
  let ik := kv.zipIdx
  (ik.filter fun (k, p) => ik.any fun (k', q) => q != p && k' == k).map (·.2)

/-- centres of the cells adjacent to a point (empty when one is not finite) -/
def centresAround (m : Mesh) (p : Nat) : List (List Int) :=
  ((adjacentCells m p).mapM (cellCentre m.points)).getD []

def lexLt : List Int → List Int → Bool
  | a :: as, b :: bs => a < b || (a == b && lexLt as bs)
  | _, _ => false

def lexMin : List (List Int) → Option (List Int)
  | [] => none
  | a :: t => match lexMin t with
    | none => some a
    | some b => some (if lexLt b a then b else a)

structure PointSpec where
  kv : List (List Int)                    -- coordinate key vector per point
  dup : List Nat                          -- coincident points
  cands : List (List Int)                 -- candidate centres (cells around coincident points)
  mck : List (Nat × List Int)             -- minimal centre key vector of every coincident point

def pointSpec (A : Nat) (m : Mesh) : PointSpec :=
  let kv := m.points.map (keyVec A m.points m.dim)
  let dup := coincident kv
  let cands := dup.flatMap (centresAround m)
  let mck := dup.map fun p => (p, (lexMin ((centresAround m p).map (keyVec A cands m.dim))).getD [])
  ⟨kv, dup, cands, mck⟩

/-- `Sep ∧ Distinguishable` for the point sort of mesh `m` under tolerances `t` -/
def pointHyp (t : MeshTol) (m : Mesh) : Bool :=
  let A := sepA t
  let B := sepB t
  let s := pointSpec A m
  finiteOk m && 0 < m.dim &&
  m.points.all (·.length == m.dim) &&
  boundsOk t A B (max (maxAbsCoord m.points) (maxAbsRows s.cands)) &&
  ((List.range m.dim).all fun j => sepCol A B (column m.points j)) &&
  ((List.range m.dim).all fun j => sepCol A B (column s.cands j)) &&
  s.dup.all (fun p => !(adjacentCells m p).isEmpty) &&
  -- coincident points are told apart by their minimal centre keys
  (let info := s.mck.map fun (p, c) => (p, s.kv.getD p [], c)
   info.all fun (p, kp, cp) => info.all fun (q, kq, cq) => p == q || kp != kq || cp != cq)

/-- the canonical order relation on point indices -/
def specLe (s : PointSpec) (p q : Nat) : Bool :=
  let kp := s.kv.getD p []
  let kq := s.kv.getD q []
  lexLt kp kq || (kp == kq && !lexLt ((s.mck.lookup q).getD []) ((s.mck.lookup p).getD []))

/-- canonical index map of `sort_points` -/
def specSortPoints (t : MeshTol) (m : Mesh) : List Nat :=
  let s := pointSpec (sepA t) m
  (List.range m.points.length).mergeSort (specLe s)

/-! ### cells -/

/-- per type: no two cells with the same vertex set, and `h` separates the occurring keys -/
def cellsHyp (h : List Nat → Int) (m : Mesh) : Bool :=
  m.cells.all fun b =>
    let keys := b.2.map sortNat
    let hs := keys.map h
    (List.range keys.length).all fun i => (List.range keys.length).all fun j =>
      i == j || (keys.getD i [] != keys.getD j [] && hs.getD i 0 != hs.getD j 0)

def specCellMap (h : List Nat → Int) (rows : List (List Nat)) : List Nat :=
  (List.range rows.length).mergeSort fun i j => h (sortNat (rows.getD i [])) ≤ h (sortNat (rows.getD j []))

/-! ### the canonical (sorted) representation -/

/-- connected points in ascending index order: the canonical result of the orphan filter -/
def specStripMap (m : Mesh) : List Nat := (List.range m.numPoints).filter m.connected

/-- `sort(fields)` as the property wants it: strip, canonical point order, canonical cell order -/
def specSort (h : List Nat → Int) (t : MeshTol) (f : MeshFields) : MeshFields :=
  let f1 := applyPointMap f (specStripMap f.mesh)
  let f2 := applyPointMap f1 (specSortPoints t f1.mesh)
  applyCellMaps f2 fun ct => specCellMap h (f2.mesh.cellsOf ct)

/-- hypotheses on one side of the ladder (what enters `sort_points` depends on the flag) -/
def sideHyp (h : List Nat → Int) (noOrphanRemoval : Bool) (t : MeshTol) (f : MeshFields) : Bool :=
  let f1 := if noOrphanRemoval then f else applyPointMap f (specStripMap f.mesh)
  f.wf && pointHyp t f1.mesh &&
  cellsHyp h (applyPointMap f1 (specSortPoints t f1.mesh)).mesh

/-- hypotheses of the canonicity statement for `sort(fields)` -/
def sortHyp (h : List Nat → Int) (t : MeshTol) (f : MeshFields) : Bool := sideHyp h false t f

/-- joint separation of a pair (needed when the two sides differ by coordinate noise): the
    coordinate values of *both* sides, column by column, satisfy the dichotomy for the smaller
    `A` and the larger `B`, the side conditions hold for both tolerances and for the minimum
    tolerance of the as-is rung; likewise the candidate cell centres of coincident points -/
def jointSep (noOrphanRemoval : Bool) (ta tb : MeshTol) (fa fb : MeshFields) : Bool :=
  let ma := (if noOrphanRemoval then fa else applyPointMap fa (specStripMap fa.mesh)).mesh
  let mb := (if noOrphanRemoval then fb else applyPointMap fb (specStripMap fb.mesh)).mesh
  let tm : MeshTol := ⟨min ta.atol tb.atol, min ta.rtol tb.rtol⟩
  let A := min (sepA ta) (sepA tb)
  let B := max (sepB ta) (sepB tb)
  let sa := pointSpec A ma
  let sb := pointSpec A mb
  let cands := sa.cands ++ sb.cands
  let M := max (max (maxAbsCoord ma.points) (maxAbsCoord mb.points)) (maxAbsRows cands)
  ma.dim == mb.dim &&
  boundsOk ta A B M && boundsOk tb A B M && boundsOk tm A B M &&
  ((List.range ma.dim).all fun j => sepCol A B (column (ma.points ++ mb.points) j)) &&
  ((List.range ma.dim).all fun j => sepCol A B (column cands j))

/-! ### what the comparison of a relabelled pair must answer -/

def allPassed (o : Outcome) : Bool := o.domainEq && o.statuses.all fun s => s.2.2 == .passed

def ladderPasses : LadderRes → Bool
  | .done _ o => allPassed o
  | .raised => false

end Fc.Spec
