/-
  FcModel.Spec.C02 — what property C02 demands, and the decidable hypotheses (`Sep`,
  `Distinguishable`, unique cells, hash injectivity) under which the model is proved / checked to
  meet it.

  * **Sep.**  With `A = atol/2` and `B = 4·atol` (exact integers, in units): any two values that
    occur in one coordinate column differ by at most `A` or by more than `B` (`sepCol`, exact
    integer arithmetic), and two floating-point side conditions hold (`boundsOk`): a difference
    `≤ A` is "close" for every closeness test the code applies (`np.isclose` in the run
    detection — asymmetric —, `fuzzy_equal` in the duplicate detection / `mesh_equal`), a
    difference `> B` is not (for operands of magnitude `≤ M`).  Then "close" is an order-convex
    equivalence on the occurring values and `clusterKey` (the smallest occurring value within `A`)
    is a monotone class function: *cluster keys*.  Proved in FcProofs/Lemmas/LexsortSep.lean.
  * **canonical order of the points** (`specSortPoints`): ascending in the lexicographic order of
    the coordinate cluster keys; coincident points (equal key vectors) ascending in the cluster
    keys of their *minimal* adjacent cell centre.  It does not mention `argsort`.
  * **canonical order of the cells** of one type: ascending in `h(sorted corner ids)`.
  * the ladder on a relabelled pair must end with equal domains and every field `passed`.

  Core Lean only (linked into `fcdrv`).
-/
import FcModel.Ladder
namespace Fc.C02.Spec
open Fc Fc.C02

/-! ### Sep: margins, float side conditions, cluster keys -/

def sepA (t : MeshTol) : Nat := t.atol / 2
def sepB (t : MeshTol) : Nat := 4 * t.atol

/-- right-hand side of `np.isclose` for `|b| = m` -/
def thrIs (t : MeshTol) (m : Nat) : Option Nat := iscloseThr t.atol t.rtol m

/-- right-hand side of `fuzzy_equal` for `max(|a|,|b|) = m` -/
def thrFz (t : MeshTol) (m : Nat) : Option Nat := threshold f64 m t.rtol true t.atol true

/-- the floating-point side conditions of `Sep` for margins `A`, `B` and magnitudes `≤ M` -/
def boundsOk (t : MeshTol) (A B M : Nat) : Bool :=
  leInf (rndMag f64 A 0) (thrIs t 0) && leInf (rndMag f64 A 0) (thrFz t 0) &&
  !leInf (rndMag f64 (B + 1) 0) (thrIs t M) && !leInf (rndMag f64 (B + 1) 0) (thrFz t M)

/-- any two occurring values differ by `≤ A` or by `> B` -/
def sepCol (A B : Nat) (vals : List Int) : Bool :=
  vals.all fun u => vals.all fun v => decide ((u - v).natAbs ≤ A) || decide (B < (u - v).natAbs)

/-- cluster key of `u`: the smallest occurring value within `A` of `u` -/
def clusterKey (A : Nat) (vals : List Int) (u : Int) : Int :=
  (vals.filter fun w => decide ((w - u).natAbs ≤ A)).foldl min u

def column (rows : List (List Int)) (j : Nat) : List Int := rows.map (rowKey j)

def maxAbsRows (rows : List (List Int)) : Nat := maxAbsCoord rows

end Fc.C02.Spec

/-! ### items, cluster-key vectors (shared by the spec and by the theorems) -/
namespace Fc.C02
open Fc.C02.Spec

/-- cluster key of column `j` of an item, relative to the values occurring in `l` -/
def colKey {α : Type} (A : Nat) (key : Nat → α → Int) (l : List α) (j : Nat) (a : α) : Int :=
  clusterKey A (l.map (key j)) (key j a)

/-- key vector of the columns j … j+fuel-1 -/
def kvec {α : Type} (K : Nat → α → Int) : Nat → Nat → α → List Int
  | 0, _, _ => []
  | fuel + 1, j, a => K j a :: kvec K fuel (j + 1) a

abbrev pkey (j : Nat) (it : PItem) : Int := rowKey j it.2
abbrev ckey (j : Nat) (x : PItem × List Int) : Int := rowKey j x.2

/-- the (index, coordinates) items `_sorting_points_indices` permutes -/
def pitems (m : Mesh) : List PItem := (List.range m.points.length).zip m.points

/-- centres of the cells adjacent to a point: the `argsort`-independent part of `minCentre`;
    `none` = no adjacent cell (the code raises) or a centre is not finite -/
def centresOf (m : Mesh) (p : Nat) : Option (List (List Int)) :=
  if (adjacentCells m p).isEmpty then none else (adjacentCells m p).mapM (cellCentre m.points)

/-- the min-centre of a point, `[]` when the code would raise -/
def mcD (as : List Int → List Nat) (t : MeshTol) (m : Mesh) (it : PItem) : List Int :=
  (minCentre as t m it.1).getD []

/-- coordinate cluster keys of the point items -/
def KC (A : Nat) (m : Mesh) : Nat → PItem → Int := colKey A pkey (pitems m)

/-- cluster keys of centre rows, relative to the candidate centres `cands` -/
def KG (A : Nat) (cands : List (List Int)) : Nat → List Int → Int := colKey A rowKey cands

/-- cluster keys of the minimal adjacent cell centre of a point item -/
def KM (A : Nat) (cands : List (List Int)) (as : List Int → List Nat) (t : MeshTol) (m : Mesh) :
    Nat → PItem → Int := fun j it => KG A cands j (mcD as t m it)

end Fc.C02

namespace Fc.C02.Spec
open Fc Fc.C02

/-! ### Sep / Distinguishable for one mesh as it enters `sort_points` -/

def finiteOk (m : Mesh) : Bool :=
  maxAbsCoord m.points < 2 ^ (f64.emaxU - 16) &&
  m.cells.all fun b => b.2.all fun row =>
    0 < row.length && row.length ≤ 4096 && (2 ≤ m.dim || row.length < 8)

/-- key vector of a row w.r.t. reference rows (column-wise cluster keys) -/
def keyVec (A : Nat) (rows : List (List Int)) (dim : Nat) (row : List Int) : List Int :=
  (List.range dim).map fun j => clusterKey A (column rows j) (rowKey j row)

def lexLt : List Int → List Int → Bool
  | a :: as, b :: bs => a < b || (a == b && lexLt as bs)
  | _, _ => false

def lexMin : List (List Int) → Option (List Int)
  | [] => none
  | a :: t => match lexMin t with
    | none => some a
    | some b => some (if lexLt b a then b else a)

/-- what the hypotheses and the canonical order are computed from -/
structure PointData where
  kc : List (PItem × List Int)            -- every point item with its coordinate key vector
  dups : List (PItem × List Int)          -- the items that have a coincident partner
  cands : List (List Int)                 -- candidate centres: cells around coincident points
  M : Nat                                 -- bound of all magnitudes involved

def pointData (A : Nat) (m : Mesh) : PointData :=
  let kc := (pitems m).map fun it => (it, kvec (KC A m) m.dim 0 it)
  let dups := kc.filter fun x => kc.any fun y => y.1 != x.1 && y.2 == x.2
  let cands := dups.flatMap fun x => (centresOf m x.1.1).getD []
  ⟨kc, dups, cands, max (maxAbsCoord m.points) (maxAbsRows cands)⟩

/-- coincident points are told apart by the key vectors of their minimal adjacent cell centres
    (evaluated with the model's own `minCentre` under the stable argsort; by
    `C02_min_centre_tie_independent` any other argsort gives the same key vectors) -/
def distinguishable (t : MeshTol) (A : Nat) (m : Mesh) (d : PointData) : Bool :=
  let ks := d.dups.map fun x => (x.1, x.2, kvec (KM A d.cands argsortStable t m) m.dim 0 x.1)
  ks.all fun x => ks.all fun y => x.1 == y.1 || x.2.1 != y.2.1 || x.2.2 != y.2.2

/-- `Sep` for the point sort of mesh `m` under tolerances `t` (everything but distinguishability) -/
def pointSep (t : MeshTol) (m : Mesh) : Bool :=
  let A := sepA t
  let B := sepB t
  let d := pointData A m
  decide (1 ≤ m.dim) &&
  m.points.all (fun r => decide (r.length = m.dim)) &&
  boundsOk t A B d.M &&
  ((List.range m.dim).all fun j =>
    sepCol A B ((pitems m).map (pkey j)) && (pitems m).all fun a => decide ((pkey j a).natAbs ≤ d.M)) &&
  ((List.range m.dim).all fun j =>
    sepCol A B (d.cands.map (rowKey j)) && d.cands.all fun c => decide ((rowKey j c).natAbs ≤ d.M)) &&
  d.dups.all fun x => (centresOf m x.1.1).isSome

/-- `Sep ∧ Distinguishable` for the point sort of mesh `m` under tolerances `t` -/
def pointHyp (t : MeshTol) (m : Mesh) : Bool :=
  finiteOk m && pointSep t m && distinguishable t (sepA t) m (pointData (sepA t) m)

/-! ### the canonical order of the points (no `argsort` in it) -/

structure PointSpec where
  kv : List (List Int)                    -- coordinate key vector per point
  dup : List Nat                          -- coincident points
  cands : List (List Int)                 -- candidate centres (cells around coincident points)
  mck : List (Nat × List Int)             -- minimal centre key vector of every coincident point

def pointSpec (A : Nat) (m : Mesh) : PointSpec :=
  let d := pointData A m
  let dup := d.dups.map (·.1.1)
  let mck := dup.map fun p =>
    (p, (lexMin (((centresOf m p).getD []).map (keyVec A d.cands m.dim))).getD [])
  ⟨d.kc.map (·.2), dup, d.cands, mck⟩

/-- the canonical order relation on point indices -/
def specLe (s : PointSpec) (p q : Nat) : Bool :=
  let kp := s.kv.getD p []
  let kq := s.kv.getD q []
  lexLt kp kq || (kp == kq && !lexLt ((s.mck.lookup q).getD []) ((s.mck.lookup p).getD []))

/-- canonical index map of `sort_points` -/
def specSortPoints (t : MeshTol) (m : Mesh) : List Nat :=
  let s := pointSpec (sepA t) m
  (List.range m.points.length).mergeSort (specLe s)

/-! ### cells -/

/-- per type: no two cells with the same vertex set, and `h` separates the occurring keys -/
def cellsHyp (h : List Nat → Int) (m : Mesh) : Bool :=
  m.cells.all fun b =>
    let keys := b.2.map sortNat
    let hs := keys.map h
    (List.range keys.length).all fun i => (List.range keys.length).all fun j =>
      i == j || (keys.getD i [] != keys.getD j [] && hs.getD i 0 != hs.getD j 0)

def specCellMap (h : List Nat → Int) (rows : List (List Nat)) : List Nat :=
  (List.range rows.length).mergeSort fun i j => h (sortNat (rows.getD i [])) ≤ h (sortNat (rows.getD j []))

/-! ### the canonical (sorted) representation -/

/-- connected points in ascending index order: the canonical result of the orphan filter -/
def specStripMap (m : Mesh) : List Nat := (List.range m.numPoints).filter m.connected

/-- `sort(fields)` as the property wants it: strip, canonical point order, canonical cell order -/
def specSort (h : List Nat → Int) (t : MeshTol) (f : MeshFields) : MeshFields :=
  let f1 := applyPointMap f (specStripMap f.mesh)
  let f2 := applyPointMap f1 (specSortPoints t f1.mesh)
  applyCellMaps f2 fun ct => specCellMap h (f2.mesh.cellsOf ct)

/-- hypotheses on one side of the ladder (what enters `sort_points` depends on the flag) -/
def sideHyp (h : List Nat → Int) (noOrphanRemoval : Bool) (t : MeshTol) (f : MeshFields) : Bool :=
  let f1 := if noOrphanRemoval then f else applyPointMap f (specStripMap f.mesh)
  f.wf && pointHyp t f1.mesh &&
  cellsHyp h (applyPointMap f1 (specSortPoints t f1.mesh)).mesh

/-- hypotheses of the canonicity statement for `sort(fields)` -/
def sortHyp (h : List Nat → Int) (t : MeshTol) (f : MeshFields) : Bool := sideHyp h false t f

/-- joint separation of a pair (needed when the two sides differ by coordinate noise): the
    coordinate values of *both* sides, column by column, satisfy the dichotomy for the smaller
    `A` and the larger `B`, the side conditions hold for both tolerances and for the minimum
    tolerance of the as-is rung; likewise the candidate cell centres of coincident points -/
def jointSep (noOrphanRemoval : Bool) (ta tb : MeshTol) (fa fb : MeshFields) : Bool :=
  let ma := (if noOrphanRemoval then fa else applyPointMap fa (specStripMap fa.mesh)).mesh
  let mb := (if noOrphanRemoval then fb else applyPointMap fb (specStripMap fb.mesh)).mesh
  let tm : MeshTol := ⟨min ta.atol tb.atol, min ta.rtol tb.rtol⟩
  let A := min (sepA ta) (sepA tb)
  let B := max (sepB ta) (sepB tb)
  let sa := pointSpec A ma
  let sb := pointSpec A mb
  let cands := sa.cands ++ sb.cands
  let M := max (max (maxAbsCoord ma.points) (maxAbsCoord mb.points)) (maxAbsRows cands)
  ma.dim == mb.dim &&
  boundsOk ta A B M && boundsOk tb A B M && boundsOk tm A B M &&
  ((List.range ma.dim).all fun j => sepCol A B (column (ma.points ++ mb.points) j)) &&
  ((List.range ma.dim).all fun j => sepCol A B (column cands j))

/-! ### `relabel` (noise-free part): the same data set stored in another order -/

/-- `relabel ρ κ f`: the points of `f` stored in the order `ρ` (new index ↦ old index; every corner
    index renamed through `ρ⁻¹`, point-field rows moved along), then the cells of every type `ct`
    stored in the order `κ ct` (new cell ↦ old cell; cell-field rows moved along).  For `ρ` a
    permutation of the point range and every `κ ct` a permutation of the cell range of `ct` this is
    what `fcv/meshgen.py: relabel` produces without noise, extra orphans and block shuffling. -/
def relabelF (ρ : List Nat) (κ : String → List Nat) (f : MeshFields) : MeshFields :=
  applyCellMaps (applyPointMap f ρ) κ

/-- the identity cell maps of `f` -/
def idCellMaps (f : MeshFields) (ct : String) : List Nat := List.range (f.mesh.cellsOf ct).length

/-- the hypotheses on ONE data set `f` under which `sort` is canonical and relabelled copies of `f`
    compare equal (decidable form of `BaseHyp`, FcProofs/Lemmas/LexsortNoFalseFail.lean):
    well-formed, one block per cell type, cell fields on existing types, some point is connected,
    `pointHyp` (Sep ∧ Distinguishable) of the stripped mesh under the tolerances of `f`, and `h`
    separates the cells of every type of the point-sorted view -/
def baseHyp (h : List Nat → Int) (f : MeshFields) : Bool :=
  let t := meshTolOf f.mesh
  let τ0 := specStripMap f.mesh
  let g0 := applyPointMap f τ0
  f.wf && decide f.mesh.cellTypes.Nodup && (f.cellFields.all fun cf => f.mesh.cellTypes.contains cf.ctype) &&
  !τ0.isEmpty && pointHyp t g0.mesh &&
  match sortPointsIdx argsortStable t g0.mesh with
  | some I0 =>
    (applyPointMap f (I0.map (τ0.getD · 0))).mesh.cells.all fun b =>
      decide (b.2.map fun r => h (sortNat r)).Nodup
  | none => false

/-- no two points of the data set AS STORED (orphans included) coincide: `Sep` of all coordinate columns
    under the tolerances of `f`, and pairwise distinct coordinate key vectors.  With `baseHyp` this is
    the complete, decidable hypothesis of `C02_no_false_fail_continuous`. -/
def continuousHyp (f : MeshFields) : Bool :=
  let t := meshTolOf f.mesh
  pointSep t f.mesh && (pointData (sepA t) f.mesh).dups.isEmpty

/-! ### what the comparison of a relabelled pair must answer -/

def allPassed (o : Outcome) : Bool := o.domainEq && o.statuses.all fun s => s.2.2 == .passed

def ladderPasses : LadderRes → Bool
  | .done _ o => allPassed o
  | .raised => false

end Fc.C02.Spec
