/-
  FcModel.Spec.C08 — what property C08 demands, as simply as possible and without any index map
  machinery (no inverse tables, no gathers):

  * `sameContent`   : two data sets are the same geometric object (contents equal as multisets),
  * `keptPoints`    : the points `strip_orphan_points` must keep: exactly the referenced ones,
  * `extendSpec`    : the zero-padded copy, entry by entry: entry (i, r, c) of the result is entry
                      (i, r, c) of the input when r, c address an old component, and 0 otherwise.
-/
import FcModel.Mesh
namespace Fc.Spec
open Fc

/-- same geometric object: point items over connected points and cell items agree as multisets -/
def sameContent (f g : MeshFields) : Bool :=
  f.pointContent.isPerm g.pointContent && f.cellContent.isPerm g.cellContent

/-- the points that survive stripping, in their original relative order -/
def keptPoints (m : Mesh) : List Nat := (List.range m.numPoints).filter m.connected

/-- zero-padded coordinates -/
def padCoords (msd sd : Nat) (p : List Int) : List Int :=
  (List.range sd).map fun c => if c < msd then p.getD c 0 else 0

/-- vector field `(n, msd)` → `(n, sd)`: entry (i, c) -/
def padVectorData (n msd sd : Nat) (data : List Int) : List Int :=
  (List.range (n * sd)).map fun idx =>
    let i := idx / sd
    let c := idx % sd
    if c < msd then data.getD (i * msd + c) 0 else 0

/-- tensor field `(n, msd, msd)` → `(n, sd, sd)`: entry (i, r, c) -/
def padTensorData (n msd sd : Nat) (data : List Int) : List Int :=
  (List.range (n * (sd * sd))).map fun idx =>
    let i := idx / (sd * sd)
    let r := idx % (sd * sd) / sd
    let c := idx % sd
    if r < msd ∧ c < msd then data.getD (i * (msd * msd) + r * msd + c) 0 else 0

/-- the padded copy of one field array; `none` = the property does not say what should happen
    (component count fits neither the mesh dimension nor the target dimension; rank > 3) -/
def padField (msd sd : Nat) (a : NdArr) : Option NdArr :=
  match a.shape with
  | [_] => some a                                   -- scalar: untouched
  | [n, k] =>
    if k = 1 then some a                            -- scalar stored as a column: untouched
    else if k = msd then some ⟨a.dtype, [n, sd], padVectorData n msd sd a.data⟩
    else if sd ≤ k then some a                      -- already has (at least) the target dimension
    else none
  | [n, k1, k2] =>
    if k1 = msd ∧ k2 = msd then some ⟨a.dtype, [n, sd, sd], padTensorData n msd sd a.data⟩
    else if sd ≤ k1 ∨ sd ≤ k2 then some a
    else none
  | _ => none

def allSome {α} : List (Option α) → Option (List α)
  | [] => some []
  | none :: _ => none
  | some x :: r => (allSome r).map (x :: ·)

/-- the zero-padded copy of a data set (`sd ≥ dim`); cells untouched -/
def extendSpec (sd : Nat) (f : MeshFields) : Option MeshFields :=
  let msd := f.mesh.dim
  if sd < msd then none
  else if sd = msd then some f
  else
    match allSome (f.pointFields.map fun pf => (padField msd sd pf.values).map (PointField.mk pf.name ·)),
          allSome (f.cellFields.map fun cf => (padField msd sd cf.values).map (CellField.mk cf.name cf.ctype ·)) with
    | some pfs, some cfs => some ⟨⟨sd, f.mesh.points.map (padCoords msd sd), f.mesh.cells⟩, pfs, cfs⟩
    | _, _ => none

end Fc.Spec
