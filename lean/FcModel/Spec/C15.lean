/-
  FcModel.Spec.C15 — what property C15 demands.

    steps of a sequence of length n:  0, 1, …, n-1, each once, in order, on every iteration
    compared pairs:                   (i, i) for i < min(nRes, nRef)  — none at all when the lengths differ and
                                      neither --ignore-missing-sequence-steps nor --force-sequence-comparison is given
    verdict:                          (nRes = nRef ∨ ignoreMissing) ∧ every step i < min passes
-/
import FcModel.Seq
namespace Fc.Spec

def steps (n : Nat) : List Nat := List.range n

def comparedSteps (o : SeqOpts) (nRes nRef : Nat) : List (Nat × Nat) :=
  if nRes ≠ nRef ∧ o.ignoreMissing = false ∧ o.force = false then []
  else (List.range (min nRes nRef)).map (fun i => (i, i))

def seqVerdict (o : SeqOpts) (nRes nRef : Nat) (stepPass : Nat → Bool) : Bool :=
  (nRes == nRef || o.ignoreMissing) && (List.range (min nRes nRef)).all stepPass

/-- a per-step suite whose own truth value is coherent with its tests: a truthy suite has no failing test.
    Every suite `_compare_field_data` can return is of this kind (`status = None`, or no tests at all). -/
def consistent (s : TSuite) : Bool := !s.bool || s.tests.all tsTrue

end Fc.Spec
