/-
  FcModel.Spec.C03 — what property C03 ("a passing mesh comparison implies equality up to
  reordering") demands of `mesh_equal`, the single-site modifications it quantifies over, and the
  retry ladder of `MeshFieldsComparator.__call__` as a control-flow skeleton over abstract
  transformations (the transformations themselves — strip / sort_points / sort_cells /
  extend_space_dimension_to — are the subject of C08 / C02 / C17).
-/
import FcModel.MeshEqual
import FcModel.Spec.Predicates
namespace Fc.C03
open Fc Fc.Spec

/-! ### the declarative statement of "the two meshes are equal" -/

/-- same number of points, same number of coordinate columns, and every coordinate pair
    satisfies the documented tolerance formula -/
def pointsSpec (rel abs : Nat) (A B : Mesh) : Bool :=
  A.points.length == B.points.length && A.dim == B.dim &&
  (List.range A.points.length).all fun i => (List.range A.dim).all fun j =>
    docFormula f64 ((A.points.getD i []).getD j 0) ((B.points.getD i []).getD j 0) rel abs

/-- the type sets agree up to compatible pairs, in BOTH directions: a type present on one side
    only must have a compatible partner that is present on the other side only -/
def typesSpec (sa sb : List String) : Bool :=
  (sa.all fun c => sb.contains c || sb.any fun t => !sa.contains t && compatible c t) &&
  (sb.all fun t => sa.contains t || sa.any fun c => !sb.contains c && compatible c t)

/-- same number of cells, and cell by cell the same corner *set* (rows equal after sorting) -/
def sameCells (a b : List (List Nat)) : Bool :=
  a.length == b.length &&
  (List.range a.length).all fun c => sortRow (a.getD c []) == sortRow (b.getD c [])

/-- the partner type of B carries the same cells as type `c` of A -/
def cellOk (A B : Mesh) (c : String) : Bool :=
  match targetType B.cellTypes c with
  | none => false
  | some t => sameCells (A.cellsOf c) (B.cellsOf t)

/-- for every type of A: the partner type of B carries the same cells -/
def cellsSpec (A B : Mesh) : Bool := A.cellTypes.all (cellOk A B)

def meshEqualSpec (rel abs : Nat) (A B : Mesh) : Bool :=
  pointsSpec rel abs A B && typesSpec A.cellTypes B.cellTypes && cellsSpec A B

/-! ### single-site modifications -/

/-- replace coordinate `j` of point `i` -/
def setCoord (m : Mesh) (i j : Nat) (x : Int) : Mesh :=
  { m with points := m.points.set i ((m.points.getD i []).set j x) }

/-- replace the rows of the block of type `ct` -/
def mapBlock (m : Mesh) (ct : String) (f : List (List Nat) → List (List Nat)) : Mesh :=
  { m with cells := m.cells.map fun b => if b.1 == ct then (b.1, f b.2) else b }

/-- rewire corner `k` of cell `c` of type `ct` to point `p` -/
def rewire (m : Mesh) (ct : String) (c k p : Nat) : Mesh :=
  mapBlock m ct fun rows => rows.set c ((rows.getD c []).set k p)

/-- remove cell `c` of type `ct` -/
def removeCell (m : Mesh) (ct : String) (c : Nat) : Mesh := mapBlock m ct fun rows => rows.eraseIdx c

/-- append a cell to the block of type `ct` -/
def addCell (m : Mesh) (ct : String) (row : List Nat) : Mesh := mapBlock m ct fun rows => rows ++ [row]

/-- drop the whole block of type `ct` -/
def dropBlock (m : Mesh) (ct : String) : Mesh := { m with cells := m.cells.filter fun b => b.1 != ct }

/-! ### field comparison on one pair of mesh fields (FieldDataComparator) -/

/-- all fields in iteration order: point fields, then per cell type the cell fields, named
    `name @ TYPE` -/
def fieldList (f : MeshFields) : List (String × NdArr) :=
  f.pointFields.map (fun pf => (pf.name, pf.values)) ++
  f.mesh.cellTypes.flatMap fun ct =>
    (f.cellFields.filter (·.ctype == ct)).map fun cf => (cf.name ++ " @ " ++ ct, cf.values)

/-- `find_matches_by_name`: first match in the reference list, which is then removed -/
def findMatches : List (String × NdArr) → List (String × NdArr) → List (NdArr × NdArr)
  | [], _ => []
  | s :: rest, ref =>
    match ref.find? (·.1 == s.1) with
    | some t => (s.2, t.2) :: findMatches rest (ref.eraseP (·.1 == s.1))
    | none => findMatches rest ref

/-- every matched field passes `DefaultEquality()` (failed and error both count as failure) -/
def fieldsPass (S R : MeshFields) : Bool :=
  (findMatches (fieldList S) (fieldList R)).all fun p => defaultCheck .dflt .dflt p.1 p.2 == .ok true

/-! ### the retry ladder of `MeshFieldsComparator.__call__` -/

structure LadderFlags where
  disableReordering : Bool
  disableDimMatching : Bool
deriving Repr, DecidableEq

/-- the operations the ladder applies to one side; `permute` = strip_orphan_points (unless
    disabled) followed by sort_points -/
structure LadderOps (α : Type) where
  spaceDim : α → Nat
  extend : Nat → α → α
  permute : α → α
  sortCells : α → α
  bothStructured : α → α → Bool
  /-- one `FieldDataComparator` run: (domain equality check, bool(suite)) -/
  compare : α → α → Bool × Bool

structure LadderResult (α : Type) where
  src : α
  ref : α
  domainEq : Bool
  suite : Bool

/-- rungs "sorted points" and "sorted cells" -/
def ladderSort {α} (ops : LadderOps α) (S R : α) : LadderResult α :=
  let S1 := ops.permute S
  let R1 := ops.permute R
  let r1 := ops.compare S1 R1
  if r1.1 then ⟨S1, R1, r1.1, r1.2⟩
  else
    let S2 := ops.sortCells S1
    let R2 := ops.sortCells R1
    let r2 := ops.compare S2 R2
    ⟨S2, R2, r2.1, r2.2⟩

def ladderReorder {α} (ops : LadderOps α) (fl : LadderFlags) (S R : α) (last : Bool × Bool) : LadderResult α :=
  if fl.disableReordering then ⟨S, R, last.1, last.2⟩
  else if ops.bothStructured S R then ⟨S, R, last.1, last.2⟩
  else ladderSort ops S R

/-- `MeshFieldsComparator(S, R, flags)()` -/
def ladder {α} (ops : LadderOps α) (fl : LadderFlags) (S R : α) : LadderResult α :=
  let r0 := ops.compare S R
  if r0.1 then ⟨S, R, r0.1, r0.2⟩
  else if ops.spaceDim S ≠ ops.spaceDim R ∧ !fl.disableDimMatching then
    let d := max (ops.spaceDim S) (ops.spaceDim R)
    let S1 := ops.extend d S
    let R1 := ops.extend d R
    let r1 := ops.compare S1 R1
    if r1.1 then ⟨S1, R1, r1.1, r1.2⟩
    else ladderReorder ops fl S1 R1 r1
  else ladderReorder ops fl S R r0

end Fc.C03
