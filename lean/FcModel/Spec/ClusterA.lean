/-
  FcModel.Spec.ClusterA — phase-3 additions to the specs of C01 / C09 / C10 (cluster A):

  * same-type SIGNED integers under explicit `FuzzyEquality`: the decidable "safe" condition
    (`intSafe`) and the documented formula on integers (`intFormula`, `fuzzySpecInt`);
  * float32 / float16 arrays with Python-float ("weak") tolerances: tolerances are first rounded
    to the arrays' format (`weakTol`), then the documented formula is evaluated in that format
    (`fuzzySpecWeak`);
  * an integer array next to a float64 array: entry-wise conversion (`convIntArr`).

  Core Lean only (linked into `fcdrv`).  Nothing here changes an existing definition.
-/
import FcModel.Spec.Predicates
namespace Fc.Spec
open Fc

/-! ### same-type signed integers -/

/-- magnitude of the type minimum of a signed `bits`-bit integer: 2^(bits-1) -/
def intHalf (bits : Nat) : Int := 2 ^ (bits - 1)

/-- `x` is a value of the signed `bits`-bit type other than the type minimum -/
def intNoMin (bits : Nat) (x : Int) : Bool :=
  decide (-(intHalf bits) < x) && decide (x < intHalf bits)

/-- `x` is a value of the signed `bits`-bit type (type minimum allowed) -/
def intInRange (bits : Nat) (x : Int) : Bool :=
  decide (-(intHalf bits) ≤ x) && decide (x < intHalf bits)

/-- `x` is a value of the unsigned `bits`-bit type -/
def uintInRange (bits : Nat) (x : Int) : Bool :=
  decide (0 ≤ x) && decide (x < 2 ^ bits)

/-- **the exact decidable condition** under which the wrapping integer arithmetic of the slow
    path is the true arithmetic: both entries are values of the signed type other than its minimum
    and their difference neither overflows nor is the type minimum. -/
def intSafe (bits : Nat) (a b : Int) : Bool :=
  decide (0 < bits) && intNoMin bits a && intNoMin bits b && intNoMin bits (b - a)

/-- `float64(d) <= max(float64(m) * rel, abs)` for a non-negative integer magnitude `m` and
    difference `d` (conversions and product rounded once each; `false` if a conversion overflowed —
    impossible below 2^1024) -/
def intCoreOpt : Option Nat → Option Nat → Nat → Nat → Bool
  | some mu, some du, rel, abs => leInf (some du) (maxInf (rndMag f64 (mu * rel) UNIT) (some abs))
  | _, _, _, _ => false

def intCore (m d : Nat) (rel abs : Nat) : Bool :=
  intCoreOpt (rndMag f64 (m * 2 ^ UNIT) 0) (rndMag f64 (d * 2 ^ UNIT) 0) rel abs

/-- the documented inequality on two integers as numpy evaluates it on the slow path when no
    integer operation wraps:  `float64(|b−a|) <= max(float64(max(|a|,|b|)) * rel, abs)`
    — exact integer difference and maximum, each converted to binary64 (one rounding, exact below
    2^53), the product rounded once. -/
def intFormula (a b : Int) (rel abs : Nat) : Bool :=
  intCore (max a.natAbs b.natAbs) (b - a).natAbs rel abs

/-- number-valued tolerance of an integer comparison (default: 0.0 for integers) -/
def intTolNum : Tol → Option Nat
  | .num u => some u
  | .dflt => some 0
  | _ => none

/-- C10 spec for explicit `FuzzyEquality` on two same-type integer arrays -/
def fuzzySpecInt (rel abs : Tol) (a b : NdArr) : Option Bool :=
  if !shapesCompatible a.shape b.shape then some false
  else match intTolNum rel, intTolNum abs with
    | some r, some t =>
      some ((List.range a.data.length).all fun i => intFormula (a.data.getD i 0) (b.data.getD i 0) r t)
    | _, _ => none

/-- all entry pairs of two arrays satisfy `intSafe` -/
def intSafeArr (bits : Nat) (a b : NdArr) : Bool :=
  (List.range a.data.length).all fun i => intSafe bits (a.data.getD i 0) (b.data.getD i 0)

/-! ### float32 / float16 with Python-float tolerances -/

/-- a "weak" tolerance (a Python float: an explicit number, or the default = machine epsilon of
    the arrays' format) as it enters the arithmetic of format `F`: rounded to `F`
    (`none`: array-valued / dynamic tolerance — the "strong" route — or the rounding overflows) -/
def weakTol (F : Fmt) : Tol → Option Nat
  | .num u => rndMag F u 0
  | .dflt => rndMag F (epsUnits F) 0
  | _ => none

/-- C01 spec for two arrays of format `F` and weak tolerances: compatible shapes and the
    documented formula, evaluated in `F` with the `F`-rounded tolerances, at every entry -/
def fuzzySpecWeak (F : Fmt) (rel abs : Tol) (a b : NdArr) : Option Bool :=
  if !shapesCompatible a.shape b.shape then some false
  else match weakTol F rel, weakTol F abs with
    | some r, some t =>
      some ((List.range a.data.length).all fun i =>
        docFormula F (a.data.getD i 0) (b.data.getD i 0) r t)
    | _, _ => none

/-- the formula at one entry for operands of format `F ≠ binary64` with arbitrary tolerances, as
    numpy's promotion rules evaluate it: a weak tolerance is rounded to `F` and the arithmetic
    stays in `F`; a strong relative tolerance (float64 array / `np.float64`) makes the product
    binary64, and it stays binary64 (out-of-place product since fix fa67d80; one rounding); a strong absolute
    tolerance enters the `max` unrounded (binary64). -/
def mixedFormula (F : Fmt) (a b : Int) (rel : Nat) (relWeak : Bool) (abs : Nat) (absWeak : Bool) : Bool :=
  let m := max a.natAbs b.natAbs
  let prod : Option Nat :=
    if relWeak then (rndMag F rel 0).bind fun r => rndMag F (m * r) UNIT
    else rndMag f64 (m * rel) UNIT
  let t : Option Nat := if absWeak then rndMag F abs 0 else some abs
  leInf (rndMag F (b - a).natAbs 0) (maxInf prod t)

/-! ### integer array next to a float64 array -/

/-- entry-wise int → binary64 conversion of an integer array (`none`: not an integer array, or a
    value overflows binary64 — impossible for ≤ 64-bit types) -/
def convIntArr (x : NdArr) : Option NdArr :=
  match x.dtype with
  | .int _ _ => (intsToF64 x.data).map fun d => { x with dtype := .flt f64, data := d }
  | _ => none

/-- no entry of a signed integer array is the type minimum (numpy's `abs` wraps on it) -/
def arrNoMin (x : NdArr) : Bool :=
  match x.dtype with
  | .int sg bits => x.data.all fun v => !(sg && v == -(2 ^ (bits - 1) : Int))
  | _ => true

end Fc.Spec
