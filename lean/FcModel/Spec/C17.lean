/-
  FcModel.Spec.C17 — what property C17 demands.

  A data set `f` of space dimension d < sd and its zero-padded copy `paddedCopy sd f` must compare
  equal (either role) when dimension matching is enabled, must not when it is disabled, and a copy
  whose extra coordinate / component is non-zero beyond tolerance must never compare equal.
-/
import FcModel.Spec.C08
namespace Fc.Spec
open Fc

/-- the zero-padded copy the property talks about -/
def paddedCopy (sd : Nat) (f : MeshFields) : Option MeshFields := extendSpec sd f

/-- `|0 − z| ≤ max(rel·|z|, abs)` in exact arithmetic (units; rel scaled by 2^UNIT) -/
def zeroVsExact (z : Int) (rel abs : Nat) : Bool :=
  decide (z.natAbs * 2 ^ UNIT ≤ max (z.natAbs * rel) (abs * 2 ^ UNIT))

/-- expected verdict of comparing a data set with a padded copy of itself whose extra entries
    are all zero (`extraOk`) or contain one beyond tolerance (`¬ extraOk`) -/
def dimMatchSpec (dimsDiffer disable extraOk : Bool) : Bool :=
  if dimsDiffer then !disable && extraOk else extraOk

end Fc.Spec
