/-
  FcModel.Spec.Resid2 — core-only definitions of the phase-4 topic "resid2" (C02 with coordinate noise,
  decidable hypotheses the driver can evaluate).

  * `withPoints f P` — the data set `f` with its coordinate array replaced by `P` (same connectivity, same
    field arrays): a noisy copy of `f` is `withPoints f P'` with `P'` entry-wise within `δ` of the
    coordinates of `f`; a noisy RELABELLED copy is `Spec.relabelF ρ κ (withPoints f P')`.
  * `centreSlackB`, `storedHypB` — core-only copies of `Resid.CentreSlack` / `Resid.storedHyp`
    (FcProofs/Lemmas/ResidRigid.lean, which imports Mathlib and cannot be linked into `fcdrv`); proved
    equal in FcProofs/Lemmas/Resid2Hyp.lean.

  Core Lean only (linked into `fcdrv`).
-/
import FcModel.Spec.C02
namespace Fc.Resid2
open Fc Fc.C02 Fc.C02.Spec

/-- `f` with the coordinates replaced by `P` -/
def withPoints (f : MeshFields) (P : List (List Int)) : MeshFields :=
  { f with mesh := { f.mesh with points := P } }

/-- all cell rows of a mesh, block after block (= `Fc.C02.allRows`) -/
def allRowsB (m : Mesh) : List (List Nat) := m.cells.flatMap (·.2)

/-- numeric slack between cluster width `A` and gap `B` for cells with `k` corners (= `Resid.CentreSlack`) -/
def centreSlackB (A B M k : Nat) : Bool :=
  decide (k ≤ 9007199254740992) &&
  decide (9007199254740992 * A + (2 * k + 4) * M + 9007199254740992 ≤ 9007199254740992 * B)

/-- `Sep ∧ Distinguishable` of the mesh AS STORED (orphan points included) under the tolerances of `f`, and
    the numeric slack for every cell (= `Resid.storedHyp`) -/
def storedHypB (f : MeshFields) : Bool :=
  let t := meshTolOf f.mesh
  pointHyp t f.mesh &&
  (allRowsB f.mesh).all fun r => centreSlackB (sepA t) (sepB t) (pointData (sepA t) f.mesh).M r.length

/-! ### decidable hypotheses of the NOISY no-false-FAIL theorem (joint margins) -/

/-- `PointHypP t A B M m C ∧ Distinguishable` for GIVEN margins `A`, `B`, magnitude bound `M` and candidate
    centres `C` (`Spec.pointHyp` hard-wires `A = atol/2`, `B = 4·atol` and the own candidates of `m`; a noisy
    pair needs the same margins and a joint candidate list on both sides) -/
def pointHypWith (t : MeshTol) (A B M : Nat) (C : List (List Int)) (m : Mesh) : Bool :=
  let d := pointData A m
  decide (1 ≤ m.dim) &&
  m.points.all (fun r => decide (r.length = m.dim)) &&
  decide (2 * A ≤ B) &&
  boundsOk t A B M &&
  ((List.range m.dim).all fun j =>
    sepCol A B ((pitems m).map (pkey j)) && (pitems m).all fun a => decide ((pkey j a).natAbs ≤ M)) &&
  ((List.range m.dim).all fun j =>
    sepCol A B (C.map (rowKey j)) && C.all fun c => decide ((rowKey j c).natAbs ≤ M)) &&
  (d.dups.all fun x => match centresOf m x.1.1 with
    | some cs => cs.all fun c => C.contains c
    | none => false) &&
  (let ks := d.dups.map fun x => (x.1, x.2, kvec (KM A C argsortStable t m) m.dim 0 x.1)
   ks.all fun x => ks.all fun y => x.1 == y.1 || x.2.1 != y.2.1 || x.2.2 != y.2.2)

/-- `Spec.baseHyp` with given margins / candidates (decidable form of `BaseHyp h f A B M C`) -/
def baseHypWith (h : List Nat → Int) (A B M : Nat) (C : List (List Int)) (f : MeshFields) : Bool :=
  let t := meshTolOf f.mesh
  let τ0 := specStripMap f.mesh
  let g0 := applyPointMap f τ0
  f.wf && decide f.mesh.cellTypes.Nodup && (f.cellFields.all fun cf => f.mesh.cellTypes.contains cf.ctype) &&
  !τ0.isEmpty && pointHypWith t A B M C g0.mesh &&
  match sortPointsIdx argsortStable t g0.mesh with
  | some I0 =>
    (applyPointMap f (I0.map (τ0.getD · 0))).mesh.cells.all fun b =>
      decide (b.2.map fun r => h (sortNat r)).Nodup
  | none => false

/-- `P'` has as many rows as `P` and every coordinate (first `d` columns) is within `δ` -/
def nearPtsB (d : Nat) (P P' : List (List Int)) (δ : Nat) : Bool :=
  P'.length == P.length &&
  (List.range P.length).all fun i => (List.range d).all fun j =>
    decide (((P'.getD i []).getD j 0 - (P.getD i []).getD j 0).natAbs ≤ δ)

/-- joint margins of a data set `f` and its noisy coordinates `P'`: the smaller `A`, the larger `B` of the two
    tolerance pairs, the joint candidate centres of the two stripped meshes, a bound of all magnitudes -/
structure NoisyPar where
  A : Nat
  B : Nat
  M : Nat
  C : List (List Int)

def noisyPar (f : MeshFields) (P' : List (List Int)) : NoisyPar :=
  let t0 := meshTolOf f.mesh
  let t1 := meshTolOf (withPoints f P').mesh
  let A := min (sepA t0) (sepA t1)
  let B := max (sepB t0) (sepB t1)
  let m0 := (applyPointMap f (specStripMap f.mesh)).mesh
  let m1 := (applyPointMap (withPoints f P') (specStripMap (withPoints f P').mesh)).mesh
  let C := (pointData A m0).cands ++ (pointData A m1).cands
  ⟨A, B, max (max (maxAbsCoord f.mesh.points) (maxAbsCoord P')) (maxAbsRows C), C⟩

/-- decidable form of `NoisyHyp h f P' A A B M C` (noise bound `δ = A`) for the joint parameters `p` -/
def noisyHypWith (h : List Nat → Int) (f : MeshFields) (P' : List (List Int)) (p : NoisyPar) : Bool :=
  let m0 := (applyPointMap f (specStripMap f.mesh)).mesh
  let m1 := (applyPointMap (withPoints f P') (specStripMap (withPoints f P').mesh)).mesh
  baseHypWith h p.A p.B p.M p.C f && baseHypWith h p.A p.B p.M p.C (withPoints f P') &&
  nearPtsB f.mesh.dim f.mesh.points P' p.A &&
  ((List.range f.mesh.dim).all fun j => sepCol p.A p.B ((pitems m0 ++ pitems m1).map (pkey j))) &&
  (allRowsB f.mesh).all fun r => centreSlackB p.A p.B p.M r.length

/-- joint `Sep` of the coordinates AS STORED (orphans included), for the as-is rung -/
def storedJointWith (f : MeshFields) (P' : List (List Int)) (p : NoisyPar) : Bool :=
  let t0 := meshTolOf f.mesh
  let t1 := meshTolOf (withPoints f P').mesh
  decide (2 * p.A ≤ p.B) &&
  ((List.range f.mesh.dim).all fun j =>
    sepCol p.A p.B ((f.mesh.points ++ P').map (rowKey j)) &&
    (f.mesh.points ++ P').all fun r => decide ((rowKey j r).natAbs ≤ p.M)) &&
  boundsOk ⟨min t0.atol t1.atol, min t0.rtol t1.rtol⟩ p.A p.B p.M &&
  boundsOk t0 p.A p.B p.M &&
  nearPtsB f.mesh.dim f.mesh.points P' p.A

/-- **the complete decidable hypothesis of `C02_no_false_fail_noisy`**: about the clean data set `f` and the
    noisy coordinates `P'` alone -/
def noisyFullHyp (h : List Nat → Int) (f : MeshFields) (P' : List (List Int)) : Bool :=
  noisyHypWith h f P' (noisyPar f P') && storedJointWith f P' (noisyPar f P') && storedHypB f

end Fc.Resid2
