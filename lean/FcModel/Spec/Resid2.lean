/-
  FcModel.Spec.Resid2 — core-only definitions of the phase-4 topic "resid2" (C02 with coordinate noise,
  decidable hypotheses the driver can evaluate).

  * `withPoints f P` — the data set `f` with its coordinate array replaced by `P` (same connectivity, same
    field arrays): a noisy copy of `f` is `withPoints f P'` with `P'` entry-wise within `δ` of the
    coordinates of `f`; a noisy RELABELLED copy is `Spec.relabelF ρ κ (withPoints f P')`.
  * `centreSlackB`, `storedHypB` — core-only copies of `Resid.CentreSlack` / `Resid.storedHyp`
    (FcProofs/Lemmas/ResidRigid.lean, which imports Mathlib and cannot be linked into `fcdrv`); proved
    equal in FcProofs/Lemmas/Resid2Hyp.lean.

  Core Lean only (linked into `fcdrv`).
-/
import FcModel.Spec.C02
namespace Fc.Resid2
open Fc Fc.C02 Fc.C02.Spec

/-- `f` with the coordinates replaced by `P` -/
def withPoints (f : MeshFields) (P : List (List Int)) : MeshFields :=
  { f with mesh := { f.mesh with points := P } }

/-- all cell rows of a mesh, block after block (= `Fc.C02.allRows`) -/
def allRowsB (m : Mesh) : List (List Nat) := m.cells.flatMap (·.2)

/-- numeric slack between cluster width `A` and gap `B` for cells with `k` corners (= `Resid.CentreSlack`) -/
def centreSlackB (A B M k : Nat) : Bool :=
  decide (k ≤ 9007199254740992) &&
  decide (9007199254740992 * A + (2 * k + 4) * M + 9007199254740992 ≤ 9007199254740992 * B)

/-- `Sep ∧ Distinguishable` of the mesh AS STORED (orphan points included) under the tolerances of `f`, and
    the numeric slack for every cell (= `Resid.storedHyp`) -/
def storedHypB (f : MeshFields) : Bool :=
  let t := meshTolOf f.mesh
  pointHyp t f.mesh &&
  (allRowsB f.mesh).all fun r => centreSlackB (sepA t) (sepB t) (pointData (sepA t) f.mesh).M r.length

end Fc.Resid2
