/-
  FcModel.Spec.Predicates — what properties C01 / C09 / C10 demand, as simply as possible.
-/
import FcModel.Predicates
namespace Fc.Spec
open Fc

/-- shapes are equal or differ by exactly one trailing axis of length 1 -/
def shapesCompatible (s1 s2 : List Nat) : Bool :=
  s1 == s2 || s1 == s2 ++ [1] || s2 == s1 ++ [1]

/-- The documented inequality `|a-b| <= max(rel*max(|a|,|b|), abs)` on one scalar pair, each
    arithmetic step rounded once to format `F` (the difference and the product; `max`, `|.|`
    and `<=` are exact), `none` = +infinity. -/
def docFormula (F : Fmt) (a b : Int) (rel abs : Nat) : Bool :=
  leInf (rndMag F (b - a).natAbs 0)
        (maxInf (rndMag F (max a.natAbs b.natAbs * rel) UNIT) (some abs))

/-- the same inequality in exact arithmetic (everything in units·2^-1074 to stay in `Nat`) -/
def exactFormula (a b : Int) (rel abs : Nat) : Bool :=
  decide ((b - a).natAbs * 2 ^ UNIT ≤ max (max a.natAbs b.natAbs * rel) (abs * 2 ^ UNIT))

/-- per-position tolerance demanded by the documentation (`none` = not defined for these
    operands):  number → that number;  per-component array (its shape must be the entry shape)
    → component `i mod rowSize`;  scaled → base · (largest magnitude in either field), rounded
    once, per component when requested;  default → machine epsilon of the format. -/
def specTol (F : Fmt) (t : Tol) (a b : NdArr) : Option (Nat → Nat) :=
  match t with
  | .num u => some fun _ => u
  | .arr s us => if s == a.shape.tail then some fun i => us.getD (i % max a.rowSize 1) 0 else none
  | .dflt => some fun _ => epsUnits F
  | .scaled base =>
    if a.data.isEmpty ∨ b.data.isEmpty then none
    else match rndMag f64 ((base.getD (epsUnits F)) * max (maxAbsUnits a) (maxAbsUnits b)) UNIT with
      | none => none
      | some p => some fun _ => p
  | .scaledComp base =>
    if a.data.isEmpty ∨ b.data.isEmpty then none
    else
      let ps := (List.zipWith max (maxAbsComp a) (maxAbsComp b)).map fun m => rndMag f64 (m * base) UNIT
      if ps.any Option.isNone then none
      else some fun i => (ps.map (·.getD 0)).getD (i % max a.rowSize 1) 0

/-- C01 spec for two float64 arrays: compatible shapes and the documented formula everywhere -/
def fuzzySpec (rel abs : Tol) (a b : NdArr) : Option Bool :=
  if !shapesCompatible a.shape b.shape then some false
  else
    -- after the (n,) ~ (n,1) identification both operands have the shape with the extra axis
    let shp := if a.shape.length ≥ b.shape.length then a.shape else b.shape
    let a' := { a with shape := shp }
    let b' := { b with shape := shp }
    match specTol f64 rel a' b', specTol f64 abs a' b' with
    | some r, some t =>
      some ((List.range a.data.length).all fun i =>
        docFormula f64 (a.data.getD i 0) (b.data.getD i 0) (r i) (t i))
    | _, _ => none

/-- C09 spec: identical shapes (mod trailing 1-axis) and identical entries -/
def exactSpec (a b : NdArr) : Bool :=
  shapesCompatible a.shape b.shape && a.data == b.data

end Fc.Spec
