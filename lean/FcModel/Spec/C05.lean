/-
  FcModel.Spec.C05 — the spec WRITER: what it means that a VTK XML file "contains" a logical array.

  `encodeArray w compress sz items` produces the bytes that stand for the logical items (given as
  little-endian bytes, `sz` bytes per item) under the encoding configuration `w`
  (header type × byte order × base64/raw × uncompressed{joint,separate header} / compressed{block size}).
  The driver executes it to PRODUCE the files the implementation is run on; the theorems of
  FcProofs/Props/C05.lean show that the modelled reader inverts it for every configuration.
  `compress` is a parameter (the harness supplies the real codec as a finite table).

  VTK layout (vtkXMLWriter / vtkDataCompressor):
    uncompressed:  enc([#bytes] ++ data)                 (header and data in one stream: "joint")
               or  enc([#bytes]) ++ enc(data)            ("separate")
    compressed:    enc([#blocks, blocksize, lastsize, csize_1 … csize_n]) ++ enc(cblock_1 ++ … ++ cblock_n)
  with lastsize = #bytes mod blocksize (0 when the last block is full).
-/
import FcModel.VtkArray
import FcModel.VtuLayout
import FcModel.VtkAppendix
namespace Fc.Spec
open Fc

def headerBytes (hs : Nat) (bo : ByteOrder) (ws : List Nat) : List Nat :=
  (ws.map (wordBytes bo hs)).flatten

def encodeUncompressed (enc : Encoder) (hs : Nat) (bo : ByteOrder) (joint : Bool) (p : List Nat) : List Nat :=
  if joint then enc.encode (headerBytes hs bo [p.length] ++ p)
  else enc.encode (headerBytes hs bo [p.length]) ++ enc.encode p

/-- the header words of a compressed array with raw blocks `bs` of nominal size `B` -/
def compHeaderWords (B n : Nat) (cbs : List (List Nat)) : List Nat :=
  [cbs.length, B, n % B] ++ cbs.map List.length

def encodeCompressed (enc : Encoder) (hs : Nat) (bo : ByteOrder) (B : Nat) (compress : List Nat → List Nat)
    (p : List Nat) : List Nat :=
  let cbs := (chunks B p).map compress
  enc.encode (headerBytes hs bo (compHeaderWords B p.length cbs)) ++ enc.encode cbs.flatten

/-- logical little-endian items → file byte order -/
def toFileOrder (bo : ByteOrder) (sz : Nat) (items : List Nat) : List Nat :=
  ((chunks sz items).map bo.fix).flatten

structure WriteCfg where
  rc : ReadCfg
  joint : Bool          -- uncompressed only
  blockSize : Nat       -- compressed only
  deriving Repr

def encodePayload (w : WriteCfg) (compress : List Nat → List Nat) (p : List Nat) : List Nat :=
  if w.rc.compressed then encodeCompressed w.rc.enc w.rc.hs w.rc.bo w.blockSize compress p
  else encodeUncompressed w.rc.enc w.rc.hs w.rc.bo w.joint p

def encodeArray (w : WriteCfg) (compress : List Nat → List Nat) (sz : Nat) (items : List Nat) : List Nat :=
  encodePayload w compress (toFileOrder w.rc.bo sz items)

/-- ascii: the tokens of the items (two's complement for signed integers; unsigned integers and the
    bit patterns of floats as they are) -/
def asciiTokens (signed : Bool) (sz : Nat) (items : List Nat) : List Int :=
  (chunks sz items).map (fun it =>
    let v := leVal it
    if signed ∧ 2 * v ≥ 256 ^ sz then (v : Int) - (256 ^ sz : Nat) else (v : Int))

/-! ### VTU cell layout -/

/-- running end offsets of the cells -/
def cellOffsetsFrom : List (Nat × List Nat) → Nat → List Nat
  | [], _ => []
  | c :: cs, acc => (acc + c.2.length) :: cellOffsetsFrom cs (acc + c.2.length)

/-- logical cells in file order (type id, corners) → the three flat arrays of <Cells> -/
def vtuArrays (cs : List (Nat × List Nat)) : List Nat × List Nat × List Nat :=
  ((cs.map (·.2)).flatten, cellOffsetsFrom cs 0, cs.map (·.1))

/-- what the file means: per occurring type (ascending) its cells in file order, and their positions -/
def vtuContent (cs : List (Nat × List Nat)) : List (Nat × List (List Nat) × List Nat) :=
  (uniqueSorted (cs.map (·.1))).map (fun t =>
    (t, (cs.filter (·.1 = t)).map (·.2), indicesOf t (cs.map (·.1))))

/-- cell data per type: the values of the cells of that type, in file order -/
def cellDataContent {α} (cs : List (Nat × List Nat)) (vals : List α) : List (Nat × List α) :=
  (uniqueSorted (cs.map (·.1))).map (fun t =>
    (t, ((cs.zip vals).filter (·.1.1 = t)).map (·.2)))

/-! ### VTP cell layout -/

/-- running end offsets of the rows of one section -/
def rowOffsetsFrom : List (List Nat) → Nat → List Nat
  | [], _ => []
  | r :: rs, acc => (acc + r.length) :: rowOffsetsFrom rs (acc + r.length)

/-- logical sections (cell type id, cells in file order; Verts, Lines, Polys, Strips) → per section
    the count attribute and the two flat arrays of the file -/
def vtpArrays (secs : List (Nat × List (List Nat))) : List (Nat × Nat × List Nat × List Nat) :=
  secs.map (fun s => (s.1, s.2.length, s.2.flatten, rowOffsetsFrom s.2 0))

/-- what the file means: per NON-EMPTY section its cells in file order and their consecutive
    positions in the cell-data arrays -/
def vtpContentFrom : List (Nat × List (List Nat)) → Nat → List (Nat × List (List Nat) × List Nat)
  | [], _ => []
  | s :: ss, start =>
    if s.2.length = 0 then vtpContentFrom ss start
    else (s.1, s.2, (List.range s.2.length).map (start + ·)) :: vtpContentFrom ss (start + s.2.length)

def vtpContent (secs : List (Nat × List (List Nat))) : List (Nat × List (List Nat) × List Nat) :=
  vtpContentFrom secs 0

/-- cell data per non-empty section: the next `#cells` values, in file order -/
def vtpCellDataContent {α} : List (Nat × List (List Nat)) → List α → List (Nat × List α)
  | [], _ => []
  | s :: ss, vals =>
    if s.2.length = 0 then vtpCellDataContent ss vals
    else (s.1, vals.take s.2.length) :: vtpCellDataContent ss (vals.drop s.2.length)

/-! ### raw-appended files: what the fallback parser has to cut apart

  A file with `<AppendedData encoding="raw">` is not well-formed XML.  Its bytes are
      pre ++ "<AppendedData" ++ a1 ++ "encoding" ++ a2 ++ "\"" ++ enc ++ "\"" ++ a3 ++ ">" ++ ws ++ "_"
          ++ appendix ++ "</AppendedData>" ++ post
  (`pre` = the XML document up to the opening tag, `a1` = blank, `a2` = `=`, `ws` = line break, …). -/

structure RawFile where
  pre : List Nat
  a1 : List Nat
  a2 : List Nat
  enc : List Nat
  a3 : List Nat
  ws : List Nat
  appendix : List Nat
  post : List Nat
  deriving Repr

/-- the attribute text between `<AppendedData` and `>` -/
def RawFile.attrs (f : RawFile) : List Nat := f.a1 ++ encodingKw ++ f.a2 ++ [34] ++ f.enc ++ [34] ++ f.a3

/-- from `<AppendedData` up to and including the `_` that marks the start of the data -/
def RawFile.mid (f : RawFile) : List Nat := openTag ++ f.attrs ++ [62] ++ f.ws ++ [95]

def RawFile.content (f : RawFile) : List Nat := f.pre ++ f.mid ++ f.appendix ++ closeTag ++ f.post

/-- decidable well-formedness of everything AROUND the appendix, as in a real header:
    the two tags do not occur in the document before the opening tag, the attribute text contains no
    `<` `>`, the keyword `encoding` does not occur before the attribute of that name, no `"` between
    the keyword and the opening quote nor inside the name, only blanks (no `<`, no `_`) between `>`
    and `_`, no second opening tag behind the closing tag; the opening tag lies within the 100
    bytes before the data the reader looks at, and the file has at least 100 bytes before the data. -/
def RawFile.HeadOk (f : RawFile) : Prop :=
  occ openTag f.pre = false ∧ occ closeTag f.pre = false ∧
  60 ∉ f.attrs ∧ 62 ∉ f.attrs ∧
  occ encodingKw (openTag ++ f.a1) = false ∧ 34 ∉ f.a2 ∧ 34 ∉ f.enc ∧
  60 ∉ f.ws ∧ 95 ∉ f.ws ∧
  occ openTag f.post = false ∧
  f.mid.length ≤ 100 ∧ 100 ≤ (f.pre ++ f.mid).length

instance (f : RawFile) : Decidable f.HeadOk := by unfold RawFile.HeadOk; infer_instance

/-- the appendix bytes contain neither of the two byte strings the fallback parser searches for;
    the NEGATION of this predicate is the class of finding C05-RAWTAG -/
def RawFile.AppendixOk (f : RawFile) : Prop :=
  occ openTag f.appendix = false ∧ occ closeTag f.appendix = false

instance (f : RawFile) : Decidable f.AppendixOk := by unfold RawFile.AppendixOk; infer_instance

end Fc.Spec
