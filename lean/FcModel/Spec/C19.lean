/-
  FcModel.Spec.C19 — what property C19 demands, stated on the model of FcModel/Effects.lean.
-/
import FcModel.Effects
namespace Fc.C19.Spec
open Fc

/-- "never modify the arrays of the data sets they are given": no identity that existed before the
    history is in the written set after it -/
def inputsUntouched (w0 : World) (steps : List EStep) : Bool :=
  (runSteps w0 steps).written.all fun i => decide (w0.next ≤ i)

/-- per step: the identities the property allows a step to write among those existing before it: none -/
def allowedWrites (_ : EStep) : List Nat := []

/-- "write nothing except the explicitly requested files": one file per `write`, nothing else -/
def requestedFiles : List EStep → Nat
  | [] => 0
  | s :: r => (match s.op, s.ok with | .write _, true => 1 | _, _ => 0) + requestedFiles r

/-- predicate objects: every call answers like a *fresh* object carrying the tolerances that are
    configured at that moment — the remembered `_last_used_*` values never matter -/
def specPred (kind : PredKind) (rel abs : Tol) : List PredEvent → List Verdict
  | [] => []
  | .call a b :: r => ((PredObj.fresh kind rel abs).call a b).2 :: specPred kind rel abs r
  | .setRel t :: r => specPred kind t abs r
  | .setAbs t :: r => specPred kind rel t r

/-- repeating a comparison gives the same suite every time -/
def allEqualTo {S} [DecidableEq S] (s : S) (l : List S) : Bool := l.all (· == s)

end Fc.C19.Spec
