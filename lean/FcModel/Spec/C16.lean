/-
  FcModel.Spec.C16 — what property C16 demands of the structured short-cuts:
  "all defining parameters agree within the tolerance", entry by entry with the documented formula.
-/
import FcModel.StructuredEq
import FcModel.Spec.C03
namespace Fc.C16
open Fc Fc.Spec Fc.C03

/-- two parameter lists of the same length whose entries pairwise satisfy the documented formula -/
def listWithin (rel abs : Nat) (x y : List Int) : Bool :=
  x.length == y.length &&
  (List.range x.length).all fun i => docFormula f64 (x.getD i 0) (y.getD i 0) rel abs

/-- rectilinear: same extents, and the ordinates of ALL THREE directions within tolerance -/
def rectParamsWithin (rel abs : Nat) (a b : RectGrid) : Bool :=
  a.ext == b.ext && (List.range 3).all fun d => listWithin rel abs (a.ord d) (b.ord d)

/-- structured: same extents, same number of coordinate columns, all point coordinates within tolerance -/
def structParamsWithin (rel abs : Nat) (a b : StructGrid) : Bool :=
  a.ext == b.ext && a.points.length == b.points.length && a.dim == b.dim &&
  listWithin rel abs a.points.flatten b.points.flatten

/-- image: same extents; origin, spacing and basis within tolerance -/
def imageParamsWithin (rel abs : Nat) (a b : ImageGrid) : Bool :=
  a.ext == b.ext && listWithin rel abs a.origin b.origin && listWithin rel abs a.spacing b.spacing &&
  listWithin rel abs a.basis.flatten b.basis.flatten

/-- class predicate of finding F14 (receiver-only tolerances): the two sides report different
    tolerances and the receiver is not an explicit `Mesh` -/
def tolDiffer (a b : TMesh) : Bool := a.rel != b.rel || a.abs != b.abs

end Fc.C16
