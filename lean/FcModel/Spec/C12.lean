/-
  FcModel.Spec.C12 — what property C12 demands of directory mode, as a per-path decision function.

  Every relative path is classified by looking at that path alone (no set algebra, no list surgery):
  in which tree(s) does it exist, do the file filters select it, is its format supported or mapped.
  The report must contain exactly one suite for every path of class compared / missing / unsupported /
  filtered, one-sided paths removed by the filters are only counted, and the exit code is the
  conjunction the statement spells out.
-/
import FcModel.DirMode
namespace Fc.DirMode.Spec
open Fc.DirMode

/-- the accounting classes of the property ("compared, missing, unsupported or filtered";
    `orphanFiltered` = one-sided file removed by the filters, reported as a count) -/
inductive Class where
  | compared | missingSource | missingReference | unsupported | filtered | orphanFiltered | absent
  deriving DecidableEq, Repr, Inhabited

/-- classification of one relative path -/
def classify {α} [DecidableEq α] (resPaths refPaths : List α) (incl excl supported mapped : α → Bool) (p : α) :
    Class :=
  if p ∈ resPaths then
    if p ∈ refPaths then
      if consider incl excl p then
        if supported p || mapped p then .compared else .unsupported
      else .filtered
    else
      if consider incl excl p then .missingReference else .orphanFiltered
  else if p ∈ refPaths then
    if consider incl excl p then .missingSource else .orphanFiltered
  else .absent

/-- the distinct relative paths found in either tree (each once, for duplicate-free walk lists) -/
def distinctPaths {α} [DecidableEq α] (resPaths refPaths : List α) : List α :=
  resPaths ++ refPaths.filter (fun p => !decide (p ∈ resPaths))

/-- the suite the report must contain for a path of the given class (`none`: no suite) -/
def suiteOf {α} (fileOutcome : α → Outcome) (flags : Flags) (p : α) : Class → Option (Suite α)
  | .compared => some ⟨p, .compared (fileOutcome p), (fileOutcome p).status⟩
  | .missingSource => some ⟨p, .missingSource, if flags.ignoreMissingSource then .skipped else .failed⟩
  | .missingReference => some ⟨p, .missingReference, if flags.ignoreMissingReference then .skipped else .failed⟩
  | .unsupported => some ⟨p, .unsupported, .skipped⟩
  | .filtered => some ⟨p, .filtered, .skipped⟩
  | .orphanFiltered => none
  | .absent => none

/-- the required report: one suite per distinct path, by its class -/
def suites {α} [DecidableEq α] (resPaths refPaths : List α) (incl excl supported mapped : α → Bool)
    (fileOutcome : α → Outcome) (flags : Flags) : List (Suite α) :=
  (distinctPaths resPaths refPaths).filterMap
    (fun p => suiteOf fileOutcome flags p (classify resPaths refPaths incl excl supported mapped p))

/-- the required "filtered out" count -/
def orphanCount {α} [DecidableEq α] (resPaths refPaths : List α) (incl excl supported mapped : α → Bool) : Nat :=
  (distinctPaths resPaths refPaths).countP
    (fun p => classify resPaths refPaths incl excl supported mapped p == .orphanFiltered)

/-- the statement's exit condition: every common, selected, supported-or-mapped path passes; one-sided
    selected paths occur only on a side whose ignore flag is given -/
def exitZero {α} [DecidableEq α] (resPaths refPaths : List α) (incl excl supported mapped : α → Bool)
    (fileOutcome : α → Outcome) (flags : Flags) : Bool :=
  resPaths.all (fun p =>
      !(decide (p ∈ refPaths) && consider incl excl p && (supported p || mapped p)) || fileOutcome p == .pass)
    && (flags.ignoreMissingSource
        || refPaths.all (fun p => decide (p ∈ resPaths) || !consider incl excl p))
    && (flags.ignoreMissingReference
        || resPaths.all (fun p => decide (p ∈ refPaths) || !consider incl excl p))

def exitCode {α} [DecidableEq α] (resPaths refPaths : List α) (incl excl supported mapped : α → Bool)
    (fileOutcome : α → Outcome) (flags : Flags) : Nat :=
  if exitZero resPaths refPaths incl excl supported mapped fileOutcome flags then 0 else 1

end Fc.DirMode.Spec
