/-
  FcModel.Spec.C06 — what property C06 demands, as simple as possible.

  Unstructured: the merged data set has the same geometric content as the whole one (point items
  over connected points and cell items, compared as collections = up to reordering) and the same
  field schema (names, numeric types, entry shapes).
  Structured: the merged field is the whole field: entry `g` of the merged array is the whole
  field's value at global index `g`.
-/
import FcModel.Merge
import FcModel.StructuredMerge
namespace Fc.C06.Spec
open Fc Fc.C06

/-- equal up to reordering (collections with multiplicity) -/
def sameContent (a b : MeshFields) : Bool :=
  a.pointContent.isPerm b.pointContent && a.cellContent.isPerm b.cellContent

def pointSchema (f : MeshFields) : List (String × DType × List Nat) :=
  f.pointFields.map fun pf => (pf.name, pf.values.dtype, pf.values.shape.tail)

/-- "every field keeps its numeric type" -/
def sameSchema (a b : MeshFields) : Bool :=
  pointSchema a == pointSchema b && cellSchema a == cellSchema b

/-- the verdict the property asks for: the merged pieces read as the whole data set -/
def readsAsWhole (merged whole : MeshFields) : Bool :=
  sameContent merged whole && sameSchema merged whole

/-- `pieces` is a splitting of `whole`: every cell of the whole data set is in exactly one piece
    (with its corner coordinates and cell data), every (connected) point of a piece is a point of the
    whole data set with the same field values, and every connected point of the whole data set
    occurs in some piece. -/
def isPartition (whole : MeshFields) (pieces : List MeshFields) : Bool :=
  whole.cellContent.isPerm (pieces.flatMap (·.cellContent)) &&
  pieces.all (fun p => p.pointContent.all fun it => whole.pointContent.contains it) &&
  whole.pointContent.all fun it => pieces.any fun p => p.pointContent.contains it

/-! ### content by field *name* (independent of the order in which fields are stored)

  `pointContent` / `cellContent` of FcModel/Mesh.lean list the field values of an item in storage
  order.  The merged cell-field order comes from a Python `set`; the theorems therefore use the
  following name-indexed variants (for canonically stored fields both notions coincide; the driver
  evaluates both on every case). -/

/-- value row of cell field `name` on the cells of type `ct` at cell `c` (`[]` if there is none) -/
def cellValue (f : MeshFields) (name ct : String) (c : Nat) : List Int :=
  match findCellField f.cellFields name ct with
  | some cf => cf.values.row c
  | none => []

/-- the cells of type `ct` as geometric items: corner coordinates and the values of the fields `names` -/
def cellItemsOf (f : MeshFields) (names : List String) (ct : String) : List CellItem :=
  (List.range (f.mesh.cellsOf ct).length).map fun c =>
    ⟨ct, ((f.mesh.cellsOf ct).getD c []).map (f.mesh.points.getD · []),
     names.map fun n => (n, cellValue f n ct c)⟩

def pointValue (f : MeshFields) (name : String) (p : Nat) : List Int :=
  match f.pointFields.find? (·.name == name) with
  | some pf => pf.values.row p
  | none => []

def pointItemBy (f : MeshFields) (names : List String) (p : Nat) : PointItem :=
  ⟨f.mesh.points.getD p [], names.map fun n => (n, pointValue f n p)⟩

/-- all points (connected or not) as geometric items -/
def pointItemsOf (f : MeshFields) (names : List String) : List PointItem :=
  (List.range f.mesh.points.length).map (pointItemBy f names)

/-- name-indexed verdict: per cell type the same cells (with multiplicity), the same points -/
def readsAsWholeBy (cnames pnames : List String) (merged whole : MeshFields) : Bool :=
  (dedupNames (merged.mesh.cellTypes ++ whole.mesh.cellTypes)).all (fun ct =>
    (cellItemsOf merged cnames ct).isPerm (cellItemsOf whole cnames ct)) &&
  (pointItemsOf merged pnames).isPerm (pointItemsOf whole pnames)

/-- conforming: no two points of the data set coincide -/
def conforming (f : MeshFields) : Bool := nodupPoints f.mesh.points

/-- the whole structured field, given its value at every global flat index -/
def wholeField {α} (n : Nat) (G : Nat → α) : List α := (List.range n).map G

/-- the piece at `loc` carries the restriction of the global field `G` (single-valued data) -/
def restrictField {α} (isPoint : Bool) (d : List (List Nat)) (G : Nat → α) (loc : List Nat) : List α :=
  (pieceEntityIndices isPoint d loc).map G

/-! ### axis-aligned decompositions of the three VTK directions (what the structured theorems quantify over)

  `d3` lists, per VTK direction, the number of cells of each piece along that direction.  A flat
  direction (one layer of points, no cells) is the single entry `0`; a meshed direction has at least
  one piece and every piece has at least one cell.  The pieces are the locations
  `locationsIn (piecesShape d3)`; piece `loc3` covers the lattice indices `pieceExtent d3 origin loc3`. -/

def axisOk (ns : List Nat) : Bool := ns == [0] || (!ns.isEmpty && ns.all (0 < ·))

def decompOk (d3 : List (List Nat)) : Bool := d3.length == 3 && d3.all axisOk

def axisMeshed (ns : List Nat) : Bool :=
  match ns.head? with
  | some n => decide (0 < n)
  | none => false

/-- the meshed VTK directions of `d3` -/
def meshedDirs (d3 : List (List Nat)) : List Nat :=
  (List.range 3).filter fun dir => axisMeshed (d3.getD dir [])

/-- the decomposition of the meshed directions only: what `StructuredFieldMerger` must be given -/
def mergerOf (d3 : List (List Nat)) : List (List Nat) := (meshedDirs d3).map (d3.getD · [])

/-- location of the piece `loc3` among the directions `dirs` -/
def restrictLoc (dirs : List Nat) (loc3 : List Nat) : List Nat := dirs.map (loc3.getD · 0)

/-- the `Extent` of the whole grid -/
def wholeExtent (d3 : List (List Nat)) (origin : List Int) : List Int :=
  (List.range 3).flatMap fun dir =>
    let o := origin.getD dir 0
    [o, o + (sumList (d3.getD dir []) : Nat)]

/-- the ordinates the piece at position `b` of an axis cut into `ns` carries, `W` = the ordinates of
    the whole axis: both end points of its range -/
def pieceOrdinates (W : List Int) (ns : List Nat) (b : Nat) : List Int :=
  (W.drop (sumList (ns.take b))).take (ns.getD b 0 + 1)

/-- cells per direction of an `Extent` -/
def cellsOfExtent (e : List Int) : List Int :=
  (List.range 3).map fun i => e.getD (2 * i + 1) 0 - e.getD (2 * i) 0

/-- what the whole (sequential) file `w` reads as: its extents, its geometry — an image grid starts
    at the point with the lowest structured index of the file —, its data arrays -/
def wholeRead (U : Nat) (w : SFile) : SRead :=
  ⟨match w.geom with
   | .image O S B => .image (vtiMesh U w.extent O S B)
   | .rect o => .rect (cellsOfExtent w.extent) o
   | .struct p => .struct (cellsOfExtent w.extent) p,
   w.pointFields, w.cellFields⟩

/-- the piece file at `loc3` when the whole file `w` is cut along `d3`: its extent; the image
    attributes unchanged / its part of every ordinate array / its points; its rows of every data array
    (same dtype, same entry shape) -/
def pieceFile (w : SFile) (d3 : List (List Nat)) (origin : List Int) (loc3 : List Nat) : SFile :=
  let dM := mergerOf d3
  let loc := restrictLoc (meshedDirs d3) loc3
  ⟨pieceExtent d3 origin loc3,
   match w.geom with
   | .image O S B => .image O S B
   | .rect o => .rect ((List.range 3).map fun dir =>
       pieceOrdinates (o.getD dir []) (d3.getD dir []) (loc3.getD dir 0))
   | .struct p => .struct ((pieceEntityIndices true dM loc).map (p.getD · [])),
   w.pointFields.map fun f => (f.1, NdArr.takeRows f.2 (pieceEntityIndices true dM loc)),
   w.cellFields.map fun f => (f.1, NdArr.takeRows f.2 (pieceEntityIndices false dM loc))⟩

/-- an array with `n` entries along axis 0 -/
def arrOk (n : Nat) (a : NdArr) : Bool :=
  a.shape.head? == some n && a.data.length == n * a.rowSize

/-- `w` is a whole structured file over the lattice cut by `d3`: extent, geometry of matching size,
    distinct field names, arrays of matching length -/
def wholeOk (w : SFile) (d3 : List (List Nat)) (origin : List Int) : Bool :=
  let np := prodShape (mergedShape true (mergerOf d3))
  let nc := prodShape (mergedShape false (mergerOf d3))
  w.extent == wholeExtent d3 origin &&
  (match w.geom with
   | .image _ _ _ => true
   | .rect o => o.length == 3 && (List.range 3).all fun dir => (o.getD dir []).length == sumList (d3.getD dir []) + 1
   | .struct p => p.length == np) &&
  nodupStrings (w.pointFields.map (·.1)) && nodupStrings (w.cellFields.map (·.1)) &&
  w.pointFields.all (fun f => arrOk np f.2) && w.cellFields.all (fun f => arrOk nc f.2)

end Fc.C06.Spec
