/-
  FcModel.Spec.C20 — what property C20 demands of the JUnit report together with the exit status.
-/
import FcModel.Junit
import FcModel.Spec.C04
namespace Fc.C04.Spec
open Fc Fc.C04

/-- the count attributes of a suite match its test cases (as a JUnit consumer classifies them) -/
def countsOk (j : JSuite) : Bool :=
  j.tests == j.cases.length && j.failures == j.count .failure &&
  j.errors == j.count .error && j.skipped == j.count .skipped

/-- does the report show at least one failure or error? -/
def showsFailure (js : List JSuite) : Bool :=
  js.any fun j => j.cases.any fun c => c.kind == .failure || c.kind == .error

/-- the report reflects the outcome: a failure/error is shown iff the exit status is non-zero -/
def agrees (e : ExitOutcome) (js : List JSuite) : Bool :=
  (e != .exit 0) == showsFailure js

/-- C20 for one run: a report exists whenever the run did not succeed, its counts match and it
    agrees with the exit status -/
def reportOk (r : ExitOutcome × Option (List JSuite)) : Bool :=
  match r.2 with
  | none => r.1 == .exit 0
  | some js => js.all countsOk && agrees r.1 js

/-- names that the property wants to see as *skipped* for one pair with equal domains:
    fields missing on a side whose ignore flag is set, and fields on both sides that the patterns
    filter out -/
def expectedSkipped (s : Scenario) (p : PairData) : List String :=
  (if s.ignSrc then (p.ref.filter fun b => !(p.res.any fun a => a.name == b.name)).map (·.name) else []) ++
  (if s.ignRef then (p.res.filter fun a => !(p.ref.any fun b => b.name == a.name)).map (·.name) else []) ++
  ((p.res.filter fun a => (p.ref.any fun b => b.name == a.name) && !selected s a.name).map (·.name))

def skippedNames (j : JSuite) : List String :=
  (j.cases.filter fun c => c.kind == .skipped).map (·.name)

/-- the class of runs on which the unchanged implementation cannot satisfy `agrees` (finding F5):
    no report is written although the run fails, or the suite fails by its *own* status (read error,
    unequal domains, differing sequence lengths, exception in a directory run) while none of its
    test cases does -/
def unbacked (s : Suite) : Bool :=
  match s.status with
  | none => false
  | some st => !suiteIsTrue st && s.tests.all fun t => suiteIsTrue t.status

end Fc.C04.Spec
