/-
  FcModel.Spec.C04 — what property C04 demands of `fieldcompare file RES REF [options]`, written
  declaratively (no dictionary, no first-match removal, no suites):

    exit 0  ⇔  the tolerance arguments are well formed ∧ both files can be read ∧ the data are of the
               same kind ∧ the domains are equal ∧ every field present on both sides and selected by
               the patterns satisfies the comparison with *the tolerance that applies to it* ∧ fields
               present on one side only occur only where the corresponding ignore flag is given ∧
               (sequences) lengths agree or missing steps are ignored, and every common step passes.

  "The tolerance that applies to a field": the value of the last `name:value` argument with that
  name, otherwise the value of the last argument without a name, otherwise the default.
-/
import FcModel.Cli
namespace Fc.C04.Spec
open Fc Fc.C04

/-- value of one argument: `none` = the argument is rejected (malformed / not a number) -/
def tokValue (pf : String → FloatLit) (dyn : Bool) (s : String) : Option (Option TolVal) :=
  match classifyTok s with
  | .malformed => none
  | .named _ v => makeTolerance pf dyn v
  | .unnamed v => makeTolerance pf dyn v

/-- all arguments of one tolerance option are accepted -/
def tokensValid (pf : String → FloatLit) (dyn : Bool) (toks : Option (List String)) : Bool :=
  match toks with
  | none => true
  | some l => l.all fun s => (tokValue pf dyn s).isSome

/-- is `s` an argument `name:value` for this `name` / an argument without a name? -/
def isNamedFor (name : String) (s : String) : Bool :=
  match classifyTok s with
  | .named n _ => n == name
  | _ => false

def isUnnamed (s : String) : Bool :=
  match classifyTok s with
  | .unnamed _ => true
  | _ => false

/-- the (non-exotic) value carried by an argument -/
def valueOf (pf : String → FloatLit) (dyn : Bool) (s : String) : Option TolVal :=
  (tokValue pf dyn s).join

/-- the last argument satisfying `p` that carries a value -/
def lastValue (pf : String → FloatLit) (dyn : Bool) (p : String → Bool) (l : List String) : Option TolVal :=
  (l.reverse.filter fun s => p s && (valueOf pf dyn s).isSome).head?.bind (valueOf pf dyn)

/-- the tolerance that applies to `name`: per-field ?? global ?? `none` (= the default) -/
def tolFor (pf : String → FloatLit) (dyn : Bool) (toks : Option (List String)) (name : String) : Option TolVal :=
  match toks with
  | none => none
  | some l =>
    match lastValue pf dyn (isNamedFor name) l with
    | some v => some v
    | none => lastValue pf dyn isUnnamed l

/-- include/exclude selection of a field name (patterns see the name without annotation) -/
def selected (s : Scenario) (name : String) : Bool :=
  (match s.incl with | none => true | some l => l.contains (removeAnnotation name)) &&
  !(match s.excl with | none => false | some l => l.contains (removeAnnotation name))

/-- the comparison demanded for one field present on both sides: `DefaultEquality` with the
    tolerances that apply to it — by C01/C09 the documented formula for floating-point data and
    exact equality for integers/strings -/
def fieldOk (pf : String → FloatLit) (s : Scenario) (a b : Field) : Bool :=
  fieldVerdict (tolFor pf false s.rtolToks (removeAnnotation a.name))
               (tolFor pf true s.atolToks (removeAnnotation a.name)) a b == .passed

def domainsEqual (pf : String → FloatLit) (s : Scenario) : DomainPair → Bool
  | .tables n m => n == m
  | .meshes pr pq topo stor _ =>
    meshDomainEq s.disableReorder (tolFor pf false s.rtolToks domainKey) (tolFor pf true s.atolToks domainKey)
      pr pq topo stor
  | .mixedKinds => false

/-- one pair of data sets passes -/
def pairOk (pf : String → FloatLit) (s : Scenario) (p : PairData) : Bool :=
  domainsEqual pf s p.dom &&
  (p.res.all fun a => p.ref.all fun b => a.name != b.name || !selected s a.name || fieldOk pf s a b) &&
  ((p.ref.all fun b => p.res.any fun a => a.name == b.name) || s.ignSrc) &&
  ((p.res.all fun a => p.ref.any fun b => b.name == a.name) || s.ignRef)

/-- the sequence clause and the per-step demands -/
def payloadOk (pf : String → FloatLit) (s : Scenario) : Payload → Bool
  | .single p => pairOk pf s p
  | .seqs n m steps => (n == m || s.ignSeq) && (steps.take (min n m)).all (pairOk pf s)
  | .mixed => false

/-- C04: `fieldcompare file` must exit with 0 exactly in this case -/
def exitZero (pf : String → FloatLit) (s : Scenario) : Bool :=
  tokensValid pf false s.rtolToks && tokensValid pf true s.atolToks &&
  s.readRes == .ok && s.readRef == .ok && payloadOk pf s s.payload

end Fc.C04.Spec
