/-
  FcModel.Spec.C07 — what property C07 demands, stated geometrically (no flat-index tricks):

  * a lattice with `ext = [ex, ey, ez]` cells per direction has the points `geom (i, j, k)`,
    `0 ≤ i ≤ ex …`, and one cell per lattice cell of the NON-ZERO directions whose corners are the
    lattice points `loc + δ`, `δ ∈ {0,1}^d`, listed in the VTK order of the cell type;
  * the value of point field row `flatten (i,j,k)` (x fastest — the VTK file-format convention)
    belongs to point `(i,j,k)`, cell-field row `c` to the lattice cell `unflatten c`;
  * pixel ~ quad and voxel ~ hexahedron describe the same cell (corner order 0,1,3,2 / 0,1,3,2,4,5,7,6);
  * a meshio mesh has exactly the cells of all its blocks, each with the values of its own block.
-/
import FcModel.Structured
import FcModel.Meshio
namespace Fc.C07.Spec
open Fc Fc.C07

/-- corner offsets δ of the VTK linear cell types, in the order VTK lists the corners -/
def vtkCorners : String → List (List Nat)
  | "LINE" => [[0], [1]]
  | "PIXEL" => [[0, 0], [1, 0], [0, 1], [1, 1]]
  | "QUAD" => [[0, 0], [1, 0], [1, 1], [0, 1]]
  | "VOXEL" => [[0, 0, 0], [1, 0, 0], [0, 1, 0], [1, 1, 0], [0, 0, 1], [1, 0, 1], [0, 1, 1], [1, 1, 1]]
  | "HEXAHEDRON" => [[0, 0, 0], [1, 0, 0], [1, 1, 0], [0, 1, 0], [0, 0, 1], [1, 0, 1], [1, 1, 1], [0, 1, 1]]
  | _ => []

/-- the type of a d-dimensional lattice cell: structured grids use line/quad/hexahedron,
    image and rectilinear grids line/pixel/voxel -/
def latticeType (k : GridKind) (d : Nat) : String :=
  match k, d with
  | _, 1 => "LINE"
  | .structured, 2 => "QUAD"
  | .structured, 3 => "HEXAHEDRON"
  | _, 2 => "PIXEL"
  | _, 3 => "VOXEL"
  | _, _ => ""

/-- position in the full 3-d lattice of a position given in the non-zero directions only -/
def expand : List Nat → List Nat → List Nat
  | [], _ => []
  | e :: es, loc => if e = 0 then 0 :: expand es loc else loc.headD 0 :: expand es loc.tail

def addIdx (a b : List Nat) : List Nat := List.zipWith (· + ·) a b

/-- number of a lattice point in the numbering used by `points` (x fastest over ALL three directions) -/
def pointIdx (ext : List Nat) (pos : List Nat) : Nat := flatten (ext.map (· + 1)) pos

/-- corner point numbers of lattice cell number `c` for a cell of type `ct` -/
def latticeCell (ext : List Nat) (ct : String) (c : Nat) : List Nat :=
  let nz := nonzeroExtents ext
  (vtkCorners ct).map fun δ => pointIdx ext (expand ext (addIdx (unflatten nz c) δ))

/-- the geometry of the three descriptions as a function of the lattice position; `lo` = the lower
    ends of the file's `Extent` attribute: VTK image data places the point with STRUCTURED INDEX
    (i, j, k) — counted from the extent's lower end — at `origin + D·(spacing ∘ (i, j, k))`; the other
    two descriptions carry explicit coordinates -/
def geomAtLo (lo : List Int) (ext : List Nat) : GridGeom → List Nat → List Int
  | .image U o b s, pos => imagePointZ U o b s (List.zipWith (· + ·) lo (pos.map Int.ofNat))
  | .rect ords, pos => pick 0 (ords.map fixOrdinates) pos
  | .struct pts, pos => pts.getD (pointIdx ext pos) []

def geomAt (ext : List Nat) : GridGeom → List Nat → List Int
  | .image U o b s, pos => imagePoint U o b s pos
  | .rect ords, pos => pick 0 (ords.map fixOrdinates) pos
  | .struct pts, pos => pts.getD (pointIdx ext pos) []

/-- the same cell described as quad / hexahedron (pixel ~ quad, voxel ~ hexahedron) -/
def normCell (c : CellItem) : CellItem :=
  if c.ctype = "PIXEL" then ⟨"QUAD", [0, 1, 3, 2].map (c.corners.getD · []), c.values⟩
  else if c.ctype = "VOXEL" then ⟨"HEXAHEDRON", [0, 1, 3, 2, 4, 5, 7, 6].map (c.corners.getD · []), c.values⟩
  else c

def normType (t : String) : String :=
  if t = "PIXEL" then "QUAD" else if t = "VOXEL" then "HEXAHEDRON" else t

/-- point items of a grid with fields: every lattice point, with row `pointIdx` of every point field -/
def gridPointContent (ext : List Nat) (g : GridGeom) (pfs : List PointField) : List PointItem :=
  (List.range (prodNat (ext.map (· + 1)))).map fun p =>
    ⟨geomAt ext g (unflatten (ext.map (· + 1)) p), pfs.map fun pf => (pf.name, pf.values.row p)⟩

/-- the same for a file whose extent starts at `lo` -/
def filePointContent (lo : List Int) (ext : List Nat) (g : GridGeom) (pfs : List PointField) : List PointItem :=
  (List.range (prodNat (ext.map (· + 1)))).map fun p =>
    ⟨geomAtLo lo ext g (unflatten (ext.map (· + 1)) p), pfs.map fun pf => (pf.name, pf.values.row p)⟩

def fileCellContent (lo : List Int) (ext : List Nat) (g : GridGeom) (cfs : List (String × NdArr)) : List CellItem :=
  let nz := nonzeroExtents ext
  let ct := normType (latticeType g.kind nz.length)
  (List.range (prodNat nz)).map fun c =>
    ⟨ct, (vtkCorners ct).map (fun δ => geomAtLo lo ext g (expand ext (addIdx (unflatten nz c) δ))),
     cfs.map fun cf => (cf.1, cf.2.row c)⟩


/-- cell items (normalised to quad/hexahedron): every lattice cell with its corners' coordinates in
    VTK order and row `c` of every cell field -/
def gridCellContent (ext : List Nat) (g : GridGeom) (cfs : List (String × NdArr)) : List CellItem :=
  let nz := nonzeroExtents ext
  let ct := normType (latticeType g.kind nz.length)
  (List.range (prodNat nz)).map fun c =>
    ⟨ct, (vtkCorners ct).map (fun δ => geomAt ext g (expand ext (addIdx (unflatten nz c) δ))),
     cfs.map fun cf => (cf.1, cf.2.row c)⟩

/-- hypothesis of the grid theorems: three extents, at least one non-zero, geometry of matching size,
    field lengths right -/
def gridHyp (ext : List Nat) (g : GridGeom) (pfs : List PointField) (cfs : List (String × NdArr)) : Bool :=
  ext.length == 3 && 1 ≤ gridDim ext && gridCtorOk ext g &&
  (match g with
   | .rect ords => (ords.zip ext).all fun (o, e) => (fixOrdinates o).length == e + 1
   | _ => true) &&
  pfs.all (fun pf => pf.values.shape.head? == some (prodNat (ext.map (· + 1)))) &&
  cfs.all (fun cf => cf.2.shape.head? == some (prodNat (nonzeroExtents ext)))

/-! ### meshio -/

def mioConnected (m : MioMesh) (p : Nat) : Bool := m.blocks.any fun b => b.2.any fun row => row.contains p

def mioPointContent (m : MioMesh) : List PointItem :=
  ((List.range m.points.length).filter (mioConnected m)).map fun p =>
    ⟨m.points.getD p [], m.pointData.map fun (n, a) => (n, a.row p)⟩

/-- the cells of the blocks `bs`, the first of which is block number `i` of the mesh: every cell with the
    values of ITS OWN block -/
def mioCellContentFrom (m : MioMesh) : Nat → List (String × List (List Nat)) → List CellItem
  | _, [] => []
  | i, b :: rest =>
    ((List.range b.2.length).map fun c =>
      CellItem.mk ((fromMioType b.1).getD "") ((b.2.getD c []).map (m.points.getD · []))
        (m.cellData.filterMap fun na => na.2[i]?.map fun a => (na.1, a.row c))) ++
      mioCellContentFrom m (i + 1) rest

/-- every cell of every block -/
def mioCellContent (m : MioMesh) : List CellItem := mioCellContentFrom m 0 m.blocks

end Fc.C07.Spec
