/-
  FcModel.Spec.C14 — what property C14 demands of a difference data set, as simply as possible.

  For every field name (cell fields: name and cell type) the diff of `src.diff_to(ref)` holds
    * `ref_i − src_i`, rounded once in the promoted number format, if the field is on both sides,
    * an all-NaN float64 array of the field's shape if it is on one side only,
    * nothing if it is on neither side;
  the data set lives on the reference's domain.  Tables: one float64 column of `max(rows)` entries per name,
  `ref_i − src_i` on the common rows of common columns, NaN everywhere else.
-/
import FcModel.Diff
namespace Fc.C14.Spec
open Fc

/-- entry `i` of the demanded difference of two arrays on both sides -/
def diffAt (a1 a2 : NdArr) (res : DType) (i : Nat) : DVal :=
  subEntry res a1.dtype a2.dtype (a1.data.getD i 0) (a2.data.getD i 0)

/-- demanded array for a field on both sides (reference `a1`, source `a2`) -/
def bothSides (a1 a2 : NdArr) : Option DArr :=
  match promote a1.dtype a2.dtype with
  | none => none
  | some res => some ⟨res, a1.shape, (List.range (min a1.data.length a2.data.length)).map (diffAt a1 a2 res)⟩

/-- demanded array for a field on one side only -/
def oneSide (a : NdArr) : DArr := ⟨.flt f64, a.shape, List.replicate a.data.length .nan⟩

/-- the demanded entry for one key, given the lookups on both sides; outer `none` = the key is absent,
    inner `none` = undefined (the subtraction is not defined for these operands) -/
def fieldDiff (r s : Option NdArr) : Option (Option DArr) :=
  match r, s with
  | some a1, some a2 => some (if a1.shape = a2.shape then bothSides a1 a2 else none)
  | some a1, none => some (some (oneSide a1))
  | none, some a2 => some (some (oneSide a2))
  | none, none => none

/-- the demanded list of (key, array): reference keys first, then keys of the source only -/
def diffList {κ} [BEq κ] (ref src : List (κ × NdArr)) : Option (List (κ × DArr)) :=
  let both := ref.map fun kv => (kv.1, fieldDiff (some kv.2) (dictGet kv.1 src))
  let srcOnly := (src.filter fun kv => (dictGet kv.1 ref).isNone).map fun kv => (kv.1, fieldDiff none (some kv.2))
  let all := both ++ srcOnly
  if all.all (fun kv => match kv.2 with | some (some _) => true | _ => false) then
    some (all.filterMap fun kv => match kv.2 with | some (some d) => some (kv.1, d) | _ => none)
  else none

structure MeshDiff where
  mesh : Mesh
  points : List (String × DArr)
  cells : List ((String × String) × DArr)

def meshDiff (src ref : MeshFields) : Option MeshDiff :=
  let p := diffList (ref.pointFields.map fun f => (f.name, f.values)) (src.pointFields.map fun f => (f.name, f.values))
  let c := diffList (ref.cellFields.map fun f => ((f.name, f.ctype), f.values))
                    (src.cellFields.map fun f => ((f.name, f.ctype), f.values))
  match p, c with
  | some p, some c => some ⟨ref.mesh, p, c⟩
  | _, _ => none

/-- table: entry `i` of the column for `name` -/
def tableAt (ref src : TableFields) (name : String) (i : Nat) : DVal :=
  match dictGet name ref.cols, dictGet name src.cols with
  | some a1, some a2 =>
    if i < a1.data.length ∧ i < a2.data.length then
      match promote a1.dtype a2.dtype with
      | some res => toF64 res (diffAt a1 a2 res i)
      | none => .nan
    else .nan
  | _, _ => .nan

def tableDiff (src ref : TableFields) : DiffTable :=
  let n := max ref.nrows src.nrows
  let names := ref.cols.map (·.1) ++ (src.cols.filter fun kv => (dictGet kv.1 ref.cols).isNone).map (·.1)
  ⟨n, names.map fun k => (k, ⟨.flt f64, [n], (List.range n).map (tableAt ref src k)⟩)⟩

end Fc.C14.Spec
