/-
  FcModel.Spec.C13 — what property C13 demands of `write` followed by `read_field_data`:
  the data set read back is `normalise F`, a function of the *logical* data only
  (no base64, no headers, no offsets):
    * points padded to three coordinates,
    * per cell type (ascending VTK type index, the order `np.unique` gives) its corner rows in mesh order,
    * every point field with its name, dtype, number of components (row-major flattened tail) and bits,
    * every cell field with its name, dtype and, per cell type, the bits of that type's cells.
-/
import FcModel.VtuWriter
namespace Fc.W.Spec
open Fc.W

/-- insertion of a (index, payload) pair into a list sorted by index -/
def insertByIdx {α} (x : Nat × α) : List (Nat × α) → List (Nat × α)
  | [] => [x]
  | y :: r => if x.1 ≤ y.1 then x :: y :: r else y :: insertByIdx x r

def sortByIdx {α} (l : List (Nat × α)) : List (Nat × α) := l.foldr insertByIdx []

/-- the cell-type blocks that contain at least one cell, keyed and sorted by VTK type index -/
def typedBlocks (F : WFields) : Option (List (Nat × String × List (List Nat))) :=
  (mapM' (fun (b : String × List (List Nat)) => (cellTypeIndex b.1).map fun i => (i, b.1, b.2))
      (F.cells.filter fun b => !b.2.isEmpty)).map sortByIdx

/-- one cell field: name, dtype and component count of the first field of that name, and per block
    (in the order of `blocks`) the bits of that block's cells -/
def normCellField (F : WFields) (blocks : List (Nat × String × List (List Nat))) (n : String) : Option RCellField :=
  match F.cf.find? (·.1 == n) with
  | none => none
  | some first =>
    some (RCellField.mk n first.2.2.dt (prod first.2.2.tail)
      (blocks.map fun b => (b.2.1, (F.cf.filter fun f => f.1 == n && f.2.1 == b.2.1).flatMap (·.2.2.items))))

def normalise (F : WFields) : Option RFields :=
  match typedBlocks F with
  | none => none
  | some blocks =>
    match mapM' (normCellField F blocks) (dedup (F.cf.map (·.1))) with
    | none => none
    | some cf =>
      some ⟨if F.dim = 3 then F.ptype else "float64", (F.points.map (make3d id)).flatMap id,
            blocks.map fun b => (b.2.1, b.2.2),
            F.pf.map fun f => RField.mk f.1 f.2.dt (prod f.2.tail) f.2.items, cf⟩

/-! ### the hypothesis under which `readVtu (writeVtu F) = normalise F` is claimed -/

def allDistinct : List String → Bool
  | [] => true
  | x :: r => !r.contains x && allDistinct r

def hyp (F : WFields) : Bool :=
  (1 ≤ F.dim && F.dim ≤ 3) && !F.points.isEmpty &&
  F.points.all (fun p => p.length == F.dim && p.all (· < 256 ^ 8)) &&
  -- points narrower than three columns are copied into a float64 triple: modelled for float64 points
  (F.ptype == "float64" || (F.dim == 3 && F.ptype == "float32")) &&
  F.points.all (fun p => p.all (· < 256 ^ dtypeSize F.ptype)) &&
  -- cells: known, pairwise distinct types; one corner count per type; indices fit the index dtype
  allDistinct (F.cells.map (·.1)) &&
  F.cells.all (fun b => (cellTypeIndex b.1).isSome &&
      (match b.2 with | [] => true | r0 :: rs => r0.length > 0 && rs.all (·.length == r0.length))) &&
  (dtypeSize F.conntype ≠ 0) &&
  F.cells.all (fun b => b.2.all fun r => r.all (· < 256 ^ dtypeSize F.conntype / 2)) &&
  -- point fields
  allDistinct (F.pf.map (·.1)) &&
  F.pf.all (fun f => f.2.wf && f.2.rows == F.points.length && prod f.2.tail ≥ 1) &&
  -- cell fields: every name on every cell type exactly once, one dtype and tail per name
  F.cf.all (fun f => f.2.2.wf && prod f.2.2.tail ≥ 1 &&
      F.cells.any (fun b => b.1 == f.2.1 && b.2.length == f.2.2.rows)) &&
  (dedup (F.cf.map (·.1))).all (fun n =>
      F.cells.all (fun b => (F.cf.filter fun f => f.1 == n && f.2.1 == b.1).length == 1) &&
      (match F.cf.find? (·.1 == n) with
       | none => false
       | some f0 => F.cf.all fun f => f.1 != n || (f.2.2.dt == f0.2.2.dt && f.2.2.tail == f0.2.2.tail))) &&
  -- a cell field needs at least one cell (the writer cannot deduce the component count otherwise)
  (F.cf.isEmpty || (F.cells.any fun b => !b.2.isEmpty))

/-- every written array has fewer than 2^64 payload bytes (the `UInt64` header holds the true length), the
    offsets fit `int64`: no array of the data set has 2^61 or more scalars.  Always true in practice; it is a
    separate hypothesis because it is about the size of the data, not about its form. -/
def sizeOk (F : WFields) : Bool :=
  decide (F.points.length * 24 < 256 ^ 8) &&
  decide ((allCells F.cells).length * 8 < 256 ^ 8) &&
  decide (((allCells F.cells).flatMap (·.2)).length * 8 < 256 ^ 8) &&
  F.pf.all (fun f => decide (f.2.items.length * 8 < 256 ^ 8)) &&
  (dedup (F.cf.map (·.1))).all (fun n =>
    match cellFieldValues F n with
    | some v => decide (v.items.length * 8 < 256 ^ 8)
    | none => true)

end Fc.W.Spec
