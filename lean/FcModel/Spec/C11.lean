/-
  FcModel.Spec.C11 — what property C11 demands, as set-theoretic list comprehensions
  (no matching loop, no removal): for field collections with pairwise distinct names

    for every source field s:   on both sides and selected  → passed/failed/error by the predicate
                                on both sides, not selected → filtered
                                only in the source           → missing_reference
    for every reference field without a source partner      → missing_source
    verdict = domains equal ∧ no reported entry is failed/error
-/
import FcModel.Compare
namespace Fc.Spec

def hasName (l : List Fld) (n : Nat) : Bool := l.any (fun f => f.name == n)

def entryOf (sel : Nat → Bool) (pred : Fld → Fld → Outcome) (ref : List Fld) (s : Fld) : Cmp :=
  match ref.find? (fun t => t.name == s.name) with
  | some t => if sel s.name then ⟨s.name, outcomeStatus (pred s t)⟩ else ⟨s.name, .filtered⟩
  | none => ⟨s.name, .missing_reference⟩

def report (sel : Nat → Bool) (pred : Fld → Fld → Outcome) (src ref : List Fld) : List Cmp :=
  src.map (entryOf sel pred ref)
    ++ (ref.filter (fun t => !hasName src t.name)).map (fun t => ⟨t.name, .missing_source⟩)

def isFailure (s : FStatus) : Bool := s == .failed || s == .error

def verdict (sel : Nat → Bool) (domainEq : Bool) (pred : Fld → Fld → Outcome) (src ref : List Fld) : Bool :=
  domainEq && (report sel pred src ref).all (fun c => !isFailure c.status)

/-- What the filters SHOULD see (user-level reading of "the name without the cell-type annotation"):
    for a cell field of a mesh (`annot n`: the name carries an annotation added by `MeshFields`) the name
    without that annotation, for every other field (point fields, tabular fields) the name itself. -/
def userSelected (strip : Nat → Nat) (annot : Nat → Bool) (incl excl : Nat → Bool) (n : Nat) : Bool :=
  let v := if annot n then strip n else n
  !(!incl v || excl v)

/-- class predicate of finding F14, negated: every plain (not annotated) field name is a fixed point of
    `remove_annotation`, i.e. no plain name contains the separator " @ " -/
def plainFixed (strip : Nat → Nat) (annot : Nat → Bool) (l : List Fld) : Bool :=
  l.all (fun f => annot f.name || strip f.name == f.name)

/-- pairwise distinct names (decidable form of `Nodup (l.map name)`) -/
def distinctNames : List Fld → Bool
  | [] => true
  | f :: fs => !hasName fs f.name && distinctNames fs

def hyp (src ref : List Fld) : Bool := distinctNames src && distinctNames ref

end Fc.Spec
