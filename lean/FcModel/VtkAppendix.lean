/-
  FcModel.VtkAppendix — the raw-appended FALLBACK PARSER of fieldcompare/io/vtk/_xml_reader.py
  (used when ElementTree cannot parse the file because of the binary appendix):
    _find_appendix_positions, _find_enclosed_content_range, _determine_encoding
  as byte searches over the file content.  `bytes.find` returning -1 is `none`; failed assertions
  are `none`.  Loops run on fuel = length of the content (every iteration moves `cur_pos` forward).
-/
import FcModel.VtkArray
namespace Fc

/-- `needle` is a prefix of `l` -/
def startsWith : List Nat → List Nat → Bool
  | [], _ => true
  | _ :: _, [] => false
  | n :: ns, x :: xs => n == x && startsWith ns xs

/-- first index `≥ i` (counted from `i` at the head of `l`) where `needle` starts -/
def findAt (needle : List Nat) : List Nat → Nat → Option Nat
  | [], i => if needle.isEmpty then some i else none
  | x :: xs, i => if startsWith needle (x :: xs) then some i else findAt needle xs (i + 1)

/-- `content.find(needle, start)` -/
def bfind (needle content : List Nat) (start : Nat) : Option Nat :=
  if start ≤ content.length then findAt needle (content.drop start) start else none

/-- last index where `needle` starts, scanning with the running index `i` -/
def rfindAt (needle : List Nat) : List Nat → Nat → Option Nat → Option Nat
  | [], i, last => if needle.isEmpty then some i else last
  | x :: xs, i, last => rfindAt needle xs (i + 1) (if startsWith needle (x :: xs) then some i else last)

/-- `content.rfind(needle)` -/
def brfind (needle content : List Nat) : Option Nat := rfindAt needle content 0 none

def strBytes (s : String) : List Nat := s.toList.map Char.toNat

def openTag : List Nat := strBytes "<AppendedData"
def closeTag : List Nat := strBytes "</AppendedData>"
def encodingKw : List Nat := strBytes "encoding"

/-- `needle in l` (Python `bytes.__contains__`): the needle starts at some position of `l` -/
def occ (needle : List Nat) : List Nat → Bool
  | [] => startsWith needle []
  | x :: xs => startsWith needle (x :: xs) || occ needle xs

/-- the `while` loop of `_find_enclosed_content_range` for `open_char ≠ close_char` -/
def enclosedLoop (content opn cls : List Nat) (startPos : Nat) : Nat → Nat → Nat → Nat → Option (Nat × Nat)
  | 0, _, _, _ => none
  | fuel + 1, cur, openCount, closeCount =>
    let nextOpen := bfind opn content (cur + 1)
    let nextClose := bfind cls content (cur + 1)
    match nextClose with
    | some nc =>
      let closeCount := closeCount + 1
      let isEndOpen := match nextOpen with | none => true | some no => decide (nc < no)
      if openCount = closeCount ∧ isEndOpen = true then some (startPos, nc)
      else
        let openCount := match nextOpen with | none => openCount | some _ => openCount + 1
        -- cur_pos = max(next_open_pos, next_close_pos)
        let cur := match nextOpen with | none => nc | some no => max no nc
        enclosedLoop content opn cls startPos fuel cur openCount closeCount
    | none =>
      match nextOpen with
      | none => none                         -- cur_pos = max(-1, -1) = -1: loop ends
      | some no => enclosedLoop content opn cls startPos fuel no openCount closeCount

/-- `_find_enclosed_content_range(content, start_pos, open, close)`; for equal delimiters the end
    position -1 of a failed search is passed on as it is (modelled by `none` in the second slot) -/
def enclosedRange (content : List Nat) (startPos : Nat) (opn cls : List Nat) : Option (Nat × Option Nat) :=
  match bfind opn content startPos with
  | none => none
  | some cur =>
    if opn = cls then some (cur + 1, bfind cls content (cur + 1))
    else (enclosedLoop content opn cls (cur + 1) (content.length + 1) cur 1 0).map (fun r => (r.1, some r.2))

/-- `_find_appendix_positions` -/
def findAppendixPositions (content : List Nat) : Option (Nat × Nat) := do
  let startPos ← bfind openTag content 0
  let pos ← enclosedRange content startPos [60] [62]          -- '<' '>'
  let close ← pos.2
  let appBegin ← bfind [95] content (close + 1)                -- '_'
  let appEnd ← bfind closeTag content 0
  some (appBegin + 1, appEnd)

/-- Python slice `x[a:b]` for non-negative `a`, `b` -/
def pySlice (x : List Nat) (a b : Nat) : List Nat := (x.drop a).take (b - a)

/-- `_determine_encoding(content)`: the text between the first pair of `"` behind the first
    `encoding` behind the LAST `<AppendedData` -/
def determineEncoding (content : List Nat) : Option (List Nat) := do
  -- rfind = -1 is passed to find as a start position counted from the end (-1): last byte
  let pos := match brfind openTag content with | some p => p | none => content.length - 1
  -- find("encoding", pos) = -1 is again passed on as start position -1
  let pos2 := match bfind encodingKw content pos with | some p => p | none => content.length - 1
  let r ← enclosedRange content pos2 [34] [34]                 -- '"'
  match r.2 with
  | some e => some (pySlice content r.1 e)
  | none => some (pySlice content r.1 (content.length - 1))     -- content[start:-1]

/-- the appendix (bytes, encoding name) the fallback branch of `VTKXMLReader.__init__` extracts -/
def fallbackAppendix (content : List Nat) : Option (List Nat × List Nat) := do
  let (b, e) ← findAppendixPositions content
  -- content[app_begin - 100:]  (a negative start counts from the end)
  let tail := if 100 ≤ b then content.drop (b - 100) else content.drop (content.length - (100 - b))
  let enc ← determineEncoding tail
  some (pySlice content b e, enc)

end Fc
