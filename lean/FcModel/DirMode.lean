/-
  FcModel.DirMode — executable model of `fieldcompare dir` (property C12).

  Mirrors, function by function,
    fieldcompare/_matching.py      find_matches (first match, removal), find_matching_file_names
    fieldcompare/_cli/_dir_mode.py _categorize_files (with exactly the Python list / set operations),
                                   _do_file_comparisons, _add_unhandled_comparisons,
                                   _add_skipped_file_comparisons, exit code = all(suites)
    fieldcompare/_cli/_test_suite.py TestStatus.__bool__

  External facts are parameters:
    resPaths / refPaths   the relative paths `_find_sub_files_recursively` returns for the two trees (`os.walk`)
    incl / excl           truth tables of `PatternFilter(--include-files)` / `PatternFilter(--exclude-files)`
                          (`fnmatch`; defaults `*` / nothing)
    supported             `is_supported(join(res_dir, p))` (extension tables + content sniffing of the SOURCE file)
    mapped                `file_type_map(p) is not None` for the `--read-as` mappings (evaluated on the relative path)
    fileOutcome           outcome of the file comparison of the pair (A/p, B/p) with the same options — by the
                          property: the exit status of `fieldcompare file A/p B/p …`, refined into four classes
  Python `set`s have no specified iteration order; the model fixes one (first occurrence order). Every
  observable / theorem is invariant under permutation of these lists (membership, counts, lengths).
  Core Lean only.
-/
namespace Fc.DirMode

/-- result of one file comparison (`FileComparison.__call__` inside `_do_file_comparisons`):
    `pass`  suite truthy                    (file mode exits 0)
    `fail`  suite falsy, status failed      (file mode exits 1)
    `error` suite with status error (read error: `IOError`)    (file mode exits 1)
    `exception` any other exception, caught by `except Exception` (file mode exits 1, writes no report) -/
inductive Outcome where
  | pass | fail | error | exception
  deriving DecidableEq, Repr, Inhabited

/-- `TestStatus` -/
inductive Status where
  | passed | failed | error | skipped
  deriving DecidableEq, Repr, Inhabited

/-- `TestStatus.__bool__`: falsy exactly for failed / error -/
def Status.toBool : Status → Bool
  | .passed => true
  | .failed => false
  | .error => false
  | .skipped => true

/-- status of the suite produced for a compared pair -/
def Outcome.status : Outcome → Status
  | .pass => .passed
  | .fail => .failed
  | .error => .error
  | .exception => .error

/-- why a suite exists (the `reason` strings of `_add_unhandled_comparisons`, or a real comparison) -/
inductive Kind where
  | compared (o : Outcome)
  | missingSource        -- "Missing source file"
  | missingReference     -- "Missing reference file"
  | unsupported          -- "Unsupported file format"
  | filtered             -- "Filtered out by given wildcard patterns"
  deriving DecidableEq, Repr, Inhabited

structure Suite (α : Type) where
  path : α
  kind : Kind
  status : Status
  deriving DecidableEq, Repr

structure Flags where
  ignoreMissingSource : Bool      -- --ignore-missing-source-files
  ignoreMissingReference : Bool   -- --ignore-missing-reference-files
  deriving DecidableEq, Repr

/-! ### `find_matches` -/

structure MatchResult (α : Type) where
  matched : List α          -- `matches` (pairs (s, t) with s == t: only the name is kept, as `_categorize_files` does)
  orphansSource : List α    -- `orphans_in_source`
  orphansReference : List α -- `orphans_in_reference`
  deriving Repr

/-- `find_matches(source, reference)` with the default equality predicate: every source element takes the
    FIRST equal element out of the remaining reference list (`orphans_target.remove(t)`) -/
def findMatches {α} [DecidableEq α] : List α → List α → MatchResult α
  | [], ref => ⟨[], [], ref⟩
  | s :: src, ref =>
    if s ∈ ref then
      let r := findMatches src (ref.erase s)
      ⟨s :: r.matched, r.orphansSource, r.orphansReference⟩
    else
      let r := findMatches src ref
      ⟨r.matched, s :: r.orphansSource, r.orphansReference⟩

/-! ### Python `set` operations on lists -/

/-- `list(set(xs))` — duplicates removed (order: an arbitrary but fixed choice) -/
def dedup {α} [DecidableEq α] : List α → List α
  | [] => []
  | x :: xs => if x ∈ xs then dedup xs else x :: dedup xs

/-- `set(xs).difference(ys)` -/
def setDiff {α} [DecidableEq α] (xs ys : List α) : List α :=
  dedup (xs.filter (fun x => !decide (x ∈ ys)))

/-- `xs.union(ys)` for two sets given as duplicate-free lists -/
def setUnion {α} [DecidableEq α] (xs ys : List α) : List α :=
  dedup (xs ++ ys)

/-! ### `_categorize_files` -/

structure Categories (α : Type) where
  filesToCompare : List α
  missingSources : List α
  missingReferences : List α
  discardedFiles : List α
  unsupportedFiles : List α
  discardedOrphanFiles : List α
  deriving Repr

/-- the five categories that produce a suite, in the order in which the suites are appended -/
def Categories.reported {α} (c : Categories α) : List α :=
  c.filesToCompare ++ c.missingSources ++ c.missingReferences ++ c.unsupportedFiles ++ c.discardedFiles

/-- all six categories in one list (for the partition theorem) -/
def Categories.all {α} (c : Categories α) : List α :=
  c.reported ++ c.discardedOrphanFiles

/-- `consider(filename)` -/
def consider {α} (incl excl : α → Bool) (p : α) : Bool := incl p && !excl p

def categorize {α} [DecidableEq α] (resPaths refPaths : List α) (incl excl supported mapped : α → Bool) :
    Categories α :=
  let sr := findMatches resPaths refPaths
  let matches_ := sr.matched
  let filteredMatches := matches_.filter (consider incl excl)
  let missingSources := sr.orphansReference.filter (consider incl excl)
  let missingReferences := sr.orphansSource.filter (consider incl excl)
  let discardedMatches := setDiff matches_ filteredMatches
  let supportedFiles := filteredMatches.filter supported
  let unsupported0 := setDiff filteredMatches supportedFiles
  let mappedUnsupported := unsupported0.filter mapped
  let unsupportedFiles := setDiff unsupported0 mappedUnsupported
  let discardedMissingSources := setDiff sr.orphansReference missingSources
  let discardedMissingReferences := setDiff sr.orphansSource missingReferences
  { filesToCompare := supportedFiles ++ mappedUnsupported
    missingSources := missingSources
    missingReferences := missingReferences
    discardedFiles := discardedMatches
    unsupportedFiles := unsupportedFiles
    discardedOrphanFiles := setUnion discardedMissingSources discardedMissingReferences }

/-! ### suites and exit code -/

/-- `_do_file_comparisons`: one suite per file to compare; an exception becomes an error suite -/
def doFileComparisons {α} (fileOutcome : α → Outcome) (files : List α) : List (Suite α) :=
  files.map (fun p => ⟨p, .compared (fileOutcome p), (fileOutcome p).status⟩)

/-- `_add_skipped_file_comparisons(comparisons, names, reason, treat_as_failure)` -/
def addSkipped {α} (comparisons : List (Suite α)) (names : List α) (reason : Kind) (treatAsFailure : Bool) :
    List (Suite α) :=
  comparisons ++ names.map (fun p => ⟨p, reason, if treatAsFailure then .failed else .skipped⟩)

/-- `_add_unhandled_comparisons` -/
def addUnhandled {α} (flags : Flags) (c : Categories α) (comparisons : List (Suite α)) : List (Suite α) :=
  let s1 := addSkipped comparisons c.missingSources .missingSource (!flags.ignoreMissingSource)
  let s2 := addSkipped s1 c.missingReferences .missingReference (!flags.ignoreMissingReference)
  let s3 := addSkipped s2 c.unsupportedFiles .unsupported false
  addSkipped s3 c.discardedFiles .filtered false

structure Result (α : Type) where
  categories : Categories α
  suites : List (Suite α)        -- what `--junit-xml` lists (one `testsuite` element each)
  discardedOrphanCount : Nat     -- the "N missing source/reference files have been filtered out" count
  exitCode : Nat
  deriving Repr

/-- `_bool_to_exit_code` -/
def boolToExitCode (b : Bool) : Nat := if b then 0 else 1

/-- `_run` of directory mode after the two `isdir` checks -/
def run {α} [DecidableEq α] (resPaths refPaths : List α) (incl excl supported mapped : α → Bool)
    (fileOutcome : α → Outcome) (flags : Flags) : Result α :=
  let c := categorize resPaths refPaths incl excl supported mapped
  let comparisons := doFileComparisons fileOutcome c.filesToCompare
  let suites := addUnhandled flags c comparisons
  { categories := c
    suites := suites
    discardedOrphanCount := c.discardedOrphanFiles.length
    exitCode := boolToExitCode (suites.all (fun s => s.status.toBool)) }

end Fc.DirMode
