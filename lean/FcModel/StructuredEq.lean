/-
  FcModel.StructuredEq — model of the structured mesh classes of
  fieldcompare/mesh/_structured_mesh.py as far as mesh equality is concerned:

    `_StructuredMeshBase.connectivity`, `_cell_type`, `_test_basic_grid_equality`,
    `RectilinearMesh.points / .equals`, `ImageMesh.points / .equals`, `StructuredMesh.equals`,
    the default tolerances, and the dispatch `equals` over all five mesh representations.

  The structured `equals` methods short-cut `mesh_equal` by comparing the *defining parameters*
  with the RECEIVER's tolerances; `toMesh` generates the explicit points / connectivity the
  same objects expose to `mesh_equal`, so that the short-cuts can be stated sound / complete
  against the explicit representation (FcProofs/Props/C16.lean).
-/
import FcModel.MeshEqual
namespace Fc.C16
open Fc Fc.C03

/-! ### index arithmetic of `_StructuredMeshBase` -/

/-- `_locations_in(shape)`: all index tuples, first index running fastest -/
def locations : List Nat → List (List Nat)
  | [] => [[]]
  | n :: rest => (locations rest).flatMap fun t => (List.range n).map fun i => i :: t

/-- `_nonzero_extents` -/
def nonzeroExtents (ext : List Nat) : List Nat := ext.filter (· > 0)

/-- `_dimension` -/
def gridDim (ext : List Nat) : Nat := (nonzeroExtents ext).length

/-- `[a, b, c][dimension - 1]` with Python's negative index for dimension 0 -/
def pickCellType (tbl : List String) (ext : List Nat) : String :=
  let d := gridDim ext
  if d = 0 then tbl.getLast?.getD "" else tbl.getD (d - 1) ""

/-- corner reordering applied when the cell type is quad / hexahedron -/
def reorderRow (ct : String) (row : List Nat) : List Nat :=
  if ct == "QUAD" then Gen.C16.reorderQuadPixel.map (row.getD · 0)
  else if ct == "HEXAHEDRON" then Gen.C16.reorderHexVoxel.map (row.getD · 0)
  else row

/-- `connectivity(cell_type)` for the mesh's own cell type (dimension 1, 2, 3) -/
def structConn (ext : List Nat) (ct : String) : List (List Nat) :=
  let e := nonzeroExtents ext
  match e with
  | [_] => (locations e).map fun t =>
      let p0 := t.getD 0 0
      reorderRow ct [p0, p0 + 1]
  | [a, _] =>
      let o0 := a + 1
      (locations e).map fun t =>
        let p0 := t.getD 0 0 + t.getD 1 0 * o0
        let p2 := p0 + o0
        reorderRow ct [p0, p0 + 1, p2, p2 + 1]
  | [a, b, _] =>
      let o0 := a + 1
      let o1 := (a + 1) * (b + 1)
      (locations e).map fun t =>
        let p0 := t.getD 0 0 + t.getD 1 0 * o0 + t.getD 2 0 * o1
        let p2 := p0 + o0
        let p5 := p0 + o1
        let p7 := p5 + o0
        reorderRow ct [p0, p0 + 1, p2, p2 + 1, p5, p5 + 1, p7, p7 + 1]
  | _ => []     -- dimension 0 (a single point) is outside the model, see `gridOk`

/-- three extents, at least one of them non-zero -/
def gridOk (ext : List Nat) : Bool := ext.length == 3 && gridDim ext != 0

/-- `_test_basic_grid_equality`: extents tuple and dimension -/
def basicGridEq (e1 e2 : List Nat) : Bool := e1 == e2 && gridDim e1 == gridDim e2

/-- a 1-d float64 array -/
def vecArr (l : List Int) : NdArr := ⟨.flt f64, [l.length], l⟩

/-- `FuzzyEquality(rel_tol=rel, abs_tol=abs)(a, b)` is truthy -/
def fuzzyOk (rel abs : Nat) (a b : NdArr) : Bool :=
  fuzzyCheck (.num rel) (.num abs) a b == .ok true

/-! ### RectilinearMesh -/

structure RectGrid where
  ext : List Nat
  /-- the three ordinate arrays as given to the constructor -/
  ords : List (List Int)
  rel : Nat
  abs : Nat
deriving Repr, DecidableEq

/-- `arr if len(arr) > 0 else [0.0]` -/
def fixOrd (l : List Int) : List Int := if l.isEmpty then [0] else l

def RectGrid.ord (g : RectGrid) (d : Nat) : List Int := fixOrd (g.ords.getD d [])

/-- `product(*reversed(ordinates))` with each tuple flipped: x runs fastest -/
def rectPoints (xs ys zs : List Int) : List (List Int) :=
  zs.flatMap fun z => ys.flatMap fun y => xs.map fun x => [x, y, z]

def RectGrid.cellType (g : RectGrid) : String := pickCellType Gen.C16.rectilinearCellTypes g.ext

def RectGrid.toMesh (g : RectGrid) : Mesh :=
  ⟨3, rectPoints (g.ord 0) (g.ord 1) (g.ord 2), [(g.cellType, structConn g.ext g.cellType)]⟩

def RectGrid.view (g : RectGrid) : TMesh := ⟨g.toMesh, g.rel, g.abs⟩

/-- consistent constructor arguments: ordinate counts match the extents direction by direction -/
def RectGrid.ok (g : RectGrid) : Bool :=
  gridOk g.ext && g.ords.length == 3 &&
  (List.range 3).all fun d => (g.ord d).length == g.ext.getD d 0 + 1

/-- the loop over the three directions in `RectilinearMesh.equals` -/
def rectOrdsEqual (a b : RectGrid) : Bool :=
  (List.range 3).all fun d => fuzzyOk a.rel a.abs (vecArr (a.ord d)) (vecArr (b.ord d))

/-- `RectilinearMesh.equals(other)` for a rectilinear `other` -/
def rectEquals (a b : RectGrid) : Verdict :=
  if !basicGridEq a.ext b.ext then .ok false
  else .ok (rectOrdsEqual a b)

/-- default `absolute_tolerance`: largest ordinate magnitude times the default relative tolerance -/
def RectGrid.defaultAbsTol (g : RectGrid) : Option Nat :=
  defaultAbsTolOf (maxAbsList (g.ord 0 ++ g.ord 1 ++ g.ord 2))

/-! ### StructuredMesh -/

structure StructGrid where
  ext : List Nat
  dim : Nat
  points : List (List Int)
  rel : Nat
  abs : Nat
deriving Repr, DecidableEq

def StructGrid.cellType (g : StructGrid) : String := pickCellType Gen.C16.structuredCellTypes g.ext

def StructGrid.toMesh (g : StructGrid) : Mesh :=
  ⟨g.dim, g.points, [(g.cellType, structConn g.ext g.cellType)]⟩

def StructGrid.view (g : StructGrid) : TMesh := ⟨g.toMesh, g.rel, g.abs⟩

def StructGrid.ok (g : StructGrid) : Bool :=
  gridOk g.ext && g.points.length == (g.ext.map (· + 1)).foldl (· * ·) 1 &&
  g.points.all (·.length == g.dim)

/-- `StructuredMesh.equals(other)` for a structured `other` -/
def structEquals (a b : StructGrid) : Verdict :=
  if !basicGridEq a.ext b.ext then .ok false
  else .ok (fuzzyOk a.rel a.abs (pointArr a.toMesh) (pointArr b.toMesh))

/-! ### ImageMesh -/

structure ImageGrid where
  ext : List Nat
  origin : List Int          -- 3 values
  spacing : List Int         -- 3 values
  basis : List (List Int)    -- 3 rows of 3 values
  rel : Nat
  abs : Nat
deriving Repr, DecidableEq

def ImageGrid.ok (g : ImageGrid) : Bool :=
  gridOk g.ext && g.origin.length == 3 && g.spacing.length == 3 &&
  g.basis.length == 3 && g.basis.all (·.length == 3)

/-- every row of the basis has at most one non-zero entry: then `basis.dot(v)` is one rounded
    product per component whatever summation order / fused operations the BLAS kernel uses -/
def ImageGrid.axisBasis (g : ImageGrid) : Bool :=
  g.basis.all fun row => (row.filter (· != 0)).length ≤ 1

def optAdd (a b : Option Int) : Option Int :=
  match a, b with
  | some x, some y => rndInt f64 (x + y) 0
  | _, _ => none

def optMul (a b : Option Int) : Option Int :=
  match a, b with
  | some x, some y => rndInt f64 (x * y) UNIT
  | _, _ => none

/-- `origin + basis.dot(spacing * ituple)` for one index tuple; `none` = overflow -/
def imagePoint (g : ImageGrid) (t : List Nat) : Option (List Int) :=
  let v : List (Option Int) := (List.range 3).map fun d =>
    rndInt f64 (g.spacing.getD d 0 * (t.getD d 0 : Int)) 0
  let comps : List (Option Int) := (List.range 3).map fun r =>
    let row := g.basis.getD r []
    let dot := optAdd (optAdd (optMul (some (row.getD 0 0)) (v.getD 0 none))
                              (optMul (some (row.getD 1 0)) (v.getD 1 none)))
                      (optMul (some (row.getD 2 0)) (v.getD 2 none))
    optAdd (some (g.origin.getD r 0)) dot
  if comps.all Option.isSome then some (comps.map (·.getD 0)) else none

def ImageGrid.points (g : ImageGrid) : Option (List (List Int)) :=
  let ps := (locations (g.ext.map (· + 1))).map (imagePoint g)
  if ps.all Option.isSome then some (ps.map (·.getD [])) else none

def ImageGrid.cellType (g : ImageGrid) : String := pickCellType Gen.C16.imageCellTypes g.ext

def ImageGrid.toMesh (g : ImageGrid) : Option Mesh :=
  g.points.map fun ps => ⟨3, ps, [(g.cellType, structConn g.ext g.cellType)]⟩

def ImageGrid.view (g : ImageGrid) : Option TMesh := g.toMesh.map fun m => ⟨m, g.rel, g.abs⟩

def matArr (rows : List (List Int)) : NdArr := ⟨.flt f64, [3, 3], rows.flatten⟩

/-- `ImageMesh.equals(other)` for an image `other`: origin, spacing and basis compared with the
    receiver's tolerances -/
def imageEquals (a b : ImageGrid) : Verdict :=
  if !basicGridEq a.ext b.ext then .ok false
  else if !fuzzyOk a.rel a.abs (vecArr a.origin) (vecArr b.origin) then .ok false
  else if !fuzzyOk a.rel a.abs (vecArr a.spacing) (vecArr b.spacing) then .ok false
  else .ok (fuzzyOk a.rel a.abs (matArr a.basis) (matArr b.basis))

/-- `max(max(abs(o[d]), abs(o[d] + s[d]*e[d])) for d in range(3)) * 1e-8` -/
def ImageGrid.defaultAbsTol (g : ImageGrid) : Option Nat :=
  let far : List (Option Int) := (List.range 3).map fun d =>
    optAdd (some (g.origin.getD d 0)) (rndInt f64 (g.spacing.getD d 0 * (g.ext.getD d 0 : Int)) 0)
  if far.all Option.isSome then
    defaultAbsTolOf (max (maxAbsList g.origin) (maxAbsList (far.map (·.getD 0))))
  else none

/-! ### `equals` over all representations -/

inductive AnyMesh where
  | explicit (m : TMesh)      -- fieldcompare.mesh.Mesh
  | permuted (m : TMesh)      -- PermutedMesh: the view's points / connectivity / tolerances
  | image (g : ImageGrid)
  | rect (g : RectGrid)
  | struct (g : StructGrid)
deriving Repr

/-- points, connectivity and tolerances as `mesh_equal` reads them off the object -/
def AnyMesh.view : AnyMesh → Option TMesh
  | .explicit m => some m
  | .permuted m => some m
  | .image g => g.view
  | .rect g => some g.view
  | .struct g => some g.view

/-- the tolerances the object reports -/
def AnyMesh.tol : AnyMesh → Nat × Nat
  | .explicit m => (m.rel, m.abs)
  | .permuted m => (m.rel, m.abs)
  | .image g => (g.rel, g.abs)
  | .rect g => (g.rel, g.abs)
  | .struct g => (g.rel, g.abs)

/-- the decidable well-formedness hypothesis under which the model speaks for one object -/
def AnyMesh.ok : AnyMesh → Bool
  | .explicit m => (wfEq m.mesh)
  | .permuted m => (wfEq m.mesh)
  | .rect g => g.ok
  | .struct g => g.ok
  | .image g => g.ok

/-- is the ordered pair answered by a structured short-cut (same structured class)? -/
def shortcut : AnyMesh → AnyMesh → Bool
  | .image _, .image _ => true
  | .rect _, .rect _ => true
  | .struct _, .struct _ => true
  | _, _ => false

def AnyMesh.isPermuted : AnyMesh → Bool
  | .permuted _ => true
  | _ => false

/-- does `a.equals(b)` or `b.equals(a)` evaluate with the receiver's tolerances only
    (structured short-cut, `PermutedMesh.equals`)?  Otherwise both orders use the smaller tolerances. -/
def receiverTol (a b : AnyMesh) : Bool := shortcut a b || a.isPermuted || b.isPermuted

def viaMeshEqual (a b : Option TMesh) : Verdict :=
  match a, b with
  | some x, some y => meshEqual x y
  | _, _ => .err

/-- `a.equals(b)` -/
def equals : AnyMesh → AnyMesh → Verdict
  | .permuted a, b =>
    match b.view with
    | some y => permutedEqual a y
    | none => .err
  | .image a, .image b => imageEquals a b
  | .rect a, .rect b => rectEquals a b
  | .struct a, .struct b => structEquals a b
  | a, b => viaMeshEqual a.view b.view

end Fc.C16
