/-
  FcModel.Meshio — model of the meshio bridge `fieldcompare/mesh/meshio_utils.py`
  (`from_meshio`, `to_meshio`) together with the two constructors it feeds
  (`Mesh.__init__`: `{cell_type: corners for cell_type, corners in connectivity}` — a dict, so a later
  block of an already seen cell type OVERWRITES the earlier one while the key keeps its first position;
  `MeshFields.__init__`: `zip(mesh.cell_types, cell_data[name])` — the i-th DISTINCT type is paired with the
  i-th BLOCK's array, followed by the length check of `_make_cell_values`).

  A meshio mesh is: points, a list of cell blocks (meshio type name, rows), point data (name → array),
  cell data (name → one array per block).
-/
import FcModel.Mesh
import FcGen.Tables
namespace Fc.C07

structure MioMesh where
  dim : Nat
  points : List (List Int)
  blocks : List (String × List (List Nat))
  pointData : List (String × NdArr)
  cellData : List (String × List NdArr)
deriving Repr, DecidableEq

/-- `vtk_cell_type_index_to_cell_type(meshio_to_vtk_type[name])` restricted to the first-order types
    (meshio's table is outside the verified source tree: an assumption, compared with meshio's
    dictionaries at run time by the harness) -/
def mioTypeTable : List (String × String) :=
  [("vertex", "VERTEX"), ("line", "LINE"), ("triangle", "TRIANGLE"), ("polygon", "POLYGON"),
   ("pixel", "PIXEL"), ("quad", "QUAD"), ("tetra", "TETRA"), ("hexahedron", "HEXAHEDRON"),
   ("wedge", "WEDGE"), ("pyramid", "PYRAMID")]

/-- `_from_meshio_cell_type`; `none` = KeyError -/
def fromMioType (t : String) : Option String := (mioTypeTable.find? (·.1 == t)).map (·.2)

/-- `vtk_to_meshio_type[cell_type_to_vtk_cell_type_index(ct)]`; `none` = KeyError -/
def toMioType (t : String) : Option String := (mioTypeTable.find? (·.2 == t)).map (·.1)

/-! ### Python dict semantics -/

/-- `d[k] = v`: an existing key keeps its position and gets the new value -/
def dictInsert {β : Type} (d : List (String × β)) (k : String) (v : β) : List (String × β) :=
  if d.any (·.1 == k) then d.map (fun e => if e.1 == k then (k, v) else e) else d ++ [(k, v)]

/-- `{k: v for k, v in l}` -/
def dictOfList {β : Type} (l : List (String × β)) : List (String × β) :=
  l.foldl (fun d e => dictInsert d e.1 e.2) []

/-! ### from_meshio -/

/-- the cell fields `MeshFields.__init__` builds from `cell_data` (`zip(mesh.cell_types, cell_data[name])`):
    the i-th distinct type gets the i-th array of every name (`i` counted from `k`) -/
def mioCellFieldsFrom (cellData : List (String × List NdArr)) : Nat → List String → List CellField
  | _, [] => []
  | i, ct :: rest =>
    cellData.filterMap (fun na => na.2[i]?.map fun a => CellField.mk na.1 ct a) ++
      mioCellFieldsFrom cellData (i + 1) rest

def mioCellFields (types : List String) (cellData : List (String × List NdArr)) : List CellField :=
  mioCellFieldsFrom cellData 0 types

/-- `from_meshio`; `none` = an exception is raised (unknown type, length checks of `MeshFields`) -/
def fromMeshio (m : MioMesh) : Option MeshFields :=
  match m.blocks.mapM (fun b => (fromMioType b.1).map fun t => (t, b.2)) with
  | none => none
  | some tb =>
    let mesh : Mesh := ⟨m.dim, m.points, dictOfList tb⟩
    let pfs := m.pointData.map fun (n, a) => PointField.mk n a
    let cfs := mioCellFields mesh.cellTypes m.cellData
    if pfs.any (fun pf => pf.values.shape.head? != some mesh.numPoints) then none
    else if cfs.any (fun cf => cf.values.shape.head? != some (mesh.cellsOf cf.ctype).length) then none
    else some ⟨mesh, pfs, cfs⟩

def hasDup : List String → Bool
  | [] => false
  | a :: r => r.contains a || hasDup r

/-- the fieldcompare cell types of the blocks, in block order (unknown meshio names map to "") -/
def MioMesh.blockTypes (m : MioMesh) : List String := m.blocks.map fun b => (fromMioType b.1).getD ""

/-- class predicate of finding F9: some cell type occurs in more than one block -/
def MioMesh.repeatedType (m : MioMesh) : Bool := hasDup m.blockTypes

/-- well-formed meshio mesh (what meshio's own constructor guarantees) -/
def MioMesh.wf (m : MioMesh) : Bool :=
  m.blocks.all (fun b => (fromMioType b.1).isSome) &&
  m.pointData.all (fun pd => pd.2.shape.head? == some m.points.length) &&
  m.cellData.all (fun cd => cd.2.length == m.blocks.length &&
    (cd.2.zip m.blocks).all fun (a, b) => a.shape.head? == some b.2.length)

/-! ### to_meshio -/

/-- `_to_meshio_cell_type_and_ordering` -/
def toMioBlock (ct : String) (rows : List (List Nat)) : Option (String × List (List Nat)) :=
  let reord (idx : List Nat) (rows : List (List Nat)) : Option (List (List Nat)) :=
    rows.mapM fun row => idx.mapM fun i => row[i]?
  if ct = "PIXEL" then (reord Gen.c07ReorderQuadPixel rows).bind fun r => (toMioType "QUAD").map (·, r)
  else if ct = "VOXEL" then (reord Gen.c07ReorderHexVoxel rows).bind fun r => (toMioType "HEXAHEDRON").map (·, r)
  else (toMioType ct).map (·, rows)

def dedupStr : List String → List String
  | [] => []
  | a :: r => a :: (dedupStr r).filter (· != a)

/-- `to_meshio`; `none` = raises (unknown type; meshio's constructor rejects cell data whose number of
    blocks differs from the number of cell blocks, which happens when two types collapse to one meshio
    type and the `cells` dict overwrites) -/
def toMeshio (f : MeshFields) : Option MioMesh :=
  let types := f.mesh.cellTypes
  match f.mesh.cells.mapM (fun b => toMioBlock b.1 b.2) with
  | none => none
  | some bl =>
    let cells := dictOfList bl
    let names := dedupStr (f.cellFields.map (·.name))
    let cd := names.map fun n => (n, types.map fun ct =>
      match f.cellFields.find? (fun cf => cf.name == n && cf.ctype == ct) with
      | some cf => cf.values
      | none => ⟨.flt f64, [0], []⟩)
    if !cd.isEmpty && cells.length != types.length then none
    else some ⟨f.mesh.dim, f.mesh.points, cells, f.pointFields.map (fun pf => (pf.name, pf.values)), cd⟩

end Fc.C07
