/-
  FcModel.Ladder — model of fieldcompare/mesh/_mesh_fields_comparator.py: the retry ladder of
  `MeshFieldsComparator.__call__` as a state machine over (source view, reference view):

      rung 0  as is
      rung 1  space dimensions matched (only if they differ and not disabled)
      rung 2  orphan points stripped (unless disabled) + points sorted     (unless reordering disabled)
      rung 3  cells sorted

  together with the parts it calls: `FieldDataComparator` (domain check first; fields are compared
  only when the domains are equal; name matching first-match-removal), a plain inline model of
  `mesh_equal` (points by `FuzzyEquality`, cell-type sets up to pixel~quad / voxel~hexahedron,
  per type the same number of cells and row-wise equal *sorted* corner lists) and of
  `extend_space_dimension_to` (zero padding).  Field values are compared by `DefaultEquality()`
  (= `defaultCheck .dflt (.num 0)` of FcModel/Predicates.lean).

  Core Lean only (linked into `fcdrv`).
-/
import FcModel.SortPoints
namespace Fc.C02

/-! ### mesh_equal -/

def pointsArr (m : Mesh) : NdArr := ⟨.flt f64, [m.points.length, m.dim], m.points.flatten⟩

def compatibleTypes (a b : String) : Bool :=
  a == b || (a == "QUAD" && b == "PIXEL") || (a == "PIXEL" && b == "QUAD") ||
  (a == "HEXAHEDRON" && b == "VOXEL") || (a == "VOXEL" && b == "HEXAHEDRON")

/-- `_without_compatibles(source_only, target_only)` is non-empty -/
def typeSetsDiffer (s t : List String) : Bool :=
  let so := s.filter fun x => !t.contains x
  let to := t.filter fun x => !s.contains x
  (so.any fun c => !to.any fun d => compatibleTypes c d) ||
  (to.any fun d => !so.any fun c => compatibleTypes c d)

/-- `mesh_equal(source, target, rel_tol, abs_tol)` -/
def meshEqual (t : MeshTol) (s r : Mesh) : Bool :=
  fuzzyCheck (.num t.rtol) (.num t.atol) (pointsArr s) (pointsArr r) == .ok true &&
  !typeSetsDiffer s.cellTypes r.cellTypes &&
  s.cells.all fun b =>
    let tct := if r.cellTypes.contains b.1 then some b.1
               else r.cellTypes.find? fun d => compatibleTypes d b.1
    match tct with
    | none => false          -- the code raises RuntimeError; unreachable when the sets agree
    | some ct =>
      let rows := r.cellsOf ct
      b.2.length == rows.length && b.2.map sortNat == rows.map sortNat

/-! ### field comparison -/

inductive FStatus where
  | passed | failed | error | missingSource | missingReference
deriving Repr, DecidableEq

def FStatus.show : FStatus → String
  | .passed => "passed" | .failed => "failed" | .error => "error"
  | .missingSource => "missing_source" | .missingReference => "missing_reference"

/-- a field as the comparator sees it: annotated name (`name`, cell type or "" for point data) -/
structure NamedArr where
  name : String
  ctype : String
  values : NdArr
deriving Repr, DecidableEq

/-- iteration order of `MeshFields.__iter__`: point fields, then cell fields type by type -/
def namedFields (f : MeshFields) : List NamedArr :=
  f.pointFields.map (fun pf => ⟨pf.name, "", pf.values⟩) ++
  f.mesh.cellTypes.flatMap fun ct =>
    (f.cellFields.filter (·.ctype == ct)).map fun cf => ⟨cf.name, ct, cf.values⟩

def statusOf (v : Verdict) : FStatus :=
  match v with
  | .ok true => .passed
  | .ok false => .failed
  | .err => .error

/-- `find_matches_by_name` + `_compare_matches` + the two kinds of orphans -/
def compareNamed : List NamedArr → List NamedArr → List (String × String × FStatus)
  | [], refs => refs.map fun r => (r.name, r.ctype, .missingSource)
  | s :: ss, refs =>
    match refs.find? fun r => r.name == s.name && r.ctype == s.ctype with
    | some r =>
      (s.name, s.ctype, statusOf (defaultCheck .dflt (.num 0) s.values r.values)) ::
        compareNamed ss (refs.erase r)
    | none => (s.name, s.ctype, .missingReference) :: compareNamed ss refs

structure Outcome where
  domainEq : Bool
  statuses : List (String × String × FStatus)
deriving Repr, DecidableEq

/-- one side of the comparison: the (materialised) view, the tolerances of the underlying mesh,
    and whether the domain object is a `PermutedMesh` (its `equals` uses its own tolerances,
    a plain `Mesh` uses the minimum of both sides) -/
structure Side where
  f : MeshFields
  tol : MeshTol
  permuted : Bool
deriving Repr

/-- `FieldDataComparator.__call__` -/
def runComparison (src ref : Side) : Outcome :=
  let t : MeshTol := if src.permuted then src.tol
    else ⟨min src.tol.atol ref.tol.atol, min src.tol.rtol ref.tol.rtol⟩
  if meshEqual t src.f.mesh ref.f.mesh then ⟨true, compareNamed (namedFields src.f) (namedFields ref.f)⟩
  else ⟨false, []⟩

/-! ### extend_space_dimension_to -/

/-- zero-pad the rows of a 2-d array from `k` to `d` columns -/
def padRows (rows : List (List Int)) (d : Nat) : List (List Int) :=
  rows.map fun r => r ++ List.replicate (d - r.length) 0

/-- a field array: scalars stay, vectors of length `md` are padded to `d`, tensors `md×md` to
    `d×d`; `none` = the code raises (unsupported shape / broadcasting error) -/
def extendArr (md d : Nat) (a : NdArr) : Option NdArr :=
  match a.shape with
  | [_] => some a
  | [n, k] =>
    if k == 1 then some a
    else if k < d then
      if k == md then some { a with shape := [n, d], data := (padRows (List.range n |>.map a.row) d).flatten }
      else none
    else some a
  | [n, k1, k2] =>
    if k1 < d && k2 < d then
      if k1 == md && k2 == md then
        let rows := (List.range n).map fun i =>
          let r := a.row i
          ((List.range d).map fun p => (List.range d).map fun q =>
            if p < md && q < md then r.getD (p * md + q) 0 else 0).flatten
        some { a with shape := [n, d, d], data := rows.flatten }
      else none
    else some a
  | _ => none

/-- `extend_space_dimension_to(d, fields)`; `none` = raises -/
def extendDim (d : Nat) (f : MeshFields) : Option MeshFields :=
  let md := f.mesh.dim
  if d == md then some f
  else if d < md then none
  else do
    let pfs ← f.pointFields.mapM fun pf => (extendArr md d pf.values).map fun v => { pf with values := v }
    let cfs ← f.cellFields.mapM fun cf => (extendArr md d cf.values).map fun v => { cf with values := v }
    pure { mesh := { f.mesh with dim := d, points := padRows f.mesh.points d }, pointFields := pfs, cellFields := cfs }

/-! ### the ladder -/

structure LadderFlags where
  noReorder : Bool := false        -- disable_mesh_reordering
  noOrphanRemoval : Bool := false  -- disable_orphan_point_removal
  noDimMatch : Bool := false       -- disable_space_dimension_matching
deriving Repr, DecidableEq

inductive LadderRes where
  | done (rung : Nat) (o : Outcome)
  | raised                              -- an exception leaves the comparator
deriving Repr, DecidableEq

/-- `_permute`: strip (unless disabled) and sort the points -/
def permuteSide (as : List Int → List Nat) (fl : LadderFlags) (s : Side) : Option Side :=
  let f1 := if fl.noOrphanRemoval then s.f else stripOrphans as s.f
  (sortPoints as s.tol f1).map fun f2 => { s with f := f2, permuted := true }

/-- rungs 2 and 3 (`elif not self._disable_mesh_reordering:`); `last` = the suite so far.
    The two sides may use different argsort routines (`asS`, `asR`). -/
def ladderReorder (asS asR : List Int → List Nat) (h : List Nat → Int) (fl : LadderFlags)
    (src ref : Side) (lastRung : Nat) (last : Outcome) : LadderRes :=
  if fl.noReorder then .done lastRung last else
  match permuteSide asS fl src, permuteSide asR fl ref with
  | some s2, some r2 =>
    let o2 := runComparison s2 r2
    if o2.domainEq then .done 2 o2 else
    let s3 := { s2 with f := sortCells asS h s2.f }
    let r3 := { r2 with f := sortCells asR h r2.f }
    .done 3 (runComparison s3 r3)
  | _, _ => .raised

/-- `MeshFieldsComparator(source, reference, flags)()` -/
def ladder (asS asR : List Int → List Nat) (h : List Nat → Int) (fl : LadderFlags)
    (srcF refF : MeshFields) : LadderRes :=
  let src : Side := ⟨srcF, meshTolOf srcF.mesh, false⟩
  let ref : Side := ⟨refF, meshTolOf refF.mesh, false⟩
  let o0 := runComparison src ref
  if o0.domainEq then .done 0 o0 else
  if src.f.mesh.dim ≠ ref.f.mesh.dim && !fl.noDimMatch then
    let d := max src.f.mesh.dim ref.f.mesh.dim
    match extendDim d src.f, extendDim d ref.f with
    | some sf, some rf =>
      let s1 := { src with f := sf }
      let r1 := { ref with f := rf }
      let o1 := runComparison s1 r1
      if o1.domainEq then .done 1 o1 else ladderReorder asS asR h fl s1 r1 1 o1
    | _, _ => .raised
  else ladderReorder asS asR h fl src ref 0 o0

end Fc.C02
