/-
  FcModel.Compare — `fieldcompare/_field_data_comparison.py`: FieldDataComparator.__call__,
  _filter_matches, _compare_matches, the missing/filtered entries and FieldComparisonSuite
  (constructor buckets, __bool__, __iter__) as pure list functions.

  External facts enter as parameters:
    strip  : name → name          `_format.remove_annotation` (names are ids; the harness computes the table)
    incl / excl : name → Bool     truth tables of the two filters (evaluated on stripped names)
    domainEq : Bool               bool(source.domain.equals(reference.domain))
    pred : Fld → Fld → Outcome    what selecting + evaluating the predicate on this pair does
  Not modelled: exceptions escaping from the selector or the callback (they propagate out of
  `__call__` in the code; the model assumes total selectors/callbacks), report texts, cpu times.
-/
import FcModel.Matching
import FcGen.Tables
namespace Fc

abbrev FStatus := Gen.FieldComparisonStatus

/-- `FieldComparisonStatus.__bool__`: `self not in [<falsy list>]` (list regenerated from the source) -/
def FStatus.truthy (s : FStatus) : Bool := !(Gen.FieldComparisonStatus.falsy.contains s)

/-- result of selecting and evaluating the predicate on one pair of fields -/
inductive Outcome where
  | pass | fail | raise
  deriving DecidableEq, Repr, Inhabited

/-- a field: its (annotated) name as an id, and a tag identifying the object (position) -/
structure Fld where
  name : Nat
  tag : Nat
  deriving DecidableEq, Repr

/-- a `FieldComparison` reduced to what the property talks about -/
structure Cmp where
  name : Nat
  status : FStatus
  deriving DecidableEq, Repr

/-- `FieldComparison.__bool__` = `not is_failure` = `not (not status)` -/
def Cmp.truthy (c : Cmp) : Bool := c.status.truthy

inductive Bucket where
  | passed | failed | skipped
  deriving DecidableEq, Repr

/-- the three-way `if c.status == passed / elif not c / else` of `FieldComparisonSuite.__init__` -/
def bucketOf (c : Cmp) : Bucket :=
  if c.status = Gen.suitePassedBucket then .passed
  else if !c.truthy then .failed
  else .skipped

structure Suite where
  domainEq : Bool
  passed : List Cmp
  failed : List Cmp
  skipped : List Cmp
  deriving Repr

/-- constructor loop: every comparison is appended to exactly one of the three lists, in order -/
def mkSuite (d : Bool) (cs : List Cmp) : Suite :=
  ⟨d, cs.filter (fun c => bucketOf c = .passed), cs.filter (fun c => bucketOf c = .failed),
      cs.filter (fun c => bucketOf c = .skipped)⟩

/-- `FieldComparisonSuite.__bool__`: `if not domain_eq_check: return False; return not len(failed)` -/
def Suite.bool (s : Suite) : Bool := if !s.domainEq then false else s.failed.length == 0

/-- `FieldComparisonSuite.__iter__`: `chain(failed, passed, skipped)` -/
def Suite.iter (s : Suite) : List Cmp := s.failed ++ s.passed ++ s.skipped

/-- filter decision of `_filter_matches`: `if not is_included or is_excluded: filtered` -/
def selectedName (strip : Nat → Nat) (incl excl : Nat → Bool) (n : Nat) : Bool :=
  !(!incl (strip n) || excl (strip n))

/-- `_filter_matches`: (remaining matches, filtered source fields), both in match order -/
def filterMatches (sel : Nat → Bool) (ms : List (Fld × Fld)) : List (Fld × Fld) × List Fld :=
  (ms.filter (fun p => sel p.1.name), (ms.filter (fun p => !sel p.1.name)).map Prod.fst)

def outcomeStatus : Outcome → FStatus
  | .pass => .passed
  | .fail => .failed
  | .raise => .error

/-- `_compare_matches`: one comparison per remaining match, named after the source field -/
def compareMatches (pred : Fld → Fld → Outcome) (ms : List (Fld × Fld)) : List Cmp :=
  ms.map (fun p => ⟨p.1.name, outcomeStatus (pred p.1 p.2)⟩)

structure CallResult where
  suite : Suite
  /-- arguments of the callback invocations, in order -/
  callbacks : List Cmp
  /-- (source tag, reference tag) of the predicate-selector invocations, in order -/
  selector : List (Nat × Nat)
  deriving Repr

def nameEq (a b : Fld) : Bool := a.name == b.name

/-- the list `comparisons` handed to the suite constructor -/
def comparisons (sel : Nat → Bool) (pred : Fld → Fld → Outcome) (src ref : List Fld) : List Cmp :=
  let q := findMatches nameEq src ref
  let fm := filterMatches sel q.pairs
  compareMatches pred fm.1
    ++ q.orphansRef.map (fun f => ⟨f.name, .missing_source⟩)
    ++ q.orphansSrc.map (fun f => ⟨f.name, .missing_reference⟩)
    ++ fm.2.map (fun f => ⟨f.name, .filtered⟩)

/-- `FieldDataComparator.__call__` -/
def comparatorCall (sel : Nat → Bool) (domainEq : Bool) (pred : Fld → Fld → Outcome)
    (src ref : List Fld) : CallResult :=
  if !domainEq then ⟨mkSuite false [], [], []⟩
  else
    let q := findMatches nameEq src ref
    let fm := filterMatches sel q.pairs
    ⟨mkSuite true (comparisons sel pred src ref), compareMatches pred fm.1,
     fm.1.map (fun p => (p.1.tag, p.2.tag))⟩

end Fc
