/-
  FcModel.StructuredMerge — flat-index arithmetic of `StructuredFieldMerger`
  (mesh/_structured_mesh.py:335-452) and `_PVTKReader._get_structured_decomposition`
  (io/vtk/_pvtk_readers.py:150-175).

  A decomposition is `List (List Nat)`: per meshed direction the number of cells of each piece along
  that direction.  Tuples (piece locations, entity index tuples) are `List Nat`, first direction
  first.  Field values are rows of an arbitrary type `α` (the merger never looks inside a row);
  the dtype of the merged array is the dtype of the first piece visited (defect F4 is fixed).
-/
import FcModel.Mesh
import FcModel.Merge
namespace Fc.C06

/-- `_locations_in(shape)`: all index tuples below `shape`, the FIRST index running fastest -/
def locationsIn : List Nat → List (List Nat)
  | [] => [[]]
  | n :: rest => (locationsIn rest).flatMap fun t => (List.range n).map fun i => i :: t

def sumList (l : List Nat) : Nat := l.foldr (· + ·) 0
def prodShape (l : List Nat) : Nat := l.foldr (· * ·) 1

def piecesShape (d : List (List Nat)) : List Nat := d.map List.length
def mergedCellShape (d : List (List Nat)) : List Nat := d.map sumList
def mergedPointShape (d : List (List Nat)) : List Nat := d.map fun ns => sumList ns + 1

/-- `_piece_shape(location)` (cells) -/
def pieceShape : List (List Nat) → List Nat → List Nat
  | ns :: d, b :: loc => ns.getD b 0 :: pieceShape d loc
  | _, _ => []

/-- `_compute_piece_index_offsets(location)`: cells of the pieces below, per direction -/
def pieceOffsets : List (List Nat) → List Nat → List Nat
  | ns :: d, b :: loc => sumList (ns.take b) :: pieceOffsets d loc
  | _, _ => []

/-- `sum(with_offset[i] * merged_index_multipliers[i])` with multipliers `1, s0, s0*s1, …`;
    `mult` = multiplier of the head direction -/
def flatIndexGo : List Nat → List Nat → List Nat → Nat → Nat
  | s :: shape, o :: off, i :: it, mult => (i + o) * mult + flatIndexGo shape off it (mult * s)
  | _, _, _, _ => 0

def flatIndex (mergedShape off it : List Nat) : Nat := flatIndexGo mergedShape off it 1

/-- shape of the entity block of a piece: cells, or cells + 1 for points -/
def entityShape (isPoint : Bool) (cellShape : List Nat) : List Nat :=
  if isPoint then cellShape.map (· + 1) else cellShape

def mergedShape (isPoint : Bool) (d : List (List Nat)) : List Nat :=
  if isPoint then mergedPointShape d else mergedCellShape d

/-- `_piece_entity_indices(location, piece_shape, merged_shape)` -/
def pieceEntityIndices (isPoint : Bool) (d : List (List Nat)) (loc : List Nat) : List Nat :=
  (locationsIn (entityShape isPoint (pieceShape d loc))).map
    (flatIndex (mergedShape isPoint d) (pieceOffsets d loc))

/-- `merged[indices] = values` (fancy-index assignment; later writes win) -/
def scatter {α} (acc : List α) (idx : List Nat) (vals : List α) : List α :=
  (idx.zip vals).foldl (fun a iv => a.set iv.1 iv.2) acc

/-- `StructuredFieldMerger._merge(field_callback, is_point_field)` on rows -/
def mergeStructured {α} (isPoint : Bool) (d : List (List Nat)) (cb : List Nat → List α) (zero : α) : List α :=
  (locationsIn (piecesShape d)).foldl
    (fun acc loc => scatter acc (pieceEntityIndices isPoint d loc) (cb loc))
    (List.replicate (prodShape (mergedShape isPoint d)) zero)

/-- the assertion `reduce(mul, piece_shape) == field_values.shape[0]` for every piece -/
def mergeStructuredHyp {α} (isPoint : Bool) (d : List (List Nat)) (cb : List Nat → List α) : Bool :=
  1 ≤ d.length && d.length ≤ 3 && d.all (fun ns => !ns.isEmpty) &&
  (locationsIn (piecesShape d)).all fun loc =>
    (cb loc).length == prodShape (entityShape isPoint (pieceShape d loc))

/-! ### `_get_structured_decomposition` -/

def insertSortedDistinct (x : Int) : List Int → List Int
  | [] => [x]
  | y :: r => if x < y then x :: y :: r else if x = y then y :: r else y :: insertSortedDistinct x r

/-- `list(numpy.unique(column))`: sorted distinct values -/
def uniqueSorted (l : List Int) : List Int := l.foldr insertSortedDistinct []

structure StructuredDecomposition where
  /-- `sizes_along_axis` for the three VTK directions -/
  cellsPerAxis : List (List Int)
  /-- per piece (in listing order) its location tuple over the meshed directions -/
  pieceLocations : List (List Nat)
deriving Repr, DecidableEq

/-- `sizes[0] > 0` (`false` for an empty list, where the code would raise) -/
def headPositive (l : List Int) : Bool :=
  match l.head? with
  | some n => decide (0 < n)
  | none => false

def StructuredDecomposition.isMeshed (sd : StructuredDecomposition) (dir : Nat) : Bool :=
  headPositive (sd.cellsPerAxis.getD dir [])

def StructuredDecomposition.meshedDimensions (sd : StructuredDecomposition) : List Nat :=
  (List.range 3).filter sd.isMeshed

/-- `domain_id(location)` = `order[location]`: the LAST listed piece sitting at `location`
    (`order` is zero-initialised, so a location nobody claims answers 0) -/
def StructuredDecomposition.domainId (sd : StructuredDecomposition) (loc : List Nat) : Nat :=
  match ((List.range sd.pieceLocations.length).filter fun i => sd.pieceLocations.getD i [] == loc).getLast? with
  | some i => i
  | none => 0

/-- decomposition handed to `StructuredFieldMerger` -/
def StructuredDecomposition.mergerDecomposition (sd : StructuredDecomposition) : List (List Nat) :=
  sd.meshedDimensions.map fun dir => (sd.cellsPerAxis.getD dir []).map Int.toNat

def StructuredDecomposition.mergedExtents (sd : StructuredDecomposition) : List Int :=
  sd.cellsPerAxis.map fun l => l.foldr (· + ·) 0

/-- `_get_structured_decomposition` from the pieces' `Extent` attributes
    (`[b0, e0, b1, e1, b2, e2]` each, in listing order) -/
def structuredDecomposition (extents : List (List Int)) : StructuredDecomposition :=
  let begins := fun (dir : Nat) => extents.map fun e => e.getD (2 * dir) 0
  let ends := fun (dir : Nat) => extents.map fun e => e.getD (2 * dir + 1) 0
  let ub := (List.range 3).map fun dir => uniqueSorted (begins dir)
  let ue := (List.range 3).map fun dir => uniqueSorted (ends dir)
  let sizes := (List.range 3).map fun dir =>
    List.zipWith (fun e b => e - b) (ue.getD dir []) (ub.getD dir [])
  let has := fun (dir : Nat) => headPositive (sizes.getD dir [])
  let locs := extents.map fun e =>
    ((List.range 3).filter has).map fun dir => (ub.getD dir []).idxOf (e.getD (2 * dir) 0)
  ⟨sizes, locs⟩

/-- `_merge_point_fields` / `_merge_cell_fields` of the parallel reader for one field:
    `pieceValues` = rows of every piece in listing order -/
def pvtkMergeField {α} (isPoint : Bool) (extents : List (List Int)) (pieceValues : List (List α)) (zero : α) :
    List α :=
  let sd := structuredDecomposition extents
  mergeStructured isPoint sd.mergerDecomposition (fun loc => pieceValues.getD (sd.domainId loc) []) zero

/-! ### `PVTRReader._make_structured_mesh`: assembling the ordinates (findings F16, F17 — fixed — lived here) -/

/-- numpy `a[off : off + len(po)] = po`: the slice is clipped to `a`; a one-element right-hand side
    broadcasts, any other length must match the clipped slice exactly (`none` = ValueError) -/
def sliceAssign (a : List Int) (off : Nat) (po : List Int) : Option (List Int) :=
  let stop := min (off + po.length) a.length
  let start := min off a.length
  if po.length = 1 then
    some (a.take start ++ List.replicate (stop - start) (po.getD 0 0) ++ a.drop stop)
  else if stop - start = po.length then some (a.take start ++ po ++ a.drop stop)
  else none

/-- the inner loop over the pieces along one direction: `consulted` = ordinates of the piece
    consulted for position 0, 1, … ; `index_offset += num_ordinates - 1` -/
def assembleLineGo : List Int → Nat → List (List Int) → Option (List Int)
  | line, _, [] => some line
  | line, off, po :: r =>
    match sliceAssign line off po with
    | some l => assembleLineGo l (off + po.length - 1) r
    | none => none

def assembleLine (init : List Int) (consulted : List (List Int)) : Option (List Int) :=
  assembleLineGo init 0 consulted

def StructuredDecomposition.orderShape (sd : StructuredDecomposition) : List Nat :=
  sd.meshedDimensions.map fun dir => (sd.cellsPerAxis.getD dir []).length

/-- `order[location]` with numpy bounds checking (`none` = IndexError) -/
def StructuredDecomposition.domainIdChecked (sd : StructuredDecomposition) (loc : List Nat) : Option Nat :=
  if loc.length = sd.orderShape.length ∧ (List.zipWith (fun i n => decide (i < n)) loc sd.orderShape).all id
  then some (sd.domainId loc) else none

/-- `domain_location = tuple(i if k == position else 0 for k in range(decomposition.dimension()))`:
    piece locations are indexed by the POSITION among the meshed directions (fix 444374c of F16) -/
def pvtrDomainLocation (sd : StructuredDecomposition) (pos i : Nat) : List Nat :=
  (List.range sd.meshedDimensions.length).map fun k => if k = pos then i else 0

/-- ordinates of the merged rectilinear grid along VTK direction `dir`; `pieceOrds[piece][direction]`.
    Flat direction: `ordinates[dir][:] = first_reader.ordinates(dir)[:1]` (fix 444374c of F17; an empty
    right-hand side cannot be broadcast: `none`).  Meshed direction at position `pos` among the meshed
    ones: the pieces at locations `(0,…,i,…,0)` are consulted and their ordinates written one after the
    other, neighbouring pieces sharing one ordinate. -/
def pvtrLine (sd : StructuredDecomposition) (pieceOrds : List (List (List Int))) (dir : Nat) :
    Option (List Int) :=
  let len := (sd.mergedExtents.getD dir 0).toNat + 1
  if sd.isMeshed dir then do
    let pos := sd.meshedDimensions.idxOf dir
    let n := (sd.cellsPerAxis.getD dir []).length
    let consulted ← (List.range n).mapM fun i => do
      let id ← sd.domainIdChecked (pvtrDomainLocation sd pos i)
      pure ((pieceOrds.getD id []).getD dir [])
    assembleLine (List.replicate len 0) consulted
  else
    match ((pieceOrds.getD 0 []).getD dir []).take 1 with
    | [x] => some (List.replicate len x)
    | _ => none

/-- `PVTRReader._make_structured_mesh`: the three ordinate arrays (`none` = the reader raises) -/
def pvtrOrdinates (sd : StructuredDecomposition) (pieceOrds : List (List (List Int))) : Option (List (List Int)) :=
  (List.range 3).mapM (pvtrLine sd pieceOrds)

/-- ordinates carried by the pieces of one axis of a grid with ordinates `W`, cut into `ns` cells:
    piece `b` holds `W[off_b … off_b + ns[b]]` (both end points) -/
def axisPieces (W : List Int) : Nat → List Nat → List (List Int)
  | _, [] => []
  | off, n :: r => (W.drop off).take (n + 1) :: axisPieces W (off + n) r

/-! ### `_make_structured_mesh` of `PVTIReader` (image grids) and `PVTSReader` (structured grids) -/

/-- an image grid as `ImageMesh` holds it: cells per direction, origin, spacing (unit counts), basis rows -/
structure ImageGrid where
  extents : List Int
  origin : List Int
  spacing : List Int
  basis : List (List Int)
deriving Repr, DecidableEq

/-- exact product of two unit counts, in units (`U` fractional bits; floor if not a whole number of units) -/
def mulUnits (U : Nat) (a b : Int) : Int := (a * b) / (2 : Int) ^ U

def dotUnits (U : Nat) : List Int → List Int → Int
  | a :: as, b :: bs => mulUnits U a b + dotUnits U as bs
  | _, _ => 0

/-- `origin + basis.dot(spacing * lower)` for integer `lower`, evaluated exactly (the same formula as
    `Fc.C07.imagePointZ`; the floating evaluation agrees whenever `imageShiftExact` holds and the
    result is representable) -/
def imageShift (U : Nat) (origin : List Int) (basis : List (List Int)) (spacing lower : List Int) : List Int :=
  let v := List.zipWith (· * ·) spacing lower
  List.zipWith (fun o row => o + dotUnits U row v) origin basis

/-- every product `B_rc · (spacing_c · lower_c)` is a whole number of units -/
def imageShiftExact (U : Nat) (basis : List (List Int)) (spacing lower : List Int) : Bool :=
  let v := List.zipWith (· * ·) spacing lower
  basis.all fun row => (List.zipWith (fun a b => (a * b) % (2 : Int) ^ U == 0) row v).all id

/-- `VTIReader._make_mesh` (since fix a3961d2) for a file with `Extent` = `extent` and the attributes
    `Origin`, `Spacing`, `Direction`: cells per direction from the extent, the origin shifted to the
    point with the lowest structured index of the file -/
def vtiMesh (U : Nat) (extent origin spacing : List Int) (basis : List (List Int)) : ImageGrid :=
  ⟨(List.range 3).map fun i => extent.getD (2 * i + 1) 0 - extent.getD (2 * i) 0,
   imageShift U origin basis spacing ((List.range 3).map fun i => extent.getD (2 * i) 0), spacing, basis⟩

/-- Python `min(…)` (`none` = `min()` of an empty sequence raises) -/
def listMin : List Int → Option Int
  | [] => none
  | x :: r => some (r.foldl min x)

/-- `min(e[2 * i] for e in piece_extents)` -/
def minLower (extents : List (List Int)) (i : Nat) : Option Int :=
  listMin (extents.map fun e => e.getD (2 * i) 0)

/-- `PVTIReader._make_structured_mesh` (since fix 110e1da): extents from the decomposition; origin,
    spacing and basis of the FIRST listed piece, the origin shifted by the lowest structured index of
    all pieces -/
def pvtiMesh (U : Nat) (sd : StructuredDecomposition) (extents : List (List Int))
    (origin spacing : List Int) (basis : List (List Int)) : Option ImageGrid := do
  let lower ← (List.range 3).mapM (minLower extents)
  pure ⟨sd.mergedExtents, imageShift U origin basis spacing lower, spacing, basis⟩

/-- `PVTSReader._make_structured_mesh`: the pieces' points are merged like a point field
    (`merger.merge_point_fields(lambda loc: piece_points[decomposition.domain_id(loc)])`) -/
def pvtsPoints (extents : List (List Int)) (piecePoints : List (List (List Int))) : List (List Int) :=
  pvtkMergeField true extents piecePoints [0, 0, 0]

/-! ### `_merge_structured`: the whole read of a structured parallel file

  Arrays carry their dtype: the merged array is allocated with the dtype and entry shape of the
  first piece the merger visits (fix a882a8e of finding F4). -/

/-- rows of an array along axis 0 -/
def arrRows (a : NdArr) : List (List Int) := (List.range (a.shape.headD 0)).map a.row

/-- `StructuredFieldMerger._merge` on arrays (`mergeStructured` on their rows; values of a piece whose
    dtype differs from the first piece's would be cast by numpy: not modelled, outside the hypothesis) -/
def mergeStructuredArr (isPoint : Bool) (d : List (List Nat)) (cb : List Nat → NdArr) : NdArr :=
  let first := cb ((locationsIn (piecesShape d)).headD [])
  ⟨first.dtype, prodShape (mergedShape isPoint d) :: first.shape.tail,
   (mergeStructured isPoint d (fun loc => arrRows (cb loc)) (List.replicate first.rowSize 0)).flatten⟩

def emptyArr : NdArr := ⟨.flt f64, [0], []⟩

/-- one field of `_merge_point_fields` / `_merge_cell_fields`: `vals` = the field's array of every
    piece in listing order -/
def pvtkMergeArr (isPoint : Bool) (extents : List (List Int)) (vals : List NdArr) : NdArr :=
  let sd := structuredDecomposition extents
  mergeStructuredArr isPoint sd.mergerDecomposition fun loc => vals.getD (sd.domainId loc) emptyArr

/-- `_merge_point_fields` / `_merge_cell_fields`: names collected over all pieces (a Python `set`:
    the model lists them by first occurrence, observables are compared by name), per name the arrays
    of the pieces that carry it, in listing order -/
def pvtkMergeFields (isPoint : Bool) (extents : List (List Int)) (pieceFields : List (List (String × NdArr))) :
    List (String × NdArr) :=
  (dedupNames (pieceFields.flatMap fun fs => fs.map (·.1))).map fun n =>
    (n, pvtkMergeArr isPoint extents (pieceFields.filterMap fun fs => (fs.find? (·.1 == n)).map (·.2)))

/-- geometry carried by a `.vti` / `.vtr` / `.vts` file: attributes `Origin`, `Spacing`, `Direction`;
    the three `<Coordinates>` arrays; the `<Points>` rows (x running fastest) -/
inductive SGeom where
  | image (origin spacing : List Int) (basis : List (List Int))
  | rect (ords : List (List Int))
  | struct (pts : List (List Int))
deriving Repr, DecidableEq

/-- a sequential structured file (one `<Piece>`): `Extent`, geometry, data arrays by name -/
structure SFile where
  extent : List Int
  geom : SGeom
  pointFields : List (String × NdArr)
  cellFields : List (String × NdArr)
deriving Repr, DecidableEq

/-- the mesh object a structured reader builds -/
inductive SMesh where
  | image (g : ImageGrid)
  | rect (extents : List Int) (ords : List (List Int))
  | struct (extents : List Int) (pts : List (List Int))
deriving Repr, DecidableEq

structure SRead where
  mesh : SMesh
  pointFields : List (String × NdArr)
  cellFields : List (String × NdArr)
deriving Repr, DecidableEq

def SGeom.ords : SGeom → List (List Int)
  | .rect o => o
  | _ => []

def SGeom.pts : SGeom → List (List Int)
  | .struct p => p
  | _ => []

/-- `_PVTKReader._merge_structured` on the listed piece files (`none` = the reader raises) -/
def pvtkReadStructured (U : Nat) (pieces : List SFile) : Option SRead :=
  let extents := pieces.map (·.extent)
  let sd := structuredDecomposition extents
  let pf := pvtkMergeFields true extents (pieces.map (·.pointFields))
  let cf := pvtkMergeFields false extents (pieces.map (·.cellFields))
  match pieces.head? with
  | none => none
  | some first =>
    match first.geom with
    | .image O S B => (pvtiMesh U sd extents O S B).map fun g => ⟨.image g, pf, cf⟩
    | .rect _ => (pvtrOrdinates sd (pieces.map (·.geom.ords))).map fun o => ⟨.rect sd.mergedExtents o, pf, cf⟩
    | .struct _ => some ⟨.struct sd.mergedExtents (pvtsPoints extents (pieces.map (·.geom.pts))), pf, cf⟩

/-! ### what an axis-aligned decomposition looks like (used by spec and generators) -/

/-- the `Extent` of the piece at `loc` in an axis-aligned decomposition `d3` of all three VTK
    directions (a flat direction has the single entry 0), shifted by `origin` -/
def pieceExtent (d3 : List (List Nat)) (origin : List Int) (loc3 : List Nat) : List Int :=
  (List.range 3).flatMap fun dir =>
    let ns := d3.getD dir []
    let b := loc3.getD dir 0
    let o := origin.getD dir 0
    [o + (sumList (ns.take b) : Nat), o + (sumList (ns.take (b + 1)) : Nat)]

end Fc.C06
