/-
  FcModel.Structured — model of the structured ("lattice") meshes of fieldcompare
  (`mesh/_structured_mesh.py`: `_StructuredMeshBase.connectivity`, `ImageMesh.points`,
  `RectilinearMesh.points`, `StructuredMesh`, the per-dimension cell-type choice) and of what the
  `.vti/.vtr/.vts` readers derive from the `Extent` attribute (`io/vtk/_helpers.py`).

  Written at the level of what the code does: the enumeration order of `itertools.product`
  (`prodX`), the strides `accumulate(e + 1, mul)[:-1]` over the NON-ZERO extents, the literal rows
  `[p0, p0+1, p2, p2+1, …]`, the quad/hexahedron reorder with the index maps taken from the
  regenerated source tables, Python's negative list index for a grid without any non-zero extent.

  Coordinates are `Int` unit counts; the image-data description carries the number `U` of fractional bits
  of its unit (1 unit = 2^-U; U = 1074 is the unit of F64.lean, the driver uses the smallest U that makes all
  numbers of a case whole).  The image-data point formula
  `origin + basis · (spacing ∘ (i,j,k))` is evaluated EXACTLY; `imageExact` says whether every
  intermediate result is a whole number of units and `smallDyadic` is the (decidable, sufficient)
  condition under which every intermediate result is representable in binary64, so that the
  floating-point evaluation of the code — in any order, fused or not — returns the exact value.
-/
import FcModel.Mesh
import FcGen.Tables
namespace Fc.C07

/-! ### enumeration order -/

/-- `(tuple(reversed(t)) for t in itertools.product(*reversed(ls)))`: all tuples with one entry
    from each list, the FIRST list varying fastest. -/
def prodX {α : Type} : List (List α) → List (List α)
  | [] => [[]]
  | l :: rest => (prodX rest).flatMap fun tl => l.map fun x => x :: tl

/-- `_locations_in(shape)` -/
def locationsIn (shape : List Nat) : List (List Nat) := prodX (shape.map List.range)

/-- mixed-radix digits of `c`, least significant (= first direction) first -/
def unflatten : List Nat → Nat → List Nat
  | [], _ => []
  | n :: rest, c => (c % n) :: unflatten rest (c / n)

/-- flat index of a lattice position, first direction fastest -/
def flatten : List Nat → List Nat → Nat
  | n :: rest, i :: is => i + n * flatten rest is
  | _, _ => 0

def prodNat : List Nat → Nat
  | [] => 1
  | a :: r => a * prodNat r

/-- entry `idx[k]` of the k-th list (default `d` when out of range) -/
def pick {α : Type} (d : α) : List (List α) → List Nat → List α
  | l :: ls, i :: is => l.getD i d :: pick d ls is
  | _, _ => []

/-! ### `_StructuredMeshBase` -/

/-- `_nonzero_extents` -/
def nonzeroExtents (ext : List Nat) : List Nat := ext.filter (0 < ·)

/-- `_dimension` -/
def gridDim (ext : List Nat) : Nat := (nonzeroExtents ext).length

def accFrom (acc : Nat) : List Nat → List Nat
  | [] => []
  | a :: r => (acc * a) :: accFrom (acc * a) r

/-- `list(accumulate((e + 1 for e in extents), mul))[:-1]` -/
def accOffsets (es : List Nat) : List Nat := (accFrom 1 (es.map (· + 1))).dropLast

def dot : List Nat → List Nat → Nat
  | a :: as, b :: bs => a * b + dot as bs
  | _, _ => 0

/-- `_get_p0(ituple)` = Σ ituple[i] · (offsets[i-1] if i > 0 else 1) -/
def getP0 (offs : List Nat) (it : List Nat) : Nat := dot it (1 :: offs)

/-- the literal corner rows of `connectivity` for dimension 1, 2, 3; for dimension 0 no branch is
    taken and the row of `make_zeros((1, 2^0))` stays `[0]` -/
def cornerRow (d : Nat) (offs : List Nat) (p0 : Nat) : List Nat :=
  if d = 1 then [p0, p0 + 1]
  else if d = 2 then
    let p2 := p0 + offs.getD 0 0
    [p0, p0 + 1, p2, p2 + 1]
  else if d = 3 then
    let p2 := p0 + offs.getD 0 0
    let p5 := p0 + offs.getD 1 0
    let p7 := p5 + offs.getD 0 0
    [p0, p0 + 1, p2, p2 + 1, p5, p5 + 1, p7, p7 + 1]
  else List.replicate (2 ^ d) 0

/-- rows before the quad/hexahedron reorder (pixel / voxel order) -/
def baseConnectivity (ext : List Nat) : List (List Nat) :=
  let es := nonzeroExtents ext
  let offs := accOffsets es
  (locationsIn es).map fun it => cornerRow es.length offs (getP0 offs it)

/-- numpy fancy indexing `row[idx_map]`; `none` = IndexError -/
def reorderRow (idx : List Nat) (row : List Nat) : Option (List Nat) :=
  idx.mapM fun i => row[i]?

/-- Python `l[d - 1]` (negative index wraps to the last entry) -/
def pyIndexPred (l : List String) (d : Nat) : String :=
  if d = 0 then l.getLastD "" else l.getD (d - 1) ""

inductive GridKind where
  | image | rectilinear | structured
deriving Repr, DecidableEq

/-- `_cell_type()` of the three classes -/
def gridCellType (k : GridKind) (ext : List Nat) : String :=
  let tbl := match k with
    | .image => Gen.c07ImageTypes
    | .rectilinear => Gen.c07RectilinearTypes
    | .structured => Gen.c07StructuredTypes
  pyIndexPred tbl (gridDim ext)

/-- `connectivity(cell_type)`; `none` = the call raises -/
def gridConnectivity (k : GridKind) (ext : List Nat) (ct : String) : Option (List (List Nat)) :=
  if ct ≠ gridCellType k ext then some [] else
  let rows := baseConnectivity ext
  if ct = "QUAD" then rows.mapM (reorderRow Gen.c07ReorderQuadPixel)
  else if ct = "HEXAHEDRON" then rows.mapM (reorderRow Gen.c07ReorderHexVoxel)
  else some rows

/-! ### points -/

/-- exact product of two unit counts, in units (floor if not a whole number of units) -/
def mulU (U : Nat) (a b : Int) : Int := (a * b) / (2 : Int) ^ U

def mulUExact (U : Nat) (a b : Int) : Bool := (a * b) % (2 : Int) ^ U == 0

def dotU (U : Nat) : List Int → List Int → Int
  | a :: as, b :: bs => mulU U a b + dotU U as bs
  | _, _ => 0

/-- `origin + basis.dot(spacing * ituple)` evaluated exactly -/
def imagePointZ (U : Nat) (origin : List Int) (basis : List (List Int)) (spacing : List Int) (idx : List Int) : List Int :=
  let v := List.zipWith (· * ·) spacing idx
  List.zipWith (fun o row => o + dotU U row v) origin basis

/-- the point of lattice position `it` (the code multiplies `spacing` with the tuple of the position
    counted from 0, whatever the `Extent` attribute of a file says) -/
def imagePoint (U : Nat) (origin : List Int) (basis : List (List Int)) (spacing : List Int) (it : List Nat) : List Int :=
  imagePointZ U origin basis spacing (it.map Int.ofNat)

def imagePointExact (U : Nat) (basis : List (List Int)) (spacing : List Int) (idx : List Int) : Bool :=
  let v := List.zipWith (· * ·) spacing idx
  basis.all fun row => (List.zipWith (mulUExact U) row v).all id

/-- `ImageMesh.points` -/
def imagePoints (U : Nat) (ext : List Nat) (origin : List Int) (basis : List (List Int)) (spacing : List Int) :
    List (List Int) :=
  (locationsIn (ext.map (· + 1))).map (imagePoint U origin basis spacing)

/-- `[arr if len(arr) > 0 else [0.0]]` (constructor of `RectilinearMesh`, also `VTRReader._get_ordinates`) -/
def fixOrdinates (o : List Int) : List Int := if o.isEmpty then [0] else o

/-- `RectilinearMesh.points`: `flip(p) for p in product(*reversed(ordinates))` -/
def rectPoints (ords : List (List Int)) : List (List Int) := prodX (ords.map fixOrdinates)

/-- the constructor's check: the ordinates yield `prod (e + 1)` points -/
def rectCtorOk (ext : List Nat) (ords : List (List Int)) : Bool :=
  ext.length == 3 && ords.length == 3 &&
  prodNat ((ords.map fixOrdinates).map (fun o => max o.length 1)) == prodNat (ext.map (· + 1))

/-- `StructuredMesh.__init__`: number of given points = `prod (e + 1)` -/
def structCtorOk (ext : List Nat) (pts : List (List Int)) : Bool :=
  ext.length == 3 && pts.length == prodNat (ext.map (· + 1))

/-! ### readers: `Extent` attribute → cells per direction, entity counts -/

/-- `vtk_extents_to_cells_per_direction`; `none` = ValueError -/
def cellsPerDirection (e : List Int) : Option (List Nat) :=
  match e with
  | [a0, a1, b0, b1, c0, c1] =>
    let cs := [a1 - a0, b1 - b0, c1 - c0]
    if cs.any (· < 0) then none else some (cs.map Int.toNat)
  | _ => none

/-- `number_of_total_cells_from_cells_per_direction` -/
def readerNumCells (cells : List Nat) : Nat := prodNat (cells.map (max · 1))

/-- `number_of_total_points_from_cells_per_direction` -/
def readerNumPoints (cells : List Nat) : Nat := prodNat (cells.map (· + 1))

/-! ### the mesh the three classes expose -/

inductive GridGeom where
  | image (U : Nat) (origin : List Int) (basis : List (List Int)) (spacing : List Int)
  | rect (ords : List (List Int))
  | struct (pts : List (List Int))
deriving Repr, DecidableEq

def GridGeom.kind : GridGeom → GridKind
  | .image .. => .image
  | .rect .. => .rectilinear
  | .struct .. => .structured

def gridPoints (ext : List Nat) : GridGeom → List (List Int)
  | .image U o b s => imagePoints U ext o b s
  | .rect ords => rectPoints ords
  | .struct pts => pts

def gridCtorOk (ext : List Nat) : GridGeom → Bool
  | .image _ o b s => ext.length == 3 && o.length == 3 && s.length == 3 && b.length == 3 && b.all (·.length == 3)
  | .rect ords => rectCtorOk ext ords
  | .struct pts => structCtorOk ext pts && pts.all (·.length == 3)

/-- the explicit view (`points`, `cell_types`, `connectivity`) of a structured mesh object;
    `none` = constructor or `connectivity` raises -/
def gridMesh (ext : List Nat) (g : GridGeom) : Option Mesh :=
  if !gridCtorOk ext g then none else
  let ct := gridCellType g.kind ext
  match gridConnectivity g.kind ext ct with
  | none => none
  | some rows => some ⟨3, gridPoints ext g, [(ct, rows)]⟩

/-- what `VTKXMLReader.read` builds for a structured file from the mesh description the reader hands to the
    mesh class (`readGrid` below supplies it): the mesh, point data as given, every
    cell-data array indexed with `arange(num_cells)` and attached to the mesh's single cell type.
    `none` = an exception / failed assertion on the way. -/
def readGridCore (extent : List Int) (g : GridGeom) (pfs : List PointField) (cfs : List (String × NdArr)) :
    Option MeshFields :=
  match cellsPerDirection extent with
  | none => none
  | some cells =>
    match gridMesh cells g with
    | none => none
    | some m =>
      let ct := gridCellType g.kind cells
      let nc := readerNumCells cells
      -- `entire_data_array[arange(num_cells)]` raises when the array is shorter; `assert sum(len) == num_cells`
      if cfs.any (fun cf => cf.2.shape.head? != some nc) || nc != (m.cellsOf ct).length then none
      else if pfs.any (fun pf => pf.values.shape.head? != some m.numPoints) then none
      else some ⟨m, pfs, cfs.map fun cf => ⟨cf.1, ct, cf.2⟩⟩

/-- lower ends of the six `Extent` numbers -/
def lowerEnds (e : List Int) : List Int := [e.getD 0 0, e.getD 2 0, e.getD 4 0]

/-- the description a reader hands to the mesh class.  `VTIReader._make_mesh` (since fix a3961d2):
    `origin = Origin + basis.dot(spacing * lower)` with `lower` the lower ends of the piece extent — VTK counts
    the structured indices of image data from 0, the piece holds the indices `lo … hi`.  `.vtr/.vts` carry explicit
    coordinates: nothing to shift. -/
def shiftGeom (lo : List Int) : GridGeom → GridGeom
  | .image U o b s => .image U (imagePointZ U o b s lo) b s
  | g => g

/-- the products `B_rc · (spacing_c · lo_c)` of the shift are whole numbers of units (always true for lo = 0) -/
def shiftExact (lo : List Int) : GridGeom → Bool
  | .image U _ b s => imagePointExact U b s lo
  | _ => true

/-- `reader.read()` of a `.vti/.vtr/.vts` file with the given `Extent` and geometry attributes / arrays -/
def readGrid (extent : List Int) (g : GridGeom) (pfs : List PointField) (cfs : List (String × NdArr)) :
    Option MeshFields :=
  readGridCore extent (shiftGeom (lowerEnds extent) g) pfs cfs

/-! ### sufficient condition for exact floating-point evaluation of the image formula -/

/-- `x` is a multiple of 2^-k and |x| ≤ 2^m  (x in units) -/
def dyadicWithin (U k m : Nat) (x : Int) : Bool :=
  k ≤ U && x % (2 : Int) ^ (U - k) == 0 && x.natAbs ≤ 2 ^ (U + m)

/-- origin/spacing multiples of 2^-12 up to 2^10, basis entries multiples of 2^-12 up to 4, at most 2^8
    points per direction: every intermediate result of `origin + B·(spacing∘ijk)` then is a multiple of
    2^-24 below 2^24, hence has at most 48 significant bits and is representable in binary64. -/
def smallDyadic (U : Nat) (ext : List Nat) (origin : List Int) (basis : List (List Int)) (spacing : List Int) : Bool :=
  ext.all (· ≤ 256) && origin.all (dyadicWithin U 12 10) && spacing.all (dyadicWithin U 12 10) &&
  basis.all (·.all (dyadicWithin U 12 2))

end Fc.C07
