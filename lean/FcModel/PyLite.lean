/-
  FcModel.PyLite — a small AST and a TOTAL interpreter for the pure decision / arithmetic subset of
  Python that fieldcompare's small functions are written in.

  The translator `harness/fcv/tables/pylite_src.py` turns the CURRENT source text of a configured
  list of functions into `Fc.Gen.<name>Src : Fc.PyLite.Fn` (FcGen/Tables.lean, regenerated on every
  run); the theorems `Fc.Cxx_source_<fn>` (FcProofs/Props/Cxx_Source.lean) prove that interpreting the
  translated body is the model function of the owning package, for ALL inputs.  A source change of
  such a function changes the AST and breaks the proof obligation.

  Values     int | bool | str | None | enum member | list (tuples and lists are identified) | record
             | dict (association list: `k in d`, `d[k]`, `d.get(k, default)`, `len(d)`, iteration over keys,
               `d[k] = v`, the literal `{}`)
  Expr       literals, variables, attribute access (= field lookup), `+ - * // %` (ints; `+` also
             concatenates lists), unary minus, comparisons (`== != < <= > >= is is not in not in`),
             `and / or / not` with Python's operand-returning semantics and truthiness,
             conditional expressions, tuple/list literals, indexing (negative indices as in Python),
             builtins (`len int bool min max abs range list tuple`, `reduce(mul, it, init)`, `xs.index(v)`,
             `zip(xs, ys)`, `d.items()`),
             `any(c for x in it)`, `all(c for x in it)`, `[e for x in it if c]`,
             and calls of EXTERNAL functions, whose meaning is a parameter `X` of the interpreter
             (supplied — and thereby documented — by the theorem that uses it).
  Stmt       assignment, tuple unpacking, `x[i] = e`, `if/elif/else`, `for x in it` (incl. `range`),
             `return`, `yield` (appends to the output list), `raise`, inlined call of a nested helper.
             `xs.append(v)` is `xs = xs + [v]`, `xs.remove(v)` is `xs = remove(xs, v)` (value semantics; the
             translator rejects programs in which the difference to Python's shared mutable lists could show).
             Phase 6 (orchestration code, notes/PHASE6_A.md):
             * EFFECTS: a call whose result is discarded (`callback(comp)`, `self._log(msg)`) is the statement
               `.yield (.ext …)`: the value the external returns is appended to the output list, which for a
               procedure is its EFFECT TRACE (`Fn.runTr` = returned value + trace).  Externals stay pure functions
               of their arguments; the order of the effects is the order of the trace.
             * `x.f = e` (`setAttr`): `x` holds an object (record); value semantics `x = x with f := e`
               (`recordSet`: the field keeps its place, a new field is appended).  For `self.f = e` the final
               value of `self` is read off the final state of `Fn.flow` (`Fn.runSelf`).  The translator rejects
               programs in which an alias of the object could observe the difference.
             * `try: body except Exception [as x]: handler` (`tryExcept`): a `.raise exc` of the body whose class
               is not one of the `BaseException`-only classes (`KeyboardInterrupt`, `SystemExit`,
               `GeneratorExit`) is caught: the handler runs in the state in which the `try` was entered, with `x`
               bound to an exception object (`excVal exc`, a record).  The translator only accepts a body that is
               ONE statement without effects, so that no assignment / effect of the body is lost by this.
               `.stuck` is never caught.
             * Round 4: `for x in obj`, comprehensions and `in` over an iterable OBJECT (record) range over its pseudo field `__iter__`.
             * Round 3: `str + str` concatenates; `list(obj)` of an iterable OBJECT (record) is its pseudo field `__iter__`;
               `while c: body` is `.whileF fuel c body` (`whileLoop`): the fuel is evaluated once, at most that many
               iterations run, a condition that still holds afterwards is `.stuck`.
             * BOUND-METHOD CALLS `x = self.m(a, …)` of a method that is itself translated (`callFn`): the
               arguments are evaluated in the caller's state, the callee's body (`Fc.Gen.<m>Src.body`, referred to
               by name in the rendering) runs in a FRESH environment binding its parameters, with an empty
               trace; its trace is appended to the caller's, its returned value (or `None`) is bound to `x`;
               exceptions / stuck propagate (then the callee's trace is dropped with the caller's: a raise ends
               the whole run unless a `tryExcept` catches it, see above).  `exec_callFn` (Lemmas/PyLiteOrch.lean)
               restates this as `Fn.flow` of the callee, so the callee's own theorem is used as a rewrite rule.

  Results    `.ok v` | `.raise exc` (a Python exception of the modelled semantics: IndexError,
             ZeroDivisionError, an explicit `raise`) | `.stuck` (outside the modelled semantics:
             unbound variable, ill-typed operation, unknown external function).

  The interpreter recurses structurally on the AST; loops recurse on the list being iterated
  (`forLoop`), so no fuel is needed.  Core Lean only.
-/
namespace Fc.PyLite

/-! ### values -/

inductive Val where
  | int (n : Int)
  | bool (b : Bool)
  | str (s : String)
  | none
  | enum (cls name : String)
  | list (xs : List Val)
  | record (fields : List (String × Val))
  /-- a `dict` as an association list in insertion order (keys pairwise different; lookups take the first
      entry whose key is `==` the wanted one) -/
  | dict (kvs : List (Val × Val))

inductive Res (α : Type) where
  | ok (a : α)
  | raise (exc : String)
  | stuck

namespace Res
def bind {α β : Type} (r : Res α) (f : α → Res β) : Res β :=
  match r with
  | .ok a => f a
  | .raise e => .raise e
  | .stuck => .stuck

def map {α β : Type} (f : α → β) (r : Res α) : Res β := r.bind fun a => .ok (f a)
end Res

/-- the integer a value stands for in arithmetic (`bool` is a subclass of `int`) -/
def Val.asInt : Val → Option Int
  | .int n => some n
  | .bool b => some (if b then 1 else 0)
  | _ => Option.none

/-- Python `==` on the modelled values (`none` = not modelled: records) -/
def Val.eqv : Val → Val → Option Bool
  | .int a, .int b => some (a == b)
  | .int a, .bool b => some (a == (if b then 1 else 0))
  | .bool a, .int b => some ((if a then 1 else 0) == b)
  | .bool a, .bool b => some (a == b)
  | .str a, .str b => some (a == b)
  | .none, .none => some true
  | .enum c m, .enum d n => some (c == d && m == n)
  | .list xs, .list ys => eqvList xs ys
  | .record _, _ => Option.none
  | _, .record _ => Option.none
  | .dict _, _ => Option.none
  | _, .dict _ => Option.none
  | _, _ => some false
where
  eqvList : List Val → List Val → Option Bool
    | [], [] => some true
    | x :: xs, y :: ys =>
      match Val.eqv x y, eqvList xs ys with
      | some a, some b => some (a && b)
      | _, _ => Option.none
    | _, _ => some false

/-- truthiness.  An enum member's truth value depends on its class (`__bool__` may be overridden): not
    modelled.  A record is an object: true unless it carries the pseudo field `__bool__` (the result of
    its class's `__bool__`, supplied as data by whoever builds the record). -/
def Val.truthy : Val → Res Bool
  | .int n => .ok (n != 0)
  | .bool b => .ok b
  | .str s => .ok (s != "")
  | .none => .ok false
  | .enum _ _ => .stuck
  | .list xs => .ok (!xs.isEmpty)
  | .record fs =>
    match fs.lookup "__bool__" with
    | some (.bool b) => .ok b
    | some _ => .stuck
    | Option.none => .ok true
  | .dict kvs => .ok (!kvs.isEmpty)

/-- the elements an iteration / a membership test ranges over: the items of a list, the KEYS of a dict -/
def Val.asList : Val → Res (List Val)
  | .list xs => .ok xs
  | .dict kvs => .ok (kvs.map (·.1))
  | .record fs =>
    -- an iterable OBJECT: the pseudo field `__iter__` (what its class's `__iter__` yields, supplied as data)
    match fs.lookup "__iter__" with
    | some (.list xs) => .ok xs
    | _ => .stuck
  | _ => .stuck

/-! ### syntax -/

inductive BinOp where
  | add | sub | mul | floordiv | mod
deriving Repr, DecidableEq

inductive CmpOp where
  | eq | ne | lt | le | gt | ge | is | isNot | isIn | notIn
deriving Repr, DecidableEq

inductive Builtin where
  | len | int | bool | min | max | abs | range | list | reduceMul
  /-- `sum(it)` of integers -/
  | sum
  /-- `xs.remove(v)` as a function: the list without its first element `== v` (`ValueError` if there is none) -/
  | remove
  /-- `d.get(k, default)` -/
  | dictGet
  /-- `xs.index(v)`: position of the first element `== v` (`ValueError` if there is none) -/
  | index
  /-- `zip(xs, ys)` of two lists, consumed at once: the list of pairs, as long as the shorter one -/
  | zip
  /-- `d.items()`, consumed at once: the list of (key, value) pairs in insertion order -/
  | items
deriving Repr, DecidableEq

inductive Expr where
  | lit (v : Val)
  | var (x : String)
  | attr (e : Expr) (f : String)
  | bin (op : BinOp) (a b : Expr)
  | neg (e : Expr)
  | cmp (op : CmpOp) (a b : Expr)
  | not (e : Expr)
  | and (a b : Expr)
  | or (a b : Expr)
  | ite (c t e : Expr)
  | tuple (es : List Expr)
  | index (e i : Expr)
  | call (f : Builtin) (args : List Expr)
  /-- a function the translator does not know: its meaning is the interpreter's parameter `X` -/
  | ext (f : String) (args : List Expr)
  /-- `any(c for x in it)` -/
  | anyOf (x : String) (it c : Expr)
  /-- `all(c for x in it)` -/
  | allOf (x : String) (it c : Expr)
  /-- `[e for x in it if c]` (also generator expressions that are consumed at once) -/
  | comp (x : String) (it e c : Expr)

inductive Stmt where
  | assign (x : String) (e : Expr)
  /-- `a, b = e` -/
  | unpack (xs : List String) (e : Expr)
  /-- `x[i] = e` -/
  | setIndex (x : String) (i e : Expr)
  | ite (c : Expr) (t e : List Stmt)
  | forIn (x : String) (it : Expr) (body : List Stmt)
  | ret (e : Expr)
  | yield (e : Expr)
  | raise (exc : String)
  /-- `x = h(…)` for a nested helper `h` whose (renamed-apart) body is `body`, inlined: the block is run in
      the current state, its `return v` ends the BLOCK (not the enclosing function) and binds `x`;
      falling off the end binds `None` -/
  | inlineCall (x : String) (body : List Stmt)
  /-- `x.f = e` for a variable `x` holding an object (record): `x = x with f := e` -/
  | setAttr (x : String) (f : String) (e : Expr)
  /-- `try: body except Exception as x: handler` (the translator writes `x` also when the source has no `as`) -/
  | tryExcept (body : List Stmt) (x : String) (handler : List Stmt)
  /-- `x = f(args)` for a function `f` that is itself translated (`params`, `body` are those of its `Fn`):
      fresh environment, own trace appended to the caller's -/
  | callFn (x : String) (params : List String) (body : List Stmt) (args : List Expr)
  /-- `while c: body` with FUEL: `fuel` is evaluated once (an int `n`); at most `n` iterations are run, and if the
      condition still holds then the result is `.stuck` (never a default).  The translator writes the external
      constant `while-fuel` here; theorems hold for every fuel that suffices. -/
  | whileF (fuel : Expr) (c : Expr) (body : List Stmt)

structure Fn where
  name : String
  params : List String
  body : List Stmt

/-! ### primitive operations -/

abbrev Env := List (String × Val)

/-- meaning of the external functions -/
abbrev Ext := String → List Val → Res Val

def noExt : Ext := fun _ _ => .stuck

def getAttr (v : Val) (f : String) : Res Val :=
  match v with
  | .record fs =>
    match fs.lookup f with
    | some x => .ok x
    | Option.none => .stuck
  | _ => .stuck

def binop (op : BinOp) (x y : Val) : Res Val :=
  match op, x, y with
  | .add, .list a, .list b => .ok (.list (a ++ b))
  | .add, .str a, .str b => .ok (.str (a ++ b))
  | _, _, _ =>
    match x.asInt, y.asInt with
    | some a, some b =>
      match op with
      | .add => .ok (.int (a + b))
      | .sub => .ok (.int (a - b))
      | .mul => .ok (.int (a * b))
      | .floordiv => if b = 0 then .raise "ZeroDivisionError" else .ok (.int (Int.fdiv a b))
      | .mod => if b = 0 then .raise "ZeroDivisionError" else .ok (.int (Int.fmod a b))
    | _, _ => .stuck

def ordOp (f : Int → Int → Bool) (x y : Val) : Res Val :=
  match x.asInt, y.asInt with
  | some a, some b => .ok (.bool (f a b))
  | _, _ => .stuck

/-- `x in ys`: the first element equal to `x` decides -/
def memOf (x : Val) : List Val → Res Bool
  | [] => .ok false
  | y :: ys =>
    match Val.eqv x y with
    | some true => .ok true
    | some false => memOf x ys
    | Option.none => .stuck

def isNone : Val → Bool
  | .none => true
  | _ => false

def cmpop (op : CmpOp) (x y : Val) : Res Val :=
  match op with
  | .eq => match Val.eqv x y with | some b => .ok (.bool b) | Option.none => .stuck
  | .ne => match Val.eqv x y with | some b => .ok (.bool (!b)) | Option.none => .stuck
  | .lt => ordOp (fun a b => decide (a < b)) x y
  | .le => ordOp (fun a b => decide (a ≤ b)) x y
  | .gt => ordOp (fun a b => decide (b < a)) x y
  | .ge => ordOp (fun a b => decide (b ≤ a)) x y
  -- identity is modelled for `None` only (`x is None`, `x is not None`)
  | .is => if isNone y then .ok (.bool (isNone x)) else .stuck
  | .isNot => if isNone y then .ok (.bool (!isNone x)) else .stuck
  | .isIn => (y.asList.bind (memOf x)).map .bool
  | .notIn => (y.asList.bind (memOf x)).map fun b => .bool (!b)

/-- `d[k]` / `d.get(k)`: the value of the first entry whose key is `== k` (`none` = no such key) -/
def dictLookup (k : Val) : List (Val × Val) → Res (Option Val)
  | [] => .ok Option.none
  | (k', v) :: r =>
    match Val.eqv k k' with
    | some true => .ok (some v)
    | some false => dictLookup k r
    | Option.none => .stuck

/-- `xs[i]` with Python's negative indices; `d[k]` on a dict (`KeyError`) -/
def indexOf (v i : Val) : Res Val :=
  match v, i with
  | .list xs, .int n =>
    let k := if n < 0 then n + xs.length else n
    if k < 0 then .raise "IndexError"
    else match xs[k.toNat]? with
      | some x => .ok x
      | Option.none => .raise "IndexError"
  | .dict kvs, k =>
    match dictLookup k kvs with
    | .ok (some x) => .ok x
    | .ok Option.none => .raise "KeyError"
    | .raise e => .raise e
    | .stuck => .stuck
  | _, _ => .stuck

def intsOf : List Val → Option (List Int)
  | [] => some []
  | v :: vs =>
    match v.asInt, intsOf vs with
    | some a, some r => some (a :: r)
    | _, _ => Option.none

/-- `xs.remove(v)`: `none` = `v` is not in the list -/
def removeFirst (v : Val) : List Val → Res (Option (List Val))
  | [] => .ok Option.none
  | x :: xs =>
    match Val.eqv x v with
    | some true => .ok (some xs)
    | some false => (removeFirst v xs).map fun o => o.map fun r => x :: r
    | Option.none => .stuck

/-- `xs.index(v)`: `none` = `v` is not in the list -/
def indexFirst (v : Val) : List Val → Res (Option Nat)
  | [] => .ok Option.none
  | x :: xs =>
    match Val.eqv x v with
    | some true => .ok (some 0)
    | some false => (indexFirst v xs).map fun o => o.map fun i => i + 1
    | Option.none => .stuck

/-- `d[k] = v`: the value of the entry whose key is `== k` is replaced (the entry keeps its place), a new key is
    appended -/
def dictSet (k v : Val) : List (Val × Val) → Res (List (Val × Val))
  | [] => .ok [(k, v)]
  | (k', v') :: r =>
    match Val.eqv k k' with
    | some true => .ok ((k', v) :: r)
    | some false => (dictSet k v r).map fun r' => (k', v') :: r'
    | Option.none => .stuck

def builtin (f : Builtin) (args : List Val) : Res Val :=
  match f, args with
  | .len, [.list xs] => .ok (.int xs.length)
  | .len, [.dict kvs] => .ok (.int kvs.length)
  | .sum, [.list xs] =>
    match intsOf xs with
    | some l => .ok (.int (l.foldl (· + ·) 0))
    | Option.none => .stuck
  | .remove, [.list xs, v] =>
    match removeFirst v xs with
    | .ok (some r) => .ok (.list r)
    | .ok Option.none => .raise "ValueError"
    | .raise e => .raise e
    | .stuck => .stuck
  | .dictGet, [.dict kvs, k, dflt] =>
    match dictLookup k kvs with
    | .ok (some x) => .ok x
    | .ok Option.none => .ok dflt
    | .raise e => .raise e
    | .stuck => .stuck
  | .index, [.list xs, v] =>
    match indexFirst v xs with
    | .ok (some i) => .ok (.int (i : Int))
    | .ok Option.none => .raise "ValueError"
    | .raise e => .raise e
    | .stuck => .stuck
  | .zip, [.list xs, .list ys] => .ok (.list (List.zipWith (fun a b => Val.list [a, b]) xs ys))
  | .zip, [.record fs, .record gs] =>
    -- `zip(a, b)` of two iterable OBJECTS, consumed at once: their items are the pseudo fields `__iter__`
    match fs.lookup "__iter__", gs.lookup "__iter__" with
    | some (.list xs), some (.list ys) => .ok (.list (List.zipWith (fun a b => Val.list [a, b]) xs ys))
    | _, _ => .stuck
  | .items, [.dict kvs] => .ok (.list (kvs.map fun kv => Val.list [kv.1, kv.2]))
  | .int, [v] => match v.asInt with | some a => .ok (.int a) | Option.none => .stuck
  | .bool, [v] => v.truthy.map .bool
  | .abs, [.int a] => .ok (.int a.natAbs)
  | .min, [.int a, .int b] => .ok (.int (if b < a then b else a))
  | .max, [.int a, .int b] => .ok (.int (if a < b then b else a))
  | .range, [.int n] => .ok (.list ((List.range n.toNat).map fun (k : Nat) => Val.int (k : Int)))
  | .list, [.list xs] => .ok (.list xs)
  | .list, [.record fs] =>
    -- `list(obj)` of an iterable OBJECT: its items are the pseudo field `__iter__` (what its class's `__iter__` yields,
    -- supplied as data by whoever builds the record, like `__bool__`)
    match fs.lookup "__iter__" with
    | some (.list xs) => .ok (.list xs)
    | _ => .stuck
  | .reduceMul, [.list xs, .int init] =>
    match intsOf xs with
    | some l => .ok (.int (l.foldl (· * ·) init))
    | Option.none => .stuck
  | _, _ => .stuck

def anyM (f : Val → Res Bool) : List Val → Res Bool
  | [] => .ok false
  | v :: vs => (f v).bind fun b => if b then .ok true else anyM f vs

def allM (f : Val → Res Bool) : List Val → Res Bool
  | [] => .ok true
  | v :: vs => (f v).bind fun b => if b then allM f vs else .ok false

/-- `[e(v) for v in vs if c(v)]`; `f v = some x` keeps `x`, `none` drops the element -/
def compM (f : Val → Res (Option Val)) : List Val → Res (List Val)
  | [] => .ok []
  | v :: vs => (f v).bind fun o => (compM f vs).map fun r => match o with | some x => x :: r | Option.none => r

/-- `obj.f = v`: the field keeps its place, a new field is appended -/
def recordSet (f : String) (v : Val) : List (String × Val) → List (String × Val)
  | [] => [(f, v)]
  | (g, w) :: r => if g == f then (g, v) :: r else (g, w) :: recordSet f v r

/-- the object bound by `except Exception as e` -/
def excVal (exc : String) : Val := .record [("__exc__", .str exc)]

/-- is an exception of class `exc` caught by `except Exception`?  (everything but the `BaseException`-only classes) -/
def caughtByException (exc : String) : Bool :=
  !(exc == "KeyboardInterrupt" || exc == "SystemExit" || exc == "GeneratorExit" || exc == "BaseException")

def initEnv : List String → List Val → Option Env
  | [], [] => some []
  | p :: ps, v :: vs => (initEnv ps vs).map fun r => (p, v) :: r
  | _, _ => Option.none

/-! ### expressions -/

mutual
def eval (X : Ext) : Expr → Env → Res Val
  | .lit v, _ => .ok v
  | .var x, env => match env.lookup x with | some v => .ok v | Option.none => .stuck
  | .attr e f, env => (eval X e env).bind fun v => getAttr v f
  | .bin op a b, env => (eval X a env).bind fun x => (eval X b env).bind fun y => binop op x y
  | .neg e, env => (eval X e env).bind fun v => binop .sub (.int 0) v
  | .cmp op a b, env => (eval X a env).bind fun x => (eval X b env).bind fun y => cmpop op x y
  | .not e, env => (eval X e env).bind fun v => v.truthy.map fun b => .bool (!b)
  | .and a b, env => (eval X a env).bind fun x => x.truthy.bind fun t => if t then eval X b env else .ok x
  | .or a b, env => (eval X a env).bind fun x => x.truthy.bind fun t => if t then .ok x else eval X b env
  | .ite c t e, env => (eval X c env).bind fun x => x.truthy.bind fun b => if b then eval X t env else eval X e env
  | .tuple es, env => (evalList X es env).map .list
  | .index e i, env => (eval X e env).bind fun v => (eval X i env).bind fun k => indexOf v k
  | .call f args, env => (evalList X args env).bind (builtin f)
  | .ext f args, env => (evalList X args env).bind (X f)
  | .anyOf x it c, env =>
    (eval X it env).bind fun v => v.asList.bind fun vs =>
      (anyM (fun w => (eval X c ((x, w) :: env)).bind Val.truthy) vs).map .bool
  | .allOf x it c, env =>
    (eval X it env).bind fun v => v.asList.bind fun vs =>
      (allM (fun w => (eval X c ((x, w) :: env)).bind Val.truthy) vs).map .bool
  | .comp x it e c, env =>
    (eval X it env).bind fun v => v.asList.bind fun vs =>
      (compM (fun w => (eval X c ((x, w) :: env)).bind fun cv => cv.truthy.bind fun b =>
          if b then (eval X e ((x, w) :: env)).map some else .ok Option.none) vs).map .list
def evalList (X : Ext) : List Expr → Env → Res (List Val)
  | [], _ => .ok []
  | e :: es, env => (eval X e env).bind fun v => (evalList X es env).map fun r => v :: r
end

/-! ### statements -/

/-- variables (newest binding first) and the values yielded so far (in order) -/
structure St where
  env : Env
  out : List Val

def St.set (st : St) (x : String) (v : Val) : St := { st with env := (x, v) :: st.env }

inductive Flow where
  | next (st : St)
  | ret (v : Val) (st : St)
  | raise (exc : String)
  | stuck

/-- continue with `k` on a value, propagate exceptions -/
def withVal (r : Res Val) (k : Val → Flow) : Flow :=
  match r with
  | .ok v => k v
  | .raise e => .raise e
  | .stuck => .stuck

def withBool (r : Res Bool) (k : Bool → Flow) : Flow :=
  match r with
  | .ok v => k v
  | .raise e => .raise e
  | .stuck => .stuck

def bindAll : List String → List Val → St → Option St
  | [], [], st => some st
  | x :: xs, v :: vs, st => bindAll xs vs (st.set x v)
  | _, _, _ => Option.none

/-- the loop of `for x in items: body` -/
def forLoop (f : Val → St → Flow) : List Val → St → Flow
  | [], st => .next st
  | v :: vs, st =>
    match f v st with
    | .next st' => forLoop f vs st'
    | r => r

def listSet (xs : List Val) (i : Val) (v : Val) : Res Val :=
  match i with
  | .int n =>
    let k := if n < 0 then n + xs.length else n
    if k < 0 then .raise "IndexError"
    else if k.toNat < xs.length then .ok (.list (xs.set k.toNat v)) else .raise "IndexError"
  | _ => .stuck

/-- entering a call: the callee's parameters are bound in a FRESH environment, its trace starts empty -/
def enterCall (ps : List String) (vs : List Val) (run : St → Flow) : Flow :=
  match initEnv ps vs with
  | some env => run ⟨env, []⟩
  | Option.none => .stuck

/-- leaving a call `x = f(…)`: the returned value (`None` when the callee fell off its end) is bound to `x` in the
    CALLER's state `st`, the callee's trace is appended to the caller's; exceptions / stuck propagate -/
def callRet (x : String) (st : St) : Flow → Flow
  | .next st' => .next ⟨(x, Val.none) :: st.env, st.out ++ st'.out⟩
  | .ret v st' => .next ⟨(x, v) :: st.env, st.out ++ st'.out⟩
  | .raise exc => .raise exc
  | .stuck => .stuck

/-- the loop of `while c: body` with fuel (`cond`, `body` are the evaluated condition and block) -/
def whileLoop (cond : St → Res Bool) (body : St → Flow) : Nat → St → Flow
  | 0, st =>
    match cond st with
    | .ok false => .next st
    | .ok true => .stuck
    | .raise e => .raise e
    | .stuck => .stuck
  | k + 1, st =>
    match cond st with
    | .ok true =>
      match body st with
      | .next st' => whileLoop cond body k st'
      | r => r
    | .ok false => .next st
    | .raise e => .raise e
    | .stuck => .stuck

mutual
def exec (X : Ext) : Stmt → St → Flow
  | .assign x e, st => withVal (eval X e st.env) fun v => .next (st.set x v)
  | .unpack xs e, st =>
    withVal (eval X e st.env) fun v =>
      match v with
      | .list vs => match bindAll xs vs st with | some st' => .next st' | Option.none => .raise "ValueError"
      | _ => .stuck
  | .setIndex x i e, st =>
    withVal (eval X (.var x) st.env) fun l => withVal (eval X i st.env) fun k => withVal (eval X e st.env) fun v =>
      match l with
      | .list xs => withVal (listSet xs k v) fun l' => .next (st.set x l')
      | .dict kvs => withVal ((dictSet k v kvs).map .dict) fun d => .next (st.set x d)
      | _ => .stuck
  | .ite c t e, st =>
    withBool ((eval X c st.env).bind Val.truthy) fun b => if b then execBlock X t st else execBlock X e st
  | .forIn x it body, st =>
    withVal (eval X it st.env) fun v =>
      match v with
      | .list vs => forLoop (fun w s => execBlock X body (s.set x w)) vs st
      | .record fs =>
        match fs.lookup "__iter__" with
        | some (.list vs) => forLoop (fun w s => execBlock X body (s.set x w)) vs st
        | _ => .stuck
      | _ => .stuck
  | .ret e, st => withVal (eval X e st.env) fun v => .ret v st
  | .yield e, st => withVal (eval X e st.env) fun v => .next { st with out := st.out ++ [v] }
  | .raise exc, _ => .raise exc
  | .inlineCall x body, st =>
    match execBlock X body st with
    | .next st' => .next (st'.set x .none)
    | .ret v st' => .next (st'.set x v)
    | r => r
  | .setAttr x f e, st =>
    withVal (eval X (.var x) st.env) fun o => withVal (eval X e st.env) fun v =>
      match o with
      | .record fs => .next (st.set x (.record (recordSet f v fs)))
      | _ => .stuck
  | .tryExcept body x handler, st =>
    match execBlock X body st with
    | .raise exc => if caughtByException exc then execBlock X handler (st.set x (excVal exc)) else .raise exc
    | r => r
  | .callFn x ps body args, st =>
    match evalList X args st.env with
    | .ok vs => callRet x st (enterCall ps vs (execBlock X body))
    | .raise exc => .raise exc
    | .stuck => .stuck
  | .whileF f c body, st =>
    withVal (eval X f st.env) fun v =>
      match v with
      | .int n => whileLoop (fun s => (eval X c s.env).bind Val.truthy) (execBlock X body) n.toNat st
      | _ => .stuck
def execBlock (X : Ext) : List Stmt → St → Flow
  | [], st => .next st
  | s :: ss, st =>
    match exec X s st with
    | .next st' => execBlock X ss st'
    | r => r
end

/-! ### running a function -/

/-- the final flow of a call -/
def Fn.flow (X : Ext) (f : Fn) (args : List Val) : Flow :=
  match initEnv f.params args with
  | some env => execBlock X f.body ⟨env, []⟩
  | Option.none => .stuck

/-- value returned by a call (falling off the end returns `None`) -/
def Fn.run (X : Ext) (f : Fn) (args : List Val) : Res Val :=
  match f.flow X args with
  | .next _ => .ok .none
  | .ret v _ => .ok v
  | .raise e => .raise e
  | .stuck => .stuck

/-- the values yielded by a call of a generator function, run to exhaustion -/
def Fn.runGen (X : Ext) (f : Fn) (args : List Val) : Res (List Val) :=
  match f.flow X args with
  | .next st => .ok st.out
  | .ret _ st => .ok st.out
  | .raise e => .raise e
  | .stuck => .stuck

/-- value returned by a call of a procedure together with its effect trace (the values of its `.yield` statements
    and of the procedures it called, in order) -/
def Fn.runTr (X : Ext) (f : Fn) (args : List Val) : Res (Val × List Val) :=
  match f.flow X args with
  | .next st => .ok (.none, st.out)
  | .ret v st => .ok (v, st.out)
  | .raise e => .raise e
  | .stuck => .stuck

/-- a METHOD call `self.m(args)` seen from outside: returned value, effect trace and the final value of the first
    parameter (`self`, which `setAttr` statements may have updated) -/
def Fn.runSelf (X : Ext) (f : Fn) (args : List Val) : Res (Val × List Val × Val) :=
  match f.params, f.flow X args with
  | p :: _, .next st => match st.env.lookup p with | some s => .ok (.none, st.out, s) | Option.none => .stuck
  | p :: _, .ret v st => match st.env.lookup p with | some s => .ok (v, st.out, s) | Option.none => .stuck
  | _, .raise e => .raise e
  | _, _ => .stuck

end Fc.PyLite
