/-
  FcModel.F64 — finite IEEE-754 binary formats as integers.

  Every finite binary64 / binary32 / binary16 value is an integer multiple of 2^-1074 (the
  smallest binary64 subnormal).  The model therefore represents a finite floating-point value by
  an `Int` counting such *units*; exact sums/differences of values are again unit counts, exact
  products of two values are counts of 2^-2148 (i.e. a unit count with 1074 extra fractional
  bits).  `rndMag F a s` rounds the non-negative exact value  a / 2^s  units  to format `F`
  with round-to-nearest, ties-to-even (numpy's / the FPU's default mode), including gradual
  underflow; `none` means the result overflows to +infinity.

  Only core Lean is imported: this file is linked into the `fcdrv` executable.
-/
namespace Fc

/-- number of fractional bits of a "unit": a unit is 2^-1074 -/
def UNIT : Nat := 1074

/-- A binary floating-point format, described relative to the unit 2^-1074.
    `prec`  : precision in bits (incl. the hidden bit),
    `q`     : exponent (in units) of the smallest positive subnormal, i.e. it is 2^q units,
    `emaxU` : values whose rounded magnitude is ≥ 2^emaxU units overflow to infinity. -/
structure Fmt where
  prec : Nat
  q : Nat
  emaxU : Nat
deriving Repr, DecidableEq

def f64 : Fmt := ⟨53, 0, 2098⟩      -- 2^-1074 … < 2^1024
def f32 : Fmt := ⟨24, 925, 1202⟩    -- 2^-149  … < 2^128
def f16 : Fmt := ⟨11, 1050, 1090⟩   -- 2^-24   … < 2^16

/-- round-to-nearest-even of  a / 2^sh  to a natural number -/
def rne (a sh : Nat) : Nat :=
  let f := a / 2 ^ sh
  let r := a % 2 ^ sh
  if 2 * r < 2 ^ sh then f
  else if 2 ^ sh < 2 * r then f + 1
  else if f % 2 = 0 then f else f + 1

/-- the shift (= exponent of one ulp, counted in 2^-s units) used for rounding `a / 2^s` -/
def ulpShift (F : Fmt) (a s : Nat) : Nat := max (a.log2 - (F.prec - 1)) (F.q + s)

/-- rounded magnitude, in units, before the overflow test -/
def rndRaw (F : Fmt) (a s : Nat) : Nat :=
  let sh := ulpShift F a s
  rne a sh * 2 ^ (sh - s)

/-- `rndMag F a s` : the value `a / 2^s` units rounded to `F`; `none` = +infinity -/
def rndMag (F : Fmt) (a s : Nat) : Option Nat :=
  let r := rndRaw F a s
  if 2 ^ F.emaxU ≤ r then none else some r

/-- signed version -/
def rndInt (F : Fmt) (n : Int) (s : Nat) : Option Int :=
  match rndMag F n.natAbs s with
  | none => none
  | some r => some (if n < 0 then -(r : Int) else (r : Int))

/-- `x ≤ y` on magnitudes extended by +infinity (`none`) — numpy: `inf <= inf` is True -/
def leInf : Option Nat → Option Nat → Bool
  | _, none => true
  | none, some _ => false
  | some x, some y => decide (x ≤ y)

def maxInf : Option Nat → Option Nat → Option Nat
  | none, _ => none
  | _, none => none
  | some x, some y => some (max x y)

/-- Is `a` (units) exactly representable as a finite value of format `F`? -/
def representable (F : Fmt) (a : Nat) : Bool := rndMag F a 0 == some a

/-- machine epsilon of the format in units: 2^(1 - prec) -/
def epsUnits (F : Fmt) : Nat := 2 ^ (UNIT + 1 - F.prec)

end Fc
