/-
  FcModel.Cli — model of the decision logic of `fieldcompare file …`
  (fieldcompare/_cli/_common.py, _file_comparison.py, _file_mode.py, _test_suite.py,
  _field_data_comparison.py, _matching.py), written at the level of what the code does.

  What is modelled here (cluster B, property C04 and the file-mode half of C20):
    * `_parse_field_tolerances` / `FieldToleranceMap`        → `classifyTok`, `makeTolerance`, `parseTols`, `TolMap.get`
    * `remove_annotation`                                    → `removeAnnotation`
    * `find_matches` (first match, removal)                  → `findMatches`
    * `FieldDataComparator` (filters apply to matches only)  → `compareFields`
    * `_select_predicate` (per-field ?? global ?? default)   → `fieldStatus` (numeric verdict = cluster A `defaultCheck`)
    * `_parse_status`, `TestSuite.__bool__/status`           → `parseStatus`, `Suite.bool`, `Suite.statusProp`
    * `_compare_field_data`, `_compare_mesh_field_data`, `_set_mesh_tolerances`
                                                             → `compareFieldData`, `meshDomainEq`
    * `_compare_field_sequences`, `_merge_test_suites`       → `compareSequences`, `mergeSuites`
    * `FileComparison.__call__` (IOError → error suite), `_run` (catch-all), `_bool_to_exit_code`
                                                             → `runComparison`, `fileMode`
  External facts enter as parameters: `float(str)` (table `pf`), read outcomes, `fnmatch` truth
  (lists of matched names), the aligned point arrays / topology verdict of a mesh pair.
-/
import FcModel.Predicates
import FcGen.Tables
namespace Fc.C04
open Fc

/-! ### status enums (members / falsy sets come from the regenerated tables) -/

inductive TestStatus where
  | passed | failed | error | skipped
deriving Repr, DecidableEq

def TestStatus.name : TestStatus → String
  | .passed => "passed" | .failed => "failed" | .error => "error" | .skipped => "skipped"

def TestStatus.all : List TestStatus := [.passed, .failed, .error, .skipped]

/-- `TestStatus.__bool__` -/
def TestStatus.truthy (s : TestStatus) : Bool := !(Gen.cliTestStatusFalsy.contains s.name)

/-- `_is_true` inside `TestSuite.__bool__` -/
def suiteIsTrue (s : TestStatus) : Bool := !(Gen.cliSuiteFalsy.contains s.name)

/-- `FieldComparisonStatus` -/
inductive FcStatus where
  | passed | failed | error | missingSource | missingReference | filtered
deriving Repr, DecidableEq

def FcStatus.name : FcStatus → String
  | .passed => "passed" | .failed => "failed" | .error => "error"
  | .missingSource => "missing_source" | .missingReference => "missing_reference" | .filtered => "filtered"

def FcStatus.all : List FcStatus := [.passed, .failed, .error, .missingSource, .missingReference, .filtered]

/-- `FieldComparisonStatus.__bool__` -/
def FcStatus.truthy (s : FcStatus) : Bool := !(Gen.cliFcStatusFalsy.contains s.name)

/-- `FileComparison._parse_status` -/
def parseStatus (ignSrc ignRef : Bool) : FcStatus → TestStatus
  | .passed => .passed
  | .failed => .failed
  | .error => .error
  | .missingReference => if !ignRef then .failed else .skipped
  | .missingSource => if !ignSrc then .failed else .skipped
  | .filtered => .skipped

/-- `_bool_to_exit_code` (truth table regenerated from the source expression) -/
def boolToExitCode (b : Bool) : Int := if b then Gen.cliExitOfTrue else Gen.cliExitOfFalse

/-! ### test suites -/

structure Test where
  name : String
  status : TestStatus
deriving Repr, DecidableEq

/-- `TestSuite`: tests + optional explicit status (`_status`) -/
structure Suite where
  tests : List Test
  status : Option TestStatus
deriving Repr, DecidableEq

/-- `TestSuite.__bool__` -/
def Suite.bool (s : Suite) : Bool :=
  match s.status with
  | some st => suiteIsTrue st
  | none => s.tests.all fun t => suiteIsTrue t.status

/-- property `TestSuite.status` (never `None`) -/
def Suite.statusProp (s : Suite) : TestStatus :=
  match s.status with
  | some st => st
  | none => if s.bool then .passed else .failed

/-! ### tolerance options: `_parse_field_tolerances`, `FieldToleranceMap` -/

/-- what `float(s)` does with a literal (supplied by the harness for the literals that occur):
    `bad` = raises ValueError; `num u` = finite non-negative value of `u` units;
    `exotic` = negative / inf / nan (accepted by the code, outside the hypotheses of the theorems) -/
inductive FloatLit where
  | bad | num (u : Nat) | exotic
deriving Repr, DecidableEq

/-- a parsed tolerance: plain number or `ScaledTolerance(base)` (`value*max`) -/
inductive TolVal where
  | num (u : Nat)
  | scaled (base : Nat)
deriving Repr, DecidableEq

/-- one `-rtol` / `-atol` argument after the `":" in s` / `s.split(":")` step -/
inductive TolTok where
  | named (name value : String)     -- exactly one ':'
  | unnamed (value : String)        -- no ':'
  | malformed                       -- two or more ':' : tuple unpacking raises ValueError
deriving Repr, DecidableEq

def splitOnChar (c : Char) : List Char → List (List Char)
  | [] => [[]]
  | x :: xs =>
    match splitOnChar c xs with
    | [] => [[]]          -- unreachable (the result is never empty)
    | p :: ps => if x = c then [] :: p :: ps else (x :: p) :: ps

def classifyTok (s : String) : TolTok :=
  match splitOnChar ':' s.toList with
  | [v] => .unnamed (String.ofList v)
  | [n, v] => .named (String.ofList n) (String.ofList v)
  | _ => .malformed

/-- is `pat` a prefix of `l`? -/
def isPrefix (pat : List Char) (l : List Char) : Bool := l.take pat.length == pat

/-- the part of `l` before the first occurrence of `pat`; `none` when `pat` does not occur -/
def beforeFirst (pat : List Char) : List Char → Option (List Char)
  | [] => if pat.isEmpty then some [] else none
  | c :: cs =>
    if isPrefix pat (c :: cs) then some []
    else match beforeFirst pat cs with
      | some r => some (c :: r)
      | none => none

def maxSuffix : List Char := "*max".toList

def endsWith (l pat : List Char) : Bool := isPrefix pat.reverse l.reverse

/-- `_make_tolerance`: `none` = `float()` raises (ValueError escapes from `main`);
    `some none` = exotic literal -/
def makeTolerance (pf : String → FloatLit) (dyn : Bool) (v : String) : Option (Option TolVal) :=
  if dyn && endsWith v.toList maxSuffix then
    -- `tol_string.rsplit("*max")[0]` : the piece before the first occurrence
    match pf (String.ofList ((beforeFirst maxSuffix v.toList).getD [])) with
    | .bad => none
    | .num u => some (some (.scaled u))
    | .exotic => some none
  else
    match pf v with
    | .bad => none
    | .num u => some (some (.num u))
    | .exotic => some none

/-- `FieldToleranceMap`: dict (as an association list, newest binding first) + default -/
structure TolMap where
  named : List (String × TolVal)
  dflt : Option TolVal
deriving Repr, DecidableEq

def TolMap.empty : TolMap := ⟨[], none⟩

/-- `FieldToleranceMap.__call__` -/
def TolMap.get (m : TolMap) (name : String) : Option TolVal :=
  match m.named.lookup name with
  | some v => some v
  | none => m.dflt

inductive ParseRes where
  | ok (m : TolMap) (exotic : Bool)
  | raised
deriving Repr, DecidableEq

/-- the loop of `_parse_field_tolerances` over the argument strings (`m` = state so far) -/
def parseLoop (pf : String → FloatLit) (dyn : Bool) : List String → TolMap → Bool → ParseRes
  | [], m, ex => .ok m ex
  | s :: rest, m, ex =>
    match classifyTok s with
    | .malformed => .raised
    | .named n v =>
      match makeTolerance pf dyn v with
      | none => .raised
      | some none => parseLoop pf dyn rest m true
      | some (some t) => parseLoop pf dyn rest { m with named := (n, t) :: m.named } ex
    | .unnamed v =>
      match makeTolerance pf dyn v with
      | none => .raised
      | some none => parseLoop pf dyn rest m true
      | some (some t) => parseLoop pf dyn rest { m with dflt := some t } ex

/-- `_parse_field_tolerances(args.get(...), allow_dynamic_tolerances=dyn)`; `none` = option absent -/
def parseTols (pf : String → FloatLit) (dyn : Bool) (toks : Option (List String)) : ParseRes :=
  match toks with
  | none => .ok TolMap.empty false
  | some l => parseLoop pf dyn l TolMap.empty false

/-! ### field names -/

def annoSep : List Char := Gen.cliAnnotationSep.toList

/-- the part before the *last* occurrence of the separator (`text.rsplit(" @ ", 1)[0]`) -/
def stripLast (sep : List Char) : List Char → Option (List Char)
  | [] => none
  | c :: cs =>
    match stripLast sep cs with
    | some r => some (c :: r)
    | none => if isPrefix sep (c :: cs) then some [] else none

/-- `_format.remove_annotation` -/
def removeAnnotation (name : String) : String :=
  match stripLast annoSep name.toList with
  | some r => String.ofList r
  | none => name

/-! ### fields, matching, per-field verdict -/

structure Field where
  name : String
  values : NdArr
deriving Repr, DecidableEq

/-- first element satisfying `p`, removed from the list -/
def removeFirst {α} (p : α → Bool) : List α → Option (α × List α)
  | [] => none
  | x :: xs =>
    if p x then some (x, xs)
    else match removeFirst p xs with
      | some (y, r) => some (y, x :: r)
      | none => none

/-- `_matching.find_matches` with the name predicate: (matches, orphans in source, orphans in reference) -/
def findMatches : List Field → List Field → List (Field × Field) × List Field × List Field
  | [], ref => ([], [], ref)
  | s :: src, ref =>
    match removeFirst (fun t => t.name == s.name) ref with
    | some (t, ref') =>
      let r := findMatches src ref'
      ((s, t) :: r.1, r.2.1, r.2.2)
    | none =>
      let r := findMatches src ref
      (r.1, s :: r.2.1, r.2.2)

/-- options of one comparison after argument processing -/
structure Opts where
  ignSrc : Bool
  ignRef : Bool
  ignSeq : Bool
  forceSeq : Bool
  disableReorder : Bool
  rtol : TolMap
  atol : TolMap
  /-- `--include-fields`: `none` = option absent (include all); `some l` = the bare names matched by a pattern -/
  incl : Option (List String)
  /-- `--exclude-fields` likewise (absent = exclude nothing) -/
  excl : Option (List String)
deriving Repr

def Opts.included (o : Opts) (bare : String) : Bool :=
  match o.incl with
  | none => true
  | some l => l.contains bare

def Opts.excluded (o : Opts) (bare : String) : Bool :=
  match o.excl with
  | none => false
  | some l => l.contains bare

/-- `_filter_matches`: a match is compared iff included and not excluded (name without annotation) -/
def Opts.selected (o : Opts) (name : String) : Bool :=
  o.included (removeAnnotation name) && !o.excluded (removeAnnotation name)

/-- relative tolerance handed to `DefaultEquality` by `_select_predicate` -/
def relTolOf : Option TolVal → Tol
  | some (.num u) => .num u
  | some (.scaled b) => .scaled (some b)      -- not producible for -rtol (no dynamic tolerances there)
  | none => .dflt                             -- `_default_base_tolerance()`

/-- absolute tolerance handed to `DefaultEquality` by `_select_predicate` -/
def absTolOf : Option TolVal → Tol
  | some (.num u) => .num u
  | some (.scaled b) => .scaled (some b)
  | none => .num 0

def verdictStatus : Verdict → FcStatus
  | .ok true => .passed
  | .ok false => .failed
  | .err => .error          -- any exception of the predicate is caught in `_compare_matches`

/-- verdict of `DefaultEquality(rel ?? default, abs ?? 0.0)` on one matched pair, given the two
    entries of the tolerance maps that apply to the field -/
def fieldVerdict (rel abs : Option TolVal) (s t : Field) : FcStatus :=
  verdictStatus (defaultCheck (relTolOf rel) (absTolOf abs) s.values t.values)

/-- `_select_predicate` + `_perform_comparison` on one matched pair (the maps are asked for the
    name *without* annotation) -/
def fieldStatus (o : Opts) (s t : Field) : FcStatus :=
  fieldVerdict (o.rtol.get (removeAnnotation s.name)) (o.atol.get (removeAnnotation s.name)) s t

/-- `FieldDataComparator.__call__` after a successful domain check: the reported comparisons
    (compared matches, missing sources, missing references, filtered; the regrouping
    failed/passed/skipped of `FieldComparisonSuite` only changes the order and is not modelled) -/
def compareFields (o : Opts) (src ref : List Field) : List (String × FcStatus) :=
  let r := findMatches src ref
  (r.1.filter fun m => o.selected m.1.name).map (fun m => (m.1.name, fieldStatus o m.1 m.2))
    ++ r.2.2.map (fun t => (t.name, FcStatus.missingSource))
    ++ r.2.1.map (fun s => (s.name, FcStatus.missingReference))
    ++ (r.1.filter fun m => !o.selected m.1.name).map (fun m => (m.1.name, FcStatus.filtered))

/-- `_to_test_suite` -/
def toTestSuite (o : Opts) (cs : List (String × FcStatus)) : Suite :=
  ⟨cs.map fun c => ⟨c.1, parseStatus o.ignSrc o.ignRef c.2⟩, none⟩

/-! ### domains -/

/-- what the comparison sees of the two domains of one pair of data sets -/
inductive DomainPair where
  /-- two tables: numbers of rows -/
  | tables (nRes nRef : Nat)
  /-- two meshes: point arrays *aligned by the ground-truth relabeling*, whether the cells agree
      after that alignment, whether the stored orders are identical, and the smallest distance
      between two distinct points (only used by the hypothesis `meshHyp`) -/
  | meshes (ptsRes ptsRef : NdArr) (topoSame storageSame : Bool) (minSep : Nat)
  /-- a table against a mesh: `Table.equals(Mesh)` / `mesh_equal(Mesh, Table)` raise AttributeError -/
  | mixedKinds
deriving Repr

structure PairData where
  dom : DomainPair
  res : List Field
  ref : List Field
deriving Repr

/-- `Mesh.set_tolerances` / `Mesh.__init__`: absolute tolerance of one mesh, given the entry of the
    absolute-tolerance map for the key `"domain"` -/
def meshAbsTol (absDom : Option TolVal) (pts : NdArr) : Option Nat :=
  match absDom with
  | none => rndMag f64 (maxAbsUnits pts * Gen.cliMeshDefaultRelTol) UNIT
  | some (.num u) => some u
  | some (.scaled b) => if pts.data.isEmpty then none else rndMag f64 (b * maxAbsUnits pts) UNIT

def meshRelTol (relDom : Option TolVal) : Nat :=
  match relDom with
  | some (.num u) => u
  | some (.scaled b) => b        -- not producible
  | none => Gen.cliMeshDefaultRelTol

/-- verdict of the domain check of `MeshFieldsComparator` / `FieldDataComparator` for a mesh pair
    (inside `meshHyp`: the reordering ladder aligns the two meshes iff they are relabelings);
    `mesh_equal` uses the smaller of the two meshes' tolerances -/
def meshDomainEq (disableReorder : Bool) (relDom absDom : Option TolVal) (pr pf : NdArr)
    (topoSame storageSame : Bool) : Bool :=
  match meshAbsTol absDom pr, meshAbsTol absDom pf with
  | some a1, some a2 =>
    (storageSame || !disableReorder) && topoSame &&
      (fuzzyCheck (.num (meshRelTol relDom)) (.num (min a1 a2)) pr pf == .ok true)
  | _, _ => false

/-- `_set_mesh_tolerances`: both maps are asked for the key `"domain"`; the *global* (unnamed)
    tolerance therefore leaks to the mesh through `FieldToleranceMap`'s fallback -/
def domainKey : String := "domain"

inductive CmpRes where
  | suite (s : Suite)
  | exc                           -- an exception other than IOError propagates to `_run`
deriving Repr, DecidableEq

/-- `_compare_field_data` / `_compare_mesh_field_data` -/
def compareFieldData (o : Opts) (p : PairData) : CmpRes :=
  match p.dom with
  | .mixedKinds => .exc
  | .tables n m =>
    if n = m then .suite (toTestSuite o (compareFields o p.res p.ref))
    else .suite ⟨[], some .failed⟩
  | .meshes pr pf topo stor _ =>
    if meshDomainEq o.disableReorder (o.rtol.get domainKey) (o.atol.get domainKey) pr pf topo stor then .suite (toTestSuite o (compareFields o p.res p.ref))
    else .suite ⟨[], some .failed⟩

/-! ### sequences -/

/-- `_merged_result` (called with the `status` *properties*, which are never `None`) -/
def mergedResult (r1 r2 : TestStatus) : Option TestStatus :=
  if r1 = .failed ∨ r2 = .failed then some .failed
  else if r1 = .error ∨ r2 = .error then some .error
  else if r1 = .skipped ∨ r2 = .skipped then some .skipped
  else none

/-- `_merge_test_suites` -/
def mergeSuites (s1 s2 : Suite) : Suite :=
  ⟨s1.tests ++ s2.tests, mergedResult s1.statusProp s2.statusProp⟩

/-- the loop over the zipped steps -/
def seqLoop (o : Opts) : List PairData → Suite → CmpRes
  | [], acc => .suite acc
  | p :: ps, acc =>
    match compareFieldData o p with
    | .exc => .exc
    | .suite s => seqLoop o ps (mergeSuites acc s)

/-- `_compare_field_sequences`; `steps` = the step pairs in order (at least `min nRes nRef` of them) -/
def compareSequences (o : Opts) (nRes nRef : Nat) (steps : List PairData) : CmpRes :=
  if nRes ≠ nRef ∧ !o.ignSeq ∧ !o.forceSeq then .suite ⟨[], some .failed⟩
  else
    let numStepsCheck : Option TestStatus := if nRes ≠ nRef ∧ !o.ignSeq then some .failed else none
    seqLoop o (steps.take (min nRes nRef)) ⟨[], numStepsCheck⟩

/-! ### file mode -/

inductive ReadOutcome where
  | ok | ioerror | exception
deriving Repr, DecidableEq

inductive Payload where
  | single (p : PairData)
  | seqs (nRes nRef : Nat) (steps : List PairData)
  | mixed                          -- a sequence against a single data set: ValueError
deriving Repr

structure Scenario where
  rtolToks : Option (List String)
  atolToks : Option (List String)
  ignSrc : Bool
  ignRef : Bool
  ignSeq : Bool
  forceSeq : Bool
  disableReorder : Bool
  incl : Option (List String)
  excl : Option (List String)
  readRes : ReadOutcome
  readRef : ReadOutcome
  payload : Payload
  /-- `Path(res_file).parts` -/
  nameParts : List String
deriving Repr

inductive ExitOutcome where
  | exit (n : Int)
  | raisedOut                       -- an exception leaves `main` (argument processing precedes the try)
deriving Repr, DecidableEq

/-- `_suite_name` on the path components -/
def suiteName (parts : List String) : String :=
  match parts with
  | [] => ""
  | [p] => p
  | _ :: rest => "/".intercalate rest

/-- result of the body of the `try` in `_run`: the suite (→ exit code and report) or an exception -/
def runComparison (o : Opts) (s : Scenario) : CmpRes :=
  match s.readRes with
  | .ioerror => .suite ⟨[], some .error⟩
  | .exception => .exc
  | .ok =>
    match s.readRef with
    | .ioerror => .suite ⟨[], some .error⟩
    | .exception => .exc
    | .ok =>
      match s.payload with
      | .single p => compareFieldData o p
      | .seqs n m steps => compareSequences o n m steps
      | .mixed => .exc

/-- the options object, `none` when a tolerance argument makes `_parse_field_tolerances` raise -/
def mkOpts (pf : String → FloatLit) (s : Scenario) : Option Opts :=
  match parseTols pf false s.rtolToks, parseTols pf true s.atolToks with
  | .ok r _, .ok a _ =>
    some ⟨s.ignSrc, s.ignRef, s.ignSeq, s.forceSeq, s.disableReorder, r, a, s.incl, s.excl⟩
  | _, _ => none

/-- `_file_mode._run`: (exit outcome, the suite written to the JUnit report if one is written) -/
def fileMode (pf : String → FloatLit) (s : Scenario) : ExitOutcome × Option Suite :=
  match mkOpts pf s with
  | none => (.raisedOut, none)
  | some o =>
    match runComparison o s with
    | .exc => (.exit (boolToExitCode false), none)
    | .suite su => (.exit (boolToExitCode su.bool), some su)

/-! ### hypotheses under which the model is meant to agree with the code -/

def exoticTols (pf : String → FloatLit) (s : Scenario) : Bool :=
  (match parseTols pf false s.rtolToks with | .ok _ e => e | .raised => false) ||
  (match parseTols pf true s.atolToks with | .ok _ e => e | .raised => false)

def namesNodup (l : List Field) : Bool := (l.map (·.name)).eraseDups.length == l.length

/-- both sides of every matched pair have the same dtype, or one is float and the other a string
    (the latter makes the predicate raise); the numeric model covers nothing else -/
def dtypesOk (src ref : List Field) : Bool :=
  src.all fun s => ref.all fun t =>
    s.name != t.name || s.values.dtype == t.values.dtype ||
      (s.values.dtype.hasFloats && t.values.dtype == .str) || (s.values.dtype == .str && t.values.dtype.hasFloats)

/-- separation hypothesis for a mesh pair: every coordinate difference is either far below or far
    above the effective tolerance, and the tolerance is far below the smallest point distance -/
def meshHyp (relDom absDom : Option TolVal) (pr pf : NdArr) (minSep : Nat) : Bool :=
  match meshAbsTol absDom pr, meshAbsTol absDom pf with
  | some a1, some a2 =>
    let a := min a1 a2
    let rel := meshRelTol relDom
    pr.dtype == .flt f64 && pf.dtype == .flt f64 && pr.shape == pf.shape &&
    (List.range pr.data.length).all (fun i =>
      let x := pr.data.getD i 0
      let y := pf.data.getD i 0
      let d := (x - y).natAbs
      -- threshold · 2^UNIT, exact
      let thr := max (max x.natAbs y.natAbs * rel) (a * 2 ^ UNIT)
      d == 0 || 8 * d * 2 ^ UNIT ≤ thr || 8 * thr ≤ d * 2 ^ UNIT) &&
    8 * max (a * 2 ^ UNIT) (max (maxAbsUnits pr) (maxAbsUnits pf) * rel) ≤ minSep * 2 ^ UNIT
  | _, _ => false

def pairHyp (o : Opts) (p : PairData) : Bool :=
  namesNodup p.res && namesNodup p.ref && dtypesOk p.res p.ref &&
  (match p.dom with
   | .meshes pr pf _ _ ms => meshHyp (o.rtol.get domainKey) (o.atol.get domainKey) pr pf ms
   | _ => true)

def scenarioHyp (pf : String → FloatLit) (s : Scenario) : Bool :=
  !exoticTols pf s &&
  (match mkOpts pf s with
   | none => true
   | some o =>
     match s.payload with
     | .single p => pairHyp o p
     | .seqs n m steps => 0 < n && 0 < m && min n m ≤ steps.length && steps.all (pairHyp o)
     | .mixed => true)

end Fc.C04
