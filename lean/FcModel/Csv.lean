/-
  FcModel.Csv — token-level model of the CSV writer `fieldcompare.io._write_table` and of the line /
  column splitting done by the reader (`CSVFieldReader.read` → `np.genfromtxt(delimiter=",", names=True)`).
  Work package C13 (also used by the C18 decision model).

  A token is the text `str(value)` of one cell (or a column name) as a list of character codes.
  Converting numbers to tokens and back (`str(float)` / `float(str)`, `int`) is CPython/numpy and
  trusted; so is numpy's treatment of names and of special characters (`#`, quotes, blanks): the
  hypothesis of the round-trip theorem excludes the characters the token level itself cannot carry.
-/
namespace Fc.W

abbrev Token := List Nat

/-- `sep.join(tokens)` -/
def joinWith (sep : Nat) : List Token → List Nat
  | [] => []
  | [t] => t
  | t :: r => t ++ sep :: joinWith sep r

/-- `_write_table`: header line, then one line per row, each terminated by a newline -/
def csvWrite (names : List Token) (rows : List (List Token)) : List Nat :=
  (joinWith 44 names ++ [10]) ++ rows.flatMap fun r => joinWith 44 r ++ [10]

/-- `text.split(sep)`: always at least one piece -/
def splitOn (sep : Nat) : List Nat → List Token
  | [] => [[]]
  | c :: r =>
    if c = sep then [] :: splitOn sep r
    else match splitOn sep r with
      | t :: ts => (c :: t) :: ts
      | [] => [[c]]

/-- line and column splitting of `genfromtxt`: empty lines are skipped, the first line gives the
    names, every other line must have as many columns as the header (`none` = ValueError) -/
def csvRead (text : List Nat) : Option (List Token × List (List Token)) :=
  match (splitOn 10 text).filter (fun l => !l.isEmpty) with
  | [] => none
  | h :: rs =>
    let names := splitOn 44 h
    let rows := rs.map (splitOn 44)
    if rows.all (fun r => r.length == names.length) then some (names, rows) else none

/-- a token the CSV text can carry: non-empty, no delimiter, no newline -/
def tokenOk (t : Token) : Bool := !t.isEmpty && t.all fun c => c != 44 && c != 10

/-- hypothesis of the CSV round trip: at least one column, rectangular, carriable tokens -/
def csvHyp (names : List Token) (rows : List (List Token)) : Bool :=
  !names.isEmpty && names.all tokenOk && rows.all fun r => r.length == names.length && r.all tokenOk

end Fc.W
