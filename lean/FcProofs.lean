import FcProofs.Lemmas.Rounding
import FcProofs.Lemmas.Shapes
import FcProofs.Lemmas.Fuzzy
import FcProofs.Props.C01
import FcProofs.Witness.C01
