import FcGen.Tables
