/-- translated from the source text of `fieldcompare/predicates/_predicates.py: _reshape` -/
def c01ReshapeSrc : Fc.PyLite.Fn := {
  name := "_reshape"
  params := ["v0", "v1"]
  body := [
    .assign "v0" (.ext "as_array" [(.var "v0")]),
    .assign "v1" (.ext "as_array" [(.var "v1")]),
    .assign "v2" (.call .len [(.attr (.var "v0") "shape")]),
    .assign "v3" (.call .len [(.attr (.var "v1") "shape")]),
    .ite (.and (.cmp .eq (.var "v2") (.bin .add (.var "v3") (.lit (.int 1)))) (.cmp .eq (.index (.attr (.var "v0") "shape") (.lit (.int (-1)))) (.lit (.int 1)))) [
      .assign "v1" (.ext ".reshape*" [(.var "v1"), (.bin .add (.attr (.var "v1") "shape") (.tuple [(.lit (.int 1))]))])
    ] [],
    .ite (.and (.cmp .eq (.var "v3") (.bin .add (.var "v2") (.lit (.int 1)))) (.cmp .eq (.index (.attr (.var "v1") "shape") (.lit (.int (-1)))) (.lit (.int 1)))) [
      .assign "v0" (.ext ".reshape*" [(.var "v0"), (.bin .add (.attr (.var "v0") "shape") (.tuple [(.lit (.int 1))]))])
    ] [],
    .ret (.tuple [(.var "v0"), (.var "v1")])
  ] }
