/-- translated from the source text of `fieldcompare/predicates/_predicates.py: DefaultEquality.__call__` -/
def c09DefaultEqualityCallSrc : Fc.PyLite.Fn := {
  name := "DefaultEquality.__call__"
  params := ["v0", "v1", "v2"]
  body := [
    .assign "v1" (.ext "as_array" [(.var "v1")]),
    .assign "v2" (.ext "as_array" [(.var "v2")]),
    .ite (.or (.ext "has_floats" [(.var "v1")]) (.ext "has_floats" [(.var "v2")])) [
      .ret (.ext "FuzzyEquality.__call__" [(.var "v0"), (.var "v1"), (.var "v2")])
    ] [],
    .ret (.ext "ExactEquality()" [(.var "v1"), (.var "v2")])
  ] }
