/-- Base64Encoder.encoded_bytes, translated from the source text (`//` = floor division) -/
def encodedBytesB64 (n : Int) : Int := ((-(Int.fdiv (-n) (3 : Int))) * (4 : Int))
/-- NoEncoder.encoded_bytes -/
def encodedBytesRaw (n : Int) : Int := n
/-- _VTK_TYPE_TO_DTYPE: (VTK name, kind i/u/f, item size in bytes) -/
def vtkTypes : List (String × String × Nat) := [("Int8", "i", 1), ("Int16", "i", 2), ("Int32", "i", 4), ("Int64", "i", 8), ("UInt8", "u", 1), ("UInt16", "u", 2), ("UInt32", "u", 4), ("UInt64", "u", 8), ("Float32", "f", 4), ("Float64", "f", 8)]
/-- per value reader of VTKXMLReader (ascii / inline binary / appended): does the dtype handed to numpy
    depend on the file's byte_order attribute?  (from the source text, helper methods followed) -/
def vtkDtypeByteOrder : List (String × Bool) := [("ascii", false), ("binary", true), ("appended", true)]
