/-- translated from the source text of `fieldcompare/mesh/_mesh_fields_comparator.py: MeshFieldsComparator.__call__` -/
def c02oLadderCallSrc : Fc.PyLite.Fn := {
  name := "MeshFieldsComparator.__call__"
  params := ["v0", "v1", "v2", "v3"]
  body := [
    .assign "v1" (.or (.var "v1") (.ext "closure#0" [])),
    .assign "v2" (.or (.var "v2") (.ext "DefaultFieldComparisonCallback" [])),
    .assign "v4" (.ext "._run_comparison" [(.var "v0"), (.var "v1"), (.var "v2")]),
    .ite (.attr (.var "v4") "domain_equality_check") [
      .ret (.var "v4")
    ] [],
    .assign "v5" (.index (.attr (.attr (.attr (.attr (.var "v0") "_source") "domain") "points") "shape") (.lit (.int 1))),
    .assign "v6" (.index (.attr (.attr (.attr (.attr (.var "v0") "_reference") "domain") "points") "shape") (.lit (.int 1))),
    .ite (.and (.cmp .ne (.var "v5") (.var "v6")) (.not (.attr (.var "v0") "_disable_space_dimension_matching"))) [
      .yield (.ext "call" [(.var "v3"), (.ext "._mesh_fail_msg" [(.var "v0"), (.attr (.attr (.var "v4") "domain_equality_check") "report"), (.lit (.str "extended points"))])]),
      .assign "v7" (.call .max [(.var "v5"), (.var "v6")]),
      .setAttr "v0" "_source" (.ext "extend_space_dimension_to" [(.var "v7"), (.attr (.var "v0") "_source")]),
      .setAttr "v0" "_reference" (.ext "extend_space_dimension_to" [(.var "v7"), (.attr (.var "v0") "_reference")]),
      .assign "v4" (.ext "._run_comparison" [(.var "v0"), (.var "v1"), (.var "v2")]),
      .ite (.attr (.var "v4") "domain_equality_check") [
        .ret (.var "v4")
      ] []
    ] [],
    .ite (.and (.not (.attr (.var "v0") "_disable_mesh_reordering")) (.and (.ext "isinstance" [(.attr (.attr (.var "v0") "_source") "domain"), (.attr (.ext "global mesh_protocols" []) "StructuredMesh")]) (.ext "isinstance" [(.attr (.attr (.var "v0") "_reference") "domain"), (.attr (.ext "global mesh_protocols" []) "StructuredMesh")]))) [
      .yield (.ext "call" [(.var "v3"), (.lit (.str "Skipping mesh reordering because both meshes are structured"))])
    ] [
      .ite (.not (.attr (.var "v0") "_disable_mesh_reordering")) [
        .yield (.ext "call" [(.var "v3"), (.ext "._mesh_fail_msg" [(.var "v0"), (.attr (.attr (.var "v4") "domain_equality_check") "report"), (.lit (.str "sorted points"))])]),
        .assign "v8" (.attr (.var "v0") "_source"),
        .inlineCall "v9" [
          .ite (.not (.attr (.var "v0") "_disable_orphan_point_removal")) [
            .assign "v8" (.ext "strip_orphan_points" [(.var "v8")])
          ] [],
          .ret (.ext "sort_points" [(.var "v8")])
        ],
        .setAttr "v0" "_source" (.var "v9"),
        .assign "v8" (.attr (.var "v0") "_reference"),
        .inlineCall "v10" [
          .ite (.not (.attr (.var "v0") "_disable_orphan_point_removal")) [
            .assign "v8" (.ext "strip_orphan_points" [(.var "v8")])
          ] [],
          .ret (.ext "sort_points" [(.var "v8")])
        ],
        .setAttr "v0" "_reference" (.var "v10"),
        .assign "v4" (.ext "._run_comparison" [(.var "v0"), (.var "v1"), (.var "v2")]),
        .ite (.attr (.var "v4") "domain_equality_check") [
          .ret (.var "v4")
        ] [],
        .yield (.ext "call" [(.var "v3"), (.ext "._mesh_fail_msg" [(.var "v0"), (.attr (.attr (.var "v4") "domain_equality_check") "report"), (.lit (.str "sorted cells"))])]),
        .setAttr "v0" "_source" (.ext "sort_cells" [(.attr (.var "v0") "_source")]),
        .setAttr "v0" "_reference" (.ext "sort_cells" [(.attr (.var "v0") "_reference")]),
        .assign "v4" (.ext "._run_comparison" [(.var "v0"), (.var "v1"), (.var "v2")])
      ] []
    ],
    .ite (.not (.attr (.var "v4") "domain_equality_check")) [
      .yield (.ext "call" [(.var "v3"), (.ext "._mesh_fail_msg" [(.var "v0"), (.attr (.attr (.var "v4") "domain_equality_check") "report")])])
    ] [],
    .ret (.var "v4")
  ] }
