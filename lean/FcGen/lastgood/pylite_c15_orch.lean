/-- translated from the source text of `fieldcompare/_field_sequence.py: FieldDataSequence.__init__` -/
def c15oSeqInitSrc : Fc.PyLite.Fn := {
  name := "FieldDataSequence.__init__"
  params := ["v0"]
  body := [
    .assign "v1" (.var "v0"),
    .assign "v2" (.lit (.dict [])),
    .setIndex "v2" (.lit (.str "_source")) (.var "v1"),
    .ret (.var "v2")
  ] }

/-- translated from the source text of `fieldcompare/_field_sequence.py: FieldDataSequence.number_of_steps` -/
def c15oSeqNumStepsSrc : Fc.PyLite.Fn := {
  name := "FieldDataSequence.number_of_steps"
  params := ["v0"]
  body := [
    .ret (.attr (.attr (.var "v0") "_source") "number_of_steps")
  ] }

/-- translated from the source text of `fieldcompare/_field_sequence.py: FieldDataSequence.__iter__` -/
def c15oSeqIterSrc : Fc.PyLite.Fn := {
  name := "FieldDataSequence.__iter__"
  params := ["v0"]
  body := [
    .assign "v1" (.ext ".reset!" [(.attr (.var "v0") "_source")]),
    .setAttr "v0" "_source" (.index (.var "v1") (.lit (.int 1))),
    .assign "v2" (.ext ".get!" [(.attr (.var "v0") "_source")]),
    .setAttr "v0" "_source" (.index (.var "v2") (.lit (.int 1))),
    .yield (.index (.var "v2") (.lit (.int 0))),
    .assign "v3" (.ext ".step!" [(.attr (.var "v0") "_source")]),
    .setAttr "v0" "_source" (.index (.var "v3") (.lit (.int 1))),
    .assign "v4" (.index (.var "v3") (.lit (.int 0))),
    .whileF (.ext "while-fuel" []) (.var "v4") [
      .assign "v5" (.ext ".get!" [(.attr (.var "v0") "_source")]),
      .setAttr "v0" "_source" (.index (.var "v5") (.lit (.int 1))),
      .yield (.index (.var "v5") (.lit (.int 0))),
      .assign "v3" (.ext ".step!" [(.attr (.var "v0") "_source")]),
      .setAttr "v0" "_source" (.index (.var "v3") (.lit (.int 1))),
      .assign "v4" (.index (.var "v3") (.lit (.int 0)))
    ]
  ] }

/-- translated from the source text of `fieldcompare/_cli/_file_comparison.py: FileComparison._compare_field_sequences._merge_test_suites._merged_result` -/
def c15oMergedResultSrc : Fc.PyLite.Fn := {
  name := "FileComparison._compare_field_sequences._merge_test_suites._merged_result"
  params := ["v0", "v1"]
  body := [
    .ite (.cmp .isIn (.lit (.enum "TestStatus" "failed")) (.tuple [(.var "v0"), (.var "v1")])) [
      .ret (.lit (.enum "TestStatus" "failed"))
    ] [],
    .ite (.cmp .isIn (.lit (.enum "TestStatus" "error")) (.tuple [(.var "v0"), (.var "v1")])) [
      .ret (.lit (.enum "TestStatus" "error"))
    ] [],
    .ret (.ite (.cmp .isIn (.lit (.enum "TestStatus" "skipped")) (.tuple [(.var "v0"), (.var "v1")])) (.lit (.enum "TestStatus" "skipped")) (.lit .none))
  ] }

/-- translated from the source text of `fieldcompare/_cli/_file_comparison.py: FileComparison._compare_field_sequences._merge_test_suites` -/
def c15oMergeTestSuitesSrc : Fc.PyLite.Fn := {
  name := "FileComparison._compare_field_sequences._merge_test_suites"
  params := ["v0", "v1", "v2"]
  body := [
    .callFn "v3" c15oMergedResultSrc.params c15oMergedResultSrc.body [(.attr (.var "v0") "status"), (.attr (.var "v1") "status")],
    .ret (.ext "_make_test_suite(name=,shortlog=,status=,tests=)" [(.lit .none), (.bin .add (.attr (.var "v0") "shortlog") (.ite (.attr (.var "v0") "shortlog") (.lit (.str "<f-string>")) (.lit (.str "<f-string>")))), (.var "v3"), (.bin .add (.call .list [(.var "v0")]) (.call .list [(.var "v1")]))])
  ] }

/-- translated from the source text of `fieldcompare/_cli/_file_comparison.py: FileComparison._compare_field_sequences` -/
def c15oCompareSequencesSrc : Fc.PyLite.Fn := {
  name := "FileComparison._compare_field_sequences"
  params := ["v0", "v1", "v2", "v3"]
  body := [
    .assign "v4" (.lit .none),
    .assign "v5" (.lit (.str "Sequences have differing lengths")),
    .ite (.cmp .ne (.attr (.var "v1") "number_of_steps") (.attr (.var "v2") "number_of_steps")) [
      .ite (.not (.attr (.attr (.var "v0") "_opts") "ignore_missing_sequence_steps")) [
        .assign "v4" (.lit (.enum "TestStatus" "failed")),
        .yield (.ext ".log" [(.attr (.var "v0") "_logger"), (.lit (.str "<f-string>"))]),
        .ite (.not (.attr (.attr (.var "v0") "_opts") "force_sequence_comparison")) [
          .ret (.ext "_make_test_suite(name=,shortlog=,status=,tests=)" [(.lit .none), (.var "v5"), (.lit (.enum "TestStatus" "failed")), (.tuple [])])
        ] []
      ] [
        .yield (.ext ".log" [(.attr (.var "v0") "_logger"), (.lit (.str "<f-string>"))])
      ]
    ] [],
    .assign "v6" (.ext "_make_test_suite(name=,shortlog=,status=,tests=)" [(.lit (.str "")), (.lit (.str "")), (.var "v4"), (.tuple [])]),
    .assign "v7" (.call .min [(.attr (.var "v1") "number_of_steps"), (.attr (.var "v2") "number_of_steps")]),
    .assign "v8" (.lit (.int 0)),
    .forIn "v9" (.call .zip [(.var "v1"), (.var "v2")]) [
      .assign "v10" (.var "v8"),
      .assign "v8" (.bin .add (.var "v8") (.lit (.int 1))),
      .unpack ["v11", "v12"] (.var "v9"),
      .yield (.ext ".log(verbosity_level=)" [(.attr (.var "v0") "_logger"), (.lit (.str "<f-string>")), (.lit (.int 1))]),
      .assign "v13" (.ext "._compare_field_data" [(.var "v0"), (.var "v11"), (.var "v12")]),
      .ite (.cmp .isNot (.var "v3") (.lit .none)) [
        .yield (.ext "._write_diff_file" [(.var "v0"), (.lit (.str "<f-string>")), (.var "v11"), (.var "v12")])
      ] [],
      .callFn "v6" c15oMergeTestSuitesSrc.params c15oMergeTestSuitesSrc.body [(.var "v6"), (.var "v13"), (.var "v10")]
    ],
    .ret (.var "v6")
  ] }
