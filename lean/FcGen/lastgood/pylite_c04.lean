/-- translated from the source text of `fieldcompare/_cli/_common.py: _bool_to_exit_code` -/
def c04BoolToExitCodeSrc : Fc.PyLite.Fn := {
  name := "_bool_to_exit_code"
  params := ["v0"]
  body := [
    .ret (.call .int [(.not (.var "v0"))])
  ] }

/-- translated from the source text of `fieldcompare/_cli/_file_comparison.py: FileComparison._parse_status` -/
def c04ParseStatusSrc : Fc.PyLite.Fn := {
  name := "FileComparison._parse_status"
  params := ["v0", "v1"]
  body := [
    .ite (.cmp .eq (.var "v1") (.lit (.enum "FieldComparisonStatus" "passed"))) [
      .ret (.lit (.enum "TestStatus" "passed"))
    ] [],
    .ite (.cmp .eq (.var "v1") (.lit (.enum "FieldComparisonStatus" "failed"))) [
      .ret (.lit (.enum "TestStatus" "failed"))
    ] [],
    .ite (.cmp .eq (.var "v1") (.lit (.enum "FieldComparisonStatus" "error"))) [
      .ret (.lit (.enum "TestStatus" "error"))
    ] [],
    .ite (.and (.cmp .eq (.var "v1") (.lit (.enum "FieldComparisonStatus" "missing_reference"))) (.not (.attr (.attr (.var "v0") "_opts") "ignore_missing_reference_fields"))) [
      .ret (.lit (.enum "TestStatus" "failed"))
    ] [],
    .ite (.and (.cmp .eq (.var "v1") (.lit (.enum "FieldComparisonStatus" "missing_source"))) (.not (.attr (.attr (.var "v0") "_opts") "ignore_missing_source_fields"))) [
      .ret (.lit (.enum "TestStatus" "failed"))
    ] [],
    .ret (.lit (.enum "TestStatus" "skipped"))
  ] }

/-- translated from the source text of `fieldcompare/_cli/_test_suite.py: TestStatus.__bool__` -/
def c04TestStatusBoolSrc : Fc.PyLite.Fn := {
  name := "TestStatus.__bool__"
  params := ["v0"]
  body := [
    .ret (.cmp .notIn (.var "v0") (.tuple [(.lit (.enum "TestStatus" "failed")), (.lit (.enum "TestStatus" "error"))]))
  ] }

/-- translated from the source text of `fieldcompare/_cli/_test_suite.py: TestSuite.__bool__` -/
def c04TestSuiteBoolSrc : Fc.PyLite.Fn := {
  name := "TestSuite.__bool__"
  params := ["v0"]
  body := [
    .ite (.cmp .isNot (.attr (.var "v0") "_status") (.lit .none)) [
      .ret (.cmp .notIn (.attr (.var "v0") "_status") (.tuple [(.lit (.enum "TestStatus" "failed")), (.lit (.enum "TestStatus" "error"))]))
    ] [],
    .ret (.allOf "v1" (.attr (.var "v0") "_tests") (.cmp .notIn (.attr (.var "v1") "status") (.tuple [(.lit (.enum "TestStatus" "failed")), (.lit (.enum "TestStatus" "error"))])))
  ] }

/-- translated from the source text of `fieldcompare/_cli/_test_suite.py: TestSuite.status` -/
def c04TestSuiteStatusSrc : Fc.PyLite.Fn := {
  name := "TestSuite.status"
  params := ["v0"]
  body := [
    .ite (.cmp .isNot (.attr (.var "v0") "_status") (.lit .none)) [
      .ret (.attr (.var "v0") "_status")
    ] [],
    .ret (.ite (.var "v0") (.lit (.enum "TestStatus" "passed")) (.lit (.enum "TestStatus" "failed")))
  ] }

/-- translated from the source text of `fieldcompare/_cli/_file_comparison.py: FileComparison._compare_field_sequences._merge_test_suites._merged_result` -/
def c04MergedResultSrc : Fc.PyLite.Fn := {
  name := "FileComparison._compare_field_sequences._merge_test_suites._merged_result"
  params := ["v0", "v1"]
  body := [
    .ite (.anyOf "v2" (.tuple [(.var "v0"), (.var "v1")]) (.cmp .eq (.var "v2") (.lit (.enum "TestStatus" "failed")))) [
      .ret (.lit (.enum "TestStatus" "failed"))
    ] [],
    .ite (.anyOf "v2" (.tuple [(.var "v0"), (.var "v1")]) (.cmp .eq (.var "v2") (.lit (.enum "TestStatus" "error")))) [
      .ret (.lit (.enum "TestStatus" "error"))
    ] [],
    .ite (.anyOf "v2" (.tuple [(.var "v0"), (.var "v1")]) (.cmp .eq (.var "v2") (.lit (.enum "TestStatus" "skipped")))) [
      .ret (.lit (.enum "TestStatus" "skipped"))
    ] [],
    .ret (.lit .none)
  ] }
