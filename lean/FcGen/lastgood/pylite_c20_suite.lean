/-- translated from the source text of `fieldcompare/_cli/_test_suite.py: TestSuite.__init__` -/
def c20sInitSrc : Fc.PyLite.Fn := {
  name := "TestSuite.__init__"
  params := ["v0", "v1", "v2", "v3", "v4", "v5"]
  body := [
    .assign "v6" (.var "v0"),
    .assign "v7" (.var "v1"),
    .assign "v8" (.var "v2"),
    .assign "v9" (.var "v3"),
    .assign "v10" (.var "v4"),
    .assign "v11" (.var "v5"),
    .assign "v12" (.lit (.dict [])),
    .setIndex "v12" (.lit (.str "_cpu_time")) (.var "v11"),
    .setIndex "v12" (.lit (.str "_name")) (.var "v7"),
    .setIndex "v12" (.lit (.str "_shortlog")) (.var "v9"),
    .setIndex "v12" (.lit (.str "_status")) (.var "v8"),
    .setIndex "v12" (.lit (.str "_stdout")) (.var "v10"),
    .setIndex "v12" (.lit (.str "_tests")) (.var "v6"),
    .ret (.var "v12")
  ] }

/-- translated from the source text of `fieldcompare/_cli/_test_suite.py: TestSuite.__iter__` -/
def c20sIterSrc : Fc.PyLite.Fn := {
  name := "TestSuite.__iter__"
  params := ["v0"]
  body := [
    .ret (.ext "iter" [(.attr (.var "v0") "_tests")])
  ] }

/-- translated from the source text of `fieldcompare/_cli/_test_suite.py: TestSuite.name` -/
def c20sNameSrc : Fc.PyLite.Fn := {
  name := "TestSuite.name"
  params := ["v0"]
  body := [
    .ret (.ite (.cmp .is (.attr (.var "v0") "_name") (.lit .none)) (.lit (.str "n/a")) (.attr (.var "v0") "_name"))
  ] }

/-- translated from the source text of `fieldcompare/_cli/_test_suite.py: TestSuite.num_tests` -/
def c20sNumTestsSrc : Fc.PyLite.Fn := {
  name := "TestSuite.num_tests"
  params := ["v0"]
  body := [
    .ret (.call .len [(.attr (.var "v0") "_tests")])
  ] }

/-- translated from the source text of `fieldcompare/_cli/_test_suite.py: TestSuite.shortlog` -/
def c20sShortlogSrc : Fc.PyLite.Fn := {
  name := "TestSuite.shortlog"
  params := ["v0"]
  body := [
    .ret (.attr (.var "v0") "_shortlog")
  ] }

/-- translated from the source text of `fieldcompare/_cli/_test_suite.py: TestSuite.stdout` -/
def c20sStdoutSrc : Fc.PyLite.Fn := {
  name := "TestSuite.stdout"
  params := ["v0"]
  body := [
    .ret (.attr (.var "v0") "_stdout")
  ] }

/-- translated from the source text of `fieldcompare/_cli/_test_suite.py: TestSuite.cpu_time` -/
def c20sCpuTimeSrc : Fc.PyLite.Fn := {
  name := "TestSuite.cpu_time"
  params := ["v0"]
  body := [
    .ret (.attr (.var "v0") "_cpu_time")
  ] }

/-- translated from the source text of `fieldcompare/_cli/_test_suite.py: TestSuite.with_overridden` -/
def c20sWithOverriddenSrc : Fc.PyLite.Fn := {
  name := "TestSuite.with_overridden"
  params := ["v0", "v1", "v2", "v3", "v4"]
  body := [
    .ret (.ext "TestSuite(cpu_time=,name=,shortlog=,status=,stdout=,tests=)" [(.ite (.cmp .isNot (.var "v1") (.lit .none)) (.var "v1") (.attr (.var "v0") "_cpu_time")), (.ite (.cmp .isNot (.var "v2") (.lit .none)) (.var "v2") (.attr (.var "v0") "_name")), (.ite (.cmp .isNot (.var "v4") (.lit .none)) (.var "v4") (.attr (.var "v0") "_shortlog")), (.ite (.cmp .isNot (.var "v3") (.lit .none)) (.var "v3") (.attr (.var "v0") "_status")), (.attr (.var "v0") "_stdout"), (.attr (.var "v0") "_tests")])
  ] }
