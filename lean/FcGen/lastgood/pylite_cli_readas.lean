/-- translated from the source text of `fieldcompare/_cli/_common.py: FileTypeMap.__call__` -/
def cliFileTypeMapCallSrc : Fc.PyLite.Fn := {
  name := "FileTypeMap.__call__"
  params := ["v0", "v1"]
  body := [
    .forIn "v2" (.attr (.var "v0") "_mapping") [
      .unpack ["v3", "v4"] (.var "v2"),
      .ite (.ext "call" [(.var "v4"), (.var "v1")]) [
        .ret (.ext "._split_file_type_and_opts" [(.var "v0"), (.var "v3")])
      ] []
    ],
    .ret (.lit .none)
  ] }

/-- translated from the source text of `fieldcompare/_cli/_common.py: _make_file_type_map` -/
def cliMakeFileTypeMapSrc : Fc.PyLite.Fn := {
  name := "_make_file_type_map"
  params := ["v0"]
  body := [
    .ite (.cmp .is (.var "v0") (.lit .none)) [
      .ret (.ext "FileTypeMap" [])
    ] [],
    .assign "v1" (.tuple []),
    .assign "v2" (.tuple []),
    .forIn "v3" (.var "v0") [
      .unpack ["v4", "v5"] (.ext "helper#1" [(.var "v3")]),
      .ite (.cmp .notIn (.var "v4") (.var "v1")) [
        .assign "v1" (.bin .add (.var "v1") (.tuple [(.var "v4")])),
        .assign "v2" (.bin .add (.var "v2") (.tuple [(.tuple [(.var "v5")])]))
      ] [
        .setIndex "v2" (.call .index [(.var "v1"), (.var "v4")]) (.bin .add (.index (.var "v2") (.call .index [(.var "v1"), (.var "v4")])) (.tuple [(.var "v5")]))
      ]
    ],
    .ret (.ext "FileTypeMap(mapping=)" [(.comp "v6" (.call .zip [(.var "v1"), (.var "v2")]) (.tuple [(.index (.var "v6") (.lit (.int 0))), (.ext "PatternFilter(patterns=)" [(.index (.var "v6") (.lit (.int 1)))])]) (.lit (.bool true)))])
  ] }

/-- translated from the source text of `fieldcompare/_cli/_common.py: FileTypeMap.__init__` -/
def cliFileTypeMapInitSrc : Fc.PyLite.Fn := {
  name := "FileTypeMap.__init__"
  params := ["v0"]
  body := [
    .assign "v1" (.or (.var "v0") (.tuple [])),
    .assign "v2" (.lit (.dict [])),
    .setIndex "v2" (.lit (.str "_mapping")) (.var "v1"),
    .ret (.var "v2")
  ] }
