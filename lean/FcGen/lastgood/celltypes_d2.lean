/-- index map of `_cell_type._reorder_quad_pixel` -/
def c07ReorderQuadPixel : List Nat := [0, 1, 3, 2]
/-- index map of `_cell_type._reorder_hex_voxel` -/
def c07ReorderHexVoxel : List Nat := [0, 1, 3, 2, 4, 5, 7, 6]
/-- `_insert_compatibles(a, b)` calls of `_cell_type.py` -/
def c07Compatibles : List (String × String) := [("QUAD", "PIXEL"), ("HEXAHEDRON", "VOXEL")]
/-- `StructuredMesh._cell_type`: list indexed with `dimension - 1` -/
def c07StructuredTypes : List String := ["LINE", "QUAD", "HEXAHEDRON"]
/-- `RectilinearMesh._cell_type` -/
def c07RectilinearTypes : List String := ["LINE", "PIXEL", "VOXEL"]
/-- `ImageMesh._cell_type` -/
def c07ImageTypes : List String := ["LINE", "PIXEL", "VOXEL"]
