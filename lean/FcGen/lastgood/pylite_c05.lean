/-- translated from the source text of `fieldcompare/io/vtk/_encoders.py: Base64Encoder.encoded_bytes` -/
def c05B64EncodedBytesSrc : Fc.PyLite.Fn := {
  name := "Base64Encoder.encoded_bytes"
  params := ["v0", "v1"]
  body := [
    .assign "v1" (.call .int [(.var "v1")]),
    .ret (.bin .mul (.neg (.bin .floordiv (.neg (.var "v1")) (.lit (.int 3)))) (.lit (.int 4)))
  ] }
