/-- translated from the source text of `fieldcompare/mesh/_cell_type.py: CellType.is_compatible_with` -/
def c16IsCompatibleWithSrc : Fc.PyLite.Fn := {
  name := "CellType.is_compatible_with"
  params := ["v0", "v1"]
  body := [
    .ite (.cmp .eq (.attr (.var "v0") "_id") (.attr (.var "v1") "_id")) [
      .ret (.lit (.bool true))
    ] [],
    .ret (.cmp .isIn (.attr (.var "v1") "id") (.call .dictGet [(.ext "global _COMPATIBLES" []), (.attr (.var "v0") "_id"), (.tuple [])]))
  ] }
