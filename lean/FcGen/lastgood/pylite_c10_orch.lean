/-- translated from the source text of `fieldcompare/predicates/_predicates.py: ScaledTolerance.__init__` -/
def c10oScaledInitSrc : Fc.PyLite.Fn := {
  name := "ScaledTolerance.__init__"
  params := ["v0", "v1"]
  body := [
    .assign "v2" (.ite (.cmp .isNot (.var "v0") (.lit .none)) (.ext "as_array" [(.var "v0")]) (.var "v0")),
    .assign "v3" (.var "v1"),
    .assign "v4" (.lit (.dict [])),
    .setIndex "v4" (.lit (.str "_base_tol")) (.var "v2"),
    .setIndex "v4" (.lit (.str "_use_component_magnitudes")) (.var "v3"),
    .ret (.var "v4")
  ] }

/-- translated from the source text of `fieldcompare/predicates/_predicates.py: ScaledTolerance._get_base_tol` -/
def c10oScaledGetBaseTolSrc : Fc.PyLite.Fn := {
  name := "ScaledTolerance._get_base_tol"
  params := ["v0", "v1", "v2"]
  body := [
    .ret (.ite (.cmp .isNot (.attr (.var "v0") "_base_tol") (.lit .none)) (.attr (.var "v0") "_base_tol") (.ext "as_array" [(.ext "_DEFAULT_BASE_TOLERANCE_FUNCTOR" [(.var "v1"), (.var "v2")])]))
  ] }

/-- translated from the source text of `fieldcompare/predicates/_predicates.py: ScaledTolerance.__call__` -/
def c10oScaledCallSrc : Fc.PyLite.Fn := {
  name := "ScaledTolerance.__call__"
  params := ["v0", "v1", "v2"]
  body := [
    .ite (.attr (.var "v0") "_use_component_magnitudes") [
      .ret (.ext "mul" [(.ext "select_max_values" [(.ext "max_abs_element" [(.var "v1")]), (.ext "max_abs_element" [(.var "v2")])]), (.attr (.var "v0") "_base_tol")])
    ] [],
    .callFn "v3" c10oScaledGetBaseTolSrc.params c10oScaledGetBaseTolSrc.body [(.var "v0"), (.var "v1"), (.var "v2")],
    .ret (.ext "mul" [(.var "v3"), (.call .max [(.ext "max_abs_value" [(.var "v1")]), (.ext "max_abs_value" [(.var "v2")])])])
  ] }
