/-- translated from the source text of `fieldcompare/_cli/_junit.py: _as_string_or` -/
def c20oAsStringOrSrc : Fc.PyLite.Fn := {
  name := "_as_string_or"
  params := ["v0", "v1"]
  body := [
    .ret (.ite (.cmp .isNot (.var "v1") (.lit .none)) (.ext "str" [(.var "v1")]) (.var "v0"))
  ] }

/-- translated from the source text of `fieldcompare/_cli/_junit.py: _set_with_message` -/
def c20oSetWithMessageSrc : Fc.PyLite.Fn := {
  name := "_set_with_message"
  params := ["v0", "v1", "v2", "v3"]
  body := [
    .assign "v0" (.ext "SubElement" [(.var "v0"), (.var "v1")]),
    .yield (.ext ".set" [(.var "v0"), (.lit (.str "message")), (.var "v2")]),
    .ite (.cmp .isNot (.var "v3") (.lit .none)) [
      .setAttr "v0" "text" (.var "v3")
    ] []
  ] }

/-- translated from the source text of `fieldcompare/_cli/_junit.py: _add_test_case` -/
def c20oAddTestCaseSrc : Fc.PyLite.Fn := {
  name := "_add_test_case"
  params := ["v0", "v1", "v2"]
  body := [
    .assign "v3" (.ext "SubElement" [(.var "v0"), (.lit (.str "testcase"))]),
    .yield (.ext ".set" [(.var "v3"), (.lit (.str "name")), (.attr (.var "v1") "name")]),
    .yield (.ext ".set" [(.var "v3"), (.lit (.str "classname")), (.var "v2")]),
    .yield (.ext ".set" [(.var "v3"), (.lit (.str "status")), (.ext ".replace" [(.ext "str" [(.attr (.var "v1") "status")]), (.lit (.str "TestStatus.")), (.lit (.str ""))])]),
    .callFn "v4" c20oAsStringOrSrc.params c20oAsStringOrSrc.body [(.lit (.str "n/a")), (.attr (.var "v1") "cpu_time")],
    .yield (.ext ".set" [(.var "v3"), (.lit (.str "time")), (.var "v4")]),
    .assign "v5" (.ext "SubElement" [(.var "v3"), (.lit (.str "system-out"))]),
    .setAttr "v5" "text" (.ext "remove_color_codes" [(.attr (.var "v1") "stdout")]),
    .ite (.cmp .eq (.attr (.var "v1") "status") (.lit (.enum "TestStatus" "failed"))) [
      .callFn "v6" c20oSetWithMessageSrc.params c20oSetWithMessageSrc.body [(.var "v3"), (.lit (.str "failure")), (.lit (.str "comparison failed")), (.attr (.var "v5") "text")]
    ] [
      .ite (.cmp .eq (.attr (.var "v1") "status") (.lit (.enum "TestStatus" "skipped"))) [
        .callFn "v7" c20oSetWithMessageSrc.params c20oSetWithMessageSrc.body [(.var "v3"), (.lit (.str "skipped")), (.attr (.var "v5") "text"), (.lit .none)]
      ] [
        .ite (.cmp .eq (.attr (.var "v1") "status") (.lit (.enum "TestStatus" "error"))) [
          .callFn "v8" c20oSetWithMessageSrc.params c20oSetWithMessageSrc.body [(.var "v3"), (.lit (.str "failure")), (.lit (.str "error upon comparison")), (.attr (.var "v5") "text")],
          .callFn "v9" c20oSetWithMessageSrc.params c20oSetWithMessageSrc.body [(.var "v3"), (.lit (.str "error")), (.lit (.str "error upon comparison")), (.attr (.var "v5") "text")]
        ] [
          .ite (.not (.var "v1")) [
            .assign "v10" (.ext "SubElement" [(.var "v3"), (.lit (.str "system-err"))]),
            .setAttr "v10" "text" (.attr (.var "v5") "text")
          ] []
        ]
      ]
    ]
  ] }

/-- translated from the source text of `fieldcompare/_cli/_junit.py: as_junit_xml_element` -/
def c20oJunitElementSrc : Fc.PyLite.Fn := {
  name := "as_junit_xml_element"
  params := ["v0", "v1"]
  body := [
    .assign "v2" (.ext "Element" [(.lit (.str "testsuite"))]),
    .callFn "v3" c20oAsStringOrSrc.params c20oAsStringOrSrc.body [(.lit (.str "n/a")), (.attr (.var "v0") "name")],
    .yield (.ext ".set" [(.var "v2"), (.lit (.str "name")), (.var "v3")]),
    .yield (.ext ".set" [(.var "v2"), (.lit (.str "tests")), (.ext "str" [(.call .sum [(.comp "v4" (.var "v0") (.lit (.int 1)) (.lit (.bool true)))])])]),
    .yield (.ext ".set" [(.var "v2"), (.lit (.str "disabled")), (.lit (.str "0"))]),
    .yield (.ext ".set" [(.var "v2"), (.lit (.str "errors")), (.ext "str" [(.call .sum [(.comp "v5" (.var "v0") (.lit (.int 1)) (.cmp .eq (.attr (.var "v5") "status") (.lit (.enum "TestStatus" "error"))))])])]),
    .yield (.ext ".set" [(.var "v2"), (.lit (.str "failures")), (.ext "str" [(.call .sum [(.comp "v6" (.var "v0") (.lit (.int 1)) (.cmp .eq (.attr (.var "v6") "status") (.lit (.enum "TestStatus" "failed"))))])])]),
    .yield (.ext ".set" [(.var "v2"), (.lit (.str "skipped")), (.ext "str" [(.call .sum [(.comp "v7" (.var "v0") (.lit (.int 1)) (.cmp .eq (.attr (.var "v7") "status") (.lit (.enum "TestStatus" "skipped"))))])])]),
    .yield (.ext ".set" [(.var "v2"), (.lit (.str "timestamp")), (.var "v1")]),
    .callFn "v8" c20oAsStringOrSrc.params c20oAsStringOrSrc.body [(.lit (.str "n/a")), (.attr (.var "v0") "cpu_time")],
    .yield (.ext ".set" [(.var "v2"), (.lit (.str "time")), (.var "v8")]),
    .yield (.ext "SubElement" [(.var "v2"), (.lit (.str "properties"))]),
    .forIn "v9" (.var "v0") [
      .callFn "v10" c20oAsStringOrSrc.params c20oAsStringOrSrc.body [(.lit (.str "n/a")), (.attr (.var "v0") "name")],
      .callFn "v11" c20oAddTestCaseSrc.params c20oAddTestCaseSrc.body [(.var "v2"), (.var "v9"), (.var "v10")]
    ],
    .ret (.var "v2")
  ] }
