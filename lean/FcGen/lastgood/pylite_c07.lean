/-- translated from the source text of `fieldcompare/io/vtk/_helpers.py: vtk_extents_to_cells_per_direction` -/
def c07ExtentsToCellsSrc : Fc.PyLite.Fn := {
  name := "vtk_extents_to_cells_per_direction"
  params := ["v0"]
  body := [
    .assign "v1" (.lit (.int 6)),
    .ite (.cmp .ne (.call .len [(.var "v0")]) (.var "v1")) [
      .raise "ValueError"
    ] [],
    .assign "v2" (.tuple [(.bin .sub (.index (.var "v0") (.lit (.int 1))) (.index (.var "v0") (.lit (.int 0)))), (.bin .sub (.index (.var "v0") (.lit (.int 3))) (.index (.var "v0") (.lit (.int 2)))), (.bin .sub (.index (.var "v0") (.lit (.int 5))) (.index (.var "v0") (.lit (.int 4))))]),
    .ite (.anyOf "v3" (.var "v2") (.cmp .lt (.var "v3") (.lit (.int 0)))) [
      .raise "ValueError"
    ] [],
    .ret (.var "v2")
  ] }

/-- translated from the source text of `fieldcompare/io/vtk/_helpers.py: number_of_total_cells_from_cells_per_direction` -/
def c07TotalCellsSrc : Fc.PyLite.Fn := {
  name := "number_of_total_cells_from_cells_per_direction"
  params := ["v0"]
  body := [
    .ret (.call .reduceMul [(.comp "v1" (.var "v0") (.call .max [(.var "v1"), (.lit (.int 1))]) (.lit (.bool true))), (.lit (.int 1))])
  ] }

/-- translated from the source text of `fieldcompare/io/vtk/_helpers.py: number_of_total_points_from_cells_per_direction` -/
def c07TotalPointsSrc : Fc.PyLite.Fn := {
  name := "number_of_total_points_from_cells_per_direction"
  params := ["v0"]
  body := [
    .ret (.call .reduceMul [(.comp "v1" (.var "v0") (.bin .add (.var "v1") (.lit (.int 1))) (.lit (.bool true))), (.lit (.int 1))])
  ] }
