/-- translated from the source text of `fieldcompare/_cli/_common.py: FieldToleranceMap.__call__` -/
def cliFieldToleranceMapCallSrc : Fc.PyLite.Fn := {
  name := "FieldToleranceMap.__call__"
  params := ["v0", "v1"]
  body := [
    .assign "v2" (.call .dictGet [(.attr (.var "v0") "_field_tolerances"), (.var "v1"), (.lit .none)]),
    .ret (.ite (.cmp .isNot (.var "v2") (.lit .none)) (.var "v2") (.attr (.var "v0") "_default"))
  ] }

/-- translated from the source text of `fieldcompare/_cli/_common.py: PatternFilter.__call__` -/
def cliPatternFilterCallSrc : Fc.PyLite.Fn := {
  name := "PatternFilter.__call__"
  params := ["v0", "v1"]
  body := [
    .ret (.anyOf "v2" (.attr (.var "v0") "_patterns") (.ext "fnmatch" [(.var "v1"), (.var "v2")]))
  ] }

/-- translated from the source text of `fieldcompare/_cli/_common.py: _include_all` -/
def cliIncludeAllSrc : Fc.PyLite.Fn := {
  name := "_include_all"
  params := []
  body := [
    .ret (.ext "PatternFilter(patterns=)" [(.tuple [(.lit (.str "*"))])])
  ] }

/-- translated from the source text of `fieldcompare/_cli/_common.py: _exclude_all` -/
def cliExcludeAllSrc : Fc.PyLite.Fn := {
  name := "_exclude_all"
  params := []
  body := [
    .ret (.ext "PatternFilter(patterns=)" [(.tuple [])])
  ] }

/-- translated from the source text of `fieldcompare/_cli/_common.py: _parse_field_tolerances` -/
def cliParseFieldTolerancesSrc : Fc.PyLite.Fn := {
  name := "_parse_field_tolerances"
  params := ["v0", "v1"]
  body := [
    .ite (.cmp .isNot (.var "v0") (.lit .none)) [
      .assign "v2" (.lit (.dict [])),
      .assign "v3" (.lit .none),
      .forIn "v4" (.var "v0") [
        .ite (.cmp .isIn (.lit (.str ":")) (.var "v4")) [
          .assign "v5" (.var "v4"),
          .inlineCall "v7" [
            .unpack ["v6", "v5"] (.ext ".split" [(.var "v5"), (.lit (.str ":"))]),
            .ret (.tuple [(.var "v6"), (.var "v5")])
          ],
          .unpack ["v8", "v9"] (.var "v7"),
          .setIndex "v2" (.var "v8") (.ite (.and (.var "v1") (.ext ".endswith" [(.var "v9"), (.lit (.str "*max"))])) (.ext "ScaledTolerance(base_tolerance=)" [(.ext "float" [(.index (.ext ".rsplit" [(.var "v9"), (.lit (.str "*max"))]) (.lit (.int 0)))])]) (.ext "float" [(.var "v9")]))
        ] [
          .assign "v3" (.ite (.and (.var "v1") (.ext ".endswith" [(.var "v4"), (.lit (.str "*max"))])) (.ext "ScaledTolerance(base_tolerance=)" [(.ext "float" [(.index (.ext ".rsplit" [(.var "v4"), (.lit (.str "*max"))]) (.lit (.int 0)))])]) (.ext "float" [(.var "v4")]))
        ]
      ],
      .ret (.ext "FieldToleranceMap(default_tol=,tolerances=)" [(.var "v3"), (.var "v2")])
    ] [],
    .ret (.ext "FieldToleranceMap" [])
  ] }

/-- translated from the source text of `fieldcompare/_cli/_common.py: PatternFilter.__init__` -/
def cliPatternFilterInitSrc : Fc.PyLite.Fn := {
  name := "PatternFilter.__init__"
  params := ["v0"]
  body := [
    .assign "v1" (.var "v0"),
    .assign "v2" (.lit (.dict [])),
    .setIndex "v2" (.lit (.str "_patterns")) (.var "v1"),
    .ret (.var "v2")
  ] }

/-- translated from the source text of `fieldcompare/_cli/_common.py: FieldToleranceMap.__init__` -/
def cliFieldToleranceMapInitSrc : Fc.PyLite.Fn := {
  name := "FieldToleranceMap.__init__"
  params := ["v0", "v1"]
  body := [
    .assign "v2" (.or (.var "v0") (.lit (.dict []))),
    .assign "v3" (.var "v1"),
    .assign "v4" (.lit (.dict [])),
    .setIndex "v4" (.lit (.str "_default")) (.var "v3"),
    .setIndex "v4" (.lit (.str "_field_tolerances")) (.var "v2"),
    .ret (.var "v4")
  ] }
