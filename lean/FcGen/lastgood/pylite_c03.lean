/-- translated from the source text of `fieldcompare/mesh/_mesh_equal.py: _without_compatibles` -/
def c03WithoutCompatiblesSrc : Fc.PyLite.Fn := {
  name := "_without_compatibles"
  params := ["v0", "v1"]
  body := [
    .assign "v2" (.ext "set" []),
    .forIn "v3" (.ext "product" [(.var "v0"), (.var "v1")]) [
      .unpack ["v4", "v5"] (.var "v3"),
      .ite (.ext ".is_compatible_with" [(.var "v4"), (.var "v5")]) [
        .assign "v2" (.ext ".union" [(.var "v2"), (.ext "set" [(.tuple [(.var "v4"), (.var "v5")])])])
      ] []
    ],
    .ret (.ext ".difference" [(.ext ".union" [(.var "v0"), (.var "v1")]), (.var "v2")])
  ] }

/-- translated from the source text of `fieldcompare/mesh/_mesh_equal.py: _find_compatible` -/
def c03FindCompatibleSrc : Fc.PyLite.Fn := {
  name := "_find_compatible"
  params := ["v0", "v1"]
  body := [
    .forIn "v2" (.var "v0") [
      .ite (.ext ".is_compatible_with" [(.var "v2"), (.var "v1")]) [
        .ret (.var "v2")
      ] []
    ],
    .raise "RuntimeError"
  ] }
