/-- translated from the source text of `fieldcompare/_matching.py: find_matches` -/
def c11FindMatchesSrc : Fc.PyLite.Fn := {
  name := "find_matches"
  params := ["v0", "v1", "v2"]
  body := [
    .assign "v3" (.tuple []),
    .assign "v4" (.call .list [(.var "v1")]),
    .assign "v5" (.tuple []),
    .forIn "v6" (.var "v0") [
      .assign "v7" (.var "v6"),
      .inlineCall "v9" [
        .forIn "v8" (.var "v4") [
          .ite (.ext "call" [(.var "v2"), (.var "v7"), (.var "v8")]) [
            .assign "v3" (.bin .add (.var "v3") (.tuple [(.tuple [(.var "v7"), (.var "v8")])])),
            .assign "v4" (.call .remove [(.var "v4"), (.var "v8")]),
            .ret (.lit (.bool true))
          ] []
        ],
        .ret (.lit (.bool false))
      ],
      .ite (.not (.var "v9")) [
        .assign "v5" (.bin .add (.var "v5") (.tuple [(.var "v6")]))
      ] []
    ],
    .ret (.ext "MatchResult" [(.var "v3"), (.var "v5"), (.var "v4")])
  ] }
