/-- translated from the source text of `fieldcompare/_cli/_dir_mode.py: _categorize_files` -/
def c12oCategorizeSrc : Fc.PyLite.Fn := {
  name := "_categorize_files"
  params := ["v0", "v1", "v2"]
  body := [
    .assign "v3" (.ite (.index (.var "v0") (.lit (.str "include_files"))) (.ext "PatternFilter" [(.index (.var "v0") (.lit (.str "include_files")))]) (.ext "_include_all" [])),
    .assign "v4" (.ite (.index (.var "v0") (.lit (.str "exclude_files"))) (.ext "PatternFilter" [(.index (.var "v0") (.lit (.str "exclude_files")))]) (.ext "_exclude_all" [])),
    .assign "v5" (.ext "_make_file_type_map" [(.call .dictGet [(.var "v0"), (.lit (.str "read_as")), (.tuple [])])]),
    .assign "v6" (.ext "find_matching_file_names" [(.var "v1"), (.var "v2")]),
    .assign "v8" (.call .list [(.comp "v7" (.attr (.var "v6") "matches") (.index (.var "v7") (.lit (.int 0))) (.lit (.bool true)))]),
    .assign "v10" (.comp "v9" (.var "v8") (.var "v9") (.and (.ext "call" [(.var "v3"), (.var "v9")]) (.not (.ext "call" [(.var "v4"), (.var "v9")])))),
    .assign "v12" (.comp "v11" (.attr (.var "v6") "orphans_in_reference") (.var "v11") (.and (.ext "call" [(.var "v3"), (.var "v11")]) (.not (.ext "call" [(.var "v4"), (.var "v11")])))),
    .assign "v14" (.comp "v13" (.attr (.var "v6") "orphans_in_source") (.var "v13") (.and (.ext "call" [(.var "v3"), (.var "v13")]) (.not (.ext "call" [(.var "v4"), (.var "v13")])))),
    .assign "v15" (.call .list [(.ext ".difference" [(.ext "set" [(.var "v8")]), (.ext "set" [(.var "v10")])])]),
    .assign "v17" (.call .list [(.comp "v16" (.var "v10") (.var "v16") (.ext "is_supported" [(.ext "join" [(.var "v1"), (.var "v16")])]))]),
    .assign "v18" (.call .list [(.ext ".difference" [(.ext "set" [(.var "v10")]), (.ext "set" [(.var "v17")])])]),
    .assign "v20" (.comp "v19" (.var "v18") (.var "v19") (.cmp .isNot (.ext "call" [(.var "v5"), (.var "v19")]) (.lit .none))),
    .assign "v18" (.call .list [(.ext ".difference" [(.ext "set" [(.var "v18")]), (.ext "set" [(.var "v20")])])]),
    .assign "v21" (.ext ".difference" [(.ext "set" [(.attr (.var "v6") "orphans_in_reference")]), (.var "v12")]),
    .assign "v22" (.ext ".difference" [(.ext "set" [(.attr (.var "v6") "orphans_in_source")]), (.var "v14")]),
    .ret (.ext "CategorizedFiles(discarded_files=,discarded_orphan_files=,files_to_compare=,missing_references=,missing_sources=,unsupported_files=)" [(.var "v15"), (.call .list [(.ext ".union" [(.var "v21"), (.var "v22")])]), (.bin .add (.var "v17") (.var "v20")), (.var "v14"), (.var "v12"), (.var "v18")])
  ] }
