/-- translated from the source text of `fieldcompare/_numpy_utils.py: fuzzy_equal` -/
def fuzzyEqualParams : List String := ["first", "second", "rel_tol", "abs_tol"]
def fuzzyEqualBody : List Fc.NStmt := [
  .assign "abs_diff" (.abs (.sub (.var "second") (.var "first"))),
  .assign "thresholds" (.maximum (.abs (.var "first")) (.abs (.var "second"))),
  .assign "thresholds" (.mul (.var "thresholds") (.var "rel_tol")),
  .assign "thresholds" (.maximum (.var "thresholds") (.var "abs_tol")),
  .ret (.lessEqual (.var "abs_diff") (.var "thresholds"))
]
