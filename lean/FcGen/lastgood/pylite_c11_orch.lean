/-- translated from the source text of `fieldcompare/_field_data_comparison.py: FieldDataComparator._without_annotation` -/
def c11oWithoutAnnotationSrc : Fc.PyLite.Fn := {
  name := "FieldDataComparator._without_annotation"
  params := ["v0", "v1"]
  body := [
    .ret (.ext "FieldImpl(name=,values=)" [(.ext "remove_annotation" [(.attr (.var "v1") "name")]), (.attr (.var "v1") "values")])
  ] }

/-- translated from the source text of `fieldcompare/_field_data_comparison.py: FieldDataComparator._perform_comparison` -/
def c11oPerformComparisonSrc : Fc.PyLite.Fn := {
  name := "FieldDataComparator._perform_comparison"
  params := ["v0", "v1", "v2", "v3"]
  body := [
    .unpack ["v4", "v5"] (.ext "call" [(.ext "_measure_time" [(.var "v3")]), (.attr (.var "v1") "values"), (.attr (.var "v2") "values")]),
    .ret (.ext "FieldComparison(cpu_time=,name=,predicate=,report=,status=)" [(.var "v4"), (.attr (.var "v1") "name"), (.ext "str" [(.var "v3")]), (.attr (.var "v5") "report"), (.ite (.var "v5") (.lit (.enum "FieldComparisonStatus" "passed")) (.lit (.enum "FieldComparisonStatus" "failed")))])
  ] }

/-- translated from the source text of `fieldcompare/_field_data_comparison.py: FieldDataComparator._make_exception_comparison` -/
def c11oMakeExceptionComparisonSrc : Fc.PyLite.Fn := {
  name := "FieldDataComparator._make_exception_comparison"
  params := ["v0", "v1", "v2", "v3"]
  body := [
    .ret (.ext "FieldComparison(cpu_time=,name=,predicate=,report=,status=)" [(.lit .none), (.var "v1"), (.ext "str" [(.var "v2")]), (.lit (.str "<f-string>")), (.lit (.enum "FieldComparisonStatus" "error"))])
  ] }

/-- translated from the source text of `fieldcompare/_field_data_comparison.py: FieldDataComparator._missing_source_comparisons` -/
def c11oMissingSourceSrc : Fc.PyLite.Fn := {
  name := "FieldDataComparator._missing_source_comparisons"
  params := ["v0", "v1"]
  body := [
    .ret (.comp "v2" (.attr (.var "v1") "orphans_in_reference") (.ext "FieldComparison(cpu_time=,name=,predicate=,report=,status=)" [(.lit .none), (.attr (.var "v2") "name"), (.lit (.str "")), (.lit (.str "Missing source field")), (.lit (.enum "FieldComparisonStatus" "missing_source"))]) (.lit (.bool true)))
  ] }

/-- translated from the source text of `fieldcompare/_field_data_comparison.py: FieldDataComparator._missing_reference_comparisons` -/
def c11oMissingReferenceSrc : Fc.PyLite.Fn := {
  name := "FieldDataComparator._missing_reference_comparisons"
  params := ["v0", "v1"]
  body := [
    .ret (.comp "v2" (.attr (.var "v1") "orphans_in_source") (.ext "FieldComparison(cpu_time=,name=,predicate=,report=,status=)" [(.lit .none), (.attr (.var "v2") "name"), (.lit (.str "")), (.lit (.str "Missing reference field")), (.lit (.enum "FieldComparisonStatus" "missing_reference"))]) (.lit (.bool true)))
  ] }

/-- translated from the source text of `fieldcompare/_field_data_comparison.py: FieldDataComparator._filtered_comparisons` -/
def c11oFilteredSrc : Fc.PyLite.Fn := {
  name := "FieldDataComparator._filtered_comparisons"
  params := ["v0", "v1"]
  body := [
    .ret (.comp "v2" (.var "v1") (.ext "FieldComparison(cpu_time=,name=,predicate=,report=,status=)" [(.lit .none), (.attr (.var "v2") "name"), (.lit (.str "")), (.lit (.str "Filtered out by given rules")), (.lit (.enum "FieldComparisonStatus" "filtered"))]) (.lit (.bool true)))
  ] }

/-- translated from the source text of `fieldcompare/_field_data_comparison.py: FieldDataComparator._filter_matches` -/
def c11oFilterMatchesSrc : Fc.PyLite.Fn := {
  name := "FieldDataComparator._filter_matches"
  params := ["v0", "v1"]
  body := [
    .assign "v2" (.tuple []),
    .assign "v3" (.tuple []),
    .forIn "v4" (.attr (.var "v1") "matches") [
      .unpack ["v5", "v6"] (.var "v4"),
      .callFn "v7" c11oWithoutAnnotationSrc.params c11oWithoutAnnotationSrc.body [(.var "v0"), (.var "v5")],
      .assign "v8" (.ext "._field_inclusion_filter" [(.var "v0"), (.attr (.var "v7") "name")]),
      .callFn "v9" c11oWithoutAnnotationSrc.params c11oWithoutAnnotationSrc.body [(.var "v0"), (.var "v5")],
      .assign "v10" (.ext "._field_exclusion_filter" [(.var "v0"), (.attr (.var "v9") "name")]),
      .ite (.or (.not (.var "v8")) (.var "v10")) [
        .assign "v2" (.bin .add (.var "v2") (.tuple [(.var "v5")]))
      ] [
        .assign "v3" (.bin .add (.var "v3") (.tuple [(.tuple [(.var "v5"), (.var "v6")])]))
      ]
    ],
    .setAttr "v1" "matches" (.var "v3"),
    .ret (.tuple [(.var "v1"), (.var "v2")])
  ] }

/-- translated from the source text of `fieldcompare/_field_data_comparison.py: FieldDataComparator._compare_matches` -/
def c11oCompareMatchesSrc : Fc.PyLite.Fn := {
  name := "FieldDataComparator._compare_matches"
  params := ["v0", "v1", "v2", "v3"]
  body := [
    .assign "v4" (.tuple []),
    .forIn "v5" (.attr (.var "v1") "matches") [
      .unpack ["v6", "v7"] (.var "v5"),
      .callFn "v8" c11oWithoutAnnotationSrc.params c11oWithoutAnnotationSrc.body [(.var "v0"), (.var "v6")],
      .callFn "v9" c11oWithoutAnnotationSrc.params c11oWithoutAnnotationSrc.body [(.var "v0"), (.var "v7")],
      .assign "v10" (.ext "call" [(.var "v2"), (.var "v8"), (.var "v9")]),
      .tryExcept [
        .callFn "v11" c11oPerformComparisonSrc.params c11oPerformComparisonSrc.body [(.var "v0"), (.var "v6"), (.var "v7"), (.var "v10")]
      ] "v12" [
        .callFn "v11" c11oMakeExceptionComparisonSrc.params c11oMakeExceptionComparisonSrc.body [(.var "v0"), (.attr (.var "v6") "name"), (.var "v10"), (.var "v12")]
      ],
      .yield (.ext "call" [(.var "v3"), (.var "v11")]),
      .assign "v4" (.bin .add (.var "v4") (.tuple [(.var "v11")]))
    ],
    .ret (.var "v4")
  ] }

/-- translated from the source text of `fieldcompare/_field_data_comparison.py: FieldDataComparator.__call__` -/
def c11oComparatorCallSrc : Fc.PyLite.Fn := {
  name := "FieldDataComparator.__call__"
  params := ["v0", "v1", "v2"]
  body := [
    .assign "v1" (.or (.var "v1") (.ext "closure#0" [])),
    .assign "v2" (.or (.var "v2") (.ext "DefaultFieldComparisonCallback" [])),
    .assign "v3" (.ext ".equals" [(.attr (.attr (.var "v0") "_source") "domain"), (.attr (.attr (.var "v0") "_reference") "domain")]),
    .ite (.not (.var "v3")) [
      .ret (.ext "FieldComparisonSuite(comparisons=,domain_eq_check=)" [(.lit .none), (.var "v3")])
    ] [],
    .assign "v4" (.ext "find_matches_by_name" [(.attr (.var "v0") "_source"), (.attr (.var "v0") "_reference")]),
    .callFn "v5" c11oFilterMatchesSrc.params c11oFilterMatchesSrc.body [(.var "v0"), (.var "v4")],
    .unpack ["v4", "v6"] (.var "v5"),
    .callFn "v7" c11oCompareMatchesSrc.params c11oCompareMatchesSrc.body [(.var "v0"), (.var "v4"), (.var "v1"), (.var "v2")],
    .callFn "v8" c11oMissingSourceSrc.params c11oMissingSourceSrc.body [(.var "v0"), (.var "v4")],
    .assign "v7" (.bin .add (.var "v7") (.call .list [(.var "v8")])),
    .callFn "v9" c11oMissingReferenceSrc.params c11oMissingReferenceSrc.body [(.var "v0"), (.var "v4")],
    .assign "v7" (.bin .add (.var "v7") (.call .list [(.var "v9")])),
    .callFn "v10" c11oFilteredSrc.params c11oFilteredSrc.body [(.var "v0"), (.var "v6")],
    .assign "v7" (.bin .add (.var "v7") (.call .list [(.var "v10")])),
    .ret (.ext "FieldComparisonSuite(comparisons=,domain_eq_check=)" [(.var "v7"), (.var "v3")])
  ] }

/-- translated from the source text of `fieldcompare/_field_data_comparison.py: FieldComparisonSuite.__init__` -/
def c11oSuiteInitSrc : Fc.PyLite.Fn := {
  name := "FieldComparisonSuite.__init__"
  params := ["v0", "v1"]
  body := [
    .assign "v2" (.var "v0"),
    .assign "v3" (.tuple []),
    .assign "v4" (.tuple []),
    .assign "v5" (.tuple []),
    .ite (.cmp .isNot (.var "v1") (.lit .none)) [
      .forIn "v6" (.var "v1") [
        .ite (.cmp .eq (.attr (.var "v6") "status") (.lit (.enum "FieldComparisonStatus" "passed"))) [
          .assign "v3" (.bin .add (.var "v3") (.tuple [(.var "v6")]))
        ] [
          .ite (.not (.var "v6")) [
            .assign "v4" (.bin .add (.var "v4") (.tuple [(.var "v6")]))
          ] [
            .assign "v5" (.bin .add (.var "v5") (.tuple [(.var "v6")]))
          ]
        ]
      ]
    ] [],
    .assign "v7" (.lit (.dict [])),
    .setIndex "v7" (.lit (.str "_domain_eq_check")) (.var "v2"),
    .setIndex "v7" (.lit (.str "_failed")) (.var "v4"),
    .setIndex "v7" (.lit (.str "_passed")) (.var "v3"),
    .setIndex "v7" (.lit (.str "_skipped")) (.var "v5"),
    .ret (.var "v7")
  ] }

/-- translated from the source text of `fieldcompare/_field_data_comparison.py: FieldComparisonSuite.__iter__` -/
def c11oSuiteIterSrc : Fc.PyLite.Fn := {
  name := "FieldComparisonSuite.__iter__"
  params := ["v0"]
  body := [
    .ret (.ext "iter" [(.ext "chain" [(.attr (.var "v0") "_failed"), (.attr (.var "v0") "_passed"), (.attr (.var "v0") "_skipped")])])
  ] }

/-- translated from the source text of `fieldcompare/_field_data_comparison.py: FieldComparisonSuite.__len__` -/
def c11oSuiteLenSrc : Fc.PyLite.Fn := {
  name := "FieldComparisonSuite.__len__"
  params := ["v0"]
  body := [
    .ret (.bin .add (.bin .add (.call .len [(.attr (.var "v0") "_failed")]) (.call .len [(.attr (.var "v0") "_passed")])) (.call .len [(.attr (.var "v0") "_skipped")]))
  ] }

/-- translated from the source text of `fieldcompare/_field_data_comparison.py: FieldComparisonSuite.passed` -/
def c11oSuitePassedSrc : Fc.PyLite.Fn := {
  name := "FieldComparisonSuite.passed"
  params := ["v0"]
  body := [
    .ret (.attr (.var "v0") "_passed")
  ] }

/-- translated from the source text of `fieldcompare/_field_data_comparison.py: FieldComparisonSuite.failed` -/
def c11oSuiteFailedSrc : Fc.PyLite.Fn := {
  name := "FieldComparisonSuite.failed"
  params := ["v0"]
  body := [
    .ret (.attr (.var "v0") "_failed")
  ] }

/-- translated from the source text of `fieldcompare/_field_data_comparison.py: FieldComparisonSuite.skipped` -/
def c11oSuiteSkippedSrc : Fc.PyLite.Fn := {
  name := "FieldComparisonSuite.skipped"
  params := ["v0"]
  body := [
    .ret (.attr (.var "v0") "_skipped")
  ] }

/-- translated from the source text of `fieldcompare/_field_data_comparison.py: FieldComparisonSuite.num_passed` -/
def c11oSuiteNumPassedSrc : Fc.PyLite.Fn := {
  name := "FieldComparisonSuite.num_passed"
  params := ["v0"]
  body := [
    .ret (.call .len [(.attr (.var "v0") "_passed")])
  ] }

/-- translated from the source text of `fieldcompare/_field_data_comparison.py: FieldComparisonSuite.num_failed` -/
def c11oSuiteNumFailedSrc : Fc.PyLite.Fn := {
  name := "FieldComparisonSuite.num_failed"
  params := ["v0"]
  body := [
    .ret (.call .len [(.attr (.var "v0") "_failed")])
  ] }

/-- translated from the source text of `fieldcompare/_field_data_comparison.py: FieldComparisonSuite.num_skipped` -/
def c11oSuiteNumSkippedSrc : Fc.PyLite.Fn := {
  name := "FieldComparisonSuite.num_skipped"
  params := ["v0"]
  body := [
    .ret (.call .len [(.attr (.var "v0") "_skipped")])
  ] }

/-- translated from the source text of `fieldcompare/_field_data_comparison.py: FieldComparisonSuite.domain_equality_check` -/
def c11oSuiteDomainCheckSrc : Fc.PyLite.Fn := {
  name := "FieldComparisonSuite.domain_equality_check"
  params := ["v0"]
  body := [
    .ret (.attr (.var "v0") "_domain_eq_check")
  ] }
