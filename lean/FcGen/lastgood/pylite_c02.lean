/-- translated from the source text of `fieldcompare/_numpy_utils.py: walk_adjacent_true_index_ranges` -/
def c02WalkTrueRangesSrc : Fc.PyLite.Fn := {
  name := "walk_adjacent_true_index_ranges"
  params := ["v0", "v1"]
  body := [
    .unpack ["v2", "v3", "v4"] (.tuple [(.lit (.int 0)), (.lit (.int 0)), (.lit (.bool false))]),
    .forIn "v5" (.call .range [(.call .len [(.var "v0")])]) [
      .ite (.and (.index (.var "v0") (.var "v5")) (.not (.var "v4"))) [
        .unpack ["v2", "v4"] (.tuple [(.var "v5"), (.lit (.bool true))])
      ] [
        .ite (.and (.not (.index (.var "v0") (.var "v5"))) (.var "v4")) [
          .unpack ["v3", "v4"] (.tuple [(.var "v5"), (.lit (.bool false))]),
          .yield (.tuple [(.var "v2"), (.ite (.var "v1") (.bin .add (.var "v3") (.lit (.int 1))) (.var "v3"))])
        ] []
      ]
    ]
  ] }
