/-- translated from the source text of `fieldcompare/_numpy_utils.py: walk_adjacent_true_index_ranges` -/
def c02WalkTrueRangesSrc : Fc.PyLite.Fn := {
  name := "walk_adjacent_true_index_ranges"
  params := ["v0", "v1"]
  body := [
    .assign "v2" (.lit (.bool false)),
    .assign "v3" (.lit (.int 0)),
    .assign "v4" (.lit (.int 0)),
    .forIn "v5" (.call .range [(.call .len [(.var "v0")])]) [
      .ite (.and (.index (.var "v0") (.var "v5")) (.not (.var "v2"))) [
        .unpack ["v3", "v2"] (.tuple [(.var "v5"), (.lit (.bool true))])
      ] [
        .ite (.and (.not (.index (.var "v0") (.var "v5"))) (.var "v2")) [
          .unpack ["v4", "v2"] (.tuple [(.var "v5"), (.lit (.bool false))]),
          .yield (.tuple [(.var "v3"), (.ite (.var "v1") (.bin .add (.var "v4") (.lit (.int 1))) (.var "v4"))])
        ] []
      ]
    ]
  ] }
