inductive FieldComparisonStatus where
  | passed
  | failed
  | error
  | missing_source
  | missing_reference
  | filtered
  deriving DecidableEq, Repr, Inhabited

def FieldComparisonStatus.all : List FieldComparisonStatus := [FieldComparisonStatus.passed, FieldComparisonStatus.failed, FieldComparisonStatus.error, FieldComparisonStatus.missing_source, FieldComparisonStatus.missing_reference, FieldComparisonStatus.filtered]
def FieldComparisonStatus.falsy : List FieldComparisonStatus := [FieldComparisonStatus.failed, FieldComparisonStatus.error]
def suitePassedBucket : FieldComparisonStatus := FieldComparisonStatus.passed

inductive SuiteStatus where
  | passed
  | failed
  deriving DecidableEq, Repr, Inhabited

def SuiteStatus.falsy : List SuiteStatus := [SuiteStatus.failed]

inductive TestStatus where
  | passed
  | failed
  | error
  | skipped
  deriving DecidableEq, Repr, Inhabited

def TestStatus.all : List TestStatus := [TestStatus.passed, TestStatus.failed, TestStatus.error, TestStatus.skipped]
def TestStatus.falsy : List TestStatus := [TestStatus.failed, TestStatus.error]
def testSuiteFalsy : List TestStatus := [TestStatus.failed, TestStatus.error]
def testSuiteDerived : TestStatus × TestStatus := (TestStatus.passed, TestStatus.failed)
def mergedRules : List (TestStatus × TestStatus) := [(TestStatus.failed, TestStatus.failed), (TestStatus.error, TestStatus.error), (TestStatus.skipped, TestStatus.skipped)]
def mergedDefaultIsNone : Bool := true
def exitCodeIsNot : Bool := true
