/-- translated from the source text of `fieldcompare/predicates/_predicates.py: _check_shapes` -/
def c09oCheckShapesSrc : Fc.PyLite.Fn := {
  name := "_check_shapes"
  params := ["v0", "v1"]
  body := [
    .ret (.ite (.cmp .ne (.attr (.var "v0") "shape") (.attr (.var "v1") "shape")) (.ext "PredicateResult(report=,value=)" [(.lit (.str "<f-string>")), (.lit (.bool false))]) (.ext "PredicateResult(report=,value=)" [(.lit (.str "")), (.lit (.bool true))]))
  ] }

/-- translated from the source text of `fieldcompare/predicates/_predicates.py: ExactEquality._check` -/
def c09oExactCheckSrc : Fc.PyLite.Fn := {
  name := "ExactEquality._check"
  params := ["v0", "v1", "v2"]
  body := [
    .unpack ["v1", "v2"] (.ext "_reshape(arr1=,arr2=)" [(.var "v1"), (.var "v2")]),
    .callFn "v3" c09oCheckShapesSrc.params c09oCheckShapesSrc.body [(.var "v1"), (.var "v2")],
    .ite (.not (.var "v3")) [
      .ret (.var "v3")
    ] [],
    .assign "v4" (.ext "find_first_unequal" [(.var "v1"), (.var "v2")]),
    .ite (.cmp .isNot (.var "v4") (.lit .none)) [
      .unpack ["v5", "v6"] (.var "v4"),
      .ret (.ext "PredicateResult(report=,value=)" [(.ext "_get_equality_fail_report(deviation_in_percent=,val1=,val2=)" [(.lit .none), (.var "v5"), (.var "v6")]), (.lit (.bool false))])
    ] [],
    .ret (.ext "_success_result(first=,second=)" [(.var "v1"), (.var "v2")])
  ] }

/-- translated from the source text of `fieldcompare/predicates/_predicates.py: ExactEquality.__call__` -/
def c09oExactCallSrc : Fc.PyLite.Fn := {
  name := "ExactEquality.__call__"
  params := ["v0", "v1", "v2"]
  body := [
    .tryExcept [
      .callFn "v3" c09oExactCheckSrc.params c09oExactCheckSrc.body [(.var "v0"), (.var "v1"), (.var "v2")],
      .ret (.var "v3")
    ] "v4" [
      .raise "PredicateError"
    ]
  ] }
