/-- translated from the source text of `fieldcompare/_cli/_test_suite.py: TestSuite.__bool__` -/
def c15TestSuiteBoolSrc : Fc.PyLite.Fn := {
  name := "TestSuite.__bool__"
  params := ["v0"]
  body := [
    .ite (.cmp .isNot (.attr (.var "v0") "_status") (.lit .none)) [
      .ret (.cmp .notIn (.attr (.var "v0") "_status") (.tuple [(.lit (.enum "TestStatus" "failed")), (.lit (.enum "TestStatus" "error"))]))
    ] [],
    .ret (.allOf "v1" (.attr (.var "v0") "_tests") (.cmp .notIn (.attr (.var "v1") "status") (.tuple [(.lit (.enum "TestStatus" "failed")), (.lit (.enum "TestStatus" "error"))])))
  ] }

/-- translated from the source text of `fieldcompare/_cli/_test_suite.py: TestSuite.status` -/
def c15TestSuiteStatusSrc : Fc.PyLite.Fn := {
  name := "TestSuite.status"
  params := ["v0"]
  body := [
    .ite (.cmp .isNot (.attr (.var "v0") "_status") (.lit .none)) [
      .ret (.attr (.var "v0") "_status")
    ] [],
    .ret (.ite (.var "v0") (.lit (.enum "TestStatus" "passed")) (.lit (.enum "TestStatus" "failed")))
  ] }

/-- translated from the source text of `fieldcompare/_cli/_file_comparison.py: FileComparison._compare_field_sequences._merge_test_suites._merged_result` -/
def c15MergedResultSrc : Fc.PyLite.Fn := {
  name := "FileComparison._compare_field_sequences._merge_test_suites._merged_result"
  params := ["v0", "v1"]
  body := [
    .ite (.anyOf "v2" (.tuple [(.var "v0"), (.var "v1")]) (.cmp .eq (.var "v2") (.lit (.enum "TestStatus" "failed")))) [
      .ret (.lit (.enum "TestStatus" "failed"))
    ] [],
    .ite (.anyOf "v2" (.tuple [(.var "v0"), (.var "v1")]) (.cmp .eq (.var "v2") (.lit (.enum "TestStatus" "error")))) [
      .ret (.lit (.enum "TestStatus" "error"))
    ] [],
    .ite (.anyOf "v2" (.tuple [(.var "v0"), (.var "v1")]) (.cmp .eq (.var "v2") (.lit (.enum "TestStatus" "skipped")))) [
      .ret (.lit (.enum "TestStatus" "skipped"))
    ] [],
    .ret (.lit .none)
  ] }
