/-- translated from the source text of `fieldcompare/_cli/_file_comparison.py: FileComparison._select_predicate` -/
def c04oSelectPredicateSrc : Fc.PyLite.Fn := {
  name := "FileComparison._select_predicate"
  params := ["v0", "v1", "v2"]
  body := [
    .assign "v3" (.ext ".absolute_tolerances" [(.attr (.var "v0") "_opts"), (.attr (.var "v1") "name")]),
    .assign "v4" (.ext ".relative_tolerances" [(.attr (.var "v0") "_opts"), (.attr (.var "v1") "name")]),
    .ret (.ext "DefaultEquality(abs_tol=,rel_tol=)" [(.ite (.cmp .isNot (.var "v3") (.lit .none)) (.var "v3") (.ext "float:0.0" [])), (.ite (.cmp .isNot (.var "v4") (.lit .none)) (.var "v4") (.ext "_default_base_tolerance" []))])
  ] }
