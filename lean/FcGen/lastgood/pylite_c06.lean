/-- translated from the source text of `fieldcompare/mesh/_transformations.py: _filter_external_indices` -/
def c06FilterExternalSrc : Fc.PyLite.Fn := {
  name := "_filter_external_indices"
  params := ["v0", "v1"]
  body := [
    .ret (.ext "make_array" [(.comp "v2" (.call .range [(.var "v0")]) (.var "v2") (.cmp .notIn (.var "v2") (.var "v1")))])
  ] }

/-- translated from the source text of `fieldcompare/mesh/_transformations.py: _map_external_indices` -/
def c06MapExternalSrc : Fc.PyLite.Fn := {
  name := "_map_external_indices"
  params := ["v0", "v1", "v2"]
  body := [
    .assign "v3" (.ext "make_array" [(.call .list [(.call .range [(.var "v0")])])]),
    .assign "v4" (.lit (.int 0)),
    .forIn "v5" (.call .range [(.var "v0")]) [
      .ite (.cmp .isIn (.var "v5") (.var "v1")) [
        .setIndex "v3" (.var "v5") (.index (.var "v1") (.var "v5")),
        .assign "v4" (.bin .add (.var "v4") (.lit (.int 1)))
      ] [
        .setIndex "v3" (.var "v5") (.bin .sub (.bin .add (.index (.var "v3") (.var "v5")) (.var "v2")) (.var "v4"))
      ]
    ],
    .ret (.var "v3")
  ] }
