/-- translated from the source text of `fieldcompare/_field_data_comparison.py: FieldComparisonStatus.__bool__` -/
def c11FcStatusBoolSrc : Fc.PyLite.Fn := {
  name := "FieldComparisonStatus.__bool__"
  params := ["v0"]
  body := [
    .ret (.cmp .notIn (.var "v0") (.tuple [(.lit (.enum "FieldComparisonStatus" "failed")), (.lit (.enum "FieldComparisonStatus" "error"))]))
  ] }

/-- translated from the source text of `fieldcompare/_field_data_comparison.py: FieldComparisonSuite.__bool__` -/
def c11FcSuiteBoolSrc : Fc.PyLite.Fn := {
  name := "FieldComparisonSuite.__bool__"
  params := ["v0"]
  body := [
    .ite (.not (.attr (.var "v0") "_domain_eq_check")) [
      .ret (.lit (.bool false))
    ] [],
    .ret (.not (.call .len [(.attr (.var "v0") "_failed")]))
  ] }

/-- translated from the source text of `fieldcompare/_field_data_comparison.py: FieldComparisonSuite.status` -/
def c11FcSuiteStatusSrc : Fc.PyLite.Fn := {
  name := "FieldComparisonSuite.status"
  params := ["v0"]
  body := [
    .ite (.not (.attr (.var "v0") "_domain_eq_check")) [
      .ret (.lit (.enum "Status" "failed"))
    ] [],
    .ite (.cmp .gt (.attr (.var "v0") "num_failed") (.lit (.int 0))) [
      .ret (.lit (.enum "Status" "failed"))
    ] [],
    .ret (.lit (.enum "Status" "passed"))
  ] }
