import Driver.Main
