/-
  Driver.OpsC19 — protocol operations for property C19 (effects, repeatability).

    c19hist <next> <nobjs> {obj} <nsteps> {step}
        obj  := <dim> <slot> <nconn> {<ctype> <slot>} <npf> {<name> <ntail> t… <slot>} <ncf> {<name> <ctype> <ntail> t… <slot>}
        slot := s<id> | c
        step := <ok> <op> args…     ops: compare s r | equals a b | pred a b | sort o | sortpoints o | sortcells o |
                                         strip o | extend o dim | merge a b alldup | diff src ref | write o |
                                         tomeshio o | frommeshio o | tomeshio-inplace o
      → hyp=<wf> wr=<w1>/<w2>/… spec=(one `-` per step) res=<r1>/… files=<n1>/… untouched=<0|1>
        w_k = identities written by step k that existed before it (`-` = none), r_k = `-` | `=<pool index>` | object description
    c19pred <kind> <rel> <abs> <nevents> {call <arr> <arr> | setrel <tol> | setabs <tol>}
      → hyp=1 model=<verdict letters> spec=<verdict letters>
    c19ladder <noReorder> <noDimMatch> <dimS> <dimR> <structured> <eq0> <eqExt> <eqPerm> <eqSortc> <k>
      → hyp=1 model=<ok:callbacks,…> spec=<first ok repeated>
-/
import Driver.Proto
import FcModel.Spec.C19
namespace Fc.Drv.C19
open Fc Fc.C19

def pSlot : P Slot := do
  let t ← tok
  if t == "c" then pure .computed
  else if t.startsWith "s" then
    match (t.drop 1).toNat? with
    | some i => pure (.stored i)
    | none => failure
  else failure

def pEObj : P EObj := do
  let dim ← pNat
  let p ← pSlot
  let conn ← pList (do let ct ← tok; let s ← pSlot; pure (ct, s))
  let pf ← pList (do let n ← tok; let tail ← pList pNat; let s ← pSlot; pure (EField.mk n tail s))
  let cf ← pList (do let n ← tok; let ct ← tok; let tail ← pList pNat; let s ← pSlot; pure (ECellField.mk n ct tail s))
  pure ⟨dim, p, conn, pf, cf, []⟩

def pEStep : P EStep := do
  let ok ← pBool
  let name ← tok
  let op ← match name with
    | "compare" => do let s ← pNat; let r ← pNat; pure (EOp.compare s r)
    | "equals" => do let a ← pNat; let b ← pNat; pure (EOp.equals a b)
    | "pred" => do let a ← pNat; let b ← pNat; pure (EOp.predEval a b)
    | "sort" => do let o ← pNat; pure (EOp.view .sort o)
    | "sortpoints" => do let o ← pNat; pure (EOp.view .sortPoints o)
    | "sortcells" => do let o ← pNat; pure (EOp.view .sortCells o)
    | "strip" => do let o ← pNat; pure (EOp.view .strip o)
    | "extend" => do let o ← pNat; let d ← pNat; pure (EOp.extend o d)
    | "merge" => do let a ← pNat; let b ← pNat; let d ← pBool; pure (EOp.merge a b d)
    | "diff" => do let s ← pNat; let r ← pNat; pure (EOp.diff s r)
    | "write" => do let o ← pNat; pure (EOp.write o)
    | "tomeshio" => do let o ← pNat; pure (EOp.toMeshio o)
    | "frommeshio" => do let o ← pNat; pure (EOp.fromMeshio o)
    | "tomeshio-inplace" => do let o ← pNat; pure (EOp.toMeshioInPlace o)
    | _ => failure
  pure ⟨op, ok⟩

def showSlot : Slot → String
  | .stored i => "s" ++ toString i
  | .computed => "c"

def showEObj (o : EObj) : String :=
  ",".intercalate (["d" ++ toString o.dim, "P:" ++ showSlot o.points]
    ++ o.conn.map (fun c => "K:" ++ c.1 ++ ":" ++ showSlot c.2)
    ++ o.pf.map (fun (f : EField) => "F:" ++ f.name ++ ":" ++ showSlot f.slot)
    ++ o.cf.map (fun (f : ECellField) => "C:" ++ f.name ++ ":" ++ f.ctype ++ ":" ++ showSlot f.slot))

def showIds (l : List Nat) : String := if l.isEmpty then "-" else ",".intercalate (l.map toString)

/-- per-step report: (written existing ids, result, files) -/
def histReport (w : World) : List EStep → List (String × String × String)
  | [] => []
  | s :: r =>
    let (w', e) := stepEffect w s
    let res := match e.result with
      | none => "-"
      | some (.inl k) => "=" ++ toString k
      | some (.inr o) => showEObj o
    (showIds (e.writesToExisting w.next), res, toString e.filesCreated) :: histReport w' r

/-- well-formed history: operand indices refer to existing pool objects, stored ids exist -/
def histWf (w : World) : List EStep → Bool
  | [] => true
  | s :: r =>
    (operands s.op).all (· < w.objs.length) && w.objs.all (fun o => o.reach.all (· < w.next)) &&
    histWf (stepEffect w s).1 r

def opC19Hist : P String := do
  let next ← pNat
  let objs ← pList pEObj
  let steps ← pList pEStep
  let w0 : World := ⟨next, objs, [], 0⟩
  let rep := histReport w0 steps
  let wr := "/".intercalate (rep.map (·.1))
  let res := "/".intercalate (rep.map (·.2.1))
  let files := "/".intercalate (rep.map (·.2.2))
  let spec := "/".intercalate (steps.map fun s => showIds (Spec.allowedWrites s))
  let hyp := histWf w0 steps && steps.all (·.op.isCurrent)
  pure s!"hyp={showBool hyp} wr={if steps.isEmpty then "-" else wr} spec={if steps.isEmpty then "-" else spec} res={if steps.isEmpty then "-" else res} files={if steps.isEmpty then "-" else files} untouched={showBool (Spec.inputsUntouched w0 steps)}"

def pPredEvent : P PredEvent := do
  let t ← tok
  match t with
  | "call" => do let a ← pArr; let b ← pArr; pure (.call a b)
  | "setrel" => do let x ← pTol; pure (.setRel x)
  | "setabs" => do let x ← pTol; pure (.setAbs x)
  | _ => failure

def opC19Pred : P String := do
  let k ← tok
  let kind ← match k with
    | "fuzzy" => pure PredKind.fuzzy
    | "default" => pure PredKind.default
    | "exact" => pure PredKind.exact
    | _ => failure
  let rel ← pTol
  let abs ← pTol
  let evs ← pList pPredEvent
  let m := (runPred (PredObj.fresh kind rel abs) evs).2
  let sp := Spec.specPred kind rel abs evs
  let sh := fun (l : List Verdict) => if l.isEmpty then "-" else String.join (l.map showVerdict)
  pure s!"hyp=1 model={sh m} spec={sh sp}"

/-- toy instance of the ladder: a data set is (stage, dim); stage 0 raw, 1 extended, 2 points sorted,
    3 canonical (points and cells sorted).  The domain-equality verdict of each stage is given. -/
def toyLadder (structured eq0 eqExt eqPerm eqSortc : Bool) : LadderOps (Nat × Nat) (Bool × Nat) where
  cmp := fun s _ => (match s.1 with | 0 => eq0 | 1 => eqExt | 2 => eqPerm | _ => eqSortc, s.1)
  ok := fun s => s.1
  dim := fun d => d.2
  structured := fun d => structured && d.1 == 0
  ext := fun m d => (max d.1 1, m)
  perm := fun d => (max d.1 2, d.2)
  sortc := fun d => (3, d.2)

def ladderRuns {D S} (L : LadderOps D S) (fl : CmpFlags) : Nat → CmpState D → List (S × Nat)
  | 0, _ => []
  | k + 1, st =>
    let r := runComparator L fl st
    (r.suite, r.callbacks) :: ladderRuns L fl k r.state

def opC19Ladder : P String := do
  let noReorder ← pBool
  let noDim ← pBool
  let dS ← pNat
  let dR ← pNat
  let structured ← pBool
  let eq0 ← pBool
  let eqExt ← pBool
  let eqPerm ← pBool
  let eqSortc ← pBool
  let k ← pNat
  let L := toyLadder structured eq0 eqExt eqPerm eqSortc
  let runs := ladderRuns L ⟨noReorder, noDim⟩ k ⟨(0, dS), (0, dR)⟩
  let model := ",".intercalate (runs.map fun r => showBool r.1.1 ++ ":" ++ toString r.2)
  let first := (runs.head?.map (·.1.1)).getD false
  let spec := ",".intercalate (runs.map fun _ => showBool first)
  let modelV := ",".intercalate (runs.map fun r => showBool r.1.1)
  pure s!"hyp=1 model={if runs.isEmpty then "-" else model} verdicts={if runs.isEmpty then "-" else modelV} spec={if runs.isEmpty then "-" else spec}"

def handleC19 (op : String) : Option (P String) :=
  match op with
  | "c19hist" => some opC19Hist
  | "c19pred" => some opC19Pred
  | "c19ladder" => some opC19Ladder
  | _ => none

end Fc.Drv.C19

/-- re-export for Driver/Main.lean -/
def Fc.Drv.handleC19 := Fc.Drv.C19.handleC19
