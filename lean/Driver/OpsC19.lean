/-
  Driver.OpsC19 — protocol operations for property C19 (filled in by the C19 work package).
  Contract: `handleC19 op` returns the parser for operation `op` or `none` if `op` is not one of
  this property's operations.
-/
import Driver.Proto
namespace Fc.Drv

def handleC19 (op : String) : Option (P String) :=
  match op with
  | _ => none

end Fc.Drv
