/-
  Driver.OpsC20 — protocol operations for property C20 (filled in by the C20 work package).
  Contract: `handleC20 op` returns the parser for operation `op` or `none` if `op` is not one of
  this property's operations.
-/
import Driver.Proto
namespace Fc.Drv

def handleC20 (op : String) : Option (P String) :=
  match op with
  | _ => none

end Fc.Drv
