/-
  Driver.OpsC20 — protocol operations for property C20 (JUnit report vs verdict).
  Scenario syntax: see Driver.OpsC04.

    junit floattab scenario
        → hyp=… model=<exit>;<report> spec=<0|1> cls=<F5|-> skip=<0|1|-> xskip=<names|->
    junitdir floattab optstrs(rtol) optstrs(atol) <ignMissingSrcFiles> <ignMissingRefFiles>
             <k> { <filename> scenario } <names> <names> <names> <names>
        → hyp=… model=<exit>;<report> spec=<0|1> cls=<F5|->
    jchildren <status>           → model=<tag,tag…|->          (children added by _add_test_case)

    report  := none | empty | suite { / suite }
    suite   := <name>|<tests>,<failures>,<errors>,<skipped>|<case>;<case>…
    case    := <name>:<kind>           kind = passed | failure | error | skipped
    names   := <n> <str>…
-/
import Driver.OpsC04
import FcModel.Junit
import FcModel.Spec.C20
namespace Fc.Drv.C20
open Fc Fc.C04 Fc.Drv Fc.Drv.C04

def showCase (c : TestCase) : String := s!"{escStr c.name}:{c.kind.name}"

def showJSuite (j : JSuite) : String :=
  s!"{escStr j.name}|{j.tests},{j.failures},{j.errors},{j.skipped}|{";".intercalate (j.cases.map showCase)}"

def showReport : Option (List JSuite) → String
  | none => "none"
  | some [] => "empty"
  | some js => "/".intercalate (js.map showJSuite)

/-- finding class F5 on the model's own suites: no report although the run fails, or a suite that
    fails by its own status while none of its test cases does -/
def clsOf (e : ExitOutcome) (suites : Option (List Suite)) : String :=
  match suites with
  | none => if e != .exit 0 then "F5" else "-"
  | some l => if l.any Spec.unbacked then "F5" else "-"

def opJunit : P String := do
  let tab ← pFloatTab
  let s ← pScenario
  if !tabCovers tab s.rtolToks s.atolToks then failure
  let pf := tabFun tab
  let r := fileReport pf s
  let raw := fileMode pf s
  let hyp := scenarioHyp pf s
  let rep := r.2.map fun j => [j]
  let spec := Spec.reportOk (r.1, rep)
  let (skip, xskip) : String × String :=
    match s.payload, r.2 with
    | .single p, some j =>
      if s.readRes == .ok && s.readRef == .ok && Spec.domainsEqual pf s p.dom then
        let want := Spec.expectedSkipped s p
        let got := Spec.skippedNames j
        -- equal as multisets (names are duplicate-free inside hyp): mutual inclusion + equal length
        let eq := want.length == got.length && want.all got.contains && got.all want.contains
        (showBool eq, if want.isEmpty then "empty" else ",".intercalate (want.map escStr))
      else ("-", "-")
    | _, _ => ("-", "-")
  pure s!"hyp={showBool hyp} model={showExit r.1};{showReport rep} spec={showBool spec} cls={clsOf r.1 (raw.2.map fun x => [x])} skip={skip} xskip={xskip}"

def pDirFile : P DirFile := do
  let fname ← pStr
  let s ← pScenario
  pure ⟨fname, s⟩

def opJunitDir : P String := do
  let tab ← pFloatTab
  let rt ← pOptStrs; let at_ ← pOptStrs
  let ims ← pBool; let imr ← pBool
  let files ← pList pDirFile
  let ms ← pList pStr; let mr ← pList pStr; let un ← pList pStr; let di ← pList pStr
  if !tabCovers tab rt at_ then failure
  -- every file scenario must carry the options of the run
  if !(files.all fun f => f.scen.rtolToks == rt && f.scen.atolToks == at_) then failure
  let pf := tabFun tab
  let d : DirScenario := ⟨rt, at_, ims, imr, files, ms, mr, un, di⟩
  let r := dirReport pf d
  let hyp := files.all fun f => scenarioHyp pf f.scen
  let suites : Option (List Suite) := r.2.map fun _ => (dirSuites pf d).map (·.2)
  pure s!"hyp={showBool hyp} model={showExit r.1};{showReport r.2} spec={showBool (Spec.reportOk r)} cls={clsOf r.1 suites}"

def opJChildren : P String := do
  let st ← pTestStatus
  let ch := junitChildren st
  pure s!"hyp=1 model={if ch.isEmpty then "-" else ",".intercalate ch}"

def handleC20 (op : String) : Option (P String) :=
  match op with
  | "junit" => some opJunit
  | "junitdir" => some opJunitDir
  | "jchildren" => some opJChildren
  | _ => none

end Fc.Drv.C20

def Fc.Drv.handleC20 := Fc.Drv.C20.handleC20
