/-
  Driver.OpsC05 — protocol operations for property C05 (VTK reading is independent of the encoding).

  bytes   := `x` followed by hex digit pairs (`x` alone = empty)
  cfg     := <hs> <le|be> <b64 0|1> <compressed 0|1> <joint 0|1> <blocksize>
  table   := <m> { <bytes key> <bytes value> }      finite codec oracle supplied by the harness

  c05enc  cfg <k> { <sz> <bytes items-LE> } table        → enc=<bytes>,…      (spec writer; table = compress)
  c05read cfg <n> { <bytes data> } <k> { <dataidx> <offset> <sz> } table
                                                         → model=<bytes|E>,…  (model reader; table = decompress)
  c05blk  cfg <n> { <bytes data> } <k> { <dataidx> <offset> }
                                                         → blocks=<rbs>:<bytes>;<bytes>…,…  | E per array
  c05vtuw <k> { <type> <nc> c_1 … c_nc } <m> { <nrows=k> <bytes row>… }
          → conn=… offs=… types=… spec=<layout> model=<layout|E> cdspec=… cdmodel=…
  c05vtu  <list corners> <list offsets> <list types> <m> { <nrows> <bytes row>… }
          → model=<layout|E> cd=<…|E>
  c05vtp  <list flat> <list offsets>                     → model=<rows>
  c05vtpidx <list sizes>                                 → model=<ranges>
  c05b64d <bytes> → model=<bytes|E>      c05b64e <bytes> → model=<bytes>
  c05encb <n>     → b64=<n> raw=<n>
  c05vtpw <k> { <type> <list rows> } <m> { <nrows> <bytes row>… }        (row := <list nat>)
          → arrs=<t>:<count>:<conn>:<offs>|… spec=<layout> model=<layout> cdspec=… cdmodel=…
  c05vtpl <k> { <type> <count> <list conn> <list offs> } <m> { <nrows> <bytes row>… }
          → model=<layout> cd=<…|E>
  c05ascw <le|be> <signed 0|1> <sz> <bytes items-LE>     → toks=<int,…> model=<bytes> (asciiItems of the tokens)
  c05ascr <le|be> <sz> <list int tokens>                 → model=<bytes>            (asciiItems)
  c05ascx <usesBo 0|1> <le|be> <sz> <list int tokens>    → model=<bytes>            (asciiItemsWith)
  c05fallback <bytes file-content>                       → model=<bytes appendix|E> enc=<bytes encoding name|->
  c05rawfile <pre> <a1> <a2> <enc> <a3> <ws> <appendix> <post>   (all bytes)
          → head=<0|1> app=<0|1> content=<bytes> model=<bytes|E> enc=<bytes|-> spec=<bytes> specenc=<bytes>
  layout := t:row;row;…:i.j.k|…     row := i.j.k  (`-` = empty)
-/
import Driver.Proto
import FcModel.Spec.C05
import FcModel.VtkAppendix
namespace Fc.Drv.C05
open Fc

def hexDigit (c : Char) : Option Nat :=
  if '0' ≤ c ∧ c ≤ '9' then some (c.toNat - 48)
  else if 'a' ≤ c ∧ c ≤ 'f' then some (c.toNat - 87)
  else none

def hexPairs : List Char → Option (List Nat)
  | [] => some []
  | [_] => none
  | a :: b :: r => do
    let x ← hexDigit a
    let y ← hexDigit b
    let t ← hexPairs r
    some ((x * 16 + y) :: t)

def pBytes : P (List Nat) := do
  let t ← tok
  match t.toList with
  | 'x' :: r => match hexPairs r with
    | some l => pure l
    | none => failure
  | _ => failure

def hexChar (n : Nat) : Char := if n < 10 then Char.ofNat (48 + n) else Char.ofNat (87 + n)

def showBytes (l : List Nat) : String :=
  String.ofList ('x' :: (l.foldr (fun b acc => hexChar (b / 16 % 16) :: hexChar (b % 16) :: acc) []))

def showOpt (o : Option (List Nat)) : String :=
  match o with
  | some l => showBytes l
  | none => "E"

def pBo : P ByteOrder := do
  let t ← tok
  match t with
  | "le" => pure .le
  | "be" => pure .be
  | _ => failure

def pCfg : P Spec.WriteCfg := do
  let hs ← pNat
  let bo ← pBo
  let b64 ← pBool
  let comp ← pBool
  let joint ← pBool
  let bs ← pNat
  if hs = 0 then failure
  pure ⟨⟨hs, bo, b64, comp⟩, joint, bs⟩

def pTable : P (List (List Nat × List Nat)) :=
  pList (do let k ← pBytes; let v ← pBytes; pure (k, v))

def sepBy (sep : String) (l : List String) : String := sep.intercalate l

def opEnc : P String := do
  let w ← pCfg
  let arrs ← pList (do let sz ← pNat; let b ← pBytes; pure (sz, b))
  let tbl ← pTable
  -- a total `compress` for the spec writer; blocks missing from the table are detected beforehand
  let compress : List Nat → List Nat := fun b => (tbl.lookup b).getD []
  let missing := w.rc.compressed && arrs.any (fun (sz, b) =>
    (chunks w.blockSize (Spec.toFileOrder w.rc.bo sz b)).any (fun blk => (tbl.lookup blk).isNone))
  if missing then pure "enc=E-table" else
  if w.rc.compressed && w.blockSize = 0 then pure "enc=E-blocksize" else
  pure s!"enc={sepBy "," (arrs.map (fun (sz, b) => showBytes (Spec.encodeArray w compress sz b)))}"

def opRead : P String := do
  let w ← pCfg
  let datas ← pList pBytes
  let arrs ← pList (do let i ← pNat; let o ← pNat; let sz ← pNat; pure (i, o, sz))
  let tbl ← pTable
  let decompress : List Nat → Nat → Option (List Nat) := fun b _ => tbl.lookup b
  let res := arrs.map (fun (i, o, sz) =>
    match datas[i]? with
    | none => "E-idx"
    | some d => showOpt (readArray w.rc decompress sz (appendixGet d o)))
  pure s!"model={sepBy "," res}"

def opBlk : P String := do
  let w ← pCfg
  let datas ← pList pBytes
  let arrs ← pList (do let i ← pNat; let o ← pNat; pure (i, o))
  let res := arrs.map (fun (i, o) =>
    match datas[i]? with
    | none => "E-idx"
    | some d => match compBlocks w.rc.hs w.rc.bo w.rc.enc (appendixGet d o) with
      | none => "E"
      | some (rbs, sl) => s!"{rbs}:{sepBy ";" (sl.map showBytes)}")
  pure s!"blocks={sepBy "," res}"

def showNats (l : List Nat) : String := if l.isEmpty then "-" else sepBy "." (l.map toString)

def showLayout (l : List (Nat × List (List Nat) × List Nat)) : String :=
  if l.isEmpty then "-" else
  sepBy "|" (l.map (fun (t, rows, idxs) => s!"{t}:{sepBy ";" (rows.map showNats)}:{showNats idxs}"))

def showCd (l : List (Nat × List (List Nat))) : String :=
  if l.isEmpty then "-" else
  sepBy "|" (l.map (fun (t, rows) => s!"{t}:{sepBy ";" (rows.map showBytes)}"))

def showCds (o : List (Option (List (Nat × List (List Nat))))) : String :=
  if o.isEmpty then "-" else sepBy "," (o.map (fun x => match x with | some l => showCd l | none => "E"))

def pCellData : P (List (List (List Nat))) := pList (pList pBytes)

def opVtuW : P String := do
  let cs ← pList (do let t ← pNat; let c ← pList pNat; pure (t, c))
  let cds ← pCellData
  let (conn, offs, types) := Spec.vtuArrays cs
  let spec := Spec.vtuContent cs
  let model := vtuLayout conn offs types
  let cdspec := cds.map (fun rows => some (Spec.cellDataContent cs rows))
  let cdmodel := cds.map (fun rows => match model with
    | none => none
    | some lay => splitCellData rows lay)
  let ms := match model with | some l => showLayout l | none => "E"
  pure s!"conn={showNats conn} offs={showNats offs} types={showNats types} spec={showLayout spec} model={ms} cdspec={showCds cdspec} cdmodel={showCds cdmodel}"

def opVtu : P String := do
  let conn ← pList pNat
  let offs ← pList pNat
  let types ← pList pNat
  let cds ← pCellData
  let model := vtuLayout conn offs types
  let cdmodel := cds.map (fun rows => match model with
    | none => none
    | some lay => splitCellData rows lay)
  let ms := match model with | some l => showLayout l | none => "E"
  pure s!"model={ms} cd={showCds cdmodel}"

def opVtp : P String := do
  let flat ← pList pNat
  let offs ← pList pNat
  let rows := vtpRows flat offs
  pure s!"model={if rows.isEmpty then "-" else sepBy ";" (rows.map showNats)}"

def opVtpIdx : P String := do
  let sizes ← pList pNat
  let r := vtpIndexRanges sizes 0
  pure s!"model={if r.isEmpty then "-" else sepBy ";" (r.map showNats)}"

def opB64d : P String := do
  let b ← pBytes
  pure s!"model={showOpt (b64decodeLenient b)}"

def opB64e : P String := do
  let b ← pBytes
  pure s!"model={showBytes (b64encode b)}"

def opEncB : P String := do
  let n ← pNat
  pure s!"b64={b64Encoder.encodedBytes n} raw={rawEncoder.encodedBytes n}"

def showInts (l : List Int) : String := if l.isEmpty then "-" else sepBy "," (l.map toString)

def opAscW : P String := do
  let bo ← pBo
  let signed ← pBool
  let sz ← pNat
  let b ← pBytes
  if sz = 0 then failure
  let toks := Spec.asciiTokens signed sz b
  pure s!"toks={showInts toks} model={showBytes (asciiItems bo sz toks)}"

def opAscR : P String := do
  let bo ← pBo
  let sz ← pNat
  let toks ← pList pInt
  pure s!"model={showBytes (asciiItems bo sz toks)}"

def opAscX : P String := do
  let uses ← pBool
  let bo ← pBo
  let sz ← pNat
  let toks ← pList pInt
  pure s!"model={showBytes (asciiItemsWith uses bo sz toks)}"

def opVtpW : P String := do
  let secs ← pList (do let t ← pNat; let rows ← pList (pList pNat); pure (t, rows))
  let cds ← pCellData
  let arrs := Spec.vtpArrays secs
  let spec := Spec.vtpContent secs
  let model := vtpLayout arrs
  let cdspec := cds.map (fun rows => some (Spec.vtpCellDataContent secs rows))
  let cdmodel := cds.map (fun rows => splitCellData rows model)
  let sa := if arrs.isEmpty then "-" else
    sepBy "|" (arrs.map (fun (t, n, conn, offs) => s!"{t}:{n}:{showNats conn}:{showNats offs}"))
  pure s!"arrs={sa} spec={showLayout spec} model={showLayout model} cdspec={showCds cdspec} cdmodel={showCds cdmodel}"

def opVtpL : P String := do
  let secs ← pList (do let t ← pNat; let n ← pNat; let conn ← pList pNat; let offs ← pList pNat; pure (t, n, conn, offs))
  let cds ← pCellData
  let model := vtpLayout secs
  let cdmodel := cds.map (fun rows => splitCellData rows model)
  pure s!"model={showLayout model} cd={showCds cdmodel}"

def opRawFile : P String := do
  let pre ← pBytes
  let a1 ← pBytes
  let a2 ← pBytes
  let enc ← pBytes
  let a3 ← pBytes
  let ws ← pBytes
  let appendix ← pBytes
  let post ← pBytes
  let f : Spec.RawFile := ⟨pre, a1, a2, enc, a3, ws, appendix, post⟩
  let hd := if decide f.HeadOk then 1 else 0
  let ap := if decide f.AppendixOk then 1 else 0
  let m := match fallbackAppendix f.content with
    | some (app, e) => s!"model={showBytes app} enc={showBytes e}"
    | none => "model=E enc=-"
  pure s!"head={hd} app={ap} content={showBytes f.content} {m} spec={showBytes f.appendix} specenc={showBytes f.enc}"

def opFallback : P String := do
  let content ← pBytes
  match fallbackAppendix content with
  | some (app, enc) => pure s!"model={showBytes app} enc={showBytes enc}"
  | none => pure "model=E enc=-"

def handleC05 (op : String) : Option (P String) :=
  match op with
  | "c05enc" => some opEnc
  | "c05read" => some opRead
  | "c05blk" => some opBlk
  | "c05vtuw" => some opVtuW
  | "c05vtu" => some opVtu
  | "c05vtp" => some opVtp
  | "c05vtpidx" => some opVtpIdx
  | "c05b64d" => some opB64d
  | "c05b64e" => some opB64e
  | "c05encb" => some opEncB
  | "c05ascw" => some opAscW
  | "c05ascr" => some opAscR
  | "c05ascx" => some opAscX
  | "c05vtpw" => some opVtpW
  | "c05vtpl" => some opVtpL
  | "c05rawfile" => some opRawFile
  | "c05fallback" => some opFallback
  | _ => none

end Fc.Drv.C05

/-- re-export for Driver/Main.lean -/
def Fc.Drv.handleC05 := Fc.Drv.C05.handleC05
