/-
  Driver.OpsC05 — protocol operations for property C05 (filled in by the C05 work package).
  Contract: `handleC05 op` returns the parser for operation `op` or `none` if `op` is not one of
  this property's operations.
-/
import Driver.Proto
namespace Fc.Drv

def handleC05 (op : String) : Option (P String) :=
  match op with
  | _ => none

end Fc.Drv
