/-
  Driver.OpsA — protocol operations of cluster A (C01, C09, C10).
-/
import Driver.Proto
import FcModel.Spec.Predicates
import FcModel.Spec.ClusterA
namespace Fc.Drv
open Fc

/-- hypothesis of the C01 theorems: both float64, tolerances numbers / well-shaped arrays /
    dynamic on non-empty data -/
def hypC01 (rel abs : Tol) (a b : NdArr) : Bool :=
  let shp := if a.shape.length ≥ b.shape.length then a.shape else b.shape
  let tolOk : Tol → Bool := fun t => match t with
    | .arr s _ => s == shp.tail
    | _ => true
  a.dtype == .flt f64 && b.dtype == .flt f64 && tolOk rel && tolOk abs

/-- `pred <kind> <rel> <abs> <a> <b>` → `hyp=… model=… spec=…` -/
def opPred : P String := do
  let kind ← tok
  let rel ← pTol
  let abs ← pTol
  let a ← pArr
  let b ← pArr
  match kind with
  | "fuzzy" =>
    let m := fuzzyCheck rel abs a b
    let hyp64 := hypC01 rel abs a b
    let optV : Option Bool → String := fun o => match o with
      | some v => showVerdict (.ok v)
      | none => "E"
    -- hypothesis class of the theorem that speaks about this case (`hk`):
    --   f64  : C01_model_eq_spec            (two float64 arrays, well-shaped tolerances)
    --   weak : C01_weak_model_eq_spec       (two float32 / two float16 arrays, Python-float
    --                                        tolerances whose roundings to the format are finite)
    --   int  : C10_int_model_eq_spec        (two arrays of one SIGNED integer type, every entry
    --                                        pair `intSafe`, number-valued / default tolerances;
    --                                        the code's per-entry fallback exists for ≤ 1-d only)
    let fmtOf : NdArr → Option Fmt := fun x => match x.dtype with
      | .flt F => some F
      | _ => none
    let hypW : Option Fmt := match fmtOf a, fmtOf b with
      | some F, some G =>
        if F == G && F != f64 && (Spec.weakTol F rel).isSome && (Spec.weakTol F abs).isSome then some F else none
      | _, _ => none
    let hypI : Option Nat := match a.dtype, b.dtype with
      | .int true bits, .int true bits' =>
        if bits == bits' && a.shape.length ≤ 1 && b.shape.length ≤ 1 && Spec.intSafeArr bits a b
            && (Spec.intTolNum rel).isSome && (Spec.intTolNum abs).isSome then some bits else none
      | _, _ => none
    let (hyp, hk, spec) : Bool × String × String :=
      if hyp64 then (true, "f64", optV (Spec.fuzzySpec rel abs a b))
      else match hypW with
        | some F => (true, "weak", optV (Spec.fuzzySpecWeak F rel abs a b))
        | none => match hypI with
          | some _ => (true, "int", optV (Spec.fuzzySpecInt rel abs a b))
          | none => (false, "-", "-")
    -- mhyp: the model is meant to reproduce the implementation (wider than the theorems' hyp):
    --   * two float32 / float16 arrays with weak tolerances (finite roundings), well-shaped array
    --     tolerances or scaled tolerances ("strong" route, C01_mixed_kernel);
    --   * two arrays of one integer type (signed or unsigned), ≤ 1-d, no entry the type minimum,
    --     number-valued / default tolerances (wrapping arithmetic is modelled: F12 is reproduced).
    let shp := if a.shape.length ≥ b.shape.length then a.shape else b.shape
    let fmtTolOk (F : Fmt) : Tol → Bool := fun t => match t with
      | .num u => (rndMag F u 0).isSome
      | .dflt => true
      -- array / scaled tolerances on float32/16 operands take numpy's "strong" route (binary64 product cast
      -- back by the in-place `*=`): proved at kernel level (C01_mixed_kernel) but NOT sampled, because an
      -- out-of-place product is an equally valid evaluation of the documented formula (harmless refactor)
      | _ => false
    let mhypF : Bool := match fmtOf a, fmtOf b with
      | some F, some G => F == G && F != f64 && fmtTolOk F rel && fmtTolOk F abs
      | _, _ => false
    let mhypI : Bool := match a.dtype, b.dtype with
      | .int sg bits, .int sg' bits' =>
        sg == sg' && bits == bits' && a.shape.length ≤ 1 && b.shape.length ≤ 1
          && Spec.arrNoMin a && Spec.arrNoMin b
          && (Spec.intTolNum rel).isSome && (Spec.intTolNum abs).isSome
      | _, _ => false
    let mhyp := hyp || mhypF || mhypI
    pure s!"hyp={showBool hyp} mhyp={showBool mhyp} hk={hk} model={showVerdict m} spec={spec}"
  | "default" =>
    let m := defaultCheck rel abs a b
    let exact := !a.dtype.hasFloats && !b.dtype.hasFloats
    -- an integer operand next to a float64 one is promoted to float64 (values converted exactly
    -- or rounded); the type minimum is excluded from `hyp` (numpy's abs wraps on it)
    let conv (x : NdArr) : Option NdArr := match x.dtype with
      | .int sg bits =>
        if x.data.any (fun v => sg && v == -(2 ^ (bits - 1) : Int)) then none
        else (intsToF64 x.data).map fun d => { x with dtype := .flt f64, data := d }
      | _ => some x
    match conv a, conv b with
    | some a', some b' =>
      let spec := if exact then showVerdict (.ok (Spec.exactSpec a b))
        else match Spec.fuzzySpec rel abs a' b' with
          | some v => showVerdict (.ok v)
          | none => "E"
      let hyp := exact || hypC01 rel abs a' b'
      -- hk: exact = C09_int_str_exact; mixed = C09_mixed_default_left/_right (an integer array
      -- without the type minimum next to a float64 array); f64 = C09_float_side_fuzzy + C01
      let isInt : NdArr → Bool := fun x => match x.dtype with
        | .int _ _ => true
        | _ => false
      let hk := if !hyp then "-" else if exact then "exact" else if isInt a || isInt b then "mixed" else "f64"
      pure s!"hyp={showBool hyp} hk={hk} model={showVerdict m} spec={if hyp then spec else "-"}"
    | _, _ => pure s!"hyp=0 hk=- model={showVerdict m} spec=-"
  | "exact" =>
    let m := exactCheck a b
    pure s!"hyp=1 model={showVerdict m} spec={showVerdict (.ok (Spec.exactSpec a b))}"
  | _ => failure

/-- `scaled <base> <a> <b>` → `model=<units|none>` -/
def opScaled : P String := do
  let base ← pNat
  let a ← pArr
  let b ← pArr
  match scaledTolerance base a b with
  | some u => pure s!"hyp=1 model={u} spec={u}"
  | none => pure "hyp=1 model=none spec=none"

/-- `scaledint <signed> <bits> <base> <a…> <b…>` → ScaledTolerance on integer arrays -/
def opScaledInt : P String := do
  let sg ← pBool
  let bits ← pNat
  let base ← pNat
  let a ← pList pInt
  let b ← pList pInt
  let hasMin := (a ++ b).any fun v => sg && v == -(2 ^ (bits - 1) : Int)
  let spec : Option Int :=
    if a.isEmpty ∨ b.isEmpty then none
    else
      let m := (a ++ b).foldl (fun m x => max m x.natAbs) 0
      match intToF64 m with
      | some mu => rndInt f64 (mu * base) UNIT
      | none => none
  let sh : Option Int → String := fun o => match o with
    | some u => toString u
    | none => "none"
  pure s!"hyp={showBool (!hasMin)} model={sh (scaledToleranceInt sg bits base a b)} spec={sh spec}"

/-- `scaledcompint <signed> <bits> <base> <k> <a…> <b…>` → ScaledTolerance with `use_component_magnitudes` on integer
    arrays of shape (n, k): the scalar model `scaledToleranceInt` applied to every column (that IS "per component") -/
def opScaledCompInt : P String := do
  let sg ← pBool
  let bits ← pNat
  let base ← pNat
  let k ← pNat
  let a ← pList pInt
  let b ← pList pInt
  if k = 0 then failure
  let col : List Int → Nat → List Int := fun xs c => (List.range (xs.length / k)).map fun r => xs.getD (r * k + c) 0
  let hasMin := (a ++ b).any fun v => sg && v == -(2 ^ (bits - 1) : Int)
  let sh : Option Int → String := fun o => match o with
    | some u => toString u
    | none => "none"
  let outs := (List.range k).map fun c => sh (scaledToleranceInt sg bits base (col a c) (col b c))
  pure s!"hyp={showBool (!hasMin)} model={",".intercalate outs}"

/-- `rnd <fmt> <a> <s>` → rounded magnitude (tests the rounding model itself) -/
def opRnd : P String := do
  let f ← tok
  let a ← pNat
  let s ← pNat
  let F ← match f with
    | "f64" => pure f64
    | "f32" => pure f32
    | "f16" => pure f16
    | _ => failure
  match rndMag F a s with
  | some r => pure s!"{r}"
  | none => pure "inf"

def handleA (op : String) : Option (P String) :=
  match op with
  | "pred" => some opPred
  | "scaled" => some opScaled
  | "scaledint" => some opScaledInt
  | "scaledcompint" => some opScaledCompInt
  | "rnd" => some opRnd
  | _ => none

end Fc.Drv
