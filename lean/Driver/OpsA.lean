/-
  Driver.OpsA — protocol operations of cluster A (C01, C09, C10).
-/
import Driver.Proto
import FcModel.Spec.Predicates
namespace Fc.Drv
open Fc

/-- hypothesis of the C01 theorems: both float64, tolerances numbers / well-shaped arrays /
    dynamic on non-empty data -/
def hypC01 (rel abs : Tol) (a b : NdArr) : Bool :=
  let shp := if a.shape.length ≥ b.shape.length then a.shape else b.shape
  let tolOk : Tol → Bool := fun t => match t with
    | .arr s _ => s == shp.tail
    | _ => true
  a.dtype == .flt f64 && b.dtype == .flt f64 && tolOk rel && tolOk abs

/-- `pred <kind> <rel> <abs> <a> <b>` → `hyp=… model=… spec=…` -/
def opPred : P String := do
  let kind ← tok
  let rel ← pTol
  let abs ← pTol
  let a ← pArr
  let b ← pArr
  match kind with
  | "fuzzy" =>
    let m := fuzzyCheck rel abs a b
    let hyp := hypC01 rel abs a b
    let spec := match Spec.fuzzySpec rel abs a b with
      | some v => showVerdict (.ok v)
      | none => "E"
    -- mhyp: the model is meant to reproduce the implementation (wider than the theorems' hyp):
    -- two float32 arrays with tolerances whose float32 roundings stay finite
    let f32ok : Tol → Bool := fun t => match t with
      | .num u => (rndMag f32 u 0).isSome
      | .dflt => true
      | _ => false
    let mhyp := hyp || (a.dtype == .flt f32 && b.dtype == .flt f32 && f32ok rel && f32ok abs)
    pure s!"hyp={showBool hyp} mhyp={showBool mhyp} model={showVerdict m} spec={if hyp then spec else "-"}"
  | "default" =>
    let m := defaultCheck rel abs a b
    let exact := !a.dtype.hasFloats && !b.dtype.hasFloats
    -- an integer operand next to a float64 one is promoted to float64 (values converted exactly
    -- or rounded); the type minimum is excluded from `hyp` (numpy's abs wraps on it)
    let conv (x : NdArr) : Option NdArr := match x.dtype with
      | .int sg bits =>
        if x.data.any (fun v => sg && v == -(2 ^ (bits - 1) : Int)) then none
        else (intsToF64 x.data).map fun d => { x with dtype := .flt f64, data := d }
      | _ => some x
    match conv a, conv b with
    | some a', some b' =>
      let spec := if exact then showVerdict (.ok (Spec.exactSpec a b))
        else match Spec.fuzzySpec rel abs a' b' with
          | some v => showVerdict (.ok v)
          | none => "E"
      let hyp := exact || hypC01 rel abs a' b'
      pure s!"hyp={showBool hyp} model={showVerdict m} spec={if hyp then spec else "-"}"
    | _, _ => pure s!"hyp=0 model={showVerdict m} spec=-"
  | "exact" =>
    let m := exactCheck a b
    pure s!"hyp=1 model={showVerdict m} spec={showVerdict (.ok (Spec.exactSpec a b))}"
  | _ => failure

/-- `scaled <base> <a> <b>` → `model=<units|none>` -/
def opScaled : P String := do
  let base ← pNat
  let a ← pArr
  let b ← pArr
  match scaledTolerance base a b with
  | some u => pure s!"hyp=1 model={u} spec={u}"
  | none => pure "hyp=1 model=none spec=none"

/-- `scaledint <signed> <bits> <base> <a…> <b…>` → ScaledTolerance on integer arrays -/
def opScaledInt : P String := do
  let sg ← pBool
  let bits ← pNat
  let base ← pNat
  let a ← pList pInt
  let b ← pList pInt
  let hasMin := (a ++ b).any fun v => sg && v == -(2 ^ (bits - 1) : Int)
  let spec : Option Int :=
    if a.isEmpty ∨ b.isEmpty then none
    else
      let m := (a ++ b).foldl (fun m x => max m x.natAbs) 0
      match intToF64 m with
      | some mu => rndInt f64 (mu * base) UNIT
      | none => none
  let sh : Option Int → String := fun o => match o with
    | some u => toString u
    | none => "none"
  pure s!"hyp={showBool (!hasMin)} model={sh (scaledToleranceInt sg bits base a b)} spec={sh spec}"

/-- `rnd <fmt> <a> <s>` → rounded magnitude (tests the rounding model itself) -/
def opRnd : P String := do
  let f ← tok
  let a ← pNat
  let s ← pNat
  let F ← match f with
    | "f64" => pure f64
    | "f32" => pure f32
    | "f16" => pure f16
    | _ => failure
  match rndMag F a s with
  | some r => pure s!"{r}"
  | none => pure "inf"

def handleA (op : String) : Option (P String) :=
  match op with
  | "pred" => some opPred
  | "scaled" => some opScaled
  | "scaledint" => some opScaledInt
  | "rnd" => some opRnd
  | _ => none

end Fc.Drv
