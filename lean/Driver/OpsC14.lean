/-
  Driver.OpsC14 — protocol operations for property C14 (filled in by the C14 work package).
  Contract: `handleC14 op` returns the parser for operation `op` or `none` if `op` is not one of
  this property's operations.
-/
import Driver.Proto
namespace Fc.Drv

def handleC14 (op : String) : Option (P String) :=
  match op with
  | _ => none

end Fc.Drv
