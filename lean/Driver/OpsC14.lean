/-
  Driver.OpsC14 — protocol operations for property C14 (difference data sets).

    c14mesh <domEq> <fields ref> <fields src>     src.diff_to(ref)
    c14tab  <table ref> <table src>               table := <nrows> <ncols> { <name> array }
    c14sub  <array ref> <array src>               one array subtraction (model only)

  Reply `hyp=<0|1> model=<canon> spec=<canon> domref=<0|1>`; canon = `;`-joined sorted entries
  `P|name|dtype|d,d|v,v,…` / `C|name|ctype|dtype|d,d|v,…`, values: integer, `n` (NaN), `+i`, `-i`; `E` = raises.
-/
import Driver.ProtoMesh
import FcModel.Spec.C14
namespace Fc.Drv.C14
open Fc Fc.C14

def showDVal : DVal → String
  | .fin v => toString v
  | .inf false => "+i"
  | .inf true => "-i"
  | .nan => "n"

def showDType : DType → String
  | .flt F => if F = f64 then "f64" else if F = f32 then "f32" else if F = f16 then "f16" else "f?"
  | .int s b => (if s then "i" else "u") ++ toString b
  | .str => "str"

def showDArr (a : DArr) : String :=
  showDType a.dtype ++ "|" ++ ",".intercalate (a.shape.map toString) ++ "|" ++ ",".intercalate (a.data.map showDVal)

def canonEntries (l : List String) : String :=
  ";".intercalate (l.mergeSort (fun a b => decide (¬ b < a)))

def nodupB {α} [BEq α] : List α → Bool
  | [] => true
  | x :: r => !(r.contains x) && nodupB r

def arrOk (a : NdArr) : Bool := a.data.length == prodList a.shape && a.dtype != .str

/-- decidable hypothesis of the C14 mesh theorems -/
def hypC14Mesh (domEq : Bool) (ref src : MeshFields) : Bool :=
  domEq &&
  nodupB (ref.pointFields.map (·.name)) && nodupB (src.pointFields.map (·.name)) &&
  nodupB (ref.cellFields.map fun f => (f.name, f.ctype)) && nodupB (src.cellFields.map fun f => (f.name, f.ctype)) &&
  ref.pointFields.all (fun f => arrOk f.values) && src.pointFields.all (fun f => arrOk f.values) &&
  ref.cellFields.all (fun f => arrOk f.values) && src.cellFields.all (fun f => arrOk f.values) &&
  ref.pointFields.all (fun f => src.pointFields.all fun g => f.name != g.name || f.values.shape == g.values.shape) &&
  ref.cellFields.all (fun f => src.cellFields.all fun g =>
    !(f.name == g.name && f.ctype == g.ctype) || f.values.shape == g.values.shape) &&
  -- every cell-field name of either side is present on every cell type of the reference mesh
  (ref.cellFields ++ src.cellFields).all (fun f => ref.mesh.cellTypes.all fun ct =>
    (ref.cellFields ++ src.cellFields).any fun g => g.name == f.name && g.ctype == ct) &&
  -- and no cell field lives on a type the reference mesh does not have
  (ref.cellFields ++ src.cellFields).all (fun f => ref.mesh.cellTypes.contains f.ctype)

def opC14Mesh : P String := do
  let domEq ← pBool
  let ref ← pMeshFields
  let src ← pMeshFields
  let hyp := hypC14Mesh domEq ref src
  let model := match meshDiffTo domEq src ref with
    | none => "E"
    | some d => canonEntries (d.pointFields.map (fun (f : DPointField) => "P|" ++ f.name ++ "|" ++ showDArr f.values)
        ++ d.cellFields.map (fun (f : DCellField) => "C|" ++ f.name ++ "|" ++ f.ctype ++ "|" ++ showDArr f.values))
  let domref := match meshDiffTo domEq src ref with
    | none => "-"
    | some d => showBool (d.mesh == ref.mesh)
  let spec := match Spec.meshDiff src ref with
    | none => "E"
    | some d => canonEntries (d.points.map (fun (f : String × DArr) => "P|" ++ f.1 ++ "|" ++ showDArr f.2)
        ++ d.cells.map (fun (f : (String × String) × DArr) => "C|" ++ f.1.1 ++ "|" ++ f.1.2 ++ "|" ++ showDArr f.2))
  pure s!"hyp={showBool hyp} model={model} spec={if hyp then spec else "-"} domref={domref}"

def pTable : P TableFields := do
  let n ← pNat
  let cols ← pList (do let k ← tok; let a ← pArr; pure (k, a))
  pure ⟨n, cols⟩

def hypC14Tab (ref src : TableFields) : Bool :=
  nodupB (ref.cols.map (·.1)) && nodupB (src.cols.map (·.1)) &&
  ref.cols.all (fun c => c.2.shape == [ref.nrows] && c.2.data.length == ref.nrows) &&
  src.cols.all (fun c => c.2.shape == [src.nrows] && c.2.data.length == src.nrows) &&
  -- common columns are numeric
  ref.cols.all (fun c => src.cols.all fun d => c.1 != d.1 || (c.2.dtype != .str && d.2.dtype != .str))

def showTable (t : DiffTable) : String :=
  toString t.nrows ++ ";" ++ canonEntries (t.cols.map fun c => "T|" ++ c.1 ++ "|" ++ showDArr c.2)

def opC14Tab : P String := do
  let ref ← pTable
  let src ← pTable
  let hyp := hypC14Tab ref src
  let model := match tableDiffTo src ref with
    | none => "E"
    | some t => showTable t
  let spec := showTable (Spec.tableDiff src ref)
  pure s!"hyp={showBool hyp} model={model} spec={if hyp then spec else "-"}"

def opC14Sub : P String := do
  let a1 ← pArr
  let a2 ← pArr
  let model := if a1.shape ≠ a2.shape then "E" else match subArr a1 a2 with
    | none => "E"
    | some d => showDArr d
  pure s!"hyp=1 model={model}"

def handleC14 (op : String) : Option (P String) :=
  match op with
  | "c14mesh" => some opC14Mesh
  | "c14tab" => some opC14Tab
  | "c14sub" => some opC14Sub
  | _ => none

end Fc.Drv.C14

/-- re-export for Driver/Main.lean -/
def Fc.Drv.handleC14 := Fc.Drv.C14.handleC14
