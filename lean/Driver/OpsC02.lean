/-
  Driver.OpsC02 — protocol operations for property C02.

  c02sort   <mesh>                                  canonical form of `sort(mesh)`
  c02ladder <noReorder> <noOrphanRemoval> <noDimMatch> <fields src> <fields ref>
  c02lex    <atol> <rtol> <ncols> <nrows> v…        `get_fuzzy_lex_sorting_index_map` alone
  c02runs   <n> b…                                  `walk_adjacent_true_index_ranges`
  c02close  <atol> <rtol> <a> <b>                   `np.isclose` / `fuzzy_equal` on one pair
  c02centre <k> <dim> v…                            cell centre of k corner rows
  c02hash   <n> i…                                  CPython tuple hash
  c02relabel <fields f> <n> ρ… <k> (<n> κ…)*k <fields g>   `Spec.relabelF ρ κ f` (κ per block of f) compared
                                                    with the harness's relabelling `g`; hypothesis and
                                                    conclusions of the phase-2 theorems evaluated

  c02stored <fields f>                              `Resid.storedHyp f` (core-only copy `Resid2.storedHypB`): Sep ∧
                                                    Distinguishable of the mesh AS STORED + centre slack
  c02noisy  <fields f> <fields f'> <n> ρ… <k> (<n> κ…)*k   f' = f with noisy coordinates; `Resid2.noisyFullHyp`
                                                    and the ladder on the noisy relabelled pair in both roles

  `argsort` is instantiated twice (stable merge sort; the same with reversed tie order);
  `tie=1` says that both instantiations gave the same observable.
-/
import Driver.ProtoMesh
import FcModel.Spec.C02
import FcModel.Spec.Resid2
namespace Fc.Drv.C02
open Fc Fc.Drv Fc.C02

def showNats (l : List Nat) : String := ",".intercalate (l.map toString)

def showMeshMaps (pm : List Nat) (cms : List (String × List Nat)) (m : Mesh) : String :=
  "P:" ++ showNats pm ++
  String.join (cms.map fun (ct, cm) =>
    "|" ++ ct ++ ":" ++ showNats cm ++ "=" ++ ";".intercalate ((m.cellsOf ct).map showNats))

/-- index maps of `sort` computed with the model for a given argsort: composed point map
    (sorted position ↦ original index), per type cell map, sorted mesh -/
def modelSort (as : List Int → List Nat) (f : MeshFields) : Option String :=
  let t := meshTolOf f.mesh
  let sm := unconnectedFilterMap as f.mesh
  let f1 := applyPointMap f sm
  match sortPointsIdx as t f1.mesh with
  | none => none
  | some pm =>
    let f2 := applyPointMap f1 pm
    let cms := f2.mesh.cells.map fun b => (b.1, cellSortMap as pyTupleHash b.2)
    let f3 := applyCellMaps f2 fun ct => (cms.lookup ct).getD []
    some (showMeshMaps (pm.map fun i => sm.getD i 0) cms f3.mesh)

def specSortStr (f : MeshFields) : String :=
  let t := meshTolOf f.mesh
  let sm := Spec.specStripMap f.mesh
  let f1 := applyPointMap f sm
  let pm := Spec.specSortPoints t f1.mesh
  let f2 := applyPointMap f1 pm
  let cms := f2.mesh.cells.map fun b => (b.1, Spec.specCellMap pyTupleHash b.2)
  let f3 := applyCellMaps f2 fun ct => (cms.lookup ct).getD []
  showMeshMaps (pm.map fun i => sm.getD i 0) cms f3.mesh

def opSort : P String := do
  let m ← pMesh
  let f : MeshFields := ⟨m, [], []⟩
  let t := meshTolOf m
  let hyp := Spec.sortHyp pyTupleHash t f
  let r1 := modelSort argsortStable f
  let r2 := modelSort argsortRevTies f
  let dup := (Spec.pointData (Spec.sepA t) (applyPointMap f (Spec.specStripMap m)).mesh).dups.length
  pure s!"hyp={showBool hyp} model={r1.getD "raise"} tie={showBool (r1 == r2)} spec={if hyp then specSortStr f else "-"} dup={dup} atol={t.atol}"

def showOutcome : LadderRes → String
  | .raised => "raised"
  | .done rung o =>
    s!"{rung}:{showBool o.domainEq}:" ++
      ",".intercalate (o.statuses.map fun (n, ct, st) => s!"{n}/{ct}~{st.show}")

def opLadder : P String := do
  let a ← pBool
  let b ← pBool
  let c ← pBool
  let src ← pMeshFields
  let ref ← pMeshFields
  let fl : LadderFlags := ⟨a, b, c⟩
  let r := ladder argsortStable argsortStable pyTupleHash fl src ref
  let r2 := ladder argsortRevTies argsortStable pyTupleHash fl src ref
  let ts := meshTolOf src.mesh
  let tr := meshTolOf ref.mesh
  let reached2 := match r with
    | .done rung _ => decide (rung ≥ 2)
    | .raised => true
  let hs := Spec.sideHyp pyTupleHash b ts src
  let hr := Spec.sideHyp pyTupleHash b tr ref
  let hyp := src.wf && ref.wf && (!reached2 || (hs && hr))
  let js := Spec.jointSep b ts tr src ref
  pure s!"hyp={showBool hyp} model={showOutcome r} tie={showBool (r == r2)} sep={showBool (hs && hr)} jsep={showBool js} pass={showBool (Spec.ladderPasses r)} atol={ts.atol},{tr.atol}"

def opLex : P String := do
  let atol ← pNat
  let rtol ← pNat
  let ncols ← pNat
  let n ← pNat
  let vs ← pMany pInt (n * ncols)
  let rows := chunk ncols vs n
  let close := isclose atol rtol
  let r1 := fuzzyLexSortIdx argsortStable close ncols rows
  let r2 := fuzzyLexSortIdx argsortRevTies close ncols rows
  let t : MeshTol := ⟨atol, rtol⟩
  let A := Spec.sepA t
  let B := Spec.sepB t
  let kv := rows.map (Spec.keyVec A rows ncols)
  let hyp := decide (0 < ncols) && Spec.boundsOk t A B (maxAbsCoord rows) &&
    ((List.range ncols).all fun j => Spec.sepCol A B (Spec.column rows j)) &&
    (kv.zipIdx.all fun (k, i) => kv.zipIdx.all fun (k', j) => i == j || k != k')
  let spec := (List.range n).mergeSort fun i j => !Spec.lexLt (kv.getD j []) (kv.getD i [])
  pure s!"hyp={showBool hyp} model={showNats r1} tie={showBool (r1 == r2)} spec={if hyp then showNats spec else "-"}"

def opRuns : P String := do
  let bs ← pList pBool
  let rs := walkRuns bs
  pure ("hyp=1 model=" ++ ";".intercalate (rs.map fun (s, e) => s!"{s},{e}") ++ " spec=-")

def opClose : P String := do
  let atol ← pNat
  let rtol ← pNat
  let a ← pInt
  let b ← pInt
  let t : MeshTol := ⟨atol, rtol⟩
  pure s!"hyp=1 model={showBool (t.closeIs a b)}{showBool (t.closeFz a b)} spec=-"

def opCentre : P String := do
  let k ← pNat
  let dim ← pNat
  let vs ← pMany pInt (k * dim)
  let rows := chunk dim vs k
  match cellCentre rows (List.range k) with
  | some c => pure ("hyp=1 model=" ++ ",".intercalate (c.map toString) ++ " spec=-")
  | none => pure "hyp=0 model=none spec=-"

def opHash : P String := do
  let is ← pList pNat
  pure s!"hyp=1 model={pyTupleHash is} spec=-"

/-- `hyp` = `Spec.baseHyp` ∧ `ρ`, `κ` are permutations (hypotheses of `C02_sort_canonical` /
    `C02_no_false_fail_noise_free_partial`); `model` = does `Spec.relabelF` produce the harness's data
    set; `canon` = both sorts succeed and agree (two argsorts); `rigid` = the remaining hypothesis
    `hrigid` in both roles; `cont` = `Spec.continuousHyp` (no coincident points: `hrigid` is then a theorem);
    `pass` = the ladder passes in both roles (two argsorts) -/
def opRelabel : P String := do
  let f ← pMeshFields
  let ρ ← pList pNat
  let κs ← pList (pList pNat)
  let g ← pMeshFields
  let κ : String → List Nat := fun ct => ((f.mesh.cellTypes.zip κs).lookup ct).getD []
  let x := Spec.relabelF ρ κ f
  let t := meshTolOf f.mesh
  let idp := List.range f.mesh.points.length
  let mapsOk := ρ.isPerm idp && decide (κs.length = f.mesh.cells.length) &&
    f.mesh.cells.all fun b => (κ b.1).isPerm (List.range b.2.length)
  let hyp := Spec.baseHyp pyTupleHash f && mapsOk
  let canon := match sortMesh argsortStable pyTupleHash (meshTolOf x.mesh) x, sortMesh argsortRevTies pyTupleHash t f with
    | some a, some b => decide (a = b)
    | _, _ => false
  let rigid := (!meshEqual t x.mesh f.mesh || ρ == idp) && (!meshEqual t f.mesh x.mesh || ρ == idp)
  let pass := Spec.ladderPasses (ladder argsortStable argsortRevTies pyTupleHash {} x f) &&
    Spec.ladderPasses (ladder argsortRevTies argsortStable pyTupleHash {} f x)
  let cont := Spec.continuousHyp f
  -- phase 4 (appended fields; the meaning of the fields above is unchanged):
  -- `spt` = `Spec.pointHyp` of the mesh AS STORED (orphans included; excludes coincident orphan points, the
  -- counterexample to `hrigid` under `baseHyp` alone), `stored` = `Resid.storedHyp f` (`spt` ∧ centre slack)
  let spt := Spec.pointHyp t f.mesh
  let stored := Resid2.storedHypB f
  pure s!"hyp={showBool hyp} model={showBool (decide (x = g))} canon={showBool canon} rigid={showBool rigid} cont={showBool cont} pass={showBool pass} spt={showBool spt} stored={showBool stored} spec=-"

/-- `hyp` = `Resid.storedHyp f` (evaluated through the core-only copy `Resid2.storedHypB`, proved equal in
    FcProofs/Lemmas/Resid2Hyp.lean); `model` = its first conjunct `Spec.pointHyp` of the stored mesh -/
def opStored : P String := do
  let f ← pMeshFields
  let t := meshTolOf f.mesh
  pure s!"hyp={showBool (Resid2.storedHypB f)} model={showBool (Spec.pointHyp t f.mesh)} spec=-"

/-- noisy relabelled pair: `f'` must be `f` with other coordinates (`same`); `hyp` = `Resid2.noisyFullHyp` ∧ the
    maps are permutations (the complete decidable hypothesis of `C02_no_false_fail_noisy_decidable`); `pass` = the
    ladder passes on `(relabelF ρ κ f', f)` and on `(f, relabelF ρ κ f')` (two argsorts); `model` = the noisy
    relabelled data set the ladder was run on, for comparison with the harness's -/
def opNoisy : P String := do
  let f ← pMeshFields
  let f' ← pMeshFields
  let ρ ← pList pNat
  let κs ← pList (pList pNat)
  let g ← pMeshFields
  let κ : String → List Nat := fun ct => ((f.mesh.cellTypes.zip κs).lookup ct).getD []
  let P' := f'.mesh.points
  let same := decide (Resid2.withPoints f P' = f')
  let x := Spec.relabelF ρ κ (Resid2.withPoints f P')
  let idp := List.range f.mesh.points.length
  let mapsOk := ρ.isPerm idp && decide (κs.length = f.mesh.cells.length) &&
    f.mesh.cells.all fun b => (κ b.1).isPerm (List.range b.2.length)
  let hyp := same && mapsOk && Resid2.noisyFullHyp pyTupleHash f P'
  let pass := Spec.ladderPasses (ladder argsortStable argsortRevTies pyTupleHash {} x f) &&
    Spec.ladderPasses (ladder argsortRevTies argsortStable pyTupleHash {} f x)
  pure s!"hyp={showBool hyp} model={showBool (decide (x = g))} same={showBool same} pass={showBool pass} spec=-"

def handleC02 (op : String) : Option (P String) :=
  match op with
  | "c02sort" => some opSort
  | "c02ladder" => some opLadder
  | "c02lex" => some opLex
  | "c02runs" => some opRuns
  | "c02close" => some opClose
  | "c02centre" => some opCentre
  | "c02hash" => some opHash
  | "c02relabel" => some opRelabel
  | "c02stored" => some opStored
  | "c02noisy" => some opNoisy
  | _ => none

end Fc.Drv.C02

def Fc.Drv.handleC02 := Fc.Drv.C02.handleC02
