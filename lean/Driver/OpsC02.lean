/-
  Driver.OpsC02 — protocol operations for property C02 (filled in by the C02 work package).
  Contract: `handleC02 op` returns the parser for operation `op` or `none` if `op` is not one of
  this property's operations.
-/
import Driver.Proto
namespace Fc.Drv

def handleC02 (op : String) : Option (P String) :=
  match op with
  | _ => none

end Fc.Drv
