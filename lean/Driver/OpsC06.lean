/-
  Driver.OpsC06 — protocol operations for property C06.

  c06u  <whole fields> <k> <piece fields>*k
        → hyp=<b> f3=<b> part=<b> conf=<b> ok=<b> okby=<b> model=<merged fields, tokens joined by ','>
          (ok = Spec.readsAsWhole, okby = the name-indexed Spec.readsAsWholeBy the theorems speak about)
  c06s  <isPoint> <ndim> { <npieces> n … }
        → hyp=<b> idx=<indices of piece 0>;<piece 1>;…   (pieces in `_piece_locations` order)
          cover=<b> once=<b> n=<number of merged entities>
  c06sm <isPoint> <ndim> { <npieces> n … } <npieces total> { <nrows> id … }
        → hyp=<b> model=<merged ids> (pieces given in `_piece_locations` order; -1 = never written)
  c06pv <isPoint> <k> { b0 e0 b1 e1 b2 e2 }*k { <nrows> id … }*k
        → sizes=<a,b|c|d> meshed=<dirs> locs=<..;..> model=<merged ids>
  c06pr <k> { 6 extent ints }*k { <n> x… <n> y… <n> z… }*k
        → model=<x ordinates|y ordinates|z ordinates> or model=E (the reader raises)
  c06rd <k> { <6 extent ints> <geom> <npf> { <name> array }* <ncf> { <name> array }* }*k
        geom := I o0 o1 o2 s0 s1 s2 b00 … b22 | R { <n> x… }*3 | S <np> { x y z }*np
        → hyp=<b> model=<mesh>|<point fields>|<cell fields> or model=E   (the whole `_merge_structured`;
          mesh := I,<extents>,<origin>,<spacing>,<basis> / R,<extents>,{n,x…}*3 / S,<extents>,<np>,coords;
          fields := name,array;…   hyp = all pieces carry the same fields with the same dtypes and entry
          shapes, and the image origin shift is exact)
-/
import Driver.ProtoMesh
import FcModel.Spec.C06
namespace Fc.Drv.C06
open Fc Fc.C06

def showDType : DType → String
  | .flt F => if F == f64 then "f64" else if F == f32 then "f32" else "f16"
  | .int s b => (if s then "i" else "u") ++ toString b
  | .str => "str"

def encArr (a : NdArr) : List String :=
  [showDType a.dtype, toString a.shape.length] ++ a.shape.map toString ++
  [toString a.data.length] ++ a.data.map toString

def encMesh (m : Mesh) : List String :=
  [toString m.dim, toString m.points.length] ++ m.points.flatMap (·.map toString) ++
  [toString m.cells.length] ++ m.cells.flatMap fun b =>
    [b.1, toString b.2.length, toString ((b.2.head?.map List.length).getD 0)] ++ b.2.flatMap (·.map toString)

def encFields (f : MeshFields) : String :=
  ",".intercalate (encMesh f.mesh ++ [toString f.pointFields.length] ++
    f.pointFields.flatMap (fun pf => pf.name :: encArr pf.values) ++
    [toString f.cellFields.length] ++
    f.cellFields.flatMap (fun cf => cf.name :: cf.ctype :: encArr cf.values))

def opC06u : P String := do
  let whole ← pMeshFields
  let pieces ← pList pMeshFields
  let hyp := mergeHyp pieces && whole.wf
  let f3 := f3Class pieces
  let part := Spec.isPartition whole pieces
  let conf := Spec.conforming whole
  match mergeAll lexsortIdx pieces with
  | none => failure
  | some m =>
    let cnames := dedupNames (whole.cellFields.map (·.name))
    let pnames := whole.pointFields.map (·.name)
    let okby := Spec.readsAsWholeBy cnames pnames m whole && Spec.sameSchema m whole
    pure s!"hyp={showBool hyp} f3={showBool f3} part={showBool part} conf={showBool conf} ok={showBool (Spec.readsAsWhole m whole)} okby={showBool okby} model={encFields m}"

def pDecomp : P (List (List Nat)) := pList (pList pNat)

def showNats (l : List Nat) : String := ",".intercalate (l.map toString)

def opC06s : P String := do
  let isPoint ← pBool
  let d ← pDecomp
  let locs := locationsIn (piecesShape d)
  let idx := locs.map (pieceEntityIndices isPoint d)
  let n := prodShape (mergedShape isPoint d)
  let all := idx.flatten
  let cover := (List.range n).all fun g => all.contains g
  let once := (List.range n).all fun g => all.count g == 1
  let hyp := 1 ≤ d.length && d.length ≤ 3 && d.all (fun ns => !ns.isEmpty)
  pure s!"hyp={showBool hyp} idx={";".intercalate (idx.map showNats)} cover={showBool cover} once={showBool (once && all.length == n)} n={n}"

def showInts (l : List Int) : String := ",".intercalate (l.map toString)

def opC06sm : P String := do
  let isPoint ← pBool
  let d ← pDecomp
  let vals ← pList (pList pInt)
  let locs := locationsIn (piecesShape d)
  if vals.length ≠ locs.length then failure
  let cb := fun (loc : List Nat) => vals.getD (locs.idxOf loc) []
  let hyp := mergeStructuredHyp isPoint d cb
  pure s!"hyp={showBool hyp} model={showInts (mergeStructured isPoint d cb (-1))}"

def opC06pv : P String := do
  let isPoint ← pBool
  let k ← pNat
  let extents ← pMany (pMany pInt 6) k
  let vals ← pMany (pList pInt) k
  let sd := structuredDecomposition extents
  let sizes := "|".intercalate (sd.cellsPerAxis.map showInts)
  let locs := ";".intercalate (sd.pieceLocations.map showNats)
  pure s!"sizes={sizes} meshed={showNats sd.meshedDimensions} locs={locs} model={showInts (pvtkMergeField isPoint extents vals (-1))}"

/-- `c06pr <k> { b0 e0 b1 e1 b2 e2 }*k { <n0> x… <n1> y… <n2> z… }*k` → ordinates of the merged grid -/
def opC06pr : P String := do
  let k ← pNat
  let extents ← pMany (pMany pInt 6) k
  let ords ← pMany (pMany (pList pInt) 3) k
  let sd := structuredDecomposition extents
  match pvtrOrdinates sd ords with
  | some o => pure s!"model={"|".intercalate (o.map showInts)}"
  | none => pure "model=E"

def pGeom : P SGeom := do
  let t ← tok
  match t with
  | "I" => do
    let o ← pMany pInt 3
    let sp ← pMany pInt 3
    let b ← pMany (pMany pInt 3) 3
    pure (.image o sp b)
  | "R" => do
    let o ← pMany (pList pInt) 3
    pure (.rect o)
  | "S" => do
    let np ← pNat
    let pts ← pMany (pMany pInt 3) np
    pure (.struct pts)
  | _ => failure

def pSFile : P SFile := do
  let e ← pMany pInt 6
  let g ← pGeom
  let pf ← pList (do let n ← tok; let a ← pArr; pure (n, a))
  let cf ← pList (do let n ← tok; let a ← pArr; pure (n, a))
  pure ⟨e, g, pf, cf⟩

def encNamed (fs : List (String × NdArr)) : String :=
  ";".intercalate (fs.map fun f => ",".intercalate (f.1 :: encArr f.2))

def encSMesh : SMesh → String
  | .image g => ",".intercalate ("I" :: (g.extents ++ g.origin ++ g.spacing ++ g.basis.flatten).map toString)
  | .rect e o => ",".intercalate ("R" :: e.map toString ++ o.flatMap fun l => toString l.length :: l.map toString)
  | .struct e p => ",".intercalate ("S" :: e.map toString ++ [toString p.length] ++ p.flatten.map toString)

def schemaOf (fs : List (String × NdArr)) : List (String × DType × List Nat) :=
  fs.map fun f => (f.1, f.2.dtype, f.2.shape.tail)

def opC06rd : P String := do
  let pieces ← pList pSFile
  let extents := pieces.map (·.extent)
  let first := pieces.headD ⟨[], .rect [], [], []⟩
  let sameSchema := pieces.all fun p =>
    schemaOf p.pointFields == schemaOf first.pointFields && schemaOf p.cellFields == schemaOf first.cellFields
  let exact := match first.geom with
    | .image _ sp b => match (List.range 3).mapM (minLower extents) with
      | some lower => imageShiftExact UNIT b sp lower
      | none => false
    | _ => true
  match pvtkReadStructured UNIT pieces with
  | some r => pure s!"hyp={showBool (sameSchema && exact)} model={encSMesh r.mesh}|{encNamed r.pointFields}|{encNamed r.cellFields}"
  | none => pure s!"hyp={showBool (sameSchema && exact)} model=E"

def handleC06 (op : String) : Option (P String) :=
  match op with
  | "c06u" => some opC06u
  | "c06s" => some opC06s
  | "c06sm" => some opC06sm
  | "c06pv" => some opC06pv
  | "c06pr" => some opC06pr
  | "c06rd" => some opC06rd
  | _ => none

end Fc.Drv.C06

def Fc.Drv.handleC06 := Fc.Drv.C06.handleC06
