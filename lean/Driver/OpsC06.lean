/-
  Driver.OpsC06 — protocol operations for property C06 (filled in by the C06 work package).
  Contract: `handleC06 op` returns the parser for operation `op` or `none` if `op` is not one of
  this property's operations.
-/
import Driver.Proto
namespace Fc.Drv

def handleC06 (op : String) : Option (P String) :=
  match op with
  | _ => none

end Fc.Drv
