/-
  Driver.OpsC08 — protocol operations for property C08 (filled in by the C08 work package).
  Contract: `handleC08 op` returns the parser for operation `op` or `none` if `op` is not one of
  this property's operations.
-/
import Driver.Proto
namespace Fc.Drv

def handleC08 (op : String) : Option (P String) :=
  match op with
  | _ => none

end Fc.Drv
