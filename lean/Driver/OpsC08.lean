/-
  Driver.OpsC08 — protocol operations for property C08.

  c08.chain  <fields> <k> { L <pp> <cps> | X <sd> }   k steps applied left to right
             pp  := - | p <n> i…            point index map new→old (or none)
             cps := - | c <t> { <type> <n> i… }   per-type cell index maps (or none)
     → hyp=<every layer satisfies permHypB on its input> res=<fields|E> same=<0|1|->
       pcont=<point content of the result> ccont=<cell content of the result>
  c08.strip  <fields>
     → hyp=<…> map=<filter map with the stable argsort|E> kept=<Spec.keptPoints> res=<fields|E>
  c08.extend <sd> <fields>
     → hyp=<wf> model=<fields|E> spec=<fields|E>
-/
import Driver.ProtoMesh
import FcModel.Transform
import FcModel.Extend
import FcModel.Spec.C08
namespace Fc.Drv.C08
open Fc

def showInts (l : List Int) : String := ",".intercalate (l.map toString)
def showNats (l : List Nat) : String := ",".intercalate (l.map toString)

def showDT : DType → String
  | .flt F => if F = f64 then "f64" else if F = f32 then "f32" else "f16"
  | .int true b => s!"i{b}"
  | .int false b => s!"u{b}"
  | .str => "str"

def showArr (a : NdArr) : String :=
  s!"{showDT a.dtype}:{"x".intercalate (a.shape.map toString)}:{showInts a.data}"

def showMesh (m : Mesh) : String :=
  let pts := "/".intercalate (m.points.map showInts)
  let cells := "|".intercalate (m.cells.map fun b => b.1 ++ ":" ++ "/".intercalate (b.2.map showNats))
  s!"D{m.dim};P{pts};C{cells}"

def showFields (f : MeshFields) : String :=
  let pfs := "|".intercalate (f.pointFields.map fun pf => pf.name ++ ":" ++ showArr pf.values)
  let cfs := "|".intercalate (f.cellFields.map fun cf => cf.name ++ ":" ++ cf.ctype ++ ":" ++ showArr cf.values)
  s!"{showMesh f.mesh};PF{pfs};CF{cfs}"

def showOptFields : Option MeshFields → String
  | some f => showFields f
  | none => "E"

def showValues (vs : List (String × List Int)) : String :=
  String.join (vs.map fun v => "#" ++ v.1 ++ "=" ++ showInts v.2)

def showPointContent (l : List PointItem) : String :=
  "|".intercalate (l.map fun it => showInts it.coords ++ showValues it.values)

def showCellContent (l : List CellItem) : String :=
  "|".intercalate (l.map fun it =>
    it.ctype ++ "@" ++ "/".intercalate (it.corners.map showInts) ++ showValues it.values)

def pOptPerm : P (Option (List Nat)) := do
  let t ← tok
  if t == "-" then pure none
  else if t == "p" then do let l ← pList pNat; pure (some l)
  else failure

def pOptCellPerms : P (Option CellPerms) := do
  let t ← tok
  if t == "-" then pure none
  else if t == "c" then do
    let l ← pList (do let ct ← tok; let idx ← pList pNat; pure (ct, idx))
    pure (some l)
  else failure

def pStep : P Step := do
  let t ← tok
  if t == "L" then do
    let pp ← pOptPerm
    let cp ← pOptCellPerms
    pure (.layer pp cp)
  else if t == "X" then do
    let sd ← pNat
    pure (.extend sd)
  else failure

/-- run the chain, and-ing the layer hypotheses evaluated on each intermediate data set -/
def chainHyp : List Step → MeshFields → Bool
  | [], _ => true
  | s :: ss, f =>
    (match s with
     | .layer pp cp => permHypB f pp cp
     | .extend _ => f.wf2) &&
    (match applyStep s f with
     | some f1 => chainHyp ss f1
     | none => true)

def hasExtend (ss : List Step) : Bool := ss.any fun s => match s with | .extend _ => true | _ => false

def opChain : P String := do
  let f ← pMeshFields
  let steps ← pList pStep
  let hyp := chainHyp steps f
  let res := applySteps steps f
  let same := match res with
    | some g => if hasExtend steps then "-" else showBool (Spec.sameContent f g)
    | none => "-"
  let (pc, cc) := match res with
    | some g => (showPointContent g.pointContent, showCellContent g.cellContent)
    | none => ("E", "E")
  pure s!"hyp={showBool hyp} res={showOptFields res} same={same} pcont={pc} ccont={cc}"

def opStrip : P String := do
  let f ← pMeshFields
  let hyp := f.wf2
  let map := match unconnectedFilterMap stableArgsortBool f.mesh with
    | some l => showNats l
    | none => "E"
  let res := stripOrphanPoints stableArgsortBool f
  pure s!"hyp={showBool hyp} map={map} kept={showNats (Spec.keptPoints f.mesh)} res={showOptFields res}"

def opExtend : P String := do
  let sd ← pNat
  let f ← pMeshFields
  pure s!"hyp={showBool f.wf2} model={showOptFields (extendSpaceDim sd f)} spec={showOptFields (Spec.extendSpec sd f)}"

def handleC08 (op : String) : Option (P String) :=
  match op with
  | "c08.chain" => some opChain
  | "c08.strip" => some opStrip
  | "c08.extend" => some opExtend
  | _ => none

end Fc.Drv.C08

/-- re-export for Driver/Main.lean -/
def Fc.Drv.handleC08 := Fc.Drv.C08.handleC08
