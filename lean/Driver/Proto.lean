/-
  Driver.Proto — token-level parser combinators for the line protocol (core Lean only).
  A line is a list of space-separated tokens; parsers consume tokens from the front.
  A parse failure (`none`) makes the driver answer `bad-op`, never a default value.
-/
import FcModel.Predicates
namespace Fc.Drv

abbrev P := StateT (List String) Option

def tok : P String := fun s => match s with
  | [] => none
  | t :: r => some (t, r)

def pNat : P Nat := do
  let t ← tok
  match t.toNat? with
  | some n => pure n
  | none => failure

def pInt : P Int := do
  let t ← tok
  match t.toInt? with
  | some n => pure n
  | none => failure

def pBool : P Bool := do
  let t ← tok
  if t == "1" then pure true else if t == "0" then pure false else failure

def pMany {α} (p : P α) : Nat → P (List α)
  | 0 => pure []
  | n + 1 => do
    let x ← p
    let xs ← pMany p n
    pure (x :: xs)

/-- `<n> x1 … xn` -/
def pList {α} (p : P α) : P (List α) := do
  let n ← pNat
  pMany p n

def pEnd : P Unit := fun s => match s with
  | [] => some ((), [])
  | _ => none

def pDType : P DType := do
  let t ← tok
  match t with
  | "f64" => pure (.flt f64)
  | "f32" => pure (.flt f32)
  | "f16" => pure (.flt f16)
  | "i8" => pure (.int true 8)
  | "i16" => pure (.int true 16)
  | "i32" => pure (.int true 32)
  | "i64" => pure (.int true 64)
  | "u8" => pure (.int false 8)
  | "u16" => pure (.int false 16)
  | "u32" => pure (.int false 32)
  | "u64" => pure (.int false 64)
  | "str" => pure .str
  | _ => failure

/-- `<dtype> <ndim> d1 … dk <n> v1 … vn` with n = ∏ d -/
def pArr : P NdArr := do
  let dt ← pDType
  let shape ← pList pNat
  let data ← pList pInt
  if data.length ≠ prodList shape then failure
  pure ⟨dt, shape, data⟩

def pTol : P Tol := do
  let t ← tok
  match t with
  | "num" => do let u ← pNat; pure (.num u)
  | "arr" => do
      let shape ← pList pNat
      let us ← pList pNat
      if us.length ≠ prodList shape then failure
      pure (.arr shape us)
  | "dflt" => pure .dflt
  | "scaled" => do
      let t ← tok
      if t == "none" then pure (.scaled none) else
      match t.toNat? with
      | some u => pure (.scaled (some u))
      | none => failure
  | "scomp" => do let u ← pNat; pure (.scaledComp u)
  | _ => failure

def showVerdict : Verdict → String
  | .ok true => "T"
  | .ok false => "F"
  | .err => "E"

def showBool (b : Bool) : String := if b then "1" else "0"

def run {α} (p : P α) (toks : List String) : Option α :=
  match (do let x ← p; pEnd; pure x : P α) toks with
  | some (x, _) => some x
  | none => none

end Fc.Drv
