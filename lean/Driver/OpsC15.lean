/-
  Driver.OpsC15 — protocol operations for property C15.

  c15iter <n> <cur0> <G> <H> g1 … gH
      G generators of `FieldDataSequence.__iter__` over ONE source of n steps whose cursor initially is cur0;
      history of `next(g)` calls.  → model=<g>:<event>:<calls>,…;<final cursor>   spec=<steps 0..n-1>
      event: y<i> | raise | stop ; calls: letters r(eset) g(et) s(tep)
  c15cmp <ignore> <force> <nRes> <curRes> <nRef> <curRef> <K> suite_0 … suite_{K-1}
      suite = <status|none> <ntests> t…   = what `_compare_field_data` returns for the pair (i, i);
      pairs (i, j) with i ≠ j or i ≥ K get a poison suite (status error), so a mis-paired step shows.
      → hyp=<lengths ≥ 1, step suites consistent> model=<S|R>;<bool>;<status>;<tests>;<pairs>  spec=<bool>;<pairs>
  c15file <kRes> <kRef> <single> <rest as c15cmp>  → model=<exit code>
  c15ts <status|none> <ntests> t…  → model=<bool>,<status property>            (TestSuite finite behaviour)
  c15merge <suite> <suite> → model=<bool>,<status property>,<raw status>
-/
import Driver.Proto
import FcModel.Spec.C15
namespace Fc.Drv.C15
open Fc

def tstatusName : TStatus → String
  | .passed => "passed"
  | .failed => "failed"
  | .error => "error"
  | .skipped => "skipped"

def parseTStatus (s : String) : Option TStatus :=
  Gen.TestStatus.all.find? (fun x => tstatusName x == s)

def pTStatus : P TStatus := do
  let t ← tok
  match parseTStatus t with
  | some s => pure s
  | none => failure

def pOptTStatus : P (Option TStatus) := do
  let t ← tok
  if t == "none" then pure none else
  match parseTStatus t with
  | some s => pure (some s)
  | none => failure

def pSuite : P TSuite := do
  let st ← pOptTStatus
  let ts ← pList pTStatus
  pure ⟨ts, st⟩

def showOptT : Option TStatus → String
  | none => "none"
  | some s => tstatusName s

def showTests (ts : List TStatus) : String :=
  if ts.isEmpty then "-" else ",".intercalate (ts.map tstatusName)

def showPairs15 (ps : List (Nat × Nat)) : String :=
  if ps.isEmpty then "-" else ",".intercalate (ps.map (fun p => s!"{p.1}:{p.2}"))

def showEv : Ev → String
  | .yield i => s!"y{i}"
  | .raise => "raise"
  | .stop => "stop"

def showCalls (cs : List Call) : String :=
  String.join (cs.map (fun c => match c with | .reset => "r" | .get => "g" | .step => "s"))

def opIter : P String := do
  let n ← pNat
  let cur ← pNat
  let G ← pNat
  let hist ← pList pNat
  if !(hist.all (· < G)) then failure
  let r := runHist ⟨n, cur⟩ (List.replicate G .fresh) hist
  let evs := r.1.map (fun e => s!"{e.1}:{showEv e.2.1}:{showCalls e.2.2}")
  let m := (if evs.isEmpty then "-" else ",".intercalate evs) ++ s!";{r.2.cur}"
  let spec := if n == 0 then "-" else ",".intercalate ((Spec.steps n).map toString)
  pure s!"hyp={showBool (n ≥ 1)} model={m} spec={spec}"

structure CmpArgs where
  o : SeqOpts
  res : Src
  ref : Src
  suites : List TSuite

def pCmpArgs : P CmpArgs := do
  let ign ← pBool
  let force ← pBool
  let nRes ← pNat
  let cRes ← pNat
  let nRef ← pNat
  let cRef ← pNat
  let suites ← pList pSuite
  pure ⟨⟨ign, force⟩, ⟨nRes, cRes⟩, ⟨nRef, cRef⟩, suites⟩

def poison : TSuite := ⟨[.error], some .error⟩

def stepFn (suites : List TSuite) (i j : Nat) : TSuite :=
  if i == j then suites.getD i poison else poison

def showSeqResult : SeqResult → String
  | .raised => "R;0;-;-;-"
  | .suite s c => s!"S;{showBool s.bool};{tstatusName s.statusProp};{showTests s.tests};{showPairs15 c}"

def opCmp : P String := do
  let a ← pCmpArgs
  let step := stepFn a.suites
  let r := compareSequences a.o a.res a.ref step
  let m := min a.res.n a.ref.n
  let hyp := a.res.n ≥ 1 && a.ref.n ≥ 1 && a.suites.length ≥ m && (a.suites.all Spec.consistent)
  let spec := s!"{showBool (Spec.seqVerdict a.o a.res.n a.ref.n (fun i => (step i i).bool))};{showPairs15 (Spec.comparedSteps a.o a.res.n a.ref.n)}"
  pure s!"hyp={showBool hyp} model={showSeqResult r} spec={if hyp then spec else "-"}"

def pKind : P DataKind := do
  let t ← tok
  match t with
  | "data" => pure .fieldData
  | "seq" => pure .sequence
  | "unknown" => pure .unknown
  | _ => failure

def opFile : P String := do
  let kRes ← pKind
  let kRef ← pKind
  let single ← pBool
  let a ← pCmpArgs
  let r := compareSequences a.o a.res a.ref (stepFn a.suites)
  let e := fileModeExit kRes kRef single r
  let spec := if kRes ≠ kRef then "nonzero" else "-"
  pure s!"hyp=1 model={e} spec={spec}"

def opTs : P String := do
  let s ← pSuite
  pure s!"hyp=1 model={showBool s.bool},{tstatusName s.statusProp} spec=-"

def opMerge : P String := do
  let s1 ← pSuite
  let s2 ← pSuite
  let m := mergeSuites s1 s2
  pure s!"hyp=1 model={showBool m.bool},{tstatusName m.statusProp},{showOptT m.status} spec={showBool (s1.bool && s2.bool)}"

def handleC15 (op : String) : Option (P String) :=
  match op with
  | "c15iter" => some opIter
  | "c15cmp" => some opCmp
  | "c15file" => some opFile
  | "c15ts" => some opTs
  | "c15merge" => some opMerge
  | _ => none

end Fc.Drv.C15

/-- re-export for Driver/Main.lean -/
def Fc.Drv.handleC15 := Fc.Drv.C15.handleC15
