/-
  Driver.OpsC15 — protocol operations for property C15 (filled in by the C15 work package).
  Contract: `handleC15 op` returns the parser for operation `op` or `none` if `op` is not one of
  this property's operations.
-/
import Driver.Proto
namespace Fc.Drv

def handleC15 (op : String) : Option (P String) :=
  match op with
  | _ => none

end Fc.Drv
