/-
  Driver.OpsC07 — protocol operations for property C07.

  geom   :=  image <U> o0 o1 o2 b00 … b22 s0 s1 s2  |  rect <nX> X… <nY> Y… <nZ> Z…  |  struct <np> x y z …
  (all coordinates of one line are counted in units of 2^-U; U = fractional bits, chosen by the harness)
  c07mesh  <ex> <ey> <ez> geom                         in-memory classes: ordered points / connectivity
  c07read  <6 extent ints> geom <npf>{name arr} <ncf>{name arr}    reader: content of the field data
  c07mio   <dim> <np> coords… <nb>{type ncells k idx…} <npd>{name arr} <ncd>{name arr×nb}   from_meshio
  c07tomio fields                                      to_meshio (content of the produced meshio mesh)

  content :=  P#C,  P = point items joined by `|`,  C = cell items joined by `|`
  point item  x,y,z/name=v,v/…      cell item  TYPE/x,y,z;x,y,z;…/name=v,v/…
-/
import Driver.Proto
import Driver.ProtoMesh
import FcModel.Spec.C07
namespace Fc.Drv.C07
open Fc Fc.Drv Fc.C07

def joinWith (sep : String) (l : List String) : String := sep.intercalate l

def showInts (l : List Int) : String := joinWith "," (l.map toString)
def showNats (l : List Nat) : String := joinWith "," (l.map toString)

def showValues (vs : List (String × List Int)) : String :=
  joinWith "" (vs.map fun (n, v) => s!"/{n}={showInts v}")

def showPointItem (p : PointItem) : String := showInts p.coords ++ showValues p.values

def showCellItem (c : CellItem) : String :=
  c.ctype ++ "/" ++ joinWith ";" (c.corners.map showInts) ++ showValues c.values

def showContent (ps : List PointItem) (cs : List CellItem) : String :=
  joinWith "|" (ps.map showPointItem) ++ "#" ++ joinWith "|" (cs.map showCellItem)

def pGeom : P GridGeom := do
  let k ← tok
  match k with
  | "image" => do
    let U ← pNat
    let o ← pMany pInt 3
    let b ← pMany pInt 9
    let s ← pMany pInt 3
    pure (.image U o (chunk 3 b 3) s)
  | "rect" => do
    let x ← pList pInt
    let y ← pList pInt
    let z ← pList pInt
    pure (.rect [x, y, z])
  | "struct" => do
    let n ← pNat
    let cs ← pMany pInt (n * 3)
    pure (.struct (chunk 3 cs n))
  | _ => failure

/-- exactness side conditions of the image formula (vacuous for the other kinds) -/
def geomExact (lo : List Int) (ext : List Nat) : GridGeom → Bool
  | .image U o b s => smallDyadic U ext o b s && lo.all (fun l => l.natAbs ≤ 256) &&
      (locationsIn (ext.map (· + 1))).all (fun it =>
        imagePointExact U b s (it.map Int.ofNat) && imagePointExact U b s (List.zipWith (· + ·) lo (it.map Int.ofNat)))
  | _ => true

def opMesh : P String := do
  let ext ← pMany pNat 3
  let g ← pGeom
  let hyp := C07.Spec.gridHyp ext g [] [] && geomExact [0, 0, 0] ext g
  let model := match gridMesh ext g with
    | none => "raise"
    | some m =>
      let ct := gridCellType g.kind ext
      s!"{ct}@{joinWith ";" (m.points.map showInts)}@{joinWith ";" ((m.cellsOf ct).map showNats)}"
  let spec :=
    let ct := C07.Spec.latticeType g.kind (gridDim ext)
    let np := prodNat (ext.map (· + 1))
    let pts := (List.range np).map fun p => C07.Spec.geomAt ext g (unflatten (ext.map (· + 1)) p)
    let rows := (List.range (prodNat (nonzeroExtents ext))).map (C07.Spec.latticeCell ext ct)
    s!"{ct}@{joinWith ";" (pts.map showInts)}@{joinWith ";" (rows.map showNats)}"
  pure s!"hyp={showBool hyp} model={model} spec={if hyp then spec else "-"}"

def pNamedArrs : P (List (String × NdArr)) := pList (do let n ← tok; let a ← pArr; pure (n, a))

def opRead : P String := do
  let extent ← pMany pInt 6
  let g ← pGeom
  let pfs ← pNamedArrs
  let cfs ← pNamedArrs
  let pfs' := pfs.map fun (n, a) => PointField.mk n a
  let model := match readGrid extent g pfs' cfs with
    | none => "raise"
    | some f => showContent f.pointContent (f.cellContent.map C07.Spec.normCell)
  match cellsPerDirection extent with
  | none => pure s!"hyp=0 model={model} spec=-"
  | some ext =>
    let lo := lowerEnds extent
    let hyp := C07.Spec.gridHyp ext g pfs' cfs && geomExact lo ext g && shiftExact lo g
    let spec := showContent (C07.Spec.filePointContent lo ext g pfs') (C07.Spec.fileCellContent lo ext g cfs)
    pure s!"hyp={showBool hyp} model={model} spec={if hyp then spec else "-"}"

def pMio : P MioMesh := do
  let dim ← pNat
  let np ← pNat
  let cs ← pMany pInt (np * dim)
  let nb ← pNat
  let blocks ← pMany (do
    let ct ← tok
    let nc ← pNat
    let k ← pNat
    let idx ← pMany pNat (nc * k)
    pure (ct, chunk k idx nc)) nb
  let pd ← pNamedArrs
  let cd ← pList (do let n ← tok; let arrs ← pMany pArr nb; pure (n, arrs))
  pure ⟨dim, chunk dim cs np, blocks, pd, cd⟩

def opMio : P String := do
  let m ← pMio
  let rep := m.repeatedType
  let hyp := m.wf && !rep
  let model := match fromMeshio m with
    | none => "raise"
    | some f => showContent f.pointContent f.cellContent
  let spec := showContent (C07.Spec.mioPointContent m) (C07.Spec.mioCellContent m)
  pure s!"hyp={showBool hyp} cls={showBool rep} model={model} spec={if m.wf then spec else "-"}"

/-- two cell types of the mesh collapse to one meshio type -/
def mioCollision (f : MeshFields) : Bool :=
  let ts := f.mesh.cellTypes.map C07.Spec.normType
  ts.zipIdx.any fun (t, i) => (ts.take i).contains t

def opToMio : P String := do
  let f ← pMeshFields
  let hyp := f.wf && !mioCollision f && f.mesh.cellTypes.all (fun t => (toMioType (C07.Spec.normType t)).isSome)
  let model := match toMeshio f with
    | none => "raise"
    | some m => showContent (C07.Spec.mioPointContent m) (C07.Spec.mioCellContent m)
  let spec := showContent f.pointContent (f.cellContent.map C07.Spec.normCell)
  pure s!"hyp={showBool hyp} model={model} spec={if hyp then spec else "-"}"

def handleC07 (op : String) : Option (P String) :=
  match op with
  | "c07mesh" => some opMesh
  | "c07read" => some opRead
  | "c07mio" => some opMio
  | "c07tomio" => some opToMio
  | _ => none

end Fc.Drv.C07

def Fc.Drv.handleC07 := Fc.Drv.C07.handleC07
