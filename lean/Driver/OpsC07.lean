/-
  Driver.OpsC07 — protocol operations for property C07 (filled in by the C07 work package).
  Contract: `handleC07 op` returns the parser for operation `op` or `none` if `op` is not one of
  this property's operations.
-/
import Driver.Proto
namespace Fc.Drv

def handleC07 (op : String) : Option (P String) :=
  match op with
  | _ => none

end Fc.Drv
