/-
  Driver.Main — `fcdrv`: one case per input line, one reply per line.
-/
import Driver.OpsA
namespace Fc.Drv

def dispatch (op : String) : Option (P String) :=
  handleA op

def step (line : String) : String :=
  let toks := (line.splitOn " ").filter (· ≠ "")
  match toks with
  | [] => "bad-op"
  | op :: rest =>
    match dispatch op with
    | none => "bad-op"
    | some p => (run p rest).getD "bad-op"

partial def loop (hin : IO.FS.Stream) (hout : IO.FS.Stream) : IO Unit := do
  let line ← hin.getLine
  if line.isEmpty then return ()
  let l := line.trimAscii.toString
  hout.putStrLn (step l)
  loop hin hout

end Fc.Drv

def main : IO Unit := do
  let hin ← IO.getStdin
  let hout ← IO.getStdout
  Fc.Drv.loop hin hout
  hout.flush
