/-
  Driver.Main — `fcdrv`: one case per input line, one reply per line.
  The first token selects the operation; each property's operations live in Driver/Ops<Cxx>.lean.
-/
import Driver.OpsA
import Driver.OpsC02
import Driver.OpsC03
import Driver.OpsC04
import Driver.OpsC05
import Driver.OpsC06
import Driver.OpsC07
import Driver.OpsC08
import Driver.OpsC11
import Driver.OpsC12
import Driver.OpsC13
import Driver.OpsC14
import Driver.OpsC15
import Driver.OpsC16
import Driver.OpsC17
import Driver.OpsC18
import Driver.OpsC19
import Driver.OpsC20
namespace Fc.Drv

def dispatch (op : String) : Option (P String) :=
  handleA op
    <|> handleC02 op
    <|> handleC03 op
    <|> handleC04 op
    <|> handleC05 op
    <|> handleC06 op
    <|> handleC07 op
    <|> handleC08 op
    <|> handleC11 op
    <|> handleC12 op
    <|> handleC13 op
    <|> handleC14 op
    <|> handleC15 op
    <|> handleC16 op
    <|> handleC17 op
    <|> handleC18 op
    <|> handleC19 op
    <|> handleC20 op

def step (line : String) : String :=
  let toks := (line.splitOn " ").filter (· ≠ "")
  match toks with
  | [] => "bad-op"
  | op :: rest =>
    match dispatch op with
    | none => "bad-op"
    | some p => (run p rest).getD "bad-op"

partial def loop (hin : IO.FS.Stream) (hout : IO.FS.Stream) : IO Unit := do
  let line ← hin.getLine
  if line.isEmpty then return ()
  let l := line.trimAscii.toString
  hout.putStrLn (step l)
  loop hin hout

end Fc.Drv

def main : IO Unit := do
  let hin ← IO.getStdin
  let hout ← IO.getStdout
  Fc.Drv.loop hin hout
  hout.flush
