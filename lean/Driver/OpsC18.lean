/-
  Driver.OpsC18 — protocol operations for property C18 (filled in by the C18 work package).
  Contract: `handleC18 op` returns the parser for operation `op` or `none` if `op` is not one of
  this property's operations.
-/
import Driver.Proto
namespace Fc.Drv

def handleC18 (op : String) : Option (P String) :=
  match op with
  | _ => none

end Fc.Drv
