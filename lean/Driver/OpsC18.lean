/-
  Driver.OpsC18 — protocol operations for property C18.

  c18fb   <hex content> <k> off…                 fallback parser on the prefixes `content[:off]`
          → r=<none | b,e,enchex,xmllen>/…
  c18pay  <h> <b64|raw> <size> <declared> <hex data> <k> off…
          → r=<none | hex bytes>:<0|1>/…         NoCompressor on `data[:off]`, then the length assertion
  c18comp <h> <b64|raw> <size> <declared> <n> {<hex compressed> <hex plain>}… <hex data> <k> off…
          → r=…                                  CompressorBase with the codec given as a finite table
  c18run  <ignSrc> <ignRef> <ok|io|other> <ok|io|other> (dom | raise | f <n> status…)
          → exit=<n> | raises
  c18xml  <hex content> <k> off…                 XmlLite scanner on the prefixes `content[:off]`
          → r=<0|1>/…
  c18ser  <none | hex decl> <hex ws1> <hex name> <attrs> <0 | 1 <n> node…> <hex ws2>
          attrs = <k> {<hex key> <hex value>}…;  node = T <hex> | E <hex name> <attrs> | O <hex name> <attrs> | C
          → hyp=<Doc.wf> model=<hex of Doc.ser> root=<length of prolog ++ rootInit>
  c18enc  <h> <b64|raw> <bsz> <n> {<hex plain block> <hex compressed block>}… <hex payload>
          → model=<hex of encodeComp>             the stored form of a compressed array (codec as a table)
-/
import Driver.OpsC13
import FcModel.Truncation
import FcModel.C18XmlLite
namespace Fc.Drv.C18
open Fc.W Fc.Drv Fc.Drv.C13

def pEnc : P Enc := do
  let t ← tok
  match t with
  | "b64" => pure b64E
  | "raw" => pure rawE
  | _ => failure

def showOptBytes (o : Option Bytes) : String :=
  match o with
  | none => "none"
  | some b => hexOfBytes b

def opC18Fb : P String := do
  let content ← pHex
  let offs ← pList pNat
  let one (off : Nat) : String :=
    match fallback (content.take off) with
    | none => "none"
    | some r =>
      -- positions are re-derived for the reply (the record holds the slices)
      match appendixPositions (content.take off) with
      | some (b, e) => s!"{b},{e},{hexOfBytes r.encoding},{r.xmlPart.length}"
      | none => "none"
  pure s!"r={joinStr "/" (offs.map one)}"

def opC18Pay : P String := do
  let h ← pNat
  let E ← pEnc
  let size ← pNat
  let declared ← pNat
  let data ← pHex
  let offs ← pList pNat
  let one (off : Nat) : String :=
    let r := noCompReadE h E (data.take off)
    s!"{showOptBytes r}:{showBool (checkDeclared size declared r).isSome}"
  pure s!"r={joinStr "/" (offs.map one)}"

def opC18Comp : P String := do
  let h ← pNat
  let E ← pEnc
  let size ← pNat
  let declared ← pNat
  let table ← pList (do let c ← pHex; let d ← pHex; pure (c, d))
  let data ← pHex
  let offs ← pList pNat
  let decompress (b : Bytes) : Option Bytes := (table.find? (·.1 == b)).map (·.2)
  let one (off : Nat) : String :=
    let r := compReadE h E decompress (data.take off)
    s!"{showOptBytes r}:{showBool (checkDeclared size declared r).isSome}"
  pure s!"r={joinStr "/" (offs.map one)}"

def pRead : P Read := do
  let t ← tok
  match t with
  | "ok" => pure .ok
  | "io" => pure (.raised .io)
  | "other" => pure (.raised .other)
  | _ => failure

def pFStatus : P FStatus := do
  let t ← tok
  match t with
  | "passed" => pure .passed
  | "failed" => pure .failed
  | "error" => pure .error
  | "missing_source" => pure .missingSource
  | "missing_reference" => pure .missingReference
  | "filtered" => pure .filtered
  | _ => failure

def opC18Run : P String := do
  let ignSrc ← pBool
  let ignRef ← pBool
  let res ← pRead
  let ref ← pRead
  let k ← tok
  let cmp ← match k with
    | "dom" => pure Cmp.domainMismatch
    | "raise" => pure Cmp.raised
    | "f" => do let st ← pList pFStatus; pure (Cmp.fields st)
    | _ => failure
  match runFileMode ignSrc ignRef res ref cmp with
  | .ok n => pure s!"exit={n}"
  | .error _ => pure "exit=raises"


/-! ### XmlLite -/

def opC18Xml : P String := do
  let content ← pHex
  let offs ← pList pNat
  pure s!"r={joinStr "/" (offs.map fun off => showBool (Fc.XmlLite.scan (content.take off)))}"

inductive XTok where
  | text (t : List Nat)
  | empty (n : List Nat) (a : Fc.XmlLite.Attrs)
  | openE (n : List Nat) (a : Fc.XmlLite.Attrs)
  | close

def pAttrs : P Fc.XmlLite.Attrs := pList (do let k ← pHex; let v ← pHex; pure (k, v))

def pXTok : P XTok := do
  let t ← tok
  match t with
  | "T" => do let s ← pHex; pure (.text s)
  | "E" => do let n ← pHex; let a ← pAttrs; pure (.empty n a)
  | "O" => do let n ← pHex; let a ← pAttrs; pure (.openE n a)
  | "C" => pure .close
  | _ => failure

/-- the forest of a pre-order token list, built from the right with a stack of sibling lists;
    `none` = unbalanced -/
def buildForest (toks : List XTok) : Option Fc.XmlLite.Forest :=
  let stepR (st : Option (List Fc.XmlLite.Forest)) (t : XTok) : Option (List Fc.XmlLite.Forest) :=
    match st with
    | none => none
    | some stack =>
      match t, stack with
      | .close, _ => some (.nil :: stack)
      | .text s, top :: rest => some (.text s top :: rest)
      | .empty n a, top :: rest => some (.empty n a top :: rest)
      | .openE n a, children :: next :: rest => some (.elem n a children next :: rest)
      | _, _ => none
  match toks.reverse.foldl stepR (some [.nil]) with
  | some [f] => some f
  | _ => none

def opC18Ser : P String := do
  let d ← tok
  let decl ← (if d == "none" then pure none else
    match bytesOfHexChars (if d == "-" then [] else d.toList) with
    | some bs => pure (some bs)
    | none => failure : P (Option (List Nat)))
  let ws1 ← pHex
  let name ← pHex
  let attrs ← pAttrs
  let hasBody ← pBool
  let body ← (if hasBody then do
      let toks ← pList pXTok
      match buildForest toks with
      | some f => pure (some f)
      | none => failure
    else pure none : P (Option Fc.XmlLite.Forest))
  let ws2 ← pHex
  let doc : Fc.XmlLite.Doc := ⟨decl, ws1, name, attrs, body, ws2⟩
  pure s!"hyp={showBool doc.wf} model={hexOfBytes doc.ser} root={(doc.prolog ++ doc.rootInit).length}"

/-! ### the stored form of a compressed array -/

def opC18Enc : P String := do
  let h ← pNat
  let E ← pEnc
  let bsz ← pNat
  let table ← pList (do let b ← pHex; let c ← pHex; pure (b, c))
  let payload ← pHex
  let compress (b : Bytes) : Bytes := ((table.find? (·.1 == b)).map (·.2)).getD []
  pure s!"model={hexOfBytes (encodeComp h E compress bsz payload)}"

def handleC18 (op : String) : Option (P String) :=
  match op with
  | "c18fb" => some opC18Fb
  | "c18pay" => some opC18Pay
  | "c18comp" => some opC18Comp
  | "c18run" => some opC18Run
  | "c18xml" => some opC18Xml
  | "c18ser" => some opC18Ser
  | "c18enc" => some opC18Enc
  | _ => none

end Fc.Drv.C18

def Fc.Drv.handleC18 := Fc.Drv.C18.handleC18
