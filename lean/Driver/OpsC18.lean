/-
  Driver.OpsC18 — protocol operations for property C18.

  c18fb   <hex content> <k> off…                 fallback parser on the prefixes `content[:off]`
          → r=<none | b,e,enchex,xmllen>/…
  c18pay  <h> <b64|raw> <size> <declared> <hex data> <k> off…
          → r=<none | hex bytes>:<0|1>/…         NoCompressor on `data[:off]`, then the length assertion
  c18comp <h> <b64|raw> <size> <declared> <n> {<hex compressed> <hex plain>}… <hex data> <k> off…
          → r=…                                  CompressorBase with the codec given as a finite table
  c18run  <ignSrc> <ignRef> <ok|io|other> <ok|io|other> (dom | raise | f <n> status…)
          → exit=<n> | raises
-/
import Driver.OpsC13
import FcModel.Truncation
namespace Fc.Drv.C18
open Fc.W Fc.Drv Fc.Drv.C13

def pEnc : P Enc := do
  let t ← tok
  match t with
  | "b64" => pure b64E
  | "raw" => pure rawE
  | _ => failure

def showOptBytes (o : Option Bytes) : String :=
  match o with
  | none => "none"
  | some b => hexOfBytes b

def opC18Fb : P String := do
  let content ← pHex
  let offs ← pList pNat
  let one (off : Nat) : String :=
    match fallback (content.take off) with
    | none => "none"
    | some r =>
      -- positions are re-derived for the reply (the record holds the slices)
      match appendixPositions (content.take off) with
      | some (b, e) => s!"{b},{e},{hexOfBytes r.encoding},{r.xmlPart.length}"
      | none => "none"
  pure s!"r={joinStr "/" (offs.map one)}"

def opC18Pay : P String := do
  let h ← pNat
  let E ← pEnc
  let size ← pNat
  let declared ← pNat
  let data ← pHex
  let offs ← pList pNat
  let one (off : Nat) : String :=
    let r := noCompReadE h E (data.take off)
    s!"{showOptBytes r}:{showBool (checkDeclared size declared r).isSome}"
  pure s!"r={joinStr "/" (offs.map one)}"

def opC18Comp : P String := do
  let h ← pNat
  let E ← pEnc
  let size ← pNat
  let declared ← pNat
  let table ← pList (do let c ← pHex; let d ← pHex; pure (c, d))
  let data ← pHex
  let offs ← pList pNat
  let decompress (b : Bytes) : Option Bytes := (table.find? (·.1 == b)).map (·.2)
  let one (off : Nat) : String :=
    let r := compReadE h E decompress (data.take off)
    s!"{showOptBytes r}:{showBool (checkDeclared size declared r).isSome}"
  pure s!"r={joinStr "/" (offs.map one)}"

def pRead : P Read := do
  let t ← tok
  match t with
  | "ok" => pure .ok
  | "io" => pure (.raised .io)
  | "other" => pure (.raised .other)
  | _ => failure

def pFStatus : P FStatus := do
  let t ← tok
  match t with
  | "passed" => pure .passed
  | "failed" => pure .failed
  | "error" => pure .error
  | "missing_source" => pure .missingSource
  | "missing_reference" => pure .missingReference
  | "filtered" => pure .filtered
  | _ => failure

def opC18Run : P String := do
  let ignSrc ← pBool
  let ignRef ← pBool
  let res ← pRead
  let ref ← pRead
  let k ← tok
  let cmp ← match k with
    | "dom" => pure Cmp.domainMismatch
    | "raise" => pure Cmp.raised
    | "f" => do let st ← pList pFStatus; pure (Cmp.fields st)
    | _ => failure
  match runFileMode ignSrc ignRef res ref cmp with
  | .ok n => pure s!"exit={n}"
  | .error _ => pure "exit=raises"

def handleC18 (op : String) : Option (P String) :=
  match op with
  | "c18fb" => some opC18Fb
  | "c18pay" => some opC18Pay
  | "c18comp" => some opC18Comp
  | "c18run" => some opC18Run
  | _ => none

end Fc.Drv.C18

def Fc.Drv.handleC18 := Fc.Drv.C18.handleC18
