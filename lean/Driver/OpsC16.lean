/-
  Driver.OpsC16 — protocol operations for property C16 (filled in by the C16 work package).
  Contract: `handleC16 op` returns the parser for operation `op` or `none` if `op` is not one of
  this property's operations.
-/
import Driver.Proto
namespace Fc.Drv

def handleC16 (op : String) : Option (P String) :=
  match op with
  | _ => none

end Fc.Drv
