/-
  Driver.OpsC16 — protocol operations for property C16 (mesh equality over all representations).

  any  :=  E <rel> <abs> mesh                                   explicit Mesh
        |  P <rel> <abs> mesh                                   PermutedMesh (the view's data)
        |  R <rel> <abs> e0 e1 e2 <n> x… <n> y… <n> z…          RectilinearMesh (ordinates as given)
        |  S <rel> <abs> e0 e1 e2 <dim> <np> c…                 StructuredMesh
        |  I <rel> <abs> e0 e1 e2 o0 o1 o2 s0 s1 s2 b00 … b22   ImageMesh
  (tolerances and coordinates in units of 2^-1074)

  c16eq  any any      ->  hyp=<0|1> model=<T|F|E> spec=<T|F|->  kind=<short-cut|generic>
  c16gen any mesh     ->  gen=<1|0|->  tol=<units|none>
  c16compat n1 n2     ->  model=<0|1> id=<0|1|->
-/
import Driver.ProtoMesh
import FcModel.Spec.C16
namespace Fc.Drv.C16
open Fc Fc.Drv Fc.C03 Fc.C16

def pTriple {α} (p : P α) : P (List α) := pMany p 3

def pAnyMesh : P AnyMesh := do
  let k ← tok
  let rel ← pNat
  let abs ← pNat
  match k with
  | "E" => do let m ← pMesh; pure (.explicit ⟨m, rel, abs⟩)
  | "P" => do let m ← pMesh; pure (.permuted ⟨m, rel, abs⟩)
  | "R" => do
      let ext ← pTriple pNat
      let xs ← pList pInt
      let ys ← pList pInt
      let zs ← pList pInt
      pure (.rect ⟨ext, [xs, ys, zs], rel, abs⟩)
  | "S" => do
      let ext ← pTriple pNat
      let dim ← pNat
      let np ← pNat
      let cs ← pMany pInt (np * dim)
      pure (.struct ⟨ext, dim, chunk dim cs np, rel, abs⟩)
  | "I" => do
      let ext ← pTriple pNat
      let o ← pTriple pInt
      let s ← pTriple pInt
      let b ← pMany pInt 9
      pure (.image ⟨ext, o, s, chunk 3 b 3, rel, abs⟩)
  | _ => failure

/-- the decidable hypothesis under which the model speaks for one object -/
def anyOk (a : AnyMesh) : Bool := a.ok

/-- the generic path needs the generated points of image meshes: axis-aligned basis, no overflow -/
def genericOk : AnyMesh → Bool
  | .image g => g.axisBasis && g.points.isSome
  | _ => true

def specOf (a b : AnyMesh) : Option Bool :=
  match a, b with
  | .image x, .image y => some (imageParamsWithin x.rel x.abs x y)
  | .rect x, .rect y => some (rectParamsWithin x.rel x.abs x y)
  | .struct x, .struct y => some (structParamsWithin x.rel x.abs x y)
  | .permuted x, y => y.view.map fun v => meshEqualSpec x.rel x.abs x.mesh v.mesh
  | x, y =>
    match x.view, y.view with
    | some u, some v => some (meshEqualSpec (min u.rel v.rel) (min u.abs v.abs) u.mesh v.mesh)
    | _, _ => none

def opC16Eq : P String := do
  let a ← pAnyMesh
  let b ← pAnyMesh
  let sc := shortcut a b
  let hyp := anyOk a && anyOk b && (sc || (genericOk a && genericOk b))
  let m := equals a b
  let spec := match specOf a b with
    | some v => showVerdict (.ok v)
    | none => "-"
  pure s!"hyp={showBool hyp} model={showVerdict m} spec={if hyp then spec else "-"} kind={if sc then "short-cut" else "generic"}"

def showOptNat : Option Nat → String
  | some u => toString u
  | none => "none"

def opC16Gen : P String := do
  let a ← pAnyMesh
  let m ← pMesh
  let gen := match a.view with
    | some v => if genericOk a then showBool (v.mesh == m) else "-"
    | none => "-"
  let tol := match a with
    | .explicit x => meshDefaultAbsTol x.mesh
    | .permuted x => meshDefaultAbsTol x.mesh
    | .rect g => g.defaultAbsTol
    | .struct g => meshDefaultAbsTol g.toMesh
    | .image g => g.defaultAbsTol
  pure s!"gen={gen} tol={showOptNat tol}"

def opC16Compat : P String := do
  let n1 ← tok
  let n2 ← tok
  let idv := match cellTypeId n1, cellTypeId n2 with
    | some i, some j => showBool (compatibleId i j)
    | _, _ => "-"
  pure s!"model={showBool (compatible n1 n2)} id={idv}"

def handleC16 (op : String) : Option (P String) :=
  match op with
  | "c16eq" => some opC16Eq
  | "c16gen" => some opC16Gen
  | "c16compat" => some opC16Compat
  | _ => none

end Fc.Drv.C16

def Fc.Drv.handleC16 := Fc.Drv.C16.handleC16
