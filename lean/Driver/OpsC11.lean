/-
  Driver.OpsC11 — protocol operations for property C11.

  c11 <domEq> <U> strip… <U> incl… <U> excl… <U> annot… <ns> srcNames… <nr> refNames… <ns*nr> outcomes…
      names are ids < U; strip/incl/excl/annot are tables over the id universe (incl/excl are evaluated by
      the model on *stripped* ids; annot = the name is a cell-field name carrying a cell-type annotation);
      outcome of comparing source field i with reference field j is entry i*nr+j (0 pass, 1 fail, 2 raise);
      tags are positions.
      → hyp=<distinct names on both sides> cls=<1 iff some plain source name is changed by strip (class F14)>
        model=<verdict>;<suite entries in iteration order>;<callbacks>;<selector pairs>
        spec=<verdict>;<report>            (spec printed only inside hyp; report `-` when the domains differ)
        uspec=<verdict>;<report>           the same with the filters evaluated on user-level names
  fcs <status-name>  → model=<truthy>,<bucket>      finite table of FieldComparisonStatus / suite buckets
  findm <ns> src… <nr> ref…  → model=<pairs>;<orphansSrc>;<orphansRef>   (find_matches with `==` on ids, positions shown)
-/
import Driver.Proto
import FcModel.Spec.C11
namespace Fc.Drv.C11
open Fc

def fstatusName : FStatus → String
  | .passed => "passed"
  | .failed => "failed"
  | .error => "error"
  | .missing_source => "missing_source"
  | .missing_reference => "missing_reference"
  | .filtered => "filtered"

def parseFStatus (s : String) : Option FStatus :=
  Gen.FieldComparisonStatus.all.find? (fun x => fstatusName x == s)

def showCmps (cs : List Cmp) : String :=
  if cs.isEmpty then "-" else ",".intercalate (cs.map (fun c => s!"{c.name}:{fstatusName c.status}"))

def showPairs (ps : List (Nat × Nat)) : String :=
  if ps.isEmpty then "-" else ",".intercalate (ps.map (fun p => s!"{p.1}:{p.2}"))

def showNats (ps : List Nat) : String :=
  if ps.isEmpty then "-" else ",".intercalate (ps.map toString)

def tableFn {α} [Inhabited α] (t : List α) (i : Nat) : α := t.getD i default

def opC11 : P String := do
  let dom ← pBool
  let strip ← pList pNat
  let incl ← pList pBool
  let excl ← pList pBool
  let annot ← pList pBool
  let srcN ← pList pNat
  let refN ← pList pNat
  let outs ← pList pNat
  let U := strip.length
  if incl.length ≠ U || excl.length ≠ U || annot.length ≠ U then failure
  if !(strip.all (· < U)) || !(srcN.all (· < U)) || !(refN.all (· < U)) then failure
  if outs.length ≠ srcN.length * refN.length || !(outs.all (· < 3)) then failure
  let nr := refN.length
  let src : List Fld := (List.zip srcN (List.range srcN.length)).map (fun p => ⟨p.1, p.2⟩)
  let ref : List Fld := (List.zip refN (List.range nr)).map (fun p => ⟨p.1, p.2⟩)
  let pred : Fld → Fld → Outcome := fun s t =>
    match outs.getD (s.tag * nr + t.tag) 0 with
    | 0 => .pass
    | 1 => .fail
    | _ => .raise
  let sel := selectedName (tableFn strip) (tableFn incl) (tableFn excl)
  let r := comparatorCall sel dom pred src ref
  let hyp := Spec.hyp src ref
  let model := s!"{showBool r.suite.bool};{showCmps r.suite.iter};{showCmps r.callbacks};{showPairs r.selector}"
  let spec := if !hyp then "-" else
    s!"{showBool (Spec.verdict sel dom pred src ref)};{if dom then showCmps (Spec.report sel pred src ref) else "-"}"
  let usel := Spec.userSelected (tableFn strip) (tableFn annot) (tableFn incl) (tableFn excl)
  let uspec := if !hyp then "-" else
    s!"{showBool (Spec.verdict usel dom pred src ref)};{if dom then showCmps (Spec.report usel pred src ref) else "-"}"
  let cls := !(Spec.plainFixed (tableFn strip) (tableFn annot) src)
  pure s!"hyp={showBool hyp} cls={showBool cls} model={model} spec={spec} uspec={uspec}"

def opFcs : P String := do
  let t ← tok
  match parseFStatus t with
  | none => failure
  | some s =>
    let b := match bucketOf ⟨0, s⟩ with
      | .passed => "passed"
      | .failed => "failed"
      | .skipped => "skipped"
    pure s!"hyp=1 model={showBool s.truthy},{b} spec={showBool (!Spec.isFailure s)},-"

def opFindm : P String := do
  let srcN ← pList pNat
  let refN ← pList pNat
  let src := List.zip srcN (List.range srcN.length)
  let ref := List.zip refN (List.range refN.length)
  let r := findMatches (fun (a b : Nat × Nat) => a.1 == b.1) src ref
  pure s!"hyp=1 model={showPairs (r.pairs.map (fun p => (p.1.2, p.2.2)))};{showNats (r.orphansSrc.map (·.2))};{showNats (r.orphansRef.map (·.2))} spec=-"

def handleC11 (op : String) : Option (P String) :=
  match op with
  | "c11" => some opC11
  | "fcs" => some opFcs
  | "findm" => some opFindm
  | _ => none

end Fc.Drv.C11

/-- re-export for Driver/Main.lean -/
def Fc.Drv.handleC11 := Fc.Drv.C11.handleC11
