/-
  Driver.OpsC11 — protocol operations for property C11 (filled in by the C11 work package).
  Contract: `handleC11 op` returns the parser for operation `op` or `none` if `op` is not one of
  this property's operations.
-/
import Driver.Proto
namespace Fc.Drv

def handleC11 (op : String) : Option (P String) :=
  match op with
  | _ => none

end Fc.Drv
