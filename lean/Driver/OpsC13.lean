/-
  Driver.OpsC13 — protocol operations for property C13 (filled in by the C13 work package).
  Contract: `handleC13 op` returns the parser for operation `op` or `none` if `op` is not one of
  this property's operations.
-/
import Driver.Proto
namespace Fc.Drv

def handleC13 (op : String) : Option (P String) :=
  match op with
  | _ => none

end Fc.Drv
