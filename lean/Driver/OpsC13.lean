/-
  Driver.OpsC13 — protocol operations for property C13.

  c13vtu  <dim> <ptype> <npoints> bits…  <conntype> <nblocks> { <type> <ncells> <k> idx… }
          <npf> { <name> array }  <ncf> { <name> <type> array }
          array := <dtype> <rows> <ntail> d… <n> bits…
      → hyp=<0|1> file=<elements|none> back=<digest|none> spec=<digest|none>
        (hyp = `Spec.hyp && Spec.sizeOk`; back = digest of `readVtu (writeVtu F)`, spec = digest of `normalise F`;
         `C13_vtu_roundtrip` proves back = spec ≠ none whenever hyp=1 — the harness still compares them)
  c13csv  <ncols> names(hex)…  <nrows> tokens(hex, row-major)…
      → hyp=<0|1> text=<hex> back=<ncols>:<hex,…>/<row>/…|none
  c13b64  <hex bytes>      → enc=<text> dec=<hex|none>        (encoder / decoder against the stdlib)
  c13dec  <text>           → dec=<hex|none>                   (lenient decoder on arbitrary text)
-/
import Driver.Proto
import FcModel.Spec.C13
import FcModel.Csv
namespace Fc.Drv.C13
open Fc.W Fc.Drv

def hexDigit (n : Nat) : Char := if n < 10 then Char.ofNat (48 + n) else Char.ofNat (87 + n)

def hexOfBytes (bs : List Nat) : String :=
  if bs.isEmpty then "-" else String.ofList (bs.flatMap fun b => [hexDigit (b / 16 % 16), hexDigit (b % 16)])

def hexVal (c : Char) : Option Nat :=
  let n := c.toNat
  if 48 ≤ n ∧ n ≤ 57 then some (n - 48) else if 97 ≤ n ∧ n ≤ 102 then some (n - 87) else none

def bytesOfHexChars : List Char → Option (List Nat)
  | [] => some []
  | [_] => none
  | a :: b :: r => do
    let x ← hexVal a
    let y ← hexVal b
    let rest ← bytesOfHexChars r
    some ((x * 16 + y) :: rest)

def pHex : P (List Nat) := do
  let t ← tok
  if t == "-" then pure [] else
  match bytesOfHexChars t.toList with
  | some bs => pure bs
  | none => failure

def pWArr : P WArr := do
  let dt ← tok
  let rows ← pNat
  let tail ← pList pNat
  let items ← pList pNat
  pure ⟨dt, rows, tail, items⟩

def pWFields : P WFields := do
  let dim ← pNat
  let ptype ← tok
  let np ← pNat
  let cs ← pMany pNat (np * dim)
  let conntype ← tok
  let nb ← pNat
  let blocks ← pMany (do
    let ct ← tok
    let nc ← pNat
    let k ← pNat
    let idx ← pMany pNat (nc * k)
    pure (ct, (List.range nc).map fun i => (idx.drop (i * k)).take k)) nb
  let pfs ← pList (do let n ← tok; let a ← pWArr; pure (n, a))
  let cfs ← pList (do let n ← tok; let ct ← tok; let a ← pWArr; pure (n, ct, a))
  pure ⟨dim, ptype, (List.range np).map fun i => (cs.drop (i * dim)).take dim, conntype, blocks, pfs, cfs⟩

def joinStr (sep : String) (l : List String) : String := sep.intercalate l

def showNats (l : List Nat) : String := if l.isEmpty then "-" else joinStr "," (l.map toString)

def showText (t : List Nat) : String := if t.isEmpty then "-" else String.ofList (t.map Char.ofNat)

def showElem (sec : String) (e : DataArr) : String :=
  s!"{sec}|{e.name}|{e.vtk}|{e.ncomps}|{showText e.text}"

def showFile (f : VtuFile) : String :=
  joinStr ";" ([s!"N|{f.numPoints}|{f.numCells}"] ++ f.pointData.map (showElem "P") ++ f.cellData.map (showElem "C")
    ++ [showElem "X" f.points, showElem "K" f.conn, showElem "K" f.offsets, showElem "K" f.types])

def showList (sep : String) (l : List String) : String := if l.isEmpty then "-" else joinStr sep l

def showR (r : RFields) : String :=
  let cells := showList "/" (r.cells.map fun b => s!"{b.1}:{showList "_" (b.2.map showNats)}")
  let pf := showList "/" (r.pf.map fun f => s!"{f.name}:{f.dt}:{f.ncomps}:{showNats f.items}")
  let cf := showList "/" (r.cf.map fun f =>
    s!"{f.name}:{f.dt}:{f.ncomps}:{showList "+" (f.perType.map fun p => s!"{p.1}={showNats p.2}")}")
  s!"pts={r.ptype}:{showNats r.points};cells={cells};pf={pf};cf={cf}"

def opC13Vtu : P String := do
  let F ← pWFields
  let hyp := Spec.hyp F && Spec.sizeOk F      -- the two hypotheses of `C13_vtu_roundtrip`
  let file := writeVtu id F
  let back := file.bind readVtu
  let spec := Spec.normalise F
  let sh {α} (f : α → String) (o : Option α) : String := match o with | some x => f x | none => "none"
  pure s!"hyp={showBool hyp} file={sh showFile file} back={sh showR back} spec={sh showR spec}"

def opC13Csv : P String := do
  let names ← pList pHex
  let nrows ← pNat
  let cells ← pMany pHex (nrows * names.length)
  let rows := (List.range nrows).map fun i => (cells.drop (i * names.length)).take names.length
  let text := csvWrite names rows
  let back := match csvRead text with
    | none => "none"
    | some (ns, rs) =>
      joinStr "/" ((ns :: rs).map fun (r : List Token) => joinStr "," (r.map hexOfBytes))
  pure s!"hyp={showBool (csvHyp names rows)} text={hexOfBytes text} back={back}"

def opC13B64 : P String := do
  let bs ← pHex
  let enc := b64enc bs
  let dec := match b64dec enc with | some d => hexOfBytes d | none => "none"
  pure s!"enc={showText enc} dec={dec}"

def opC13Dec : P String := do
  let t ← tok
  let cs := if t == "-" then [] else t.toList.map Char.toNat
  pure s!"dec={match b64dec cs with | some d => hexOfBytes d | none => "none"}"

def handleC13 (op : String) : Option (P String) :=
  match op with
  | "c13vtu" => some opC13Vtu
  | "c13csv" => some opC13Csv
  | "c13b64" => some opC13B64
  | "c13dec" => some opC13Dec
  | _ => none

end Fc.Drv.C13

def Fc.Drv.handleC13 := Fc.Drv.C13.handleC13
