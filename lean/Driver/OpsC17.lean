/-
  Driver.OpsC17 — protocol operations for property C17 (filled in by the C17 work package).
  Contract: `handleC17 op` returns the parser for operation `op` or `none` if `op` is not one of
  this property's operations.
-/
import Driver.Proto
namespace Fc.Drv

def handleC17 (op : String) : Option (P String) :=
  match op with
  | _ => none

end Fc.Drv
