/-
  Driver.OpsC17 — protocol operations for property C17.

  c17.cmp <disable 0|1> <rel> <abs> <frel> <fabs> <source fields> <reference fields>
      rel/abs   : mesh tolerances (units) handed to mesh_equal's FuzzyEquality (python floats)
      frel/fabs : tolerances of the field predicate DefaultEquality(rel_tol, abs_tol): `dflt` | `num u`
      runs `MeshFieldsComparator(source, reference, disable_mesh_reordering=True,
            disable_space_dimension_matching=disable)()`  (no reordering rungs: `rest = false`)
    → hyp=<0|1> model=<T|F|E> dom0=<first domain check> rung=<extension rung taken>
        spec=<T|F|-> (T/F when the reference is the zero-padded copy of the source or vice versa, or dims equal
                       and the data sets identical; - otherwise)
  c17.zero <z> <rel> <abs>   → model=<fuzzyEq1 f64 0 z rel abs (weak scalars)> exact=<exact formula>
-/
import Driver.ProtoMesh
import FcModel.Extend
import FcModel.Spec.C17
namespace Fc.Drv.C17
open Fc

/-- cell stages of `mesh_equal` for two meshes with the same set of cell-type names:
    equal cell counts and equal sorted corner rows per type (stand-in for property C03's model) -/
def cellsEqSimple (a b : Mesh) : Bool :=
  (a.cells.all fun blk =>
    match b.cells.find? (·.1 == blk.1) with
    | some blk' => blk.2.length == blk'.2.length &&
        blk.2.map sortCellsKeyD == blk'.2.map sortCellsKeyD
    | none => false) &&
  (b.cells.all fun blk => (a.cells.find? (·.1 == blk.1)).isSome)
where sortCellsKeyD (row : List Nat) : List Nat := row.mergeSort (fun x y => decide (x ≤ y))

def fieldDTypeOk (a : NdArr) : Bool :=
  match a.dtype with
  | .flt F => F == f64
  | .int _ _ => true
  | .str => false

def hypC17 (s r : MeshFields) : Bool :=
  s.wf && r.wf &&
  decide (s.mesh.cellTypes.Nodup) && decide (r.mesh.cellTypes.Nodup) &&
  s.mesh.cellTypes.all (r.mesh.cellTypes.contains ·) && r.mesh.cellTypes.all (s.mesh.cellTypes.contains ·) &&
  decide ((s.namedFields.map (·.1)).Nodup) && decide ((r.namedFields.map (·.1)).Nodup) &&
  s.namedFields.all (fieldDTypeOk ·.2) && r.namedFields.all (fieldDTypeOk ·.2) &&
  (findFieldMatches s.namedFields r.namedFields).all (fun p => p.1.dtype == p.2.dtype)

def showOptBool : Option Bool → String
  | some true => "T"
  | some false => "F"
  | none => "E"

def pFieldTol : P Tol := do
  let t ← tok
  match t with
  | "dflt" => pure .dflt
  | "num" => do let u ← pNat; pure (.num u)
  | _ => failure

def opCmp : P String := do
  let disable ← pBool
  let rel ← pNat
  let abs ← pNat
  let frel ← pFieldTol
  let fabs ← pFieldTol
  let s ← pMeshFields
  let r ← pMeshFields
  let run := runComparison (domainEqual rel abs cellsEqSimple) (defaultCheck frel fabs)
  let rest : MeshFields → MeshFields → Bool := fun _ _ => false
  let m := compareDimMatch run rest disable s r
  let dom0 := (run s r).1
  let rung := !dom0 && s.mesh.dim != r.mesh.dim && !disable
  -- spec: only for the pairs the property talks about
  let spec : String :=
    if s.mesh.dim == r.mesh.dim then (if s == r then "T" else "-")
    else
      let d := max s.mesh.dim r.mesh.dim
      let (lo, hi) := if s.mesh.dim < r.mesh.dim then (s, r) else (r, s)
      match Spec.paddedCopy d lo with
      | some p => if p == hi then (if Spec.dimMatchSpec true disable true then "T" else "F") else "-"
      | none => "-"
  pure s!"hyp={showBool (hypC17 s r)} model={showOptBool m} dom0={showBool dom0} rung={showBool rung} spec={spec}"

def opZero : P String := do
  let z ← pInt
  let rel ← pNat
  let abs ← pNat
  pure s!"hyp=1 model={showBool (fuzzyEq1 f64 0 z rel true abs true)} exact={showBool (Spec.zeroVsExact z rel abs)}"

def handleC17 (op : String) : Option (P String) :=
  match op with
  | "c17.cmp" => some opCmp
  | "c17.zero" => some opZero
  | _ => none

end Fc.Drv.C17

/-- re-export for Driver/Main.lean -/
def Fc.Drv.handleC17 := Fc.Drv.C17.handleC17
