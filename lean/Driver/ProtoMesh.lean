/-
  Driver.ProtoMesh — line-protocol parsers for meshes and mesh field data.

  mesh   :=  <dim> <npoints> c_0 … c_{npoints*dim-1}  <nblocks> { <type> <ncells> <ncorners> i … }
  fields :=  mesh  <npf> { <name> array }  <ncf> { <name> <type> array }
  (names are tokens without blanks; the harness escapes blanks as `%20`)
-/
import Driver.Proto
import FcModel.Mesh
namespace Fc.Drv
open Fc

def chunk {α} (k : Nat) : List α → Nat → List (List α)
  | _, 0 => []
  | l, n + 1 => l.take k :: chunk k (l.drop k) n

def pMesh : P Mesh := do
  let dim ← pNat
  let np ← pNat
  let cs ← pMany pInt (np * dim)
  let nb ← pNat
  let blocks ← pMany (do
    let ct ← tok
    let nc ← pNat
    let k ← pNat
    let idx ← pMany pNat (nc * k)
    pure (ct, chunk k idx nc)) nb
  pure ⟨dim, chunk dim cs np, blocks⟩

def pMeshFields : P MeshFields := do
  let m ← pMesh
  let pfs ← pList (do let n ← tok; let a ← pArr; pure (PointField.mk n a))
  let cfs ← pList (do let n ← tok; let ct ← tok; let a ← pArr; pure (CellField.mk n ct a))
  pure ⟨m, pfs, cfs⟩

end Fc.Drv
