/-
  Driver.OpsC04 — protocol operations for property C04 (filled in by the C04 work package).
  Contract: `handleC04 op` returns the parser for operation `op` or `none` if `op` is not one of
  this property's operations.
-/
import Driver.Proto
namespace Fc.Drv

def handleC04 (op : String) : Option (P String) :=
  match op with
  | _ => none

end Fc.Drv
