/-
  Driver.OpsC04 — protocol operations for property C04 (CLI file mode).

  Strings (names, option arguments, path parts) travel percent-escaped: every character other
  than ASCII letters, digits, `-` and `_` is written `%<hex code point>.`; the empty string is `%.`.

    floattab := <n> { <str> (bad | exotic | num <units>) }          what `float(str)` does
    optstrs  := none | some <n> <str>…                              an `action="append"` option
    arr      := as in Driver.Proto.pArr
    fields   := <n> { <name> arr }
    dom      := tables <nres> <nref> | meshes arr arr <topoSame> <storageSame> <minSep> | mixedkinds
    pair     := dom fields(res) fields(ref)
    payload  := single pair | seqs <nres> <nref> <k> pair… | mixed
    scenario := optstrs(rtol) optstrs(atol) <ignSrc> <ignRef> <ignSeq> <forceSeq> <disableReorder>
                optstrs(incl) optstrs(excl) <readRes> <readRef> payload <n> <part>…
    read     := ok | io | exc

    cli floattab scenario        → hyp=… model=<0|1|…|raised> spec=<0|nz>
    pstatus <status> <ignSrc> <ignRef>   → model=<TestStatus>
    tstatus <status>             → model=<truthy><suiteIsTrue>     (TestStatus.__bool__, TestSuite._is_true)
    fstatus <status>             → model=<truthy>                  (FieldComparisonStatus.__bool__)
    exitcode <0|1>               → model=<int>
    toltok <dyn> <str> floattab  → model=<raised|exotic|named:<name>:<val>|unnamed:<val>>   val = n<units> | s<units>
    tolfor <dyn> optstrs <name> floattab → model=<raised|none|n<units>|s<units>> spec=…
    anno <str>                   → model=<str>                     (remove_annotation)
    suitename <n> <part>…        → model=<str>
-/
import Driver.Proto
import FcModel.Cli
import FcModel.Spec.C04
namespace Fc.Drv.C04
open Fc Fc.C04 Fc.Drv

/-! ### escaping -/

def hexDigit (n : Nat) : Char := if n < 10 then Char.ofNat (48 + n) else Char.ofNat (87 + n)

def hexOf (n : Nat) : List Char :=
  if n < 16 then [hexDigit n] else hexOf (n / 16) ++ [hexDigit (n % 16)]

def safeChar (c : Char) : Bool := c.isAlphanum || c == '-' || c == '_'

def escStr (s : String) : String :=
  if s.isEmpty then "%." else
  String.ofList (s.toList.flatMap fun c => if safeChar c then [c] else ['%'] ++ hexOf c.toNat ++ ['.'])

def hexVal (c : Char) : Option Nat :=
  if '0' ≤ c ∧ c ≤ '9' then some (c.toNat - 48)
  else if 'a' ≤ c ∧ c ≤ 'f' then some (c.toNat - 87)
  else none

/-- parse `hex…` up to the terminating '.'; returns (code point, rest) -/
def unescHex : List Char → Nat → Option (Nat × List Char)
  | [], _ => none
  | c :: cs, acc =>
    if c == '.' then some (acc, cs)
    else match hexVal c with
      | some v => unescHex cs (acc * 16 + v)
      | none => none

def unescAux : List Char → Nat → Option (List Char)
  | _, 0 => none
  | [], _ => some []
  | c :: cs, fuel + 1 =>
    if c == '%' then
      match cs with
      | '.' :: rest => unescAux rest fuel          -- "%." = nothing (the empty string)
      | _ =>
        match unescHex cs 0 with
        | some (n, rest) => (unescAux rest fuel).map (Char.ofNat n :: ·)
        | none => none
    else if safeChar c then (unescAux cs fuel).map (c :: ·)
    else none

def unescStr (s : String) : Option String :=
  (unescAux s.toList (s.length + 1)).map String.ofList

def pStr : P String := do
  let t ← tok
  match unescStr t with
  | some s => pure s
  | none => failure

/-! ### parsers -/

def pFloatLit : P FloatLit := do
  let t ← tok
  match t with
  | "bad" => pure .bad
  | "exotic" => pure .exotic
  | "num" => do let u ← pNat; pure (.num u)
  | _ => failure

/-- the table; looking up a literal that the harness did not supply is a protocol error, which the
    operations detect through `needed` below (never a default) -/
def pFloatTab : P (List (String × FloatLit)) := pList (do let s ← pStr; let v ← pFloatLit; pure (s, v))

def tabFun (tab : List (String × FloatLit)) (s : String) : FloatLit := (tab.lookup s).getD .bad

def pOptStrs : P (Option (List String)) := do
  let t ← tok
  match t with
  | "none" => pure none
  | "some" => do let l ← pList pStr; pure (some l)
  | _ => failure

def pFields : P (List Field) := pList (do let n ← pStr; let a ← pArr; pure ⟨n, a⟩)

def pDom : P DomainPair := do
  let t ← tok
  match t with
  | "tables" => do let n ← pNat; let m ← pNat; pure (.tables n m)
  | "meshes" => do
      let a ← pArr; let b ← pArr; let topo ← pBool; let stor ← pBool; let ms ← pNat
      pure (.meshes a b topo stor ms)
  | "mixedkinds" => pure .mixedKinds
  | _ => failure

def pPair : P PairData := do
  let d ← pDom; let r ← pFields; let f ← pFields
  pure ⟨d, r, f⟩

def pPayload : P Payload := do
  let t ← tok
  match t with
  | "single" => do let p ← pPair; pure (.single p)
  | "seqs" => do let n ← pNat; let m ← pNat; let st ← pList pPair; pure (.seqs n m st)
  | "mixed" => pure .mixed
  | _ => failure

def pRead : P ReadOutcome := do
  let t ← tok
  match t with
  | "ok" => pure .ok
  | "io" => pure .ioerror
  | "exc" => pure .exception
  | _ => failure

def pScenario : P Scenario := do
  let rt ← pOptStrs; let at_ ← pOptStrs
  let ignSrc ← pBool; let ignRef ← pBool; let ignSeq ← pBool; let force ← pBool; let dis ← pBool
  let incl ← pOptStrs; let excl ← pOptStrs
  let rr ← pRead; let rf ← pRead
  let pl ← pPayload
  let parts ← pList pStr
  pure ⟨rt, at_, ignSrc, ignRef, ignSeq, force, dis, incl, excl, rr, rf, pl, parts⟩

/-! ### literals the model will ask `float()` about -/

def neededOne (dyn : Bool) (s : String) : List String :=
  let val (v : String) : String :=
    if dyn && endsWith v.toList maxSuffix then String.ofList ((beforeFirst maxSuffix v.toList).getD []) else v
  match classifyTok s with
  | .malformed => []
  | .named _ v => [val v]
  | .unnamed v => [val v]

def needed (rt at_ : Option (List String)) : List String :=
  (rt.getD []).flatMap (neededOne false) ++ (at_.getD []).flatMap (neededOne true)

def tabCovers (tab : List (String × FloatLit)) (rt at_ : Option (List String)) : Bool :=
  (needed rt at_).all fun s => (tab.lookup s).isSome

/-! ### operations -/

def showExit : ExitOutcome → String
  | .exit n => toString n
  | .raisedOut => "raised"

def showTolVal : TolVal → String
  | .num u => s!"n{u}"
  | .scaled b => s!"s{b}"

def opCli : P String := do
  let tab ← pFloatTab
  let s ← pScenario
  if !tabCovers tab s.rtolToks s.atolToks then failure
  let pf := tabFun tab
  let m := (fileMode pf s).1
  let hyp := scenarioHyp pf s
  let spec := if Spec.exitZero pf s then "0" else "nz"
  pure s!"hyp={showBool hyp} model={showExit m} spec={spec}"

def pTestStatus : P TestStatus := do
  let t ← tok
  match TestStatus.all.find? (·.name == t) with
  | some s => pure s
  | none => failure

def pFcStatus : P FcStatus := do
  let t ← tok
  match FcStatus.all.find? (·.name == t) with
  | some s => pure s
  | none => failure

def opPStatus : P String := do
  let st ← pFcStatus; let a ← pBool; let b ← pBool
  pure s!"hyp=1 model={(parseStatus a b st).name}"

def opTStatus : P String := do
  let st ← pTestStatus
  pure s!"hyp=1 model={showBool st.truthy}{showBool (suiteIsTrue st)}"

def opFStatus : P String := do
  let st ← pFcStatus
  pure s!"hyp=1 model={showBool st.truthy}"

def opExitCode : P String := do
  let b ← pBool
  pure s!"hyp=1 model={boolToExitCode b}"

def opTolTok : P String := do
  let dyn ← pBool
  let s ← pStr
  let tab ← pFloatTab
  if !((neededOne dyn s).all fun x => (tab.lookup x).isSome) then failure
  let pf := tabFun tab
  let showV : Option (Option TolVal) → String
    | none => "raised"
    | some none => "exotic"
    | some (some v) => showTolVal v
  match classifyTok s with
  | .malformed => pure "hyp=1 model=raised"
  | .named n v =>
    match makeTolerance pf dyn v with
    | none => pure "hyp=1 model=raised"
    | r => pure s!"hyp=1 model=named:{escStr n}:{showV r}"
  | .unnamed v =>
    match makeTolerance pf dyn v with
    | none => pure "hyp=1 model=raised"
    | r => pure s!"hyp=1 model=unnamed:{showV r}"

def opTolFor : P String := do
  let dyn ← pBool
  let toks ← pOptStrs
  let name ← pStr
  let tab ← pFloatTab
  if !((toks.getD []).flatMap (neededOne dyn)).all (fun x => (tab.lookup x).isSome) then failure
  let pf := tabFun tab
  let showO : Option TolVal → String
    | none => "none"
    | some v => showTolVal v
  match parseTols pf dyn toks with
  | .raised =>
    pure s!"hyp=1 model=raised spec={if Spec.tokensValid pf dyn toks then "valid" else "raised"}"
  | .ok m ex =>
    let spec := if Spec.tokensValid pf dyn toks then showO (Spec.tolFor pf dyn toks name) else "raised"
    pure s!"hyp={showBool (!ex)} model={showO (m.get name)} spec={spec}"

def opAnno : P String := do
  let s ← pStr
  pure s!"hyp=1 model={escStr (removeAnnotation s)}"

def opSuiteName : P String := do
  let parts ← pList pStr
  pure s!"hyp=1 model={escStr (suiteName parts)}"

def handleC04 (op : String) : Option (P String) :=
  match op with
  | "cli" => some opCli
  | "pstatus" => some opPStatus
  | "tstatus" => some opTStatus
  | "fstatus" => some opFStatus
  | "exitcode" => some opExitCode
  | "toltok" => some opTolTok
  | "tolfor" => some opTolFor
  | "anno" => some opAnno
  | "suitename" => some opSuiteName
  | _ => none

end Fc.Drv.C04

def Fc.Drv.handleC04 := Fc.Drv.C04.handleC04
