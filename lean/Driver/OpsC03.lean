/-
  Driver.OpsC03 — protocol operations for property C03 (filled in by the C03 work package).
  Contract: `handleC03 op` returns the parser for operation `op` or `none` if `op` is not one of
  this property's operations.
-/
import Driver.Proto
namespace Fc.Drv

def handleC03 (op : String) : Option (P String) :=
  match op with
  | _ => none

end Fc.Drv
