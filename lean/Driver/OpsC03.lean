/-
  Driver.OpsC03 — protocol operations for property C03 (no false PASS).

  c03eq <rel> <abs> mesh mesh
        ->  hyp=<0|1> model=<T|F|E> spec=<T|F|->       `mesh_equal` with both tolerances given
  c03ladder <disableReordering> <disableDimMatching> <k> { any fields  any fields }^k
        ->  hyp=<0|1> model=<domainEq><suite> rung=<index of the rung that produced the result> err=<0|1>
        The k rungs are the (source, reference) pairs that the implementation's own public
        transformations produce along the retry ladder (original, [extended], sorted points, sorted
        cells); the model runs the ladder's control flow (`ladder`) over this chain and evaluates
        the domain check (`Fc.C16.equals`) and the field comparisons (`fieldsPass`) on each visited rung.
  fields := <npf> { <name> array } <ncf> { <name> <type> array }
-/
import Driver.OpsC16
import FcModel.Spec.C03
namespace Fc.Drv.C03
open Fc Fc.Drv Fc.C03 Fc.C16 Fc.Drv.C16

def opC03Eq : P String := do
  let rel ← pNat
  let abs ← pNat
  let a ← pMesh
  let b ← pMesh
  let hyp := (wfEq a) && (wfEq b)
  let m := meshEqualWith rel abs a b
  let spec := showVerdict (.ok (meshEqualSpec rel abs a b))
  pure s!"hyp={showBool hyp} model={showVerdict m} spec={if hyp then spec else "-"}"

/-- one side of one rung -/
structure Side where
  dom : AnyMesh
  fields : MeshFields

def pSide : P Side := do
  let a ← pAnyMesh
  let pfs ← pList (do let n ← tok; let x ← pArr; pure (PointField.mk n x))
  let cfs ← pList (do let n ← tok; let ct ← tok; let x ← pArr; pure (CellField.mk n ct x))
  match a.view with
  | some v => pure ⟨a, ⟨v.mesh, pfs, cfs⟩⟩
  | none => failure

/-- a chain = the remaining precomputed states of one side, current state first, with its rung index -/
abbrev Chain := List (Nat × Side)

def compareSides (s r : Chain) : Bool × Bool :=
  match s, r with
  | (_, x) :: _, (_, y) :: _ =>
    let dom := equals x.dom y.dom == .ok true
    (dom, dom && fieldsPass x.fields y.fields)
  | _, _ => (false, false)

def chainOps : LadderOps Chain where
  spaceDim := fun c => match c with
    | (_, x) :: _ => x.fields.mesh.dim
    | [] => 0
  extend := fun _ c => c.tail
  permute := fun c => c.tail
  sortCells := fun c => c.tail
  bothStructured := fun _ _ => false
  compare := compareSides

def opC03Ladder : P String := do
  let dr ← pBool
  let dd ← pBool
  let k ← pNat
  let rungs ← pMany (do let s ← pSide; let r ← pSide; pure (s, r)) k
  let idx := List.range k
  let cs : Chain := List.zip idx (rungs.map (·.1))
  let cr : Chain := List.zip idx (rungs.map (·.2))
  let res := ladder chainOps ⟨dr, dd⟩ cs cr
  let err := rungs.any fun p => equals p.1.dom p.2.dom == .err
  let hyp := rungs.all fun p => anyOk p.1.dom && anyOk p.2.dom
  -- the ladder must never run off the precomputed chain
  let rung := match res.src with
    | (i, _) :: _ => toString i
    | [] => "off"
  pure s!"hyp={showBool (hyp && rung != "off")} model={showBool res.domainEq}{showBool res.suite} rung={rung} err={showBool err}"

def handleC03 (op : String) : Option (P String) :=
  match op with
  | "c03eq" => some opC03Eq
  | "c03ladder" => some opC03Ladder
  | _ => none

end Fc.Drv.C03

def Fc.Drv.handleC03 := Fc.Drv.C03.handleC03
