/-
  Driver.OpsC12 — protocol operations for property C12 (filled in by the C12 work package).
  Contract: `handleC12 op` returns the parser for operation `op` or `none` if `op` is not one of
  this property's operations.
-/
import Driver.Proto
namespace Fc.Drv

def handleC12 (op : String) : Option (P String) :=
  match op with
  | _ => none

end Fc.Drv
