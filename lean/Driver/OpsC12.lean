/-
  Driver.OpsC12 — protocol operations for property C12 (directory mode).

  `c12dir <ims> <imr> <nRes> r… <nRef> f… <nUniv> (<incl> <excl> <supported> <mapped> <outcome>)*`
      paths are ids `0 … nUniv-1` (the harness numbers the relative paths of the trees it created);
      the table gives, per id, the filter truth values, `is_supported`, `--read-as` mapping and the
      file-mode outcome `P|F|E|X`; every id in the two lists must be `< nUniv`.
      reply: `hyp=<both lists duplicate-free> model=<exit>|<orphans>|<id>:<code>,… spec=…`
      codes: compared `P F E X`; missing source `MS` (failed) / `ms` (skipped); missing reference `MR`/`mr`;
      unsupported `U`; filtered `D`. Suites are listed sorted by (id, code).
  `c12fm <nSrc> s… <nRef> t…`
      `find_matches` on arbitrary (also duplicate-carrying) lists:
      reply: `hyp=1 model=<matched>|<orphans source>|<orphans reference>` (ids joined by `,`, order kept)
-/
import Driver.Proto
import FcModel.Spec.C12
namespace Fc.Drv.C12
open Fc.DirMode

def pOutcome : P Outcome := do
  let t ← tok
  match t with
  | "P" => pure .pass
  | "F" => pure .fail
  | "E" => pure .error
  | "X" => pure .exception
  | _ => failure

structure C12Row where
  incl : Bool
  excl : Bool
  supported : Bool
  mapped : Bool
  outcome : Outcome

def pC12Row : P C12Row := do
  let i ← pBool
  let e ← pBool
  let s ← pBool
  let m ← pBool
  let o ← pOutcome
  pure ⟨i, e, s, m, o⟩

def c12Code (s : Suite Nat) : String :=
  match s.kind, s.status with
  | .compared .pass, _ => "P"
  | .compared .fail, _ => "F"
  | .compared .error, _ => "E"
  | .compared .exception, _ => "X"
  | .missingSource, .skipped => "ms"
  | .missingSource, _ => "MS"
  | .missingReference, .skipped => "mr"
  | .missingReference, _ => "MR"
  | .unsupported, _ => "U"
  | .filtered, _ => "D"

/-- suites sorted by (id, code), rendered `id:code` joined by `,` (`-` if there is none) -/
def c12ShowSuites (ss : List (Suite Nat)) : String :=
  let items := ss.map (fun s => (s.path, c12Code s))
  let sorted := items.mergeSort (fun a b => a.1 < b.1 || (a.1 == b.1 && a.2 ≤ b.2))
  if sorted.isEmpty then "-" else ",".intercalate (sorted.map (fun x => s!"{x.1}:{x.2}"))

def c12Show (exit orphans : Nat) (ss : List (Suite Nat)) : String :=
  s!"{exit}|{orphans}|{c12ShowSuites ss}"

def opC12Dir : P String := do
  let ims ← pBool
  let imr ← pBool
  let res ← pList pNat
  let ref ← pList pNat
  let rows ← pList pC12Row
  let n := rows.length
  if !(res.all (· < n) && ref.all (· < n)) then failure
  let tbl := rows.toArray
  let get : Nat → Option C12Row := fun i => tbl[i]?
  let incl := fun i => ((get i).map (·.incl)).getD false
  let excl := fun i => ((get i).map (·.excl)).getD false
  let supported := fun i => ((get i).map (·.supported)).getD false
  let mapped := fun i => ((get i).map (·.mapped)).getD false
  let outcome := fun i => ((get i).map (·.outcome)).getD .exception
  let flags : Flags := ⟨ims, imr⟩
  let r := DirMode.run res ref incl excl supported mapped outcome flags
  let hyp := decide res.Nodup && decide ref.Nodup
  let model := c12Show r.exitCode r.discardedOrphanCount r.suites
  let spec := c12Show (Spec.exitCode res ref incl excl supported mapped outcome flags)
    (Spec.orphanCount res ref incl excl supported mapped)
    (Spec.suites res ref incl excl supported mapped outcome flags)
  pure s!"hyp={showBool hyp} model={model} spec={if hyp then spec else "-"}"

def c12ShowIds (xs : List Nat) : String :=
  if xs.isEmpty then "-" else ",".intercalate (xs.map toString)

def opC12Fm : P String := do
  let src ← pList pNat
  let ref ← pList pNat
  let r := findMatches src ref
  pure s!"hyp=1 model={c12ShowIds r.matched}|{c12ShowIds r.orphansSource}|{c12ShowIds r.orphansReference}"

def handleC12 (op : String) : Option (P String) :=
  match op with
  | "c12dir" => some opC12Dir
  | "c12fm" => some opC12Fm
  | _ => none

end Fc.Drv.C12

/-- re-export for Driver/Main.lean -/
def Fc.Drv.handleC12 := Fc.Drv.C12.handleC12
