/-
  Non-vacuity witnesses for the int × float64 theorems (Props/C09_Mixed.lean).
-/
import FcProofs.Props.C09_Mixed
namespace Fc
open Spec

def mI : NdArr := ⟨.int true 32, [3], [1, -2, 2147483647]⟩
def mI' : NdArr := ⟨.flt f64, [3], [2 ^ 1074, -(2 ^ 1075), 2147483647 * 2 ^ 1074]⟩
/-- 1.0, −2.0, 2147483647.5 -/
def mF : NdArr := ⟨.flt f64, [3], [2 ^ 1074, -(2 ^ 1075), 2147483647 * 2 ^ 1074 + 2 ^ 1073]⟩

-- hypotheses of C09_mixed_default_left are satisfiable (conversion exact: all |v| ≤ 2^53)
example : convIntArr mI = some mI' ∧ arrNoMin mI = true := by decide +kernel
example : C09MixedHyp mI mI' := ⟨by decide +kernel, by decide⟩
example : C01Hyp (.num 0) (.num (2 ^ 1073)) mI' mF :=
  ⟨rfl, rfl, (by intro s us h; cases h), (by intro s us h; cases h)⟩
-- conclusion observable: abs_tol 0.5 accepts, 0.25 rejects, in both argument orders
example : defaultCheck (.num 0) (.num (2 ^ 1073)) mI mF = .ok true ∧
    defaultCheck (.num 0) (.num (2 ^ 1072)) mI mF = .ok false ∧
    defaultCheck (.num 0) (.num (2 ^ 1073)) mF mI = .ok true ∧
    defaultCheck (.num 0) (.num (2 ^ 1072)) mF mI = .ok false := by decide +kernel

-- beyond 2^53 the conversion rounds: int64 2^53 + 1 becomes 2^53 and equals float64 2^53 exactly
example : convIntArr ⟨.int true 64, [1], [2 ^ 53 + 1]⟩ = some ⟨.flt f64, [1], [2 ^ 53 * 2 ^ 1074]⟩ := by
  decide +kernel
example : defaultCheck (.num 0) (.num 0) ⟨.int true 64, [1], [2 ^ 53 + 1]⟩ ⟨.flt f64, [1], [2 ^ 53 * 2 ^ 1074]⟩
    = .ok true := by decide +kernel

-- the hypothesis `arrNoMin` excludes exactly the type minimum of signed types
example : arrNoMin ⟨.int true 8, [2], [-128, 1]⟩ = false ∧ arrNoMin ⟨.int true 8, [2], [-127, 1]⟩ = true ∧
    arrNoMin ⟨.int false 8, [2], [0, 255]⟩ = true := by decide

end Fc
