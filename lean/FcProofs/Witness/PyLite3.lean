/-
  FcProofs.Witness.PyLite3 — phase 6: the interpreter extensions for orchestration code (FcModel/PyLite.lean:
  `setAttr`, `tryExcept`, `callFn`, effect traces, `Fn.runTr`, `Fn.runSelf`) on Python corner cases, checked by the kernel.
-/
import FcModel.PyLite
namespace Fc.PyLite.Witness3
open Fc Fc.PyLite

private def i (n : Int) : Expr := .lit (.int n)
/-- externals used below: `boom()` raises ValueError, `quit()` raises KeyboardInterrupt, `log(x)` returns `("log", x)`,
    `id(x)` returns x -/
def wX : Ext := fun f args =>
  match f, args with
  | "boom", [] => .raise "ValueError"
  | "quit", [] => .raise "KeyboardInterrupt"
  | "log", [v] => .ok (.list [.str "log", v])
  | "id", [v] => .ok v
  | _, _ => .stuck

/-! ### `try / except Exception` -/
-- the handler runs, `e` is bound to an exception object, execution goes on after the statement
example : (Fn.run wX ⟨"f", [], [.tryExcept [.assign "x" (.ext "boom" [])] "e" [.assign "x" (i 7)], .ret (.var "x")]⟩ [])
    = .ok (.int 7) := rfl
-- no exception: the handler is skipped
example : (Fn.run wX ⟨"f", [], [.tryExcept [.assign "x" (i 1)] "e" [.assign "x" (i 7)], .ret (.var "x")]⟩ [])
    = .ok (.int 1) := rfl
-- `except Exception` does NOT catch KeyboardInterrupt / SystemExit
example : (Fn.run wX ⟨"f", [], [.tryExcept [.assign "x" (.ext "quit" [])] "e" [.assign "x" (i 7)], .ret (.var "x")]⟩ [])
    = .raise "KeyboardInterrupt" := rfl
-- an IndexError of the modelled semantics is an Exception
example : (Fn.run wX ⟨"f", [], [.tryExcept [.assign "x" (.index (.tuple []) (i 0))] "e" [.ret (i (-1))], .ret (.var "x")]⟩ [])
    = .ok (.int (-1)) := rfl
-- the exception object is an object: truthy, not equal to a string (comparison not modelled: stuck, never a default)
example : (Fn.run wX ⟨"f", [], [.tryExcept [.raise "RuntimeError"] "e" [.ret (.call .bool [.var "e"])]]⟩ []) = .ok (.bool true) := rfl
example : (Fn.run wX ⟨"f", [], [.tryExcept [.raise "RuntimeError"] "e" [.ret (.cmp .eq (.var "e") (.lit (.str "RuntimeError")))]]⟩ [])
    = .stuck := rfl
-- an exception raised IN the handler propagates; `return` inside the body passes through; stuck is never caught
example : (Fn.run wX ⟨"f", [], [.tryExcept [.raise "A"] "e" [.raise "B"]]⟩ []) = .raise "B" := rfl
example : (Fn.run wX ⟨"f", [], [.tryExcept [.ret (i 3)] "e" [.ret (i 4)], .ret (i 5)]⟩ []) = .ok (.int 3) := rfl
example : (Fn.run wX ⟨"f", [], [.tryExcept [.assign "x" (.var "nope")] "e" [.ret (i 4)]]⟩ []) = .stuck := rfl

/-! ### attribute assignment -/
private def obj : Val := .record [("a", .int 1), ("b", .int 2)]
-- an existing attribute keeps its place, a new one is appended
example : (Fn.run wX ⟨"f", ["o"], [.setAttr "o" "a" (i 9), .ret (.var "o")]⟩ [obj])
    = .ok (.record [("a", .int 9), ("b", .int 2)]) := rfl
example : (Fn.run wX ⟨"f", ["o"], [.setAttr "o" "c" (i 9), .ret (.var "o")]⟩ [obj])
    = .ok (.record [("a", .int 1), ("b", .int 2), ("c", .int 9)]) := rfl
-- the right-hand side sees the old value; assignment on a non-object is stuck
example : (Fn.run wX ⟨"f", ["o"], [.setAttr "o" "a" (.bin .add (.attr (.var "o") "a") (i 1)), .ret (.attr (.var "o") "a")]⟩ [obj])
    = .ok (.int 2) := rfl
example : (Fn.run wX ⟨"f", ["o"], [.setAttr "o" "a" (i 1)]⟩ [.int 3]) = .stuck := rfl
-- `self.x = …` of a method: the final value of self is part of `Fn.runSelf`
example : (Fn.runSelf wX ⟨"m", ["self", "v"], [.setAttr "self" "a" (.var "v"), .ret (.attr (.var "self") "b")]⟩ [obj, .int 5])
    = .ok (.int 2, [], .record [("a", .int 5), ("b", .int 2)]) := rfl

/-! ### effects and calls of translated functions -/
/-- `def g(self, x): log(x); return x + 1` -/
def g : Fn := ⟨"g", ["self", "x"], [.yield (.ext "log" [.var "x"]), .ret (.bin .add (.var "x") (i 1))]⟩
/-- `def h(self): boom()` — raises after an effect -/
def h : Fn := ⟨"h", ["self"], [.yield (.ext "log" [i 0]), .yield (.ext "boom" [])]⟩
-- an effect statement appends what the external returns to the trace
example : g.runTr wX [.none, .int 4] = .ok (.int 5, [.list [.str "log", .int 4]]) := rfl
-- caller: `log(1); a = self.g(10); b = self.g(a); return b` — fresh environment per call, traces in order
example : (Fn.runTr wX ⟨"f", ["self"], [
      .yield (.ext "log" [i 1]),
      .callFn "a" g.params g.body [.var "self", i 10],
      .callFn "b" g.params g.body [.var "self", .var "a"],
      .ret (.var "b")]⟩ [.none])
    = .ok (.int 12, [.list [.str "log", .int 1], .list [.str "log", .int 10], .list [.str "log", .int 11]]) := rfl
-- the callee does not see the caller's variables (here `x` of the caller is not `x` of g), nor the other way round
example : (Fn.run wX ⟨"f", ["self"], [.assign "x" (i 100), .callFn "a" g.params g.body [.var "self", i 1], .ret (.var "x")]⟩ [.none])
    = .ok (.int 100) := rfl
-- wrong number of arguments: stuck (TypeError is not modelled); a callee falling off its end returns None
example : (Fn.run wX ⟨"f", ["self"], [.callFn "a" g.params g.body [.var "self"], .ret (.var "a")]⟩ [.none]) = .stuck := rfl
example : (Fn.run wX ⟨"f", ["self"], [.callFn "a" ["self"] [.assign "y" (i 1)] [.var "self"], .ret (.var "a")]⟩ [.none])
    = .ok .none := rfl
-- an exception of the callee propagates through the caller …
example : (Fn.runTr wX ⟨"f", ["self"], [.callFn "a" h.params h.body [.var "self"], .ret (i 1)]⟩ [.none]) = .raise "ValueError" := rfl
-- … unless caught: the handler then runs in the state before the `try` (this is why the translator only accepts
-- effect-free `try` bodies: the callee's `log(0)` is not in the trace here)
example : (Fn.runTr wX ⟨"f", ["self"], [
      .tryExcept [.callFn "a" h.params h.body [.var "self"]] "e" [.assign "a" (i (-1))], .ret (.var "a")]⟩ [.none])
    = .ok (.int (-1), []) := rfl

end Fc.PyLite.Witness3
