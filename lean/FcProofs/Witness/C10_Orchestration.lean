/-
  FcProofs.Witness.C10_Orchestration — phase 6 round 9: `ScaledTolerance.__call__` evaluated by the kernel with concrete kernels
  (arrays are numbers): stored base, default base, component mode; `self` unchanged; the assumptions are satisfiable.
-/
import FcGen.Tables
import FcProofs.Props.C10_Orchestration
namespace Fc.PyLite.WitnessC10O
open Fc Fc.PyLite

def kX : Ext := fun f args =>
  match f, args with
  | "as_array", [v] => .ok v
  | "_DEFAULT_BASE_TOLERANCE_FUNCTOR", [_, _] => .ok (.int 2)
  | "max_abs_value", [.int n] => .ok (.int n.natAbs)
  | "max_abs_value", [_] => .ok (.int 0)
  | "max_abs_element", [v] => .ok v
  | "select_max_values", [.int a, .int b] => .ok (.int (if a < b then b else a))
  | "select_max_values", [a, _] => .ok a
  | "mul", [.int a, .int b] => .ok (.int (a * b))
  | "mul", [a, _] => .ok a
  | _, _ => .stuck

theorem kX_ok : C10.ScaledExt kX (fun v => v) (fun _ _ => .int 2)
    (fun v => match v with | .int n => n.natAbs | _ => 0) (fun v => v)
    (fun a b => match a, b with | .int x, .int y => .int (if x < y then y else x) | a, _ => a)
    (fun a b => match a, b with | .int x, .int y => .int (x * y) | a, _ => a) where
  hasA _ := rfl
  hdflt _ _ := rfl
  hmav v := by cases v <;> rfl
  hmae _ := rfl
  hsel a b := by cases a <;> cases b <;> rfl
  hmul a b := by cases a <;> cases b <;> rfl

-- stored base 3, operands -7 and 5: 3 * max(7, 5) = 21; self unchanged
example : Gen.c10oScaledCallSrc.runSelf kX [C10.scaledSelfV (.int 3) (.bool false), .int (-7), .int 5] =
    .ok (.int 21, [], C10.scaledSelfV (.int 3) (.bool false)) := by rfl
-- no base: the default functor's 2; the object still has NO base afterwards (nothing cached)
example : Gen.c10oScaledCallSrc.runSelf kX [C10.scaledSelfV .none (.bool false), .int (-7), .int 5] =
    .ok (.int 14, [], C10.scaledSelfV .none (.bool false)) := by rfl
-- component mode (switch `None` counts as off, `True` as on)
example : Gen.c10oScaledCallSrc.runSelf kX [C10.scaledSelfV (.int 3) (.bool true), .int 4, .int 5] =
    .ok (.int 15, [], C10.scaledSelfV (.int 3) (.bool true)) := by rfl
example : Gen.c10oScaledCallSrc.runSelf kX [C10.scaledSelfV (.int 3) .none, .int 4, .int 5] =
    .ok (.int 15, [], C10.scaledSelfV (.int 3) .none) := by rfl

end Fc.PyLite.WitnessC10O
