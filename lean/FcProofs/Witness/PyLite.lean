/-
  FcProofs.Witness.PyLite — non-vacuity of the source-translation theorems and of the interpreter:
  concrete evaluations of the translated functions on non-trivial inputs (every example is checked by
  the kernel, `rfl`), the Python corner cases the interpreter models, and hand-mutated bodies on which
  the result differs (so the `Cxx_source_*` statements do separate the current source from its
  realistic mutants).
-/
import FcGen.Tables
import FcProofs.Lemmas.PyLiteC01
import FcProofs.Lemmas.PyLiteC02
import FcProofs.Lemmas.PyLiteC04
import FcProofs.Lemmas.PyLiteC11
import FcProofs.Lemmas.PyLiteC15
namespace Fc.PyLite.Witness
open Fc Fc.PyLite

/-! ### the interpreter on Python corner cases -/

def ev (e : Expr) (env : Env := []) : Res Val := eval noExt e env

private def i (n : Int) : Expr := .lit (.int n)

-- floor division and modulo round towards minus infinity
example : ev (.bin .floordiv (i (-7)) (i 2)) = .ok (.int (-4)) := rfl
example : ev (.bin .mod (i (-7)) (i 2)) = .ok (.int 1) := rfl
example : ev (.bin .mod (i 7) (i (-2))) = .ok (.int (-1)) := rfl
example : ev (.bin .floordiv (i 1) (i 0)) = .raise "ZeroDivisionError" := rfl
-- `and` / `or` return operands and short-circuit (the division by zero is never evaluated)
example : ev (.and (i 0) (.bin .floordiv (i 1) (i 0))) = .ok (.int 0) := rfl
example : ev (.or (i 5) (.bin .floordiv (i 1) (i 0))) = .ok (.int 5) := rfl
example : ev (.and (i 5) (.bin .floordiv (i 1) (i 0))) = .raise "ZeroDivisionError" := rfl
-- negative indices, IndexError
example : ev (.index (.tuple [i 10, i 20, i 30]) (i (-1))) = .ok (.int 30) := rfl
example : ev (.index (.tuple [i 10, i 20, i 30]) (i (-3))) = .ok (.int 10) := rfl
example : ev (.index (.tuple [i 10, i 20, i 30]) (i 3)) = .raise "IndexError" := rfl
example : ev (.index (.tuple [i 10, i 20, i 30]) (i (-4))) = .raise "IndexError" := rfl
example : ev (.index (.tuple []) (i (-1))) = .raise "IndexError" := rfl
-- `bool` is an `int`: `True == 1`, `True + True == 2`
example : ev (.cmp .eq (.lit (.bool true)) (i 1)) = .ok (.bool true) := rfl
example : ev (.bin .add (.lit (.bool true)) (.lit (.bool true))) = .ok (.int 2) := rfl
-- enum members are equal only to themselves; membership uses `==`
example : ev (.cmp .isIn (.lit (.enum "E" "a")) (.tuple [.lit (.enum "E" "b"), .lit (.enum "F" "a")])) = .ok (.bool false) := rfl
example : ev (.cmp .isIn (.lit (.enum "E" "a")) (.tuple [.lit (.enum "E" "b"), .lit (.enum "E" "a")])) = .ok (.bool true) := rfl
-- outside the modelled semantics: stuck, never a default
example : ev (.var "x") = .stuck := rfl
example : ev (.not (.lit (.enum "E" "a"))) = .stuck := rfl
example : ev (.cmp .lt (.lit (.str "a")) (i 1)) = .stuck := rfl
example : ev (.ext "unknown" []) = .stuck := rfl
-- comprehensions, any/all, reduce(mul, …)
example : ev (.comp "x" (.call .range [i 5]) (.bin .mul (.var "x") (.var "x")) (.cmp .ne (.var "x") (i 2)))
    = .ok (.list [.int 0, .int 1, .int 9, .int 16]) := rfl
example : ev (.anyOf "x" (.tuple [i 1, i (-2)]) (.cmp .lt (.var "x") (i 0))) = .ok (.bool true) := rfl
example : ev (.allOf "x" (.tuple []) (.lit (.bool false))) = .ok (.bool true) := rfl
example : ev (.call .reduceMul [.tuple [i 2, i 3, i 7], i 1]) = .ok (.int 42) := rfl
-- statements: tuple unpacking evaluates the right-hand side first (swap), item assignment, loop with accumulator
example : (Fn.run noExt ⟨"swap", ["a", "b"], [.unpack ["a", "b"] (.tuple [.var "b", .var "a"]), .ret (.tuple [.var "a", .var "b"])]⟩
    [.int 1, .int 2]) = .ok (.list [.int 2, .int 1]) := rfl
example : (Fn.run noExt ⟨"sum", ["n"], [.assign "s" (i 0),
      .forIn "k" (.call .range [.var "n"]) [.assign "s" (.bin .add (.var "s") (.var "k"))], .ret (.var "s")]⟩
    [.int 5]) = .ok (.int 10) := rfl
example : (Fn.run noExt ⟨"set", ["l"], [.setIndex "l" (i (-1)) (i 9), .ret (.var "l")]⟩ [.list [.int 1, .int 2]])
    = .ok (.list [.int 1, .int 9]) := rfl
-- wrong number of arguments / falling off the end
example : (Fn.run noExt ⟨"f", ["a"], []⟩ []) = .stuck := rfl
example : (Fn.run noExt ⟨"f", ["a"], []⟩ [.int 1]) = .ok .none := rfl

/-! ### the translated functions on concrete inputs -/

open PyLite.C04 in
example : Gen.c04ParseStatusSrc.run noExt [fileComparisonVal false true, fsVal .missingReference] = .ok (tsVal .skipped) := rfl
open PyLite.C04 in
example : Gen.c04ParseStatusSrc.run noExt [fileComparisonVal false true, fsVal .missingSource] = .ok (tsVal .failed) := rfl
open PyLite.C04 in
example : Gen.c04TestSuiteBoolSrc.run noExt [suiteVal ⟨[⟨"a", .passed⟩, ⟨"b", .error⟩], none⟩] = .ok (.bool false) := rfl
open PyLite.C04 in
example : Gen.c04TestSuiteBoolSrc.run noExt [suiteVal ⟨[⟨"a", .passed⟩, ⟨"b", .error⟩], some .skipped⟩] = .ok (.bool true) := rfl
open PyLite.C04 in
example : Gen.c04MergedResultSrc.run noExt [tsVal .skipped, tsVal .error] = .ok (tsVal .error) := rfl

open PyLite.C02 in
example : Gen.c02WalkTrueRangesSrc.runGen noExt [boolList [false, true, true, false, true, false], .bool true]
    = .ok [pairVal (1, 4), pairVal (4, 6)] := rfl
open PyLite.C02 in
-- without the upper edge
example : Gen.c02WalkTrueRangesSrc.runGen noExt [boolList [false, true, true, false, true, false], .bool false]
    = .ok [pairVal (1, 3), pairVal (4, 5)] := rfl
open PyLite.C02 in
-- a block still open at the end is not yielded
example : Gen.c02WalkTrueRangesSrc.runGen noExt [boolList [true, true], .bool true] = .ok [] := rfl

open PyLite.C01 in
example : Gen.c01ReshapeSrc.run reshapeExt [arrVal (.str "a") [3, 1], arrVal (.str "b") [3]]
    = .ok (.list [arrVal (.str "a") [3, 1], arrVal (.str "b") [3, 1]]) := rfl
open PyLite.C01 in
example : Gen.c01ReshapeSrc.run reshapeExt [arrVal (.str "a") [3], arrVal (.str "b") [3, 2]]
    = .ok (.list [arrVal (.str "a") [3], arrVal (.str "b") [3, 2]]) := rfl
open PyLite.C01 in
-- 0-d against 1-d of length 1
example : Gen.c01ReshapeSrc.run reshapeExt [arrVal (.str "a") [], arrVal (.str "b") [1]]
    = .ok (.list [arrVal (.str "a") [1], arrVal (.str "b") [1]]) := rfl

example : Gen.c07ExtentsToCellsSrc.run noExt [intList [0, 2, 1, 4, 5, 5]] = .ok (natList [2, 3, 0]) := rfl
example : Gen.c07ExtentsToCellsSrc.run noExt [intList [0, 2, 4, 1, 5, 5]] = .raise "ValueError" := rfl
example : Gen.c07ExtentsToCellsSrc.run noExt [intList [0, 2, 1, 4, 5]] = .raise "ValueError" := rfl
example : Gen.c07TotalCellsSrc.run noExt [natList [2, 3, 0]] = .ok (.int 6) := rfl
example : Gen.c07TotalPointsSrc.run noExt [natList [2, 3, 0]] = .ok (.int 12) := rfl
example : Gen.c05B64EncodedBytesSrc.run noExt [.none, .int 4] = .ok (.int 8) := rfl
example : Gen.c05B64EncodedBytesSrc.run noExt [.none, .int 0] = .ok (.int 0) := rfl

/-! ### realistic mutants evaluate differently -/

/-- `_bool_to_exit_code` without the `not` -/
def mutExit : Fn := ⟨"m", ["v0"], [.ret (.call .int [.var "v0"])]⟩
example : mutExit.run noExt [.bool true] = .ok (.int 1) := rfl
example : Gen.c04BoolToExitCodeSrc.run noExt [.bool true] = .ok (.int 0) := rfl

/-- `TestSuite.__bool__` with `any` for `all` on the tests -/
def mutSuiteBool (anyForAll : Bool) : Expr :=
  let c : Expr := .cmp .notIn (.attr (.var "t") "status") (.tuple [.lit (.enum "TestStatus" "failed"), .lit (.enum "TestStatus" "error")])
  if anyForAll then .anyOf "t" (.var "ts") c else .allOf "t" (.var "ts") c
open PyLite.C04 in
example : eval noExt (mutSuiteBool true) [("ts", .list [testVal ⟨"a", .passed⟩, testVal ⟨"b", .failed⟩])]
    = .ok (.bool true) := rfl
open PyLite.C04 in
example : eval noExt (mutSuiteBool false) [("ts", .list [testVal ⟨"a", .passed⟩, testVal ⟨"b", .failed⟩])]
    = .ok (.bool false) := rfl

end Fc.PyLite.Witness
