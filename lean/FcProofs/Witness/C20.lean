/-
  Witnesses for C20.
  (1) Non-vacuity: concrete suites / scenarios meet the hypotheses of the theorems.
  (2) Negation witnesses for the full statement `C20_agrees` (finding F5): scenarios on which the
      modelled report does NOT agree with the exit status — evaluated by the kernel.
-/
import FcProofs.Props.C20
import FcProofs.Witness.C04
namespace Fc.C20
open Fc Fc.C04

def rep (s : Scenario) : ExitOutcome × Option (List JSuite) :=
  ((fileReport wPf s).1, (fileReport wPf s).2.map fun j => [j])

/-! ### non-vacuity -/

-- a suite with one test of every status: counts 4 / 1 / 1 / 1, agreement holds (no explicit status)
def wSuite : Suite := ⟨[⟨"a", .passed⟩, ⟨"b", .failed⟩, ⟨"c", .error⟩, ⟨"d", .skipped⟩], none⟩
example : junitElement "s" wSuite =
    ⟨"s", 4, 1, 1, 1, [⟨"a", []⟩, ⟨"b", ["failure"]⟩, ⟨"c", ["failure", "error"]⟩, ⟨"d", ["skipped"]⟩]⟩ := by decide
example : Spec.reportOk (.exit (boolToExitCode wSuite.bool), some [junitElement "s" wSuite]) = true := by decide
example : wSuite.testsOk := testsOk_none _

-- the C04 witness scenario: report written, 4 test cases (x, n, s, t), two skipped, agreement holds
example : rep (wScen (some ["0.5", "x:2^-10"]) true true) =
    (.exit 0, some [⟨"tmp/r/data.csv", 4, 0, 0, 2,
      [⟨"x", []⟩, ⟨"n", []⟩, ⟨"s", ["skipped"]⟩, ⟨"t", ["skipped"]⟩]⟩]) := by decide +kernel
example : Spec.reportOk (rep (wScen (some ["0.5", "x:2^-10"]) true true)) = true := by decide +kernel
example : Spec.expectedSkipped (wScen (some ["0.5", "x:2^-10"]) true true) ⟨.tables 2 2, wRes, wRef⟩ = ["s", "t"] := by
  decide +kernel
-- a failing field: exit 1 and a failure is shown
example : Spec.reportOk (rep (wScen (some ["n:0.5"]) true true)) = true ∧
    (rep (wScen (some ["n:0.5"]) true true)).1 = .exit 1 := by decide +kernel

/-! ### negation witnesses (F5): `reportOk` is false -/

def wBase : Scenario := wScen none true true

/-- tables with different numbers of rows: exit 1, report `tests=0 failures=0 errors=0` -/
example : rep { wBase with payload := .single ⟨.tables 3 2, wRes, wRef⟩ } =
    (.exit 1, some [⟨"tmp/r/data.csv", 0, 0, 0, 0, []⟩]) := by decide +kernel
example : Spec.reportOk (rep { wBase with payload := .single ⟨.tables 3 2, wRes, wRef⟩ }) = false := by decide +kernel

/-- unreadable reference file (IOError): exit 1, empty report -/
example : rep { wBase with readRef := .ioerror } = (.exit 1, some [⟨"tmp/r/data.csv", 0, 0, 0, 0, []⟩]) := by
  decide +kernel
example : Spec.reportOk (rep { wBase with readRef := .ioerror }) = false := by decide +kernel

/-- sequences of different lengths: exit 1, empty report -/
example : Spec.reportOk (rep { wBase with payload := .seqs 2 3 [⟨.tables 2 2, wRef, wRef⟩, ⟨.tables 2 2, wRef, wRef⟩] }) = false := by
  decide +kernel
/-- … and with `--force-sequence-comparison`: all test cases pass, the run still fails -/
example : rep { wBase with forceSeq := true, payload := .seqs 1 2 [⟨.tables 2 2, wRef, wRef⟩] } =
    (.exit 1, some [⟨"tmp/r/data.csv", 3, 0, 0, 0, [⟨"x", []⟩, ⟨"n", []⟩, ⟨"s", []⟩]⟩]) := by decide +kernel

/-- an exception caught by `_run` (reader exception; sequence against a single data set): exit 1 and no report at all -/
example : rep { wBase with readRes := .exception } = (.exit 1, none) := by decide +kernel
example : rep { wBase with payload := .mixed } = (.exit 1, none) := by decide +kernel
example : Spec.reportOk (rep { wBase with payload := .mixed }) = false := by decide +kernel

/-- a rejected tolerance argument: the exception leaves `main`, no report -/
example : rep (wScen (some ["a:b:c"]) true true) = (.raisedOut, none) := by decide +kernel

/-- the suites of these runs are exactly the `unbacked` ones -/
example : Spec.unbacked ⟨[], some .failed⟩ = true ∧ Spec.unbacked ⟨[], some .error⟩ = true ∧
    Spec.unbacked ⟨[⟨"x", .passed⟩], some .failed⟩ = true ∧ Spec.unbacked ⟨[⟨"x", .failed⟩], some .failed⟩ = false := by
  decide

/-- directory mode: a pair whose comparison raises gets an empty suite of status error — alone in a
    directory run this is exit 1 with a report without failures -/
example : Spec.reportOk (dirReport wPf ⟨none, none, false, false,
    [⟨"a.csv", { wBase with payload := .mixed }⟩], [], [], [], []⟩) = false := by decide +kernel
/-- … whereas a missing reference file is reported by a dummy failing test case: agreement holds -/
example : Spec.reportOk (dirReport wPf ⟨none, none, false, false, [], [], ["b.csv"], [], []⟩) = true := by
  decide +kernel

end Fc.C20
