/-
  Non-vacuity and negation witnesses for C10 / C09.
-/
import FcProofs.Props.C10
namespace Fc
open Spec

def xA : NdArr := ⟨.flt f64, [2, 2], [2 ^ 1074, -(3 * 2 ^ 1073), 0, 5 * 2 ^ 1070]⟩
def xB : NdArr := ⟨.flt f64, [2, 2], [2 ^ 1074 + 2 ^ 1040, -(3 * 2 ^ 1073), 0, 5 * 2 ^ 1070 + 2 ^ 1000]⟩

-- hypotheses of C10_symm are satisfiable by a non-trivial pair, and both orders agree
example : C01Hyp (.num (2 ^ 1040)) (.arr [2] [0, 2 ^ 1001]) xA xB ∧ xA.wf ∧ xB.wf :=
  ⟨⟨rfl, rfl, (by intro s us h; cases h), (by intro s us h; cases h; rfl)⟩, rfl, rfl⟩
example : fuzzyCheck (.num (2 ^ 1040)) (.arr [2] [0, 2 ^ 1001]) xA xB = .ok true := by decide +kernel
example : fuzzyCheck (.num (2 ^ 1040)) (.arr [2] [0, 2 ^ 1001]) xB xA = .ok true := by decide +kernel
-- monotone: the smaller tolerance fails, the larger passes
example : fuzzyCheck (.num (2 ^ 1039)) (.arr [2] [0, 2 ^ 1001]) xA xB = .ok false := by decide +kernel

/-- F12 (known finding): explicit `FuzzyEquality` on two arrays of the same *unsigned* integer
    type is NOT symmetric, because `second - first` wraps around:  uint8 [1] vs [2], abs_tol = 1. -/
example :
    fuzzyCheck (.num 0) (.num (2 ^ 1074)) ⟨.int false 8, [1], [1]⟩ ⟨.int false 8, [1], [2]⟩ = .ok true ∧
    fuzzyCheck (.num 0) (.num (2 ^ 1074)) ⟨.int false 8, [1], [2]⟩ ⟨.int false 8, [1], [1]⟩ = .ok false := by
  decide +kernel

/-- F13 (known finding): `ScaledTolerance` on integer arrays containing the type minimum:
    abs(int8(-128)) = -128, so the magnitude used is that of the other entries:  base 1.0,
    a = b = [-128, 1]  gives 1.0 instead of 128.0. -/
example : scaledToleranceInt true 8 (2 ^ 1074) [-128, 1] [-128, 1] = some (2 ^ 1074) := by decide +kernel
-- without the type minimum it is base · max|·|
example : scaledToleranceInt true 8 (2 ^ 1074) [-127, 1] [5, 1] = some (127 * 2 ^ 1074) := by decide +kernel

-- C09: integers differing by one are rejected whatever the tolerance (here rel = abs = 1e300-ish)
example : defaultCheck (.num (2 ^ 2000)) (.num (2 ^ 2000)) ⟨.int true 64, [3], [1, 2, 3]⟩ ⟨.int true 64, [3], [1, 2, 4]⟩
    = .ok false := by decide +kernel

end Fc
