/-
  Non-vacuity of the C17 glue theorems: `C17_pad_equal_full*` applied to concrete data sets, and
  the conclusion re-evaluated by the kernel (an independent computation of the same verdict).
  Units: 1.0 = 2^1074.
-/
import FcProofs.Props.C17_Glue
import FcProofs.Witness.C17
namespace Fc.Glue.Witness
open Fc Fc.Spec

def one : Int := 2 ^ 1074
def relW : Nat := 2 ^ 1047      -- ~ 1e-8
def absW : Nat := 2 ^ 1048

/-- a 2-d hybrid mesh (one QUAD, one TRIANGLE, one orphan point) with
    a float64 scalar, a float32 vector, an int64 (n,2,2) tensor and a string point field,
    a uint8 cell field on the quads and a float16 vector cell field on the triangles -/
def m2 : MeshFields :=
  { mesh := { dim := 2,
              points := [[0, 0], [one, 0], [one, one], [0, one], [2 * one, one], [5 * one, 5 * one]],
              cells := [("QUAD", [[0, 1, 2, 3]]), ("TRIANGLE", [[1, 4, 2]])] },
    pointFields :=
      [⟨"p", ⟨.flt f64, [6], [one, 2 * one, 3 * one, 4 * one, 5 * one, 6 * one]⟩⟩,
       ⟨"v", ⟨.flt f32, [6, 2], [one, 0, 0, one, one, one, 2 * one, 0, 0, 2 * one, 3 * one, 3 * one]⟩⟩,
       ⟨"T", ⟨.int true 64, [6, 2, 2],
              [1, 2, 3, 4,  5, 6, 7, 8,  9, 10, 11, 12,  13, 14, 15, 16,  17, 18, 19, 20,  21, 22, 23, 24]⟩⟩,
       ⟨"label", ⟨.str, [6], [0, 1, 2, 3, 4, 5]⟩⟩],
    cellFields :=
      [⟨"id", "QUAD", ⟨.int false 8, [1], [200]⟩⟩,
       ⟨"w", "TRIANGLE", ⟨.flt f16, [1, 2], [one, 2 * one]⟩⟩] }

/-- what the model of `extend_space_dimension_to(3, m2)` returns -/
def m3 : MeshFields := (extendSpaceDim 3 m2).getD m2

theorem m3_def : extendSpaceDim 3 m2 = some m3 := by decide +kernel

-- the copy is the zero-padded one: coordinates, the vector field and the tensor field got zeros
example : m3.mesh.points =
    [[0, 0, 0], [one, 0, 0], [one, one, 0], [0, one, 0], [2 * one, one, 0], [5 * one, 5 * one, 0]] := by
  decide +kernel
example : (m3.pointFields.map fun pf => pf.values.shape) = [[6], [6, 3], [6, 3, 3], [6]] := by decide +kernel
example : (m3.cellFields.map fun cf => cf.values.shape) = [[1], [1, 3]] := by decide +kernel
example : (m3.pointFields.getD 1 ⟨"", ⟨.str, [], []⟩⟩).values.data.take 6 = [one, 0, 0, 0, one, 0] := by
  decide +kernel

/-- `C17_pad_equal_full` applies (every hypothesis is satisfied: `dim = 2 < 3`, extension returns) —
    DefaultEquality(rel_tol = 2^-27, abs_tol = default) on the fields, whatever `rest` is -/
example (rest : MeshFields → MeshFields → Bool) :
    compareDimMatch (runComparison (meshEqualB relW absW) (defaultCheck (.num relW) .dflt)) rest false m2 m3
      = some true ∧
    compareDimMatch (runComparison (meshEqualB relW absW) (defaultCheck (.num relW) .dflt)) rest false m3 m2
      = some true :=
  C17_pad_equal_full relW absW (.num relW) .dflt (Or.inr ⟨_, rfl⟩) (Or.inl rfl) rest m2 m3 3
    (by decide) m3_def

/-- … and `DefaultEquality()` -/
example (rest : MeshFields → MeshFields → Bool) :
    compareDimMatch (runComparison (meshEqualB relW absW) (defaultCheck .dflt (.num 0))) rest false m2 m3
      = some true :=
  (C17_pad_equal_full_default relW absW rest m2 m3 3 (by decide) m3_def).1

-- the same verdicts computed by the kernel, with a `rest` that would answer FAIL
example : compareDimMatch (runComparison (meshEqualB relW absW) (defaultCheck .dflt (.num 0)))
    (fun _ _ => false) false m2 m3 = some true := by decide +kernel
example : compareDimMatch (runComparison (meshEqualB relW absW) (defaultCheck .dflt (.num 0)))
    (fun _ _ => false) false m3 m2 = some true := by decide +kernel
-- the first run really fails (so the rung is reached) and matching disabled gives FAIL
example : runComparison (meshEqualB relW absW) (defaultCheck .dflt (.num 0)) m2 m3 = (false, false) := by
  decide +kernel
example : compareDimMatch (runComparison (meshEqualB relW absW) (defaultCheck .dflt (.num 0)))
    (fun _ _ => false) true m2 m3 = some false := by decide +kernel
example : C03.meshEqualWith relW absW m2.mesh m3.mesh = .ok false :=
  (C17_disabled_full relW absW (defaultCheck .dflt (.num 0)) (fun _ _ => false) m2 m3 (by decide)).1

-- the theorem is not a triviality of the comparator: one non-zero extra coordinate and it fails
def m3bad : MeshFields :=
  { m3 with mesh := { m3.mesh with points := m3.mesh.points.set 2 [one, one, 2 ^ 1054] } }
example : compareDimMatch (runComparison (meshEqualB relW absW) (defaultCheck .dflt (.num 0)))
    (fun _ _ => false) false m2 m3bad = some false := by decide +kernel

-- the spec form on C17's own witness (1-d line → 3-d, `Spec.paddedCopy`)
example (rest : MeshFields → MeshFields → Bool) :
    compareDimMatch (runComparison (meshEqualB relW absW) (defaultCheck .dflt (.num 0))) rest false w17 w17g
      = some true :=
  (C17_pad_equal_full_default relW absW rest w17 w17g 3 (by decide) (by decide +kernel)).1

-- the cell stage and the field predicate are reflexive on the witness (the discharged hypotheses)
example : C03.cellsEqual m3.mesh m3.mesh = .ok true := cellsEqual_self m3.mesh
example : m3.namedFields.all (fun p => defaultCheck .dflt (.num 0) p.2 p.2 == .ok true) = true := by
  decide +kernel

-- why array / scaled tolerances are excluded: ScaledTolerance raises on an empty field
example : defaultCheck (.scaled none) (.num 0) ⟨.flt f64, [0], []⟩ ⟨.flt f64, [0], []⟩ = .err := by
  decide +kernel

end Fc.Glue.Witness
