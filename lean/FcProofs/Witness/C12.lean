/-
  Non-vacuity and sharpness for C12: a concrete pair of trees in which every class occurs meets the
  hypotheses of the theorems and shows their conclusions (evaluated by the kernel with `decide`);
  duplicate-carrying lists show that the duplicate-freeness hypothesis cannot be dropped.
-/
import FcProofs.Props.C12
namespace Fc
open Fc.DirMode

namespace C12W
/-  paths 0…7:
      0  only in the source tree, selected              -> missing reference
      1  both, selected, supported, comparison passes   -> compared
      2  both, selected, supported, comparison fails    -> compared
      3  both, selected, unsupported, not mapped        -> unsupported
      4  both, excluded                                 -> filtered
      5  only in the reference tree, selected           -> missing source
      6  only in the reference tree, excluded           -> counted orphan
      7  both, selected, unsupported but mapped, read error -> compared                    -/
def res : List Nat := [0, 1, 2, 3, 4, 7]
def ref : List Nat := [7, 6, 5, 4, 3, 2, 1]
def incl : Nat → Bool := fun _ => true
def excl : Nat → Bool := fun p => p == 4 || p == 6
def supported : Nat → Bool := fun p => p == 1 || p == 2
def mapped : Nat → Bool := fun p => p == 7 || p == 1
def outcome : Nat → Outcome := fun p => if p == 2 then .fail else if p == 7 then .error else .pass
def allPass : Nat → Outcome := fun _ => .pass
end C12W
open C12W

-- the hypotheses hold
example : res.Nodup ∧ ref.Nodup := by decide

-- the categories, exactly (every class is inhabited)
example : (categorize res ref incl excl supported mapped).filesToCompare = [1, 2, 7]
    ∧ (categorize res ref incl excl supported mapped).missingSources = [5]
    ∧ (categorize res ref incl excl supported mapped).missingReferences = [0]
    ∧ (categorize res ref incl excl supported mapped).unsupportedFiles = [3]
    ∧ (categorize res ref incl excl supported mapped).discardedFiles = [4]
    ∧ (categorize res ref incl excl supported mapped).discardedOrphanFiles = [6] := by decide

-- 7 suites + 1 counted orphan = 8 distinct paths (C12_no_silent_drop is not 0 = 0)
example : (run res ref incl excl supported mapped outcome ⟨false, false⟩).suites.length = 7
    ∧ (run res ref incl excl supported mapped outcome ⟨false, false⟩).discardedOrphanCount = 1
    ∧ (Spec.distinctPaths res ref).length = 8 := by decide

-- exit code: fails because of 2 (fail), 7 (error), 0 and 5 (missing); passes only when all of these are cured
example : (run res ref incl excl supported mapped outcome ⟨false, false⟩).exitCode = 1 := by decide
example : (run res ref incl excl supported mapped allPass ⟨false, false⟩).exitCode = 1 := by decide
example : (run res ref incl excl supported mapped allPass ⟨true, false⟩).exitCode = 1 := by decide
example : (run res ref incl excl supported mapped allPass ⟨false, true⟩).exitCode = 1 := by decide
example : (run res ref incl excl supported mapped allPass ⟨true, true⟩).exitCode = 0 := by decide
example : (run res ref incl excl supported mapped outcome ⟨true, true⟩).exitCode = 1 := by decide
-- an error outcome alone (read error on the mapped file 7) is enough to fail
example : (run res ref incl excl supported mapped (fun p => if p == 7 then .error else .pass) ⟨true, true⟩).exitCode = 1 := by
  decide
example : (run res ref incl excl supported mapped (fun p => if p == 7 then .exception else .pass) ⟨true, true⟩).exitCode = 1 := by
  decide

-- the report of the model is the report of the specification on this input (as lists up to order: here even equal
-- after sorting by path is not needed — compare the path lists)
example : ((run res ref incl excl supported mapped outcome ⟨true, false⟩).suites.map (·.path)) = [1, 2, 7, 5, 0, 3, 4]
    ∧ ((Spec.suites res ref incl excl supported mapped outcome ⟨true, false⟩).map (·.path)) = [0, 1, 2, 3, 4, 7, 5] := by
  decide

/-! ### sharpness: the duplicate-freeness hypotheses are needed (they hold for `os.walk`) -/

-- a walk list that named a file twice would make that file BOTH compared and a missing reference:
-- `C12_accounted_once` fails …
example : ((run [0, 0] [0] incl (fun _ => false) (fun _ => true) (fun _ => false) allPass ⟨false, false⟩).suites.map
    (·.path)).count 0 = 2 := by decide
-- … and so does `C12_exit_zero_iff`: every common path passes, no path is one-sided, but the exit code is 1
example : (run [0, 0] [0] incl (fun _ => false) (fun _ => true) (fun _ => false) allPass ⟨false, false⟩).exitCode = 1
    ∧ Spec.exitCode [0, 0] [0] incl (fun _ => false) (fun _ => true) (fun _ => false) allPass ⟨false, false⟩ = 0 := by
  decide
-- `find_matches` on lists with duplicates is not intersection/difference: first match, removal
example : (findMatches [1, 1, 2] [1, 3, 1, 1]).matched = [1, 1]
    ∧ (findMatches [1, 1, 2] [1, 3, 1, 1]).orphansSource = [2]
    ∧ (findMatches [1, 1, 2] [1, 3, 1, 1]).orphansReference = [3, 1] := by decide

-- the theorems instantiate on the witness (hypotheses discharged by `decide`)
example := C12_partition (resPaths := res) (refPaths := ref) incl excl supported mapped (by decide) (by decide)
example := C12_exit_zero_iff (resPaths := res) (refPaths := ref) incl excl supported mapped outcome ⟨false, true⟩
  (by decide) (by decide)

end Fc
