/-
  FcProofs.Witness.PyLite2 — non-vacuity of the phase-4 source-translation theorems and of the interpreter
  extensions (dict values, `sum`, `remove`, `d.get`, inlined helper calls): concrete evaluations checked by
  the kernel, concrete external-function tables satisfying the theorems' assumptions, and hand-mutated
  bodies on which the result differs.
-/
import FcGen.Tables
import FcProofs.Lemmas.PyLiteC06
import FcProofs.Lemmas.PyLiteC03
import FcProofs.Lemmas.PyLiteC16
import FcProofs.Lemmas.PyLiteC11Matching
import FcProofs.Props.C12_Source
namespace Fc.PyLite.Witness2
open Fc Fc.PyLite

def ev (e : Expr) (env : Env := []) : Res Val := eval noExt e env
private def i (n : Int) : Expr := .lit (.int n)
private def d : Val := .dict [(.int 1, .int 10), (.int 4, .int 40)]

/-! ### the interpreter extensions on Python corner cases -/
example : ev (.cmp .isIn (i 4) (.lit d)) = .ok (.bool true) := rfl          -- `k in d` looks at the keys
example : ev (.cmp .isIn (i 10) (.lit d)) = .ok (.bool false) := rfl
example : ev (.index (.lit d) (i 4)) = .ok (.int 40) := rfl
example : ev (.index (.lit d) (i 2)) = .raise "KeyError" := rfl
example : ev (.index (.lit d) (.lit (.bool true))) = .ok (.int 10) := rfl    -- `True == 1` also as a key
example : ev (.call .dictGet [.lit d, i 2, .tuple []]) = .ok (.list []) := rfl
example : ev (.call .dictGet [.lit d, i 1, .tuple []]) = .ok (.int 10) := rfl
example : ev (.call .dictGet [.tuple [], i 1, .tuple []]) = .stuck := rfl    -- `.get` of a non-dict: not modelled
example : ev (.call .len [.lit d]) = .ok (.int 2) := rfl
example : ev (.comp "k" (.lit d) (.var "k") (.lit (.bool true))) = .ok (.list [.int 1, .int 4]) := rfl
example : ev (.not (.lit (.dict []))) = .ok (.bool true) := rfl
example : ev (.cmp .eq (.lit d) (.lit d)) = .stuck := rfl                    -- dict equality: not modelled
example : ev (.call .sum [.comp "x" (.tuple [i 3, i 4, i 5]) (i 1) (.cmp .ne (.var "x") (i 4))]) = .ok (.int 2) := rfl
example : ev (.call .remove [.tuple [i 1, i 2, i 1, i 2], i 2]) = .ok (.list [.int 1, .int 1, .int 2]) := rfl
example : ev (.call .remove [.tuple [i 1], i 2]) = .raise "ValueError" := rfl
-- an inlined helper call: `return` ends the block only, the enclosing function goes on
example : (Fn.run noExt ⟨"f", ["xs"], [
      .inlineCall "r" [.forIn "x" (.var "xs") [.ite (.cmp .lt (.var "x") (i 0)) [.ret (.var "x")] []], .ret (i 0)],
      .ret (.bin .mul (.var "r") (i 2))]⟩ [.list [.int 3, .int (-4), .int (-5)]]) = .ok (.int (-8)) := rfl
example : (Fn.run noExt ⟨"f", [], [.inlineCall "r" [.assign "y" (i 1)], .ret (.var "r")]⟩ []) = .ok .none := rfl
example : (Fn.run noExt ⟨"f", [], [.inlineCall "r" [.raise "E"], .ret (i 1)]⟩ []) = .raise "E" := rfl

/-! ### C06 -/
def arrExt : Ext := fun f args => match f, args with | "make_array", [v] => .ok v | _, _ => .stuck
private def dups : List (Option Nat) := [none, some 5, none, some 7, none]
example : ∀ v, arrExt "make_array" [v] = .ok v := fun _ => rfl
example : Gen.c06FilterExternalSrc.run arrExt [.int 5, C06.dupsDict dups] = .ok (natList [0, 2, 4]) := rfl
example : Gen.c06MapExternalSrc.run arrExt [.int 5, C06.dupsDict dups, .int 10] = .ok (natList [10, 5, 11, 7, 12]) := rfl
example : Fc.C06.mapExternal dups 10 = [10, 5, 11, 7, 12] := rfl
-- every point a duplicate / none at all / empty piece
example : Gen.c06MapExternalSrc.run arrExt [.int 2, C06.dupsDict [some 3, some 1], .int 10] = .ok (natList [3, 1]) := rfl
example : Gen.c06FilterExternalSrc.run arrExt [.int 2, C06.dupsDict [some 3, some 1]] = .ok (natList []) := rfl
example : Gen.c06MapExternalSrc.run arrExt [.int 0, C06.dupsDict [], .int 10] = .ok (natList []) := rfl
-- a dict that is NOT a duplicate map of this length (key out of range) is simply never consulted there
example : Gen.c06FilterExternalSrc.run arrExt [.int 2, .dict [(.int 7, .int 0)]] = .ok (natList [0, 1]) := rfl
/-- mutant: the counter is not advanced (`mapped_index_offset += 1` dropped) -/
def c06MapNoCount : Fn := { Gen.c06MapExternalSrc with body := [
    .assign "v3" (.ext "make_array" [(.call .list [(.call .range [(.var "v0")])])]),
    .assign "v4" (.lit (.int 0)),
    .forIn "v5" (.call .range [(.var "v0")]) [
      .ite (.cmp .isIn (.var "v5") (.var "v1")) [
        .setIndex "v3" (.var "v5") (.index (.var "v1") (.var "v5"))
      ] [
        .setIndex "v3" (.var "v5") (.bin .sub (.bin .add (.index (.var "v3") (.var "v5")) (.var "v2")) (.var "v4"))
      ]
    ],
    .ret (.var "v3")] }
example : c06MapNoCount.run arrExt [.int 5, C06.dupsDict dups, .int 10] = .ok (natList [10, 5, 12, 7, 14]) := rfl

/-! ### C16 / C03 -/
def compatExt : Ext := fun f args =>
  match f, args with
  | "global _COMPATIBLES", [] => .ok (C16.compatDict Gen.C16.compatIdPairs)
  | _, _ => .stuck
example : compatExt "global _COMPATIBLES" [] = .ok (C16.compatDict Gen.C16.compatIdPairs) := rfl
example : Gen.c16IsCompatibleWithSrc.run compatExt [C16.ctVal 9, C16.ctVal 8] = .ok (.bool true) := rfl   -- quad ~ pixel
example : Gen.c16IsCompatibleWithSrc.run compatExt [C16.ctVal 12, C16.ctVal 11] = .ok (.bool true) := rfl -- hexahedron ~ voxel
example : Gen.c16IsCompatibleWithSrc.run compatExt [C16.ctVal 5, C16.ctVal 5] = .ok (.bool true) := rfl
example : Gen.c16IsCompatibleWithSrc.run compatExt [C16.ctVal 9, C16.ctVal 12] = .ok (.bool false) := rfl
example : Gen.c16IsCompatibleWithSrc.run compatExt [C16.ctVal 5, C16.ctVal 9] = .ok (.bool false) := rfl -- 5 is no key: `.get` default

def strsOf : List Val → Option (List String)
  | [] => some []
  | .str s :: r => (strsOf r).map fun l => s :: l
  | _ :: _ => none

theorem strsOf_map (l : List String) : strsOf (l.map C03.ctv) = some l := by
  induction l with
  | nil => rfl
  | cons a r ih => simp [strsOf, C03.ctv, ih]

/-- sets as lists of VTK names -/
def setExt : Ext := fun f args =>
  match f, args with
  | "set", [] => .ok (.list [])
  | "set", [.list a] => .ok (.list a)
  | ".union", [.list a, .list b] => .ok (.list (a ++ b))
  | ".difference", [.list a, .list b] =>
    match strsOf a, strsOf b with
    | some a', some b' => .ok (C03.cts (a'.filter fun c => !b'.contains c))
    | _, _ => .stuck
  | "product", [.list a, .list b] =>
    match strsOf a, strsOf b with
    | some a', some b' => .ok (C03.productVal a' b')
    | _, _ => .stuck
  | ".is_compatible_with", [.str a, .str b] => .ok (.bool (Fc.C03.compatible a b))
  | _, _ => .stuck

/-- the assumptions of the two C03 theorems are satisfiable -/
theorem setExt_ok : C03.SetExt setExt where
  empty := rfl
  ofList := fun _ => rfl
  union := fun a b => by simp [setExt, C03.cts]
  difference := fun a b => by simp [setExt, C03.cts, strsOf_map]
  product := fun a b => by simp [setExt, C03.cts, strsOf_map]
  compatible := fun _ _ => rfl

example : Gen.c03FindCompatibleSrc.run setExt [C03.cts ["TRIANGLE", "PIXEL", "QUAD"], C03.ctv "QUAD"] = .ok (C03.ctv "PIXEL") := by
  rfl
example : Gen.c03FindCompatibleSrc.run setExt [C03.cts ["TRIANGLE", "VOXEL"], C03.ctv "QUAD"] = .raise "RuntimeError" := by
  rfl
example : Gen.c03WithoutCompatiblesSrc.run setExt [C03.cts ["QUAD", "TRIANGLE"], C03.cts ["PIXEL"]] = .ok (C03.cts ["TRIANGLE"]) := by
  rfl
example : Gen.c03WithoutCompatiblesSrc.run setExt [C03.cts ["QUAD"], C03.cts ["PIXEL"]] = .ok (C03.cts []) := rfl

/-! ### C11 `find_matches` on integers with `==` and with "same parity" -/
def eqExt (eq : Int → Int → Bool) : Ext := fun f args =>
  match f, args with
  | "call", [.str "eq", .int a, .int b] => .ok (.bool (eq a b))
  | "MatchResult", [m, o, r] => .ok (C11M.matchResultVal m o r)
  | _, _ => .stuck
example (a b : Int) : Val.eqv (.int a) (.int b) = some (decide (a = b)) := rfl
example : Gen.c11FindMatchesSrc.run (eqExt (· == ·)) [intList [1, 2, 2, 3], intList [2, 3, 2, 4], .str "eq"] =
    .ok (C11M.matchResultVal (.list [.list [.int 2, .int 2], .list [.int 2, .int 2], .list [.int 3, .int 3]])
      (intList [1]) (intList [4])) := rfl
example : findMatches (fun (a b : Int) => a == b) [1, 2, 2, 3] [2, 3, 2, 4] = ⟨[(2, 2), (2, 2), (3, 3)], [1], [4]⟩ := rfl
-- a predicate that is not equality: first match by parity; `remove` takes the first EQUAL element (the matched one)
example : Gen.c11FindMatchesSrc.run (eqExt fun a b => a % 2 == b % 2) [intList [1, 4, 6], intList [2, 3, 5], .str "eq"] =
    .ok (C11M.matchResultVal (.list [.list [.int 1, .int 3], .list [.int 4, .int 2]]) (intList [6]) (intList [5])) := rfl
-- the hypotheses of `C11_source_find_matches` / `C12_source_find_matches` are satisfiable (integers, `==`)
example (src ref : List Int) := C11_source_find_matches (fun (n : Int) => Val.int n) (fun (n : Int) => Val.int n)
  (fun _ _ => rfl) (eqExt fun a b => a % 2 == b % 2) (.str "eq") (fun a b => a % 2 == b % 2) (fun _ _ => rfl)
  (fun _ _ _ => rfl) src ref
example (src ref : List Int) := C12_source_find_matches (fun (n : Int) => Val.int n) (fun _ _ => rfl)
  (eqExt (· == ·)) (.str "eq") (fun _ _ => rfl) (fun _ _ _ => rfl) src ref
example : DirMode.findMatches [1, 2, 2, 3] [2, 3, 2, 4] = ⟨[2, 2, 3], [1], [4]⟩ := rfl
/-- mutant: the matched element is not removed (`orphans_target.remove(t)` dropped) -/
def c11FindNoRemove : Fn := { Gen.c11FindMatchesSrc with body := [
    .assign "v3" (.tuple []),
    .assign "v4" (.call .list [(.var "v1")]),
    .assign "v5" (.tuple []),
    .forIn "v6" (.var "v0") [
      .assign "v7" (.var "v6"),
      .inlineCall "v9" [
        .forIn "v8" (.var "v4") [
          .ite (.ext "call" [(.var "v2"), (.var "v7"), (.var "v8")]) [
            .assign "v3" (.bin .add (.var "v3") (.tuple [(.tuple [(.var "v7"), (.var "v8")])])),
            .ret (.lit (.bool true))
          ] []
        ],
        .ret (.lit (.bool false))
      ],
      .ite (.not (.var "v9")) [.assign "v5" (.bin .add (.var "v5") (.tuple [(.var "v6")]))] []
    ],
    .ret (.ext "MatchResult" [(.var "v3"), (.var "v5"), (.var "v4")])] }
example : c11FindNoRemove.run (eqExt (· == ·)) [intList [2, 2], intList [2], .str "eq"] =
    .ok (C11M.matchResultVal (.list [.list [.int 2, .int 2], .list [.int 2, .int 2]]) (intList []) (intList [2])) := rfl
example : Gen.c11FindMatchesSrc.run (eqExt (· == ·)) [intList [2, 2], intList [2], .str "eq"] =
    .ok (C11M.matchResultVal (.list [.list [.int 2, .int 2]]) (intList [2]) (intList [])) := rfl

end Fc.PyLite.Witness2
