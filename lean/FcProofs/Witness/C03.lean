/-
  Non-vacuity examples for C03 (evaluated by the kernel): concrete hybrid meshes meet the hypotheses of the
  theorems, and the conclusions are observable on them.
-/
import FcProofs.Props.C03
namespace Fc.C03
open Fc Fc.Spec

def u1 : Int := 2 ^ 1074           -- 1.0
def tolRel : Nat := Gen.C16.meshDefaultRelTol
def tolAbs : Nat := 2 ^ 1048       -- ≈ 1.5e-8

/-- a hybrid mesh: one quad, one triangle, one orphan point -/
def hA : Mesh := ⟨2, [[0, 0], [u1, 0], [u1, u1], [0, u1], [2 * u1, 0], [7 * u1, 7 * u1]],
  [("QUAD", [[0, 1, 2, 3]]), ("TRIANGLE", [[1, 4, 2]])]⟩
/-- the same object stored differently: the quad as PIXEL (corners reordered), the type blocks swapped, the
    triangle's corners rotated, one coordinate moved by 2^-30 (below the tolerance 1e-8·max) -/
def hB : Mesh := ⟨2, [[0, 0], [u1, 0], [u1 + 2 ^ 1044, u1], [0, u1], [2 * u1, 0], [7 * u1, 7 * u1]],
  [("TRIANGLE", [[4, 2, 1]]), ("PIXEL", [[0, 1, 3, 2]])]⟩

example : (wfEq hA) = true ∧ (wfEq hB) = true := by decide +kernel
-- the hypothesis of C03_mesh_equal_sound is satisfiable by meshes that differ in storage and type names
example : meshEqualWith tolRel tolAbs hA hB = .ok true ∧ meshEqualWith tolRel tolAbs hB hA = .ok true := by
  decide +kernel
-- … and its conclusion is not trivial: QUAD's partner is PIXEL, with the same corner set
example : Partner hA hB "QUAD" "PIXEL" := Or.inr (by decide)
example : CellsMatch (hA.cellsOf "QUAD") (hB.cellsOf "PIXEL") :=
  cellsMatch_of_sameCells _ _ (by decide)

-- single-site modifications of hA, each answered "unequal" in both roles (model evaluated):
-- a coordinate moved by 2^-20 (1e-6, beyond tolerance), also the LAST coordinate of the LAST connected point
example : meshEqualWith tolRel tolAbs (setCoord hA 4 1 (2 ^ 1054)) hA = .ok false ∧
    meshEqualWith tolRel tolAbs hA (setCoord hA 4 1 (2 ^ 1054)) = .ok false := by decide +kernel
-- the hypotheses of C03_single_site_moved_point hold for this instance
example : (4 < hA.numPoints) ∧ (1 < hA.dim) ∧ docFormula f64 (coord hA 4 1) (2 ^ 1054) tolRel tolAbs = false := by
  decide +kernel
-- a rewired corner, a removed cell, an added cell, a dropped type block
example : meshEqualWith tolRel tolAbs (rewire hA "TRIANGLE" 0 1 0) hA = .ok false ∧
    meshEqualWith tolRel tolAbs (removeCell hA "QUAD" 0) hA = .ok false ∧
    meshEqualWith tolRel tolAbs (addCell hA "TRIANGLE" [0, 1, 2]) hA = .ok false ∧
    meshEqualWith tolRel tolAbs hA (addCell hA "TRIANGLE" [0, 1, 2]) = .ok false ∧
    meshEqualWith tolRel tolAbs (dropBlock hA "TRIANGLE") hA = .ok false ∧
    meshEqualWith tolRel tolAbs hA (dropBlock hA "TRIANGLE") = .ok false := by decide +kernel
-- not a change of the compared object: permuting the corners of a cell (the code compares corner SETS)
example : meshEqualWith tolRel tolAbs (mapBlock hA "QUAD" fun _ => [[3, 0, 1, 2]]) hA = .ok true := by decide +kernel
-- a compatible type NEXT TO its partner is one-sided: {QUAD, PIXEL} vs {PIXEL} is unequal (no false PASS)
example : meshEqualWith tolRel tolAbs
    ⟨2, hA.points, [("QUAD", [[0, 1, 2, 3]]), ("PIXEL", [[0, 1, 3, 2]])]⟩
    ⟨2, hA.points, [("PIXEL", [[0, 1, 3, 2]])]⟩ = .ok false := by decide +kernel

/-! the ladder theorem's hypotheses are satisfiable: a toy instance where "meshes" are lists of numbers,
    `permute` sorts, `Rel` = "is a permutation of" -/
def toyOps : LadderOps (List Nat) where
  spaceDim := fun _ => 1
  extend := fun _ x => x
  permute := sortRow
  sortCells := fun x => x
  bothStructured := fun _ _ => false
  compare := fun x y => (x == y, x == y)

example : let r := ladder toyOps ⟨false, false⟩ [3, 1, 2] [2, 3, 1]
    r.src.Perm [3, 1, 2] ∧ r.ref.Perm [2, 3, 1] ∧ (r.domainEq, r.suite) = toyOps.compare r.src r.ref :=
  C03_ladder_sound toyOps ⟨false, false⟩ List.Perm (fun x => List.Perm.refl x) (fun _ _ _ h1 h2 => h1.trans h2)
    (fun _ x => List.Perm.refl x) (fun x => sortRow_perm x) (fun x => List.Perm.refl x) [3, 1, 2] [2, 3, 1]
-- and the ladder really passes on the second rung for this instance
example : (ladder toyOps ⟨false, false⟩ [3, 1, 2] [2, 3, 1]).suite = true ∧
    (ladder toyOps ⟨true, false⟩ [3, 1, 2] [2, 3, 1]).suite = false := by decide

end Fc.C03
