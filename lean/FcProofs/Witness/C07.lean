/-
  FcProofs.Witness.C07 — non-vacuity examples for the hypotheses of the C07 theorems and `decide`d negation
  witnesses for the `_partial` one (finding F9: repeated meshio blocks); the former image extent-offset witness
  (finding F20, fixed) is a positive example now.
-/
import FcProofs.Props.C07
namespace Fc.C07
open Fc.C07.Spec

/-! ### the hypotheses are satisfiable by non-trivial inputs -/

def unitArr (n : Nat) (vals : List Int) : NdArr := ⟨.int true 32, [n], vals⟩

/-- a 2×0×3 image grid (x–z plane), rotated basis, with a point field and a cell field (units: U = 0) -/
def wImage : GridGeom := .image 0 [1, 2, 3] [[0, -1, 0], [1, 0, 0], [0, 0, 1]] [1, 1, 2]
def wPf : List PointField := [⟨"p", unitArr 12 [0, 1, 2, 3, 4, 5, 6, 7, 8, 9, 10, 11]⟩]
def wCf : List (String × NdArr) := [("c", unitArr 6 [10, 11, 12, 13, 14, 15])]

example : gridHyp [2, 0, 3] wImage wPf wCf = true := by decide

/-- rectilinear description with an EMPTY ordinate array in the flat direction -/
def wRect : GridGeom := .rect [[0, 1, 3], [], [5, 7]]
example : gridHyp [2, 0, 1] wRect [] [] = true := by decide

/-- a 1×1×1 structured grid -/
def wStruct : GridGeom :=
  .struct [[0, 0, 0], [1, 0, 0], [0, 1, 0], [1, 1, 0], [0, 0, 1], [1, 0, 1], [0, 1, 1], [1, 1, 1]]
example : gridHyp [1, 1, 1] wStruct [] [] = true := by decide

/-- what the theorems say on concrete grids: x–z plane pixels, the quad order, the hexahedron order -/
example : gridConnectivity .rectilinear [2, 0, 1] "PIXEL" = some [[0, 1, 3, 4], [1, 2, 4, 5]] := by decide
example : gridConnectivity .structured [2, 0, 1] "QUAD" = some [[0, 1, 4, 3], [1, 2, 5, 4]] := by decide
example : gridConnectivity .structured [1, 1, 1] "HEXAHEDRON" = some [[0, 1, 3, 2, 4, 5, 7, 6]] := by decide
example : gridCellType .image [0, 4, 0] = "LINE" ∧ gridCellType .image [3, 0, 2] = "PIXEL" ∧
    gridCellType .structured [0, 4, 2] = "QUAD" ∧ gridCellType .structured [1, 4, 2] = "HEXAHEDRON" := by decide

/-- the image formula on the rotated grid: point (i,j,k) = (1,0,2) ↦ origin + B·(1·1, 1·0, 2·2) = (1, 3, 7) -/
example : (imagePoints 0 [2, 0, 3] [1, 2, 3] [[0, -1, 0], [1, 0, 0], [0, 0, 1]] [1, 1, 2])[pointIdx [2, 0, 3] [1, 0, 2]]?
    = some [1, 3, 7] := by decide

/-- `sameGeometry` is satisfiable between DIFFERENT kinds: an image and a rectilinear description of one grid -/
example : ∀ pos ∈ locationsIn [3, 1, 2],
    geomAt [2, 0, 1] (.image 0 [0, 0, 5] [[1, 0, 0], [0, 1, 0], [0, 0, 1]] [1, 0, 2]) pos =
    geomAt [2, 0, 1] (.rect [[0, 1, 2], [], [5, 7]]) pos := by decide

/-! ### meshio: hypothesis satisfiable, and the negation witness for the full statement (F9) -/

def f64Arr (vals : List Int) : NdArr := ⟨.flt f64, [vals.length], vals⟩

/-- two quads side by side, as TWO blocks of type quad, one cell value each (the witness of DESIGN §8-F9) -/
def wMioRepeated : MioMesh :=
  ⟨2, [[0, 0], [1, 0], [2, 0], [0, 1], [1, 1], [2, 1]],
   [("quad", [[0, 1, 4, 3]]), ("quad", [[1, 2, 5, 4]])], [],
   [("c", [f64Arr [1], f64Arr [2]])]⟩

/-- the same cells as ONE quad block and one triangle block: inside the hypothesis of the partial theorem -/
def wMioUnique : MioMesh :=
  ⟨2, [[0, 0], [1, 0], [2, 0], [0, 1], [1, 1], [2, 1]],
   [("quad", [[0, 1, 4, 3]]), ("triangle", [[1, 2, 5], [1, 5, 4]])], [("p", f64Arr [1, 2, 3, 4, 5, 6])],
   [("c", [f64Arr [1], f64Arr [2, 3]])]⟩

example : wMioUnique.wf = true ∧ wMioUnique.repeatedType = false := by decide
example : (mioCellContent wMioUnique).length = 3 := by decide

/-- **negation witness (F9)**: a well-formed meshio mesh with a repeated cell type for which `from_meshio`
    returns normally but LOSES a cell — so `C07_meshio_blocks_partial` cannot be stated without its hypothesis -/
theorem meshio_blocks_full_statement_false :
    wMioRepeated.wf = true ∧ wMioRepeated.repeatedType = true ∧
    ∃ F, fromMeshio wMioRepeated = some F ∧ F.cellContent ≠ mioCellContent wMioRepeated ∧
      F.cellContent.length = 1 ∧ (mioCellContent wMioRepeated).length = 2 := by
  refine ⟨by decide, by decide, (fromMeshio wMioRepeated).get (by decide), by decide, by decide, by decide, by decide⟩

/-- … and the surviving cell (the SECOND block's quad) carries the FIRST block's value 1 instead of its own 2 -/
example : ((fromMeshio wMioRepeated).map fun F => F.cellContent.map (·.values)) = some [[("c", [1])]] ∧
    (mioCellContent wMioRepeated).map (·.values) = [[("c", [1])], [("c", [2])]] := by decide

/-! ### image data whose extent does not start at 0 (was finding F20, fixed by a3961d2) -/

def wOffsetImage : GridGeom := .image 0 [0, 0, 0] [[1, 0, 0], [0, 1, 0], [0, 0, 1]] [1, 1, 1]

/-- `Extent="1 2 0 0 0 0"`, Origin 0, Spacing 1: VTK places the first point at x = 1, and so does the description
    the (fixed) reader builds; the hypotheses of `C07_extent_offset` / `C07_read_content` hold for it.
    (Before the fix the reader used the description as it stood: first point at x = 0.) -/
example :
    shiftExact [1, 0, 0] wOffsetImage = true ∧ gridHyp [1, 0, 0] wOffsetImage [] [] = true ∧
    geomAtLo [1, 0, 0] [1, 0, 0] wOffsetImage [0, 0, 0] = [1, 0, 0] ∧
    geomAt [1, 0, 0] (shiftGeom [1, 0, 0] wOffsetImage) [0, 0, 0] = [1, 0, 0] ∧
    geomAt [1, 0, 0] wOffsetImage [0, 0, 0] = [0, 0, 0] ∧
    ((readGrid [1, 2, 0, 0, 0, 0] wOffsetImage [] []).map (·.mesh.points)) = some [[1, 0, 0], [2, 0, 0]] := by
  decide

/-- a rotated, scaled image with a negative lower end: the shift is exact in units of 2^-2 -/
example : shiftExact [-3, 2, 0] (.image 2 [4, 0, 8] [[0, -4, 0], [2, 0, 0], [0, 0, 4]] [2, 6, 4]) = true := by decide

/-! ### outside the quantifier: a grid without any non-zero extent (a single point) -/

/-- Python's `l[d - 1]` with d = 0 picks the LAST entry: image/rectilinear grids claim one VOXEL with the single
    corner 0, a structured grid claims a HEXAHEDRON and `connectivity` raises (IndexError in the reorder) -/
example : gridMesh [0, 0, 0] (.rect [[], [], []]) = some ⟨3, [[0, 0, 0]], [("VOXEL", [[0]])]⟩ ∧
    gridMesh [0, 0, 0] (.struct [[0, 0, 0]]) = none := by decide

end Fc.C07
