/-
  FcProofs.Witness.C14 — non-vacuity examples for the C14 theorems (concrete inputs satisfy the hypotheses,
  the conclusions are non-trivial) and boundary witnesses.
-/
import FcProofs.Props.C14
namespace Fc.C14.Witness
open Fc Fc.C14

def tri : Mesh := ⟨2, [[0, 0], [4, 0], [0, 4]], [("TRIANGLE", [[0, 1, 2]])]⟩

/-- reference: point fields p (f64), q (i32); cell field c on TRIANGLE -/
def ref : MeshFields :=
  ⟨tri, [⟨"p", ⟨.flt f64, [3], [10, 20, 30]⟩⟩, ⟨"q", ⟨.int true 32, [3], [1, 2, 3]⟩⟩],
        [⟨"c", "TRIANGLE", ⟨.flt f64, [1], [7]⟩⟩]⟩

/-- source: p differs, q is missing, r is extra; cell field c differs -/
def src : MeshFields :=
  ⟨tri, [⟨"r", ⟨.flt f32, [3, 1], [0, 0, 0]⟩⟩, ⟨"p", ⟨.flt f64, [3], [1, 20, 35]⟩⟩],
        [⟨"c", "TRIANGLE", ⟨.flt f64, [1], [9]⟩⟩]⟩

/-- the model's answer: ref − src on p and c (sign!), NaN for the one-sided q and r, on the reference mesh -/
example : meshDiffTo true src ref = some
    ⟨tri, [⟨"p", ⟨.flt f64, [3], [.fin 9, .fin 0, .fin (-5)]⟩⟩,
           ⟨"q", ⟨.flt f64, [3], [.nan, .nan, .nan]⟩⟩,
           ⟨"r", ⟨.flt f64, [3, 1], [.nan, .nan, .nan]⟩⟩],
          [⟨"c", "TRIANGLE", ⟨.flt f64, [1], [.fin (-2)]⟩⟩]⟩ := by decide +kernel

/-- … and it raises for data sets on different meshes -/
example : meshDiffTo false src ref = none := by decide

/-- a decidable check that implies `ListsOk` (the same check the driver evaluates as `hyp`) -/
def listsCheck {κ : Type} [BEq κ] (l1 l2 : List (κ × NdArr)) : Bool :=
  l1.all fun x => l2.all fun y => !(x.1 == y.1) || (x.2.shape == y.2.shape && (subArr x.2 y.2).isSome)

theorem ListsOk.of_check {κ : Type} [BEq κ] [LawfulBEq κ] {l1 l2 : List (κ × NdArr)}
    (h1 : (keysOf l1).Nodup) (h2 : (keysOf l2).Nodup) (hc : listsCheck l1 l2 = true) : ListsOk l1 l2 := by
  refine ⟨h1, h2, ?_⟩
  intro k a1 a2 e1 e2
  have m1 := dictGet_mem e1
  have m2 := dictGet_mem e2
  simp only [listsCheck, List.all_eq_true] at hc
  have := hc _ m1 _ m2
  simpa using this

theorem ref_src_points_ok : ListsOk (pointList ref) (pointList src) :=
  ListsOk.of_check (by decide) (by decide) (by decide +kernel)

theorem ref_src_cells_ok : ListsOk (cellList ref) (cellList src) :=
  ListsOk.of_check (by decide) (by decide) (by decide +kernel)

/-- the hypothesis of `C14_mesh_values` is satisfiable by a data-set pair with common, ref-only and src-only fields -/
theorem hyp_holds : C14Hyp src ref := by
  refine ⟨ref_src_points_ok, ref_src_cells_ok, ?_⟩
  intro n ct' h ct hct
  simp [ref, tri, Mesh.cellTypes] at hct
  subst hct
  left
  -- the only cell-field key on either side is ("c", "TRIANGLE")
  have hn : n = "c" := by
    rcases h with h | h
    · rcases hx : dictGet (n, ct') (cellList ref) with _ | v
      · rw [hx] at h; simp at h
      · have := dictGet_mem hx
        simp [cellList, ref] at this
        exact this.1.1
    · rcases hx : dictGet (n, ct') (cellList src) with _ | v
      · rw [hx] at h; simp at h
      · have := dictGet_mem hx
        simp [cellList, src] at this
        exact this.1.1
  subst hn
  decide

/-- and the theorem then yields the common field, entry by entry -/
example : ∃ d, meshDiffTo true src ref = some d ∧
    dictGet "p" (d.pointFields.map fun f => (f.name, f.values)) = subArr ⟨.flt f64, [3], [10, 20, 30]⟩ ⟨.flt f64, [3], [1, 20, 35]⟩ := by
  obtain ⟨d, hd, _, hp, _⟩ := C14_mesh_values src ref hyp_holds
  exact ⟨d, hd, by rw [hp "p"]; decide +kernel⟩

/-! ### arithmetic boundaries -/

/-- fixed-width integers wrap around: int8 100 − (−100) = −56 -/
example : subArr ⟨.int true 8, [1], [100]⟩ ⟨.int true 8, [1], [-100]⟩ = some ⟨.int true 8, [1], [.fin (-56)]⟩ := by decide

/-- uint8 − int8 is computed in int16 (no wrap) -/
example : subArr ⟨.int false 8, [1], [200]⟩ ⟨.int true 8, [1], [-100]⟩ = some ⟨.int true 16, [1], [.fin 300]⟩ := by decide

/-- strings cannot be subtracted: `diff_to` raises for a common string field -/
example : subArr ⟨.str, [1], [0]⟩ ⟨.str, [1], [0]⟩ = none := by decide

/-- the sign theorem is about the promoted *float* type; for unsigned integers negation is modulo 2^bits:
    uint8 1 − 2 = 255 and 2 − 1 = 1 (not −255) -/
example : subArr ⟨.int false 8, [1], [1]⟩ ⟨.int false 8, [1], [2]⟩ = some ⟨.int false 8, [1], [.fin 255]⟩ ∧
    subArr ⟨.int false 8, [1], [2]⟩ ⟨.int false 8, [1], [1]⟩ = some ⟨.int false 8, [1], [.fin 1]⟩ := by decide

/-! ### tables: NaN tail -/

def tref : TableFields := ⟨3, [("x", ⟨.int true 64, [3], [1, 2, 3]⟩), ("y", ⟨.int true 64, [3], [5, 5, 5]⟩)]⟩
def tsrc : TableFields := ⟨2, [("x", ⟨.int true 64, [2], [1, 5]⟩), ("w", ⟨.str, [2], [0, 1]⟩)]⟩

example : (tableDiffTo tsrc tref).map (·.nrows) = some 3 := by decide
example : ((tableDiffTo tsrc tref).map (·.cols.map (·.1))) = some ["x", "y", "w"] := by decide
/-- common rows: 1−1 = 0, 2−5 = −3 (as float64 units), then the NaN tail -/
example : ((tableDiffTo tsrc tref).bind fun t => (dictGet "x" t.cols).map (·.data.getD 2 (.fin 0))) = some .nan := by decide

end Fc.C14.Witness
