/-
  FcProofs.Witness.C02_Orchestration — phase 6 round 2: the translated retry ladder `MeshFieldsComparator.__call__` evaluated
  by the kernel on a small concrete world (states and suites are numbers), compared with the abstract ladder `ladderAbs`, and a
  hand-made mutant on which the result differs.
-/
import FcGen.Tables
import FcProofs.Props.C02_Orchestration
namespace Fc.PyLite.WitnessC02O
open Fc Fc.PyLite Fc.PyLite.C02O Fc.C02

/-- a toy world: a side is a number; sides < 10 are 2-dimensional, the others 3-dimensional; a suite is `100 * source + reference`
    and its domains are equal iff both numbers agree; extension to 3 dimensions adds 10 to a 2-dimensional side; stripping adds
    20, sorting the points 40 (side 5 cannot be sorted: ValueError), sorting the cells maps to 90; side 7 is structured -/
def lops : Ops Nat Nat where
  run a b := 100 * a + b
  ok o := o / 100 == o % 100
  dim s := if s < 10 then 2 else 3
  structured s := s == 7
  extend d s := if s < 10 && d == 3 then .ok (s + 10) else .ok s
  strip s := .ok (s + 20)
  sortPoints s := if s % 20 == 5 then .error "ValueError" else .ok (s + 40)
  sortCells _ := .ok 90

def lP : Pres Nat Nat := ⟨fun s => .int s, fun o => .int o, fun o => .list [.str "report", .int o], .str "skipped"⟩

def exc : Except String Nat → Res Val
  | .ok s => .ok (sideV lops lP s)
  | .error e => .raise e

/-- the externals of the translated ladder in this world (decoding the payloads of the presented objects) -/
def lX : Ext := fun f args =>
  match f, args with
  | "._run_comparison", [.record [("_source", .record [_, ("payload", .int a)]),
        ("_reference", .record [_, ("payload", .int b)]), _, _, _], .str "sel", .str "cb"] =>
    .ok (suiteV lops lP (lops.run a.toNat b.toNat))
  | "._mesh_fail_msg", [_, rp, .str w] => .ok (.list [.str "msg", rp, .str w])
  | "._mesh_fail_msg", [_, rp] => .ok (.list [.str "msg", rp])
  | "call", [.str "rcb", .list l] => .ok (.list l)
  | "call", [.str "rcb", .str _] => .ok (.str "skipped")
  | "extend_space_dimension_to", [.int d, .record [_, ("payload", .int a)]] => exc (lops.extend d.toNat a.toNat)
  | "strip_orphan_points", [.record [_, ("payload", .int a)]] => exc (lops.strip a.toNat)
  | "sort_points", [.record [_, ("payload", .int a)]] => exc (lops.sortPoints a.toNat)
  | "sort_cells", [.record [_, ("payload", .int a)]] => exc (lops.sortCells a.toNat)
  | "global mesh_protocols", [] => .ok (.record [("StructuredMesh", .str "SM")])
  | "isinstance", [.record [_, ("payload", .int a)], .str "SM"] => .ok (.bool (lops.structured a.toNat))
  | _, _ => .stuck

def run (fl : LadderFlags) (s r : Nat) : Res (Val × List Val × Val) :=
  Gen.c02oLadderCallSrc.runSelf lX [selfV lops lP fl s r, .str "sel", .str "cb", .str "rcb"]

/-! the model on five inputs (rung, final sides, number of messages) … -/
example : (match ladderAbs lops {} 4 4 with | .done k _ s r tr => (k, s, r, tr.length) | .raised _ => (9, 0, 0, 0)) = (0, 4, 4, 0) := by decide
example : (match ladderAbs lops {} 1 11 with | .done k _ s r tr => (k, s, r, tr.length) | .raised _ => (9, 0, 0, 0)) = (1, 11, 11, 1) := by decide
example : (match ladderAbs lops {} 1 2 with | .done k _ s r tr => (k, s, r, tr.length) | .raised _ => (9, 0, 0, 0)) = (3, 90, 90, 2) := by decide
example : (match ladderAbs lops { noOrphanRemoval := true } 1 5 with | .done .. => "done" | .raised e => e) = "ValueError" := by decide
example : (match ladderAbs lops { noReorder := true } 1 2 with | .done k _ s r tr => (k, s, r, tr.length) | .raised _ => (9, 0, 0, 0)) = (0, 1, 2, 1) := by decide
example : (match ladderAbs lops {} 7 7 with | .done k _ s r tr => (k, s, r, tr.length) | .raised _ => (9, 0, 0, 0)) = (0, 7, 7, 0) := by decide

/-! … and the translated body, evaluated by the kernel, agrees with it (suite, messages, final `self`) -/
example : run {} 4 4 = ladderObs lops lP {} (ladderAbs lops {} 4 4) := by rfl
example : run {} 1 11 = ladderObs lops lP {} (ladderAbs lops {} 1 11) := by rfl
example : run {} 1 2 = ladderObs lops lP {} (ladderAbs lops {} 1 2) := by rfl
example : run { noOrphanRemoval := true } 1 5 = .raise "ValueError" := by rfl
example : run { noReorder := true } 1 2 = ladderObs lops lP { noReorder := true } (ladderAbs lops { noReorder := true } 1 2) := by rfl
example : run { noDimMatch := true } 1 11 =
    ladderObs lops lP { noDimMatch := true } (ladderAbs lops { noDimMatch := true } 1 11) := by rfl

/-- hand-made mutant: the statement holding the structured skip and the two reordering rungs (the 8th of the body) removed -/
def noReorderRungs : Fn :=
  { Gen.c02oLadderCallSrc with body := Gen.c02oLadderCallSrc.body.take 7 ++ Gen.c02oLadderCallSrc.body.drop 8 }
/-- on sides 1 / 2 it stops at rung 0 with the final message (what the ladder does only when reordering is DISABLED),
    whereas the translated source goes on to rung 3 with sides 90 / 90 -/
example : noReorderRungs.runSelf lX [selfV lops lP {} 1 2, .str "sel", .str "cb", .str "rcb"] =
    ladderObs lops lP {} (ladderAbs lops { noReorder := true } 1 2) := by rfl
example : (match ladderAbs lops { noReorder := true } 1 2, ladderAbs lops {} 1 2 with
    | .done k _ _ _ _, .done k' _ _ _ _ => (k, k') | _, _ => (9, 9)) = (0, 3) := by decide

end Fc.PyLite.WitnessC02O
