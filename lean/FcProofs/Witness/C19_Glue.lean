/-
  Non-vacuity of the C19 glue theorems on concrete data (kernel-evaluated).
-/
import FcProofs.Props.C19_Glue
import FcProofs.Witness.C03_Glue
import FcProofs.Witness.C17_Glue
namespace Fc.Glue.Witness
open Fc Fc.Spec Fc.C19 Fc.C02 Fc.C02.Spec Fc.C02.Witness

def flC : CmpFlags := ⟨false, false⟩
def stW : CmpState CView := ⟨viewOf wB2, viewOf wA⟩

-- two consecutive calls of one comparator object on the relabelled pair: PASS, PASS — the second
-- call starts from the sorted views the first one left behind
example : rerun (cmpOps Lw (compareTol tolW)) flC 2 stW = [(true, true), (true, true)] := by decide +kernel
example : (runComparator (cmpOps Lw (compareTol tolW)) flC stW).callbacks = 1 := by decide +kernel
example : (runComparator (cmpOps Lw (compareTol tolW)) flC
    (runComparator (cmpOps Lw (compareTol tolW)) flC stW).state).callbacks = 0 := by decide +kernel

-- `C19_dim_faithful` applies; and the state left behind really differs from the initial one
example : Consistent (runComparator (cmpOps Lw (compareTol tolW)) flC stW).state.src :=
  (C19_dim_faithful Lw (compareTol tolW) flC stW (consistent_viewOf _) (consistent_viewOf _)).1
example : (runComparator (cmpOps Lw (compareTol tolW)) flC stW).state.src ≠ stW.src := by decide +kernel

-- dimension rung: the 1-d line against its 3-d copy; afterwards both views report 3 columns
example : ((runComparator (cmpOps Lw (compareTol tolW)) flC ⟨viewOf lineB, viewOf lineA3⟩).state.src.1,
    (runComparator (cmpOps Lw (compareTol tolW)) flC ⟨viewOf lineB, viewOf lineA3⟩).state.src.2.map (·.mesh.dim))
    = (3, some 3) := by decide +kernel

/-- the data-level hypothesis `hidemP` holds on the witness at the `_permute` level: permuting the
    permuted view of `wB2` returns it unchanged (C02's sorter, strip included) -/
def g1 : MeshFields := (permuteFields Lw wB2).getD wB2
example : permuteFields Lw wB2 = some g1 := by decide +kernel
example : g1 ≠ wB2 := by decide +kernel
example : permuteFields Lw g1 = some g1 := by decide +kernel

/-- `C19_strip_twice` applies to the hybrid mesh with an orphan point of the C17 witness -/
example : ∃ f1 f2, stripOrphanPoints stableArgsortBool m2 = some f1 ∧ stripOrphanPoints stableArgsortBool f1 = some f2 ∧
    f2.mesh.points.Perm f1.mesh.points ∧ SameContent f1 f2 ∧
    unconnectedFilterMap stableArgsortBool f1.mesh = some (List.range f1.mesh.numPoints) :=
  C19_strip_twice m2 (wf2_WFP m2 (by decide +kernel)) stableArgsortBool stableArgsortBool
    stableArgsortBool_isArgsort stableArgsortBool_isArgsort ⟨0, by decide⟩
-- the first strip really drops the orphan
example : (stripOrphanPoints stableArgsortBool m2).map (·.mesh.numPoints) = some 5 := by decide +kernel

/-! `C19_sort_points_twice` on C02's witness mesh (duplicated diagonal) -/

/-- the sorted view of `wA` (C02's model) -/
def wA2 : MeshFields := (C02.sortPoints argsortIns wTol wA).getD wA

theorem wA2_def : C02.sortPoints argsortStable wTol wA = some wA2 := by
  have e : C02.sortPoints argsortIns wTol wA = some wA2 := by decide +kernel
  unfold C02.sortPoints at e ⊢
  have hm : wA.mesh = wMesh := rfl
  rw [hm] at e ⊢
  rw [← (C02_sort_points_canonical isArgsort_ins w_pointHyp).1]
  exact e

example : wA2.mesh.points ≠ wA.mesh.points := by decide +kernel

theorem wA2_pointHyp : pointHyp wTol wA2.mesh = true := by decide +kernel

theorem wA2_cands : ∀ x, x ∈ (pointData (sepA wTol) wMesh).cands ↔ x ∈ (pointData (sepA wTol) wA2.mesh).cands := by
  have h : ((pointData (sepA wTol) wMesh).cands.all fun x => (pointData (sepA wTol) wA2.mesh).cands.contains x) = true ∧
      ((pointData (sepA wTol) wA2.mesh).cands.all fun x => (pointData (sepA wTol) wMesh).cands.contains x) = true := by
    decide +kernel
  simp only [List.all_eq_true, List.contains_eq_mem, decide_eq_true_eq] at h
  exact fun x => ⟨h.1 x, h.2 x⟩

example : ∃ f3, C02.sortPoints argsortInsRev wTol wA2 = some f3 ∧ f3.mesh.points = wA2.mesh.points :=
  C19_sort_points_twice isArgsort_stable isArgsort_insRev wA2_def (C02_hyp_sound w_pointHyp).1
    (C02_hyp_sound wA2_pointHyp).1 wA2_cands (by decide) (by decide) (C02_hyp_sound w_pointHyp).2

end Fc.Glue.Witness
