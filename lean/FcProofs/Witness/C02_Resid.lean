/-
  Witnesses for Props/C02_Resid.lean.

  * NEGATION WITNESS for `hrigid` under `baseHyp` alone: two coincident ORPHAN points.  `baseHyp` looks at
    the stripped mesh only, so it holds; exchanging the two orphans leaves the stored mesh unchanged,
    `mesh_equal` accepts the pair as stored although `ρ ≠ id`, and the comparator reports a false FAIL
    on the point field — `C02_no_false_fail_noise_free` is FALSE under `baseHyp` alone; the extra
    hypothesis `Resid.storedHyp` (Sep ∧ Distinguishable of the mesh as stored) excludes the data set.
  * `C02_no_false_fail_distinguishable` applies to `wA` (duplicated diagonal: coincident, distinguishable
    points — outside `continuousHyp`), with NO evaluated `hrigid`.
  * `C02_centre_error_bound` on the two triangles of `wA` read in different corner orders.
-/
import FcProofs.Props.C02_Resid
import FcProofs.Witness.C02
namespace Fc.Resid.Witness
open Fc Fc.C02 Fc.C02.Spec Fc.C02.Witness

/-! ### the counterexample: coincident orphan points -/

/-- the unit square (two triangles) plus two orphan points stored at the same place, with different
    point values -/
def orphA : MeshFields :=
  ⟨{ dim := 2,
     points := [[0, 0], [one, 0], [one, one], [0, one], [3 * one, 3 * one], [3 * one, 3 * one]],
     cells := [("TRIANGLE", [[0, 1, 2], [0, 2, 3]])] },
   [⟨"p", ⟨.flt f64, [6], [1 * one, 2 * one, 3 * one, 4 * one, 5 * one, 6 * one]⟩⟩],
   [⟨"c", "TRIANGLE", ⟨.int true 64, [2], [10, 20]⟩⟩]⟩

/-- the relabelling that exchanges the two orphans -/
def orphB : MeshFields := relabelF [0, 1, 2, 3, 5, 4] (idCellMaps orphA) orphA

theorem orphA_sortIdx :
    sortPointsIdx argsortStable (meshTolOf orphA.mesh) (baseOf orphA).mesh = some [0, 3, 1, 2] := by
  have hp : pointHyp (meshTolOf orphA.mesh) (baseOf orphA).mesh = true := by decide +kernel
  rw [← (C02_sort_points_canonical isArgsort_ins hp).1]
  decide +kernel

/-- C02's decidable hypothesis holds for the data set … -/
theorem orphA_baseHyp : baseHyp hDemo orphA = true := by
  simp only [baseHyp, orphA_sortIdx]
  decide +kernel

/-- … the relabelled data set differs (the point values of the orphans are exchanged), `mesh_equal`
    accepts the pair as stored, the relabelling is not the identity (`hrigid` is false), and the
    default comparator reports a false FAIL in both roles -/
example : orphB ≠ orphA ∧
    meshEqual (meshTolOf orphA.mesh) orphB.mesh orphA.mesh = true ∧
    [0, 1, 2, 3, 5, 4] ≠ List.range orphA.mesh.points.length ∧
    ladderPasses (ladder argsortIns argsortIns hDemo {} orphB orphA) = false ∧
    ladderPasses (ladder argsortIns argsortIns hDemo {} orphA orphB) = false := by
  decide +kernel

example : ladder argsortIns argsortIns hDemo {} orphB orphA =
    .done 0 ⟨true, [("p", "", .failed), ("c", "TRIANGLE", .passed)]⟩ := by decide +kernel

/-- the extra hypothesis of the full theorem excludes it: the two orphans coincide and have no
    adjacent cell, so `Sep ∧ Distinguishable` of the mesh as stored fails -/
example : storedHyp orphA = false := by decide +kernel

/-! ### the full theorem on a mesh with distinguishable coincident points -/

theorem wA_storedHyp : storedHyp wA = true := by decide +kernel

/-- no hypothesis is left to evaluate per pair: `hrigid` is a theorem now -/
example : ladderPasses (ladder argsortStable argsortInsRev hDemo {} wB wA) = true ∧
    ladderPasses (ladder argsortStable argsortInsRev hDemo {} wA wB) = true := by
  have h := C02_no_false_fail_distinguishable isArgsort_stable isArgsort_insRev wA_baseHyp wA_storedHyp
    (ρ := [5, 4, 3, 2, 1, 0]) (κ := wκ) (by decide) wκ_ok
  rw [wB_relabel] at h
  exact h

/-- `wA` is outside the class covered by phase 2 (`continuousHyp`: no coincident points) -/
example : continuousHyp wA = false := by decide +kernel

/-- the indistinguishable twin triangles stay outside (they ARE a false FAIL, Witness/C02.lean) -/
example : storedHyp twinA = false := by decide +kernel

/-! ### the centre bound on concrete cells -/

/-- the lower-right triangle of `wMesh` read as `[0,1,2]` and, through the coincident partners
    `0 ↦ 4`, `2 ↦ 5`, in another corner order as `[5,1,4]`: centres exist, and the bound with `δ = 0`
    holds (here the centres differ by rounding only) -/
example : ∃ z z', cellCentre wMesh.points [0, 1, 2] = some z ∧ cellCentre wMesh.points [5, 1, 4] = some z' ∧
    ∀ j, j < 2 → 9007199254740992 * (z.getD j 0 - z'.getD j 0).natAbs ≤
      9007199254740992 * 0 + (2 * [0, 1, 2].length + 4) * one.natAbs + 9007199254740992 := by
  have h1 : (cellCentre wMesh.points [0, 1, 2]).isSome = true := by decide +kernel
  have h2 : (cellCentre wMesh.points [5, 1, 4]).isSome = true := by decide +kernel
  obtain ⟨z, hz⟩ := Option.isSome_iff_exists.mp h1
  obtain ⟨z', hz'⟩ := Option.isSome_iff_exists.mp h2
  refine ⟨z, z', hz, hz', ?_⟩
  exact C02_centre_error_bound (d := 2) (δ := 0) (M := one.natAbs)
    (φ := fun q => if q = 0 then 4 else if q = 2 then 5 else q)
    hz hz' (by decide +kernel) (by decide +kernel) (by decide +kernel) (by decide +kernel) (by decide +kernel)
    (by decide +kernel) (by simp)

/-! ### noisy relabelling -/

/-- the unit square of `sqA` and a copy whose points 0 and 3 (the left edge) are moved by one unit
    (2^-1074) in `x` -/
def nzA : Mesh := sqA.mesh
def nzB : Mesh :=
  { dim := 2, points := [[1, 0], [one, 0], [one, one], [1, one]], cells := [("TRIANGLE", [[0, 1, 2], [0, 2, 3]])] }

/-- NEGATION WITNESS for `hrel` of `C02_canonical_points_partial` on a genuinely noisy pair: a cluster key
    is the smallest value occurring in the OWN mesh, so the key-vector pairs of the two sides are different
    lists (`[0, …]` vs `[1, …]`) although the meshes are a noisy relabelled pair far inside `Sep` -/
example : ¬ ((pitems nzA).map (kv2 (KC (sepA (meshTolOf nzA)) nzA)
      (KM (sepA (meshTolOf nzA)) [] argsortIns (meshTolOf nzA) nzA) nzA.dim)).Perm
    ((pitems nzB).map (kv2 (KC (sepA (meshTolOf nzB)) nzB)
      (KM (sepA (meshTolOf nzB)) [] argsortIns (meshTolOf nzB) nzB) nzB.dim)) := by
  decide +kernel

theorem nz_noisy : NoisyRelabeled nzA nzB [0, 1, 2, 3] 1 where
  dim := rfl
  perm := by decide
  len := rfl
  rowLen1 := by decide
  rowLen2 := by decide
  near := by decide +kernel
  wf := by decide +kernel
  rows := by decide +kernel

/-- … while the JOINT cluster keys agree (`C02_noisy_point_keys`), here for point 0, column 0 -/
example : clusterKey (sepA (meshTolOf nzA)) ((pitems nzA ++ pitems nzB).map (pkey 0)) ((nzB.points.getD 0 []).getD 0 0) =
    clusterKey (sepA (meshTolOf nzA)) ((pitems nzA ++ pitems nzB).map (pkey 0))
      ((nzA.points.getD (([0, 1, 2, 3] : List Nat).getD 0 0) []).getD 0 0) :=
  C02_noisy_point_keys nz_noisy (sepA_sepB _) (by decide +kernel) (by decide) (by decide +kernel) (by decide)

/-- `C02_noisy_centre_keys` on the first triangle: the centres of the cell in the two meshes have the
    same joint cluster key in column 0 -/
example : ∃ z z', cellCentre nzA.points [0, 1, 2] = some z ∧ cellCentre nzB.points [0, 1, 2] = some z' ∧
    clusterKey (sepA (meshTolOf nzA)) ([z, z'].map (rowKey 0)) (rowKey 0 z) =
      clusterKey (sepA (meshTolOf nzA)) ([z, z'].map (rowKey 0)) (rowKey 0 z') := by
  have h1 : (cellCentre nzA.points [0, 1, 2]).isSome = true := by decide +kernel
  have h2 : (cellCentre nzB.points [0, 1, 2]).isSome = true := by decide +kernel
  obtain ⟨z, hz⟩ := Option.isSome_iff_exists.mp h1
  obtain ⟨z', hz'⟩ := Option.isSome_iff_exists.mp h2
  refine ⟨z, z', hz, hz', ?_⟩
  have hsep : sepCol (sepA (meshTolOf nzA)) (sepB (meshTolOf nzA)) ([z, z'].map (rowKey 0)) = true := by
    have : ∀ a b, cellCentre nzA.points [0, 1, 2] = some a → cellCentre nzB.points [0, 1, 2] = some b →
        sepCol (sepA (meshTolOf nzA)) (sepB (meshTolOf nzA)) ([a, b].map (rowKey 0)) = true := by
      have hd : (match cellCentre nzA.points [0, 1, 2], cellCentre nzB.points [0, 1, 2] with
          | some a, some b => sepCol (sepA (meshTolOf nzA)) (sepB (meshTolOf nzA)) ([a, b].map (rowKey 0))
          | _, _ => true) = true := by decide +kernel
      intro a b ha hb
      rw [ha, hb] at hd
      exact hd
    exact this z z' hz hz'
  exact C02_noisy_centre_keys (M := one.natAbs) (r := [0, 1, 2]) nz_noisy (sepA_sepB _) (by decide +kernel)
    ⟨by simp, by decide +kernel⟩ (by decide +kernel) (by decide +kernel) hz hz'
    (List.mem_cons_self ..) (List.mem_cons_of_mem _ (List.mem_cons_self ..)) (by decide) hsep

end Fc.Resid.Witness
