/-
  Witnesses for Props/C02_Resid.lean.

  * NEGATION WITNESS for `hrigid` under `baseHyp` alone: two coincident ORPHAN points.  `baseHyp` looks at
    the stripped mesh only, so it holds; exchanging the two orphans leaves the stored mesh unchanged,
    `mesh_equal` accepts the pair as stored although `ρ ≠ id`, and the comparator reports a false FAIL
    on the point field — `C02_no_false_fail_noise_free` is FALSE under `baseHyp` alone; the extra
    hypothesis `Resid.storedHyp` (Sep ∧ Distinguishable of the mesh as stored) excludes the data set.
  * `C02_no_false_fail_distinguishable` applies to `wA` (duplicated diagonal: coincident, distinguishable
    points — outside `continuousHyp`), with NO evaluated `hrigid`.
  * `C02_centre_error_bound` on the two triangles of `wA` read in different corner orders.
-/
import FcProofs.Props.C02_Resid
import FcProofs.Witness.C02
namespace Fc.Resid.Witness
open Fc Fc.C02 Fc.C02.Spec Fc.C02.Witness

/-! ### the counterexample: coincident orphan points -/

/-- the unit square (two triangles) plus two orphan points stored at the same place, with different
    point values -/
def orphA : MeshFields :=
  ⟨{ dim := 2,
     points := [[0, 0], [one, 0], [one, one], [0, one], [3 * one, 3 * one], [3 * one, 3 * one]],
     cells := [("TRIANGLE", [[0, 1, 2], [0, 2, 3]])] },
   [⟨"p", ⟨.flt f64, [6], [1 * one, 2 * one, 3 * one, 4 * one, 5 * one, 6 * one]⟩⟩],
   [⟨"c", "TRIANGLE", ⟨.int true 64, [2], [10, 20]⟩⟩]⟩

/-- the relabelling that exchanges the two orphans -/
def orphB : MeshFields := relabelF [0, 1, 2, 3, 5, 4] (idCellMaps orphA) orphA

theorem orphA_sortIdx :
    sortPointsIdx argsortStable (meshTolOf orphA.mesh) (baseOf orphA).mesh = some [0, 3, 1, 2] := by
  have hp : pointHyp (meshTolOf orphA.mesh) (baseOf orphA).mesh = true := by decide +kernel
  rw [← (C02_sort_points_canonical isArgsort_ins hp).1]
  decide +kernel

/-- C02's decidable hypothesis holds for the data set … -/
theorem orphA_baseHyp : baseHyp hDemo orphA = true := by
  simp only [baseHyp, orphA_sortIdx]
  decide +kernel

/-- … the relabelled data set differs (the point values of the orphans are exchanged), `mesh_equal`
    accepts the pair as stored, the relabelling is not the identity (`hrigid` is false), and the
    default comparator reports a false FAIL in both roles -/
example : orphB ≠ orphA ∧
    meshEqual (meshTolOf orphA.mesh) orphB.mesh orphA.mesh = true ∧
    [0, 1, 2, 3, 5, 4] ≠ List.range orphA.mesh.points.length ∧
    ladderPasses (ladder argsortIns argsortIns hDemo {} orphB orphA) = false ∧
    ladderPasses (ladder argsortIns argsortIns hDemo {} orphA orphB) = false := by
  decide +kernel

example : ladder argsortIns argsortIns hDemo {} orphB orphA =
    .done 0 ⟨true, [("p", "", .failed), ("c", "TRIANGLE", .passed)]⟩ := by decide +kernel

/-- the extra hypothesis of the full theorem excludes it: the two orphans coincide and have no
    adjacent cell, so `Sep ∧ Distinguishable` of the mesh as stored fails -/
example : storedHyp orphA = false := by decide +kernel

/-! ### the full theorem on a mesh with distinguishable coincident points -/

theorem wA_storedHyp : storedHyp wA = true := by decide +kernel

/-- no hypothesis is left to evaluate per pair: `hrigid` is a theorem now -/
example : ladderPasses (ladder argsortStable argsortInsRev hDemo {} wB wA) = true ∧
    ladderPasses (ladder argsortStable argsortInsRev hDemo {} wA wB) = true := by
  have h := C02_no_false_fail_distinguishable isArgsort_stable isArgsort_insRev wA_baseHyp wA_storedHyp
    (ρ := [5, 4, 3, 2, 1, 0]) (κ := wκ) (by decide) wκ_ok
  rw [wB_relabel] at h
  exact h

/-- `wA` is outside the class covered by phase 2 (`continuousHyp`: no coincident points) -/
example : continuousHyp wA = false := by decide +kernel

/-- the indistinguishable twin triangles stay outside (they ARE a false FAIL, Witness/C02.lean) -/
example : storedHyp twinA = false := by decide +kernel

/-! ### the centre bound on concrete cells -/

/-- the lower-right triangle of `wMesh` read as `[0,1,2]` and, through the coincident partners
    `0 ↦ 4`, `2 ↦ 5`, in another corner order as `[5,1,4]`: centres exist, and the bound with `δ = 0`
    holds (here the centres differ by rounding only) -/
example : ∃ z z', cellCentre wMesh.points [0, 1, 2] = some z ∧ cellCentre wMesh.points [5, 1, 4] = some z' ∧
    ∀ j, j < 2 → 9007199254740992 * (z.getD j 0 - z'.getD j 0).natAbs ≤
      9007199254740992 * 0 + (2 * [0, 1, 2].length + 4) * one.natAbs + 9007199254740992 := by
  have h1 : (cellCentre wMesh.points [0, 1, 2]).isSome = true := by decide +kernel
  have h2 : (cellCentre wMesh.points [5, 1, 4]).isSome = true := by decide +kernel
  obtain ⟨z, hz⟩ := Option.isSome_iff_exists.mp h1
  obtain ⟨z', hz'⟩ := Option.isSome_iff_exists.mp h2
  refine ⟨z, z', hz, hz', ?_⟩
  exact C02_centre_error_bound (d := 2) (δ := 0) (M := one.natAbs)
    (φ := fun q => if q = 0 then 4 else if q = 2 then 5 else q)
    hz hz' (by decide +kernel) (by decide +kernel) (by decide +kernel) (by decide +kernel) (by decide +kernel)
    (by decide +kernel) (by simp)

end Fc.Resid.Witness
