/-
  Non-vacuity and negation witnesses for C10 on integer operands (Props/C10_Ints.lean).
  Units: the tolerance 1.0 is 2^1074 units.
-/
import FcProofs.Props.C10_Ints
namespace Fc
open Spec

def iA : NdArr := ⟨.int true 8, [3], [100, -127, 5]⟩
def iB : NdArr := ⟨.int true 8, [3], [-27, 0, 7]⟩

-- hypotheses of C10_int_model_eq_spec / C10_int_mono are satisfiable by a non-trivial pair
-- (differences −127, 127, 2: the extremes of the safe range) …
example : iA.dtype = .int true 8 ∧ iB.dtype = .int true 8 ∧ intSafeArr 8 iA iB = true ∧ iA.wf ∧ iB.wf :=
  ⟨rfl, rfl, by decide, rfl, rfl⟩
-- … and the conclusions are observable: abs_tol 126.0 fails, 127.0 passes (monotone), both orders agree
example : fuzzyCheck (.num 0) (.num (126 * 2 ^ 1074)) iA iB = .ok false := by decide +kernel
example : fuzzyCheck (.num 0) (.num (127 * 2 ^ 1074)) iA iB = .ok true := by decide +kernel
example : fuzzyCheck (.num 0) (.num (127 * 2 ^ 1074)) iB iA = .ok true := by decide +kernel
example : fuzzySpecInt (.num 0) (.num (127 * 2 ^ 1074)) iA iB = some true := by decide +kernel
-- the relative tolerance acts on max(|a|,|b|): 127/127 = 1.0 passes the middle entry, 0.99 does not
example : fuzzyEqInt1 true 8 (-127) 0 (2 ^ 1074) 0 = true := by decide +kernel
example : fuzzyEqInt1 true 8 (-127) 0 (2 ^ 1074 - 2 ^ 1060) 0 = false := by decide +kernel
-- reflexive: hypotheses of C10_int_refl hold for iA (no −128)
example : ∀ x ∈ iA.data, intNoMin 8 x = true := by decide

/-- the safe condition is sharp, 1: an overflowing difference.  int8 100 vs −100: the true
    difference 200 wraps to 56, so abs_tol = 56.0 "passes" although the documented formula on the
    integers fails — `intSafe` is false, `C10_int_safe_formula` does not apply.  (Still symmetric.) -/
example : intSafe 8 100 (-100) = false ∧
    fuzzyEqInt1 true 8 100 (-100) 0 (56 * 2 ^ 1074) = true ∧
    fuzzyEqInt1 true 8 (-100) 100 0 (56 * 2 ^ 1074) = true ∧
    intFormula 100 (-100) 0 (56 * 2 ^ 1074) = false := by decide +kernel

/-- the safe condition is sharp, 2 (class F13-absmin): the type minimum.  int8 −128 vs 5: the
    difference 133 wraps to −123 → 123 passes with abs_tol = 123.0; the formula demands ≥ 133. -/
example : intSafe 8 (-128) 5 = false ∧
    fuzzyEqInt1 true 8 (-128) 5 0 (123 * 2 ^ 1074) = true ∧
    intFormula (-128) 5 0 (123 * 2 ^ 1074) = false := by decide +kernel

/-- class F12 at the other widths: uint64 [1] vs [2], abs_tol = 1.0 — equal one way, unequal the
    other (2^64 − 1 is seen as the difference) -/
example :
    fuzzyCheck (.num 0) (.num (2 ^ 1074)) ⟨.int false 64, [1], [1]⟩ ⟨.int false 64, [1], [2]⟩ = .ok true ∧
    fuzzyCheck (.num 0) (.num (2 ^ 1074)) ⟨.int false 64, [1], [2]⟩ ⟨.int false 64, [1], [1]⟩ = .ok false := by
  decide +kernel

-- C10_uint_diff_wraps instantiated: uint8 3 < 5: one order sees 2, the other 254
example : wrapAbs false 8 (wrapInt false 8 (5 - 3)) = 2 ∧ wrapAbs false 8 (wrapInt false 8 (3 - 5)) = 254 := by
  decide

-- int64 near the limits: 2^63 − 1 vs 2^63 − 2 (difference 1; both beyond 2^53, conversions round)
example : intSafe 64 (2 ^ 63 - 1) (2 ^ 63 - 2) = true ∧
    fuzzyEqInt1 true 64 (2 ^ 63 - 1) (2 ^ 63 - 2) 0 (2 ^ 1074) = true ∧
    fuzzyEqInt1 true 64 (2 ^ 63 - 1) (2 ^ 63 - 2) 0 (2 ^ 1073) = false := by decide +kernel

end Fc
