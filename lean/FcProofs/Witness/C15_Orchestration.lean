/-
  FcProofs.Witness.C15_Orchestration — phase 6 round 3: the new interpreter features (`while` with fuel, `str + str`, iterable
  objects) on corner cases; the translated generator `FieldDataSequence.__iter__` run by the kernel on a cursor source (its
  ∀-theorem is NOT proved yet, see notes/PHASE6_A3.md); the translated step loop on concrete sequences; hand-made mutants.
-/
import FcGen.Tables
import FcProofs.Props.C15_Orchestration
namespace Fc.PyLite.WitnessC15O
open Fc Fc.PyLite Fc.PyLite.C15 Fc.PyLite.C15O

private def i (n : Int) : Expr := .lit (.int n)
def fuelX (n : Int) : Ext := fun f args => match f, args with | "while-fuel", [] => .ok (.int n) | _, _ => .stuck

/-! ### `while` with fuel, string concatenation, iterable objects -/
-- `k = 0; while k < 3: k = k + 1; return k`
def countTo3 : Fn := ⟨"f", [], [.assign "k" (i 0),
  .whileF (.ext "while-fuel" []) (.cmp .lt (.var "k") (i 3)) [.assign "k" (.bin .add (.var "k") (i 1))], .ret (.var "k")]⟩
example : countTo3.run (fuelX 3) [] = .ok (.int 3) := rfl          -- exactly enough fuel
example : countTo3.run (fuelX 100) [] = .ok (.int 3) := rfl        -- more fuel: same result
example : countTo3.run (fuelX 2) [] = .stuck := rfl                -- not enough fuel: stuck, never a default
example : countTo3.run (fuelX 0) [] = .stuck := rfl
-- a loop whose condition is false at once needs no fuel; `return` inside the body leaves the function
example : (Fn.run (fuelX 0) ⟨"f", [], [.whileF (.ext "while-fuel" []) (.lit (.bool false)) [.raise "E"], .ret (i 1)]⟩ []) = .ok (.int 1) := rfl
example : (Fn.run (fuelX 5) ⟨"f", [], [.whileF (.ext "while-fuel" []) (.lit (.bool true)) [.ret (i 7)], .ret (i 1)]⟩ []) = .ok (.int 7) := rfl
example : eval noExt (.bin .add (.lit (.str "ab")) (.lit (.str "c"))) [] = .ok (.str "abc") := rfl
example : eval noExt (.bin .add (.lit (.str "ab")) (i 1)) [] = .stuck := rfl
private def itObj : Val := .record [("n", .int 2), ("__iter__", .list [.int 5, .int 6])]
example : eval noExt (.call .list [.lit itObj]) [] = .ok (.list [.int 5, .int 6]) := rfl
example : eval noExt (.call .list [.lit (.record [("n", .int 2)])]) [] = .stuck := rfl      -- not iterable: stuck
example : eval noExt (.call .zip [.lit itObj, .lit itObj]) [] = .ok (.list [.list [.int 5, .int 5], .list [.int 6, .int 6]]) := rfl

/-! ### `FieldDataSequence.__iter__` on a cursor source (FcModel/Seq.lean `Src`) -/
def srcV (n cur : Int) : Val := .record [("n", .int n), ("cur", .int cur)]
/-- the cursor machine of `_PVDSequenceSource` / `_XDMFSequenceSource` as stateful externals (result, new source) -/
def srcX : Ext := fun f args =>
  match f, args with
  | "while-fuel", [] => .ok (.int 10)
  | ".reset!", [.record [("n", .int n), ("cur", _)]] => .ok (.list [.none, srcV n 0])
  | ".step!", [.record [("n", .int n), ("cur", .int c)]] => .ok (.list [.bool (decide (c + 1 < n)), srcV n (c + 1)])
  | ".get!", [.record [("n", .int n), ("cur", .int c)]] =>
    if c < n then .ok (.list [.int c, srcV n c]) else .raise "IndexError"
  | _, _ => .stuck
-- three steps, started from a source somebody left at cursor 2: yields 0, 1, 2 and leaves the cursor at 3 (= model)
example : Gen.c15oSeqIterSrc.runSelf srcX [.record [("_source", srcV 3 2)]] =
    .ok (.none, [.int 0, .int 1, .int 2], .record [("_source", srcV 3 3)]) := rfl
-- (model: `iterSeq ⟨3, 2⟩ = ([some 0, some 1, some 2], ⟨3, 3⟩)`, cf. FcProofs/Lemmas/Seq.lean; `iterLoop` is well-founded, not `decide`d here)
-- one step; an EMPTY sequence raises IndexError at the first `get` (the model's `none`)
example : Gen.c15oSeqIterSrc.runSelf srcX [.record [("_source", srcV 1 0)]] =
    .ok (.none, [.int 0], .record [("_source", srcV 1 1)]) := rfl
example : Gen.c15oSeqIterSrc.runSelf srcX [.record [("_source", srcV 0 0)]] = .raise "IndexError" := rfl

/-! ### the step loop on concrete sequences -/
/-- per-step results: step pair (0, 0) passes, (1, 1) FAILS, (2, 2) passes -/
def wStep (a _b : Nat) : TSuite := if a == 1 then ⟨[.failed], none⟩ else ⟨[.passed], none⟩
def seqX : Ext := fun f args =>
  match f, args with
  | "_make_test_suite(name=,shortlog=,status=,tests=)", [_, _, st, .list ts] =>
    -- the status property: explicit status, else passed iff no test failed / errored
    let bad := ts.any fun t => match t with
      | .record [("status", .enum _ "failed")] => true | .record [("status", .enum _ "error")] => true | _ => false
    let sp : Val := match st with
      | .none => .enum "TestStatus" (if bad then "failed" else "passed")
      | v => v
    .ok (.record [("status", sp), ("shortlog", .str "log"), ("__iter__", .list ts)])
  | "._compare_field_data", [_, .int a, _] =>
    .ok (tsObj (wStep a.toNat 0))
  | ".log", [_, _] => .ok .none
  | ".log(verbosity_level=)", [_, _, _] => .ok .none
  | "._write_diff_file", [_, _, _, _] => .ok .none
  | _, _ => .stuck

def runSeq (o : SeqOpts) (nRes nRef : Nat) (rs fs : List Nat) : Res Val :=
  Gen.c15oCompareSequencesSrc.run seqX [fcSelfV o (.str "lg"), seqObj nRes rs, seqObj nRef fs, .none]

-- equal lengths, the MIDDLE step fails: the returned suite is failed although the last step passes
example : runSeq ⟨false, false⟩ 3 3 [0, 1, 2] [0, 1, 2] = .ok (tsObj ⟨[.passed, .failed, .passed], some .failed⟩) := by rfl
example : C15.seqSuite ⟨false, false⟩ 3 3 wStep ([0, 1, 2].zip [0, 1, 2]) = ⟨[.passed, .failed, .passed], some .failed⟩ := by decide
-- the RESULT is longer than the reference (3 vs 2): failed at once; the other way round (2 vs 3) as well
example : runSeq ⟨false, false⟩ 3 2 [0, 1, 2] [0, 1] = .ok (tsObj ⟨[], some .failed⟩) := by rfl
example : runSeq ⟨false, false⟩ 2 3 [0, 1] [0, 1, 2] = .ok (tsObj ⟨[], some .failed⟩) := by rfl
-- … with `ignore_missing_sequence_steps`: only the common steps are compared, no explicit failure
example : runSeq ⟨true, false⟩ 1 3 [0] [0, 1, 2] = .ok (tsObj ⟨[.passed], none⟩) := by rfl
-- … with `force_sequence_comparison`: compared AND failed
example : runSeq ⟨false, true⟩ 1 3 [0] [0, 1, 2] = .ok (tsObj ⟨[.passed], some .failed⟩) := by rfl

/-- hand-made mutant (the seeded regression "running status from the last step only"): `_merge_test_suites` takes the
    status of the step suite alone -/
def mergeLastOnly : Fn := { Gen.c15oMergeTestSuitesSrc with body := [
    .callFn "v3" Gen.c15oMergedResultSrc.params Gen.c15oMergedResultSrc.body [(.attr (.var "v1") "status"), (.attr (.var "v1") "status")],
    .ret (.ext "_make_test_suite(name=,shortlog=,status=,tests=)" [(.lit .none), (.lit (.str "")), (.var "v3"),
      (.bin .add (.call .list [(.var "v0")]) (.call .list [(.var "v1")]))])] }
example : Gen.c15oMergeTestSuitesSrc.run seqX [tsObj ⟨[.failed], none⟩, tsObj ⟨[.passed], none⟩, .int 1] =
    .ok (tsObj ⟨[.failed, .passed], some .failed⟩) := by rfl
example : mergeLastOnly.run seqX [tsObj ⟨[.failed], none⟩, tsObj ⟨[.passed], none⟩, .int 1] =
    .ok (.record [("status", .enum "TestStatus" "failed"), ("shortlog", .str "log"),
                  ("__iter__", .list [testVal .failed, testVal .passed])]) := by rfl

end Fc.PyLite.WitnessC15O
