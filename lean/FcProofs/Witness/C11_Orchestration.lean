/-
  FcProofs.Witness.C11_Orchestration — phase 6: the translated `FieldDataComparator.__call__` evaluated by the kernel
  on concrete, non-trivial inputs (passing, failing and RAISING predicates, filtered fields, orphans on both sides,
  failed domain check, default callables), a concrete table of externals, and hand-made mutants on which the result
  differs.
-/
import FcGen.Tables
import FcProofs.Props.C11_Orchestration
namespace Fc.PyLite.WitnessC11O
open Fc Fc.PyLite Fc.PyLite.C11 Fc.PyLite.C11M Fc.PyLite.C11O

/-- a concrete table of externals: names are annotated when ≥ 10 (`strip n = n % 10`); names ending in 3 are not
    included, names ending in 4 are excluded; the predicate selected for a pair PASSES when the value tags are equal,
    FAILS when the source tag is smaller and RAISES ValueError otherwise; `find_matches_by_name` answers `q` (the translated `find_matches` cannot be run on
    `Field` OBJECTS: their `==` is not modelled, cf. `hemb` of `C11_source_find_matches`); the suite constructor runs the translated `__init__`. -/
def witX (q : Val) : Ext := fun f args =>
  match f, args with
  | "remove_annotation", [.int n] => .ok (.int (n % 10))
  | "FieldImpl(name=,values=)", [n, v] => .ok (.record [("name", n), ("values", v)])
  | "._field_inclusion_filter", [_, .int n] => .ok (.bool (n != 3))
  | "._field_exclusion_filter", [_, .int n] => .ok (.bool (n == 4))
  | "call", [.str "sel", a, b] => .ok (.list [.str "pred", a, b])
  | "closure#0", [] => .ok (.str "sel")
  | "DefaultFieldComparisonCallback", [] => .ok (.str "cb")
  | "str", [_] => .ok (.str "p")
  | "_measure_time", [p] => .ok (.list [.str "timed", p])
  | "call", [.list [.str "timed", _], .int a, .int b] =>
    if a == b then .ok (.list [.int 0, .record [("value", .bool true), ("report", .str "report"), ("__bool__", .bool true)]])
    else if a < b then .ok (.list [.int 0, .record [("value", .bool false), ("report", .str "report"), ("__bool__", .bool false)]])
    else .raise "ValueError"
  | "FieldComparison(cpu_time=,name=,predicate=,report=,status=)", [_, n, _, _, .enum "FieldComparisonStatus" s] =>
    .ok (.record [("name", n), ("status", .enum "FieldComparisonStatus" s), ("is_failure", .bool (!(s != "failed" && s != "error"))),
                  ("__bool__", .bool (s != "failed" && s != "error"))])
  | "call", [.str "cb", c] => .ok (.list [.str "called", c])
  | ".equals", [.int a, .int b] => .ok (predResultVal (a == b))
  | "find_matches_by_name", [_, _] => .ok q
  | "FieldComparisonSuite(comparisons=,domain_eq_check=)", [c, d] => (Gen.c11oSuiteInitSrc.run noExt [d, c]).bind objOfDict
  | _, _ => .stuck

def wPred (s r : Fld) : Outcome := if s.tag == r.tag then .pass else if s.tag < r.tag then .fail else .raise
def wSel : Nat → Bool := selectedName (· % 10) (· != 3) (· == 4)

/-- source fields: 1 (tag 5), 12 = annotated 2 (tag 7), 14 = annotated 4 (excluded), 6 (tag 9), 8 (no reference) -/
def wSrc : List Fld := [⟨1, 5⟩, ⟨12, 7⟩, ⟨14, 1⟩, ⟨6, 9⟩, ⟨8, 2⟩]
/-- reference fields: 6 (tag 2: source tag larger → raises), 1 (tag 5: passes), 12 (tag 8: fails), 14, 7 (no source) -/
def wRef : List Fld := [⟨6, 2⟩, ⟨1, 5⟩, ⟨12, 8⟩, ⟨14, 1⟩, ⟨7, 0⟩]

/-- the model on this input: compared in SOURCE order 1 passed, 12 failed, 6 error; then 7 missing_source,
    8 missing_reference, 14 filtered (its annotation-free name 4 is excluded) -/
example : (comparisons wSel wPred wSrc wRef).map (fun c => (c.name, c.status)) =
    [(1, .passed), (12, .failed), (6, .error), (7, .missing_source), (8, .missing_reference), (14, .filtered)] := by
  decide
example : (comparatorCall wSel true wPred wSrc wRef).suite.bool = false := by decide
example : (comparatorCall wSel true wPred wSrc wRef).callbacks.map (·.name) = [1, 12, 6] := by decide

/-- the matching of the two field lists by name (model) -/
def wQ : Val := queryVal (findMatches nameEq wSrc wRef).pairs (findMatches nameEq wSrc wRef).orphansSrc
  (findMatches nameEq wSrc wRef).orphansRef
example : (findMatches nameEq wSrc wRef).pairs.map (fun p => (p.1.name, p.2.tag)) = [(1, 5), (12, 8), (14, 1), (6, 2)] := by
  decide

def wCb (c : Cmp) : Val := .list [.str "called", cmpObj c]

/-- a smaller input for the evaluation of the whole `__call__` by `rfl`: one pair whose predicate RAISES, one source
    field without reference -/
def tSrc : List Fld := [⟨6, 9⟩, ⟨8, 2⟩]
def tRef : List Fld := [⟨6, 2⟩]
def tQ : Val := queryVal [(⟨6, 9⟩, ⟨6, 2⟩)] [⟨8, 2⟩] []
example : findMatches nameEq tSrc tRef = ⟨[(⟨6, 9⟩, ⟨6, 2⟩)], [⟨8, 2⟩], []⟩ := rfl

/-- the translated `__call__`, evaluated on this input (same domains): the raising predicate becomes an `error` entry
    in `_failed`, the orphan a `missing_reference` entry in `_skipped`; ONE callback (for the compared pair) -/
example : Gen.c11oComparatorCallSrc.runTr (witX tQ) [comparatorVal (.int 1) (.int 1) tSrc tRef, .str "sel", .str "cb"] =
    .ok (suiteObj ⟨true, [], [⟨6, .error⟩], [⟨8, .missing_reference⟩]⟩, [wCb ⟨6, .error⟩]) := by rfl

/-- … with `None` for both optional arguments (the defaults are used) -/
example : Gen.c11oComparatorCallSrc.runTr (witX tQ) [comparatorVal (.int 1) (.int 1) tSrc tRef, .none, .none] =
    .ok (suiteObj ⟨true, [], [⟨6, .error⟩], [⟨8, .missing_reference⟩]⟩, [wCb ⟨6, .error⟩]) := by rfl

/-- … with different domains: empty suite, NO callback -/
example : Gen.c11oComparatorCallSrc.runTr (witX tQ) [comparatorVal (.int 1) (.int 2) tSrc tRef, .str "sel", .str "cb"] =
    .ok (suiteObj (mkSuite false []), []) := by rfl

/-- the verdict of the returned suite (translated `__bool__`) -/
example : Gen.c11FcSuiteBoolSrc.run noExt [suiteObj (comparatorCall wSel true wPred wSrc wRef).suite] = .ok (.bool false) := by rfl

/-- `_compare_matches` alone on two pairs, the second raising: two entries, two callbacks -/
example : Gen.c11oCompareMatchesSrc.runTr (witX wQ)
      [.none, queryVal [(⟨1, 5⟩, ⟨1, 5⟩), (⟨6, 9⟩, ⟨6, 2⟩)] [] [], .str "sel", .str "cb"] =
    .ok (.list [cmpObj ⟨1, .passed⟩, cmpObj ⟨6, .error⟩], [wCb ⟨1, .passed⟩, wCb ⟨6, .error⟩]) := by rfl

/-- the assumptions of `C11_source_comparator_call` about this table that do not quantify over all values hold -/
example : (witX wQ) ".equals" [.int 1, .int 1] = .ok (predResultVal true) := rfl
example : (witX wQ) "find_matches_by_name" [fdVal (.int 1) wSrc, fdVal (.int 1) wRef] = .ok wQ := rfl
example : ∀ c d, (witX wQ) "FieldComparisonSuite(comparisons=,domain_eq_check=)" [c, d] =
    (Gen.c11oSuiteInitSrc.run (witX wQ) [d, c]).bind objOfDict := fun _ _ => rfl
example : OrDefault (witX wQ) .none "closure#0" (.str "sel") := Or.inr ⟨rfl, rfl⟩
example : OrDefault (witX wQ) (.str "cb") "DefaultFieldComparisonCallback" (.str "cb") := Or.inl ⟨rfl, rfl⟩

/-- the assumptions `OrchExt` are SATISFIABLE: this table of externals meets them (for every matching `q` and comparator
    object `cv`), with the filters / predicate outcomes it encodes -/
theorem witX_ok (q cv : Val) :
    OrchExt (witX q) cv (.str "sel") (.str "cb") (· % 10) (· != 3) (· == 4) wPred (fun _ _ => "ValueError") wCb where
  hstrip n := by simp [witX]
  hfield n v := rfl
  hincl n := by
    simp only [witX]
    by_cases h : n = 3
    · simp [h]
    · have e1 : ((n : Int) == 3) = false := by
        have : ¬ ((n : Int) = 3) := by omega
        simpa using this
      have e2 : (n == 3) = false := by simpa using h
      simp [bne, e1, e2]
  hexcl n := by
    simp only [witX]
    by_cases h : n = 4
    · simp [h]
    · have e1 : ((n : Int) == 4) = false := by
        have : ¬ ((n : Int) = 4) := by omega
        simpa using this
      have e2 : (n == 4) = false := by simpa using h
      simp [bne, e1, e2]
  hsel s r := by
    refine ⟨.list [.str "pred", fldVal (stripF (· % 10) s), fldVal (stripF (· % 10) r)], rfl, ⟨_, rfl⟩,
      .list [.str "timed", .list [.str "pred", fldVal (stripF (· % 10) s), fldVal (stripF (· % 10) r)]], .int 0, rfl, ?_⟩
    simp only [witX, wPred]
    by_cases h1 : s.tag = r.tag
    · simp [h1, outcomeRes]
    · by_cases h2 : s.tag < r.tag
      · have : ¬ ((s.tag : Int) = r.tag) := by omega
        simp [h1, h2, this, outcomeRes]
      · have : ¬ ((s.tag : Int) = r.tag) := by omega
        have h3 : ¬ ((s.tag : Int) < r.tag) := by omega
        simp [h1, h2, this, h3, outcomeRes]
  hexc s r := rfl
  hcmp t n p r s := by cases s <;> rfl
  hcb c := rfl

/-- hence the theorem applies to it: e.g. on the six-field input above the translated `__call__` returns the model's suite
    and trace (here derived from `C11_source_comparator_call`, not by evaluation) -/
example : Gen.c11oComparatorCallSrc.runTr (witX wQ) [comparatorVal (.int 1) (.int 1) wSrc wRef, .none, .str "cb"] =
    .ok (suiteObj (comparatorCall wSel true wPred wSrc wRef).suite,
         (comparatorCall wSel true wPred wSrc wRef).callbacks.map wCb) :=
  C11_source_comparator_call (witX_ok wQ _) rfl rfl (fun _ _ => rfl) _ _ (Or.inr ⟨rfl, rfl⟩) (Or.inl ⟨rfl, rfl⟩)

/-! ### hand-made mutants -/

/-- mutant 1: `_compare_matches` without the `try` (an exception of the predicate escapes) -/
def compareNoTry : Fn := { Gen.c11oCompareMatchesSrc with body := [
    .assign "v4" (.tuple []),
    .forIn "v5" (.attr (.var "v1") "matches") [
      .unpack ["v6", "v7"] (.var "v5"),
      .callFn "v8" Gen.c11oWithoutAnnotationSrc.params Gen.c11oWithoutAnnotationSrc.body [(.var "v0"), (.var "v6")],
      .callFn "v9" Gen.c11oWithoutAnnotationSrc.params Gen.c11oWithoutAnnotationSrc.body [(.var "v0"), (.var "v7")],
      .assign "v10" (.ext "call" [(.var "v2"), (.var "v8"), (.var "v9")]),
      .callFn "v11" Gen.c11oPerformComparisonSrc.params Gen.c11oPerformComparisonSrc.body
        [(.var "v0"), (.var "v6"), (.var "v7"), (.var "v10")],
      .yield (.ext "call" [(.var "v3"), (.var "v11")]),
      .assign "v4" (.bin .add (.var "v4") (.tuple [(.var "v11")]))
    ],
    .ret (.var "v4")] }
example : compareNoTry.runTr (witX wQ) [.none, queryVal [(⟨1, 5⟩, ⟨1, 5⟩), (⟨6, 9⟩, ⟨6, 2⟩)] [] [], .str "sel", .str "cb"] =
    .raise "ValueError" := by rfl

/-- mutant 2: `_filter_matches` with `not is_included and is_excluded` -/
def filterAnd : Fn := { Gen.c11oFilterMatchesSrc with body := [
    .assign "v2" (.tuple []),
    .assign "v3" (.tuple []),
    .forIn "v4" (.attr (.var "v1") "matches") [
      .unpack ["v5", "v6"] (.var "v4"),
      .callFn "v7" Gen.c11oWithoutAnnotationSrc.params Gen.c11oWithoutAnnotationSrc.body [(.var "v0"), (.var "v5")],
      .assign "v8" (.ext "._field_inclusion_filter" [(.var "v0"), (.attr (.var "v7") "name")]),
      .callFn "v9" Gen.c11oWithoutAnnotationSrc.params Gen.c11oWithoutAnnotationSrc.body [(.var "v0"), (.var "v5")],
      .assign "v10" (.ext "._field_exclusion_filter" [(.var "v0"), (.attr (.var "v9") "name")]),
      .ite (.and (.not (.var "v8")) (.var "v10")) [
        .assign "v2" (.bin .add (.var "v2") (.tuple [(.var "v5")]))
      ] [
        .assign "v3" (.bin .add (.var "v3") (.tuple [(.tuple [(.var "v5"), (.var "v6")])]))
      ]
    ],
    .setAttr "v1" "matches" (.var "v3"),
    .ret (.tuple [(.var "v1"), (.var "v2")])] }
private def q34 : Val := queryVal [(⟨3, 1⟩, ⟨3, 1⟩), (⟨4, 1⟩, ⟨4, 1⟩), (⟨5, 1⟩, ⟨5, 1⟩)] [] []
example : Gen.c11oFilterMatchesSrc.runTr (witX wQ) [.none, q34] =
    .ok (.list [queryVal [(⟨5, 1⟩, ⟨5, 1⟩)] [] [], .list [fldVal ⟨3, 1⟩, fldVal ⟨4, 1⟩]], []) := by rfl
example : filterAnd.runTr (witX wQ) [.none, q34] =
    .ok (.list [q34, .list []], []) := by rfl

/-- mutant 3: the suite constructor putting `error` entries into `_skipped` (`elif c.status == failed`) -/
def initErrSkipped : Fn := { Gen.c11oSuiteInitSrc with body := [
    .assign "v2" (.var "v0"), .assign "v3" (.tuple []), .assign "v4" (.tuple []), .assign "v5" (.tuple []),
    .ite (.cmp .isNot (.var "v1") (.lit .none)) [
      .forIn "v6" (.var "v1") [
        .ite (.cmp .eq (.attr (.var "v6") "status") (.lit (.enum "FieldComparisonStatus" "passed"))) [
          .assign "v3" (.bin .add (.var "v3") (.tuple [(.var "v6")]))
        ] [
          .ite (.cmp .eq (.attr (.var "v6") "status") (.lit (.enum "FieldComparisonStatus" "failed"))) [
            .assign "v4" (.bin .add (.var "v4") (.tuple [(.var "v6")]))
          ] [
            .assign "v5" (.bin .add (.var "v5") (.tuple [(.var "v6")]))
          ]]]] [],
    .assign "v7" (.lit (.dict [])),
    .setIndex "v7" (.lit (.str "_domain_eq_check")) (.var "v2"),
    .setIndex "v7" (.lit (.str "_failed")) (.var "v4"),
    .setIndex "v7" (.lit (.str "_passed")) (.var "v3"),
    .setIndex "v7" (.lit (.str "_skipped")) (.var "v5"),
    .ret (.var "v7")] }
private def cs3 : List Cmp := [⟨1, .passed⟩, ⟨2, .error⟩, ⟨3, .filtered⟩]
example : Gen.c11oSuiteInitSrc.run noExt [predResultVal true, .list (cs3.map cmpObj)] =
    .ok (suiteDict ⟨true, [⟨1, .passed⟩], [⟨2, .error⟩], [⟨3, .filtered⟩]⟩) := by rfl
example : initErrSkipped.run noExt [predResultVal true, .list (cs3.map cmpObj)] =
    .ok (suiteDict ⟨true, [⟨1, .passed⟩], [], [⟨2, .error⟩, ⟨3, .filtered⟩]⟩) := by rfl

end Fc.PyLite.WitnessC11O
