/-
  Non-vacuity for C18: the hypotheses of the theorems are met by concrete inputs and the conclusions are
  observable; negation witnesses for the parts that are claimed only partially.
-/
import FcProofs.Props.C18
namespace Fc.W.Wit18
open Fc Fc.W

def wContent : List Nat := asciiOf "<VTKFile type=\"UnstructuredGrid\" version=\"1.0\" byte_order=\"LittleEndian\" header_type=\"UInt64\"><Piece/><AppendedData encoding=\"raw\">\n _ab_c\n</AppendedData>\n</VTKFile>\n"

-- the fallback parser on the complete content: appendix = bytes between the first `_` and the closing tag
example : (fallback wContent).map (·.appendix) = some (asciiOf "ab_c\n") ∧
    (fallback wContent).map (·.encoding) = some (asciiOf "raw") ∧
    (fallback wContent).map (·.xmlPart) = some (asciiOf
      "<VTKFile type=\"UnstructuredGrid\" version=\"1.0\" byte_order=\"LittleEndian\" header_type=\"UInt64\"><Piece/>") := by
  decide +kernel

-- the closing tag starts at 139 and ends at 154: every cut up to 153 is rejected, 154 and later are accepted
example : occAt tagAppendedEnd wContent 139 := by decide +kernel
example : ∀ n ∈ [0, 60, 112, 125, 138, 139, 140, 147, 152, 153], fallback (wContent.take n) = none := by decide +kernel
example : ∀ n ∈ [154, 155, 160, 166], (fallback (wContent.take n)).map (·.appendix) = some (asciiOf "ab_c\n") := by
  decide +kernel
-- hypothesis of C18_fallback_cut holds for n = 153 (the only occurrence of the end tag is at 139)
example : ∀ k ∈ List.range 167, occAt tagAppendedEnd wContent k → 153 < k + tagAppendedEnd.length := by decide +kernel

-- a quirk the model reproduces: `content[app_begin - 100:]` wraps around when the appendix begins within the
-- first 100 bytes, and the encoding is then not found (AssertionError; real files have longer headers)
example : fallback (asciiOf "<VTKFile><Piece/><AppendedData encoding=\"raw\">\n _ab_c\n</AppendedData>\n</VTKFile>\n") = none := by
  decide +kernel

-- decision structure: the only way to exit 0 …
example : runFileMode false false .ok .ok (.fields [.passed, .filtered]) = .ok 0 := rfl
-- … and some of the ways not to
example : runFileMode false false (.raised .other) .ok (.fields [.passed]) = .ok 1 := rfl
example : runFileMode false false .ok (.raised .io) (.fields [.passed]) = .ok 1 := rfl
example : runFileMode false false .ok .ok (.fields [.passed, .missingSource]) = .ok 1 := rfl
-- the ignore flag (not set in this property) is what would let a missing array pass
example : runFileMode true false .ok .ok (.fields [.passed, .missingSource]) = .ok 0 := rfl
example : matchStatuses ["p", "q"] ["p"] (fun _ => .passed) = [.passed, .missingReference] := by decide

-- short payload: three uint16 items, header UInt64, base64; every strict prefix is rejected, the whole accepted
def wItems : List Nat := [513, 65535, 7]
example : checkDeclared 2 3 (noCompReadE 8 b64E (encodeE 8 b64E (itemsToBytes 2 wItems))) = some wItems := by
  decide +kernel
example : ∀ n ∈ List.range (encodeE 8 b64E (itemsToBytes 2 wItems)).length,
    checkDeclared 2 3 (noCompReadE 8 b64E ((encodeE 8 b64E (itemsToBytes 2 wItems)).take n)) = none := by
  decide +kernel
example : ∀ n ∈ List.range (encodeE 4 rawE (itemsToBytes 2 wItems)).length,
    checkDeclared 2 3 (noCompReadE 4 rawE ((encodeE 4 rawE (itemsToBytes 2 wItems)).take n)) = none := by
  decide +kernel

-- `items ≠ []` in C18_payload_short_compressed / C18_array_never_equal is necessary (negation witness, EMPTY array): the header of a compressed
-- zero-length array is [0 blocks, block size, 0]; its first two entries alone already read as the complete
-- (empty) array — nothing is lost, but "strict prefix ⇒ rejected" is false without `items ≠ []`
example : checkDeclared 1 0 (compReadE 4 rawE (fun _ => none) [0, 0, 0, 0, 16, 0, 0, 0]) = some [] := by
  decide +kernel
-- a compressed array with one block whose bytes are cut: the codec (here: a table that knows only the complete
-- block) raises, the array is rejected
example :
    let dec : Bytes → Option Bytes := fun b => if b = [9, 9, 9] then some [1, 2] else none
    checkDeclared 1 2 (compReadE 4 rawE dec ([1, 0, 0, 0, 16, 0, 0, 0, 2, 0, 0, 0, 3, 0, 0, 0] ++ [9, 9, 9])) = some [1, 2] ∧
    checkDeclared 1 2 (compReadE 4 rawE dec ([1, 0, 0, 0, 16, 0, 0, 0, 2, 0, 0, 0, 3, 0, 0, 0] ++ [9, 9])) = none := by
  decide +kernel

/-! ### compressed arrays: the hypotheses of C18_payload_short_compressed are satisfiable -/

/-- a toy codec given as a table: two blocks, compressed forms of equal length (neither is a prefix of the other) -/
def wCompress (b : Bytes) : Bytes := if b = [1, 2, 3, 4] then [9, 8, 7] else if b = [5, 6] then [7, 7, 1] else [0]
def wDecompress (c : Bytes) : Option Bytes :=
  if c = [9, 8, 7] then some [1, 2, 3, 4] else if c = [7, 7, 1] then some [5, 6] else none
def wBlocks : List Bytes := [[1, 2, 3, 4], [5, 6]]

theorem wCodecOK : CodecOK wCompress wDecompress 4 wBlocks := by
  apply CodecOK.of_raises (by decide) (by decide) (by decide)
  intro b hb p hp hne
  have hl : (wCompress b).length = 3 := by
    simp only [wBlocks, List.mem_cons, List.not_mem_nil, or_false] at hb
    rcases hb with rfl | rfl <;> rfl
  have hlt : p.length < 3 := by
    have hle := List.IsPrefix.length_le hp
    rcases Nat.lt_or_eq_of_le hle with h | h
    · omega
    · exact absurd (List.IsPrefix.eq_of_length hp h) hne
  unfold wDecompress
  rw [if_neg (by intro e; rw [e] at hlt; simp at hlt), if_neg (by intro e; rw [e] at hlt; simp at hlt)]

-- three uint16 items in two blocks (4 + 2 bytes), header UInt32, both encoders: the complete stream is read back …
example : wBlocks.flatten = itemsToBytes 2 [513, 1027, 1541] := by decide
example : ∀ E ∈ [b64E, rawE], checkDeclared 2 3 (compReadE 4 E wDecompress (encodeCompE 4 E wCompress 4 2 wBlocks))
    = some [513, 1027, 1541] := by
  intro E hE
  simp only [List.mem_cons, List.not_mem_nil, or_false] at hE
  rcases hE with rfl | rfl <;> decide +kernel
-- … and every strict prefix is rejected (what the theorem says; here by evaluation, all 26 / 40 cuts)
example : ∀ n ∈ List.range (encodeCompE 4 rawE wCompress 4 2 wBlocks).length,
    checkDeclared 2 3 (compReadE 4 rawE wDecompress ((encodeCompE 4 rawE wCompress 4 2 wBlocks).take n)) = none := by
  decide +kernel
example : ∀ n ∈ List.range (encodeCompE 4 b64E wCompress 4 2 wBlocks).length,
    checkDeclared 2 3 (compReadE 4 b64E wDecompress ((encodeCompE 4 b64E wCompress 4 2 wBlocks).take n)) = none := by
  decide +kernel
-- the theorem applied to this instance (all hypotheses discharged)
example (avail : List Nat) (hp : avail <+: encodeCompE 4 rawE wCompress 4 2 wBlocks)
    (hne : avail ≠ encodeCompE 4 rawE wCompress 4 2 wBlocks) :
    checkDeclared 2 3 (compReadE 4 rawE wDecompress avail) = none :=
  C18_payload_short_compressed 4 2 rawE (Or.inr rfl) wCompress wDecompress 4 2 wBlocks [513, 1027, 1541] avail
    (by decide) (by decide) (by decide) (by decide) (by decide) (by decide) (by decide) wCodecOK hp hne
-- the writer's block partition: `chunks 4` of the six payload bytes are these two blocks
example : chunks 4 (itemsToBytes 2 [513, 1027, 1541]) = wBlocks := by decide
-- an LZ4-like codec (a truncated block decodes to FEWER bytes instead of raising) is still covered by `CodecOK`:
-- the array then comes out short and is rejected
example :
    let dec : Bytes → Option Bytes := fun c => if c = [9, 8] then some [1, 2] else wDecompress c
    checkDeclared 2 3 (compReadE 4 rawE dec ([2, 0, 0, 0, 4, 0, 0, 0, 2, 0, 0, 0, 3, 0, 0, 0, 3, 0, 0, 0] ++ [9, 8])) = none ∧
    checkDeclared 1 6 (compReadE 4 rawE dec ([1, 0, 0, 0, 4, 0, 0, 0, 0, 0, 0, 0, 3, 0, 0, 0] ++ [9, 8])) = none := by
  decide +kernel
-- the codec hypothesis is necessary: a codec that returns as many bytes as the block has for a truncated block lets
-- a cut array through with the right length (not with the right values)
example :
    let dec : Bytes → Option Bytes := fun c => if c = [9, 8] then some [0, 0, 0, 0, 0, 0] else wDecompress c
    checkDeclared 2 3 (compReadE 4 rawE dec ([1, 0, 0, 0, 6, 0, 0, 0, 0, 0, 0, 0, 3, 0, 0, 0] ++ [9, 8])) =
      some [0, 0, 0] := by
  decide +kernel

/-! ### XmlLite: a small VTK file as a document tree -/

open Fc.XmlLite in
def wDoc : Doc :=
  { decl := some (asciiOf "xml version=\"1.0\""), ws1 := [10],
    name := asciiOf "VTKFile", attrs := [(asciiOf "type", asciiOf "ImageData"), (asciiOf "byte_order", asciiOf "LittleEndian")],
    body := some (.text [10, 32] (.elem (asciiOf "Piece") [(asciiOf "Extent", asciiOf "0 1 0 1 0 0")]
      (.elem (asciiOf "DataArray") [(asciiOf "Name", asciiOf "p"), (asciiOf "format", asciiOf "ascii")]
        (.text (asciiOf "1.5 2.5 > 3") .nil) (.empty (asciiOf "DataArray") [(asciiOf "offset", asciiOf "0")] .nil))
      (.text [10] .nil))),
    ws2 := [10] }

example : wDoc.ser = asciiOf ("<?xml version=\"1.0\"?>\n<VTKFile type=\"ImageData\" byte_order=\"LittleEndian\">\n " ++
    "<Piece Extent=\"0 1 0 1 0 0\"><DataArray Name=\"p\" format=\"ascii\">1.5 2.5 > 3</DataArray>" ++
    "<DataArray offset=\"0\"/></Piece>\n</VTKFile>\n") := by decide +kernel
example : wDoc.wf = true := by decide +kernel
example : wDoc.ser.length = 205 ∧ (wDoc.prolog ++ wDoc.rootInit).length = 203 := by decide +kernel
-- by evaluation: cuts up to 203 are rejected, 204 and 205 are accepted (what C18_xml_prefix says for all of them)
example : ∀ n ∈ [0, 1, 21, 22, 23, 31, 45, 75, 76, 77, 90, 140, 152, 164, 165, 189, 190, 195, 196, 202, 203],
    XmlLite.scan (wDoc.ser.take n) = false := by decide +kernel
example : XmlLite.scan (wDoc.ser.take 204) = true ∧ XmlLite.scan wDoc.ser = true := by decide +kernel
-- the scanner is lenient (it is an upper bound on well-formedness): mismatched names pass, unbalanced tags do not
example : XmlLite.scan (asciiOf "<a><b></c></a>") = true := by decide +kernel
example : XmlLite.scan (asciiOf "<a><b></a>") = false ∧ XmlLite.scan (asciiOf "<a/><b/>") = false ∧
    XmlLite.scan (asciiOf "<a x=\"<\"/>") = false ∧ XmlLite.scan (asciiOf "x<a/>") = false := by decide +kernel

end Fc.W.Wit18
