/-
  Non-vacuity for C18: the hypotheses of the theorems are met by concrete inputs and the conclusions are
  observable; negation witnesses for the parts that are claimed only partially.
-/
import FcProofs.Props.C18
namespace Fc.W.Wit18
open Fc Fc.W

def wContent : List Nat := asciiOf "<VTKFile type=\"UnstructuredGrid\" version=\"1.0\" byte_order=\"LittleEndian\" header_type=\"UInt64\"><Piece/><AppendedData encoding=\"raw\">\n _ab_c\n</AppendedData>\n</VTKFile>\n"

-- the fallback parser on the complete content: appendix = bytes between the first `_` and the closing tag
example : (fallback wContent).map (·.appendix) = some (asciiOf "ab_c\n") ∧
    (fallback wContent).map (·.encoding) = some (asciiOf "raw") ∧
    (fallback wContent).map (·.xmlPart) = some (asciiOf
      "<VTKFile type=\"UnstructuredGrid\" version=\"1.0\" byte_order=\"LittleEndian\" header_type=\"UInt64\"><Piece/>") := by
  decide +kernel

-- the closing tag starts at 139 and ends at 154: every cut up to 153 is rejected, 154 and later are accepted
example : occAt tagAppendedEnd wContent 139 := by decide +kernel
example : ∀ n ∈ [0, 60, 112, 125, 138, 139, 140, 147, 152, 153], fallback (wContent.take n) = none := by decide +kernel
example : ∀ n ∈ [154, 155, 160, 166], (fallback (wContent.take n)).map (·.appendix) = some (asciiOf "ab_c\n") := by
  decide +kernel
-- hypothesis of C18_fallback_cut holds for n = 153 (the only occurrence of the end tag is at 139)
example : ∀ k ∈ List.range 167, occAt tagAppendedEnd wContent k → 153 < k + tagAppendedEnd.length := by decide +kernel

-- a quirk the model reproduces: `content[app_begin - 100:]` wraps around when the appendix begins within the
-- first 100 bytes, and the encoding is then not found (AssertionError; real files have longer headers)
example : fallback (asciiOf "<VTKFile><Piece/><AppendedData encoding=\"raw\">\n _ab_c\n</AppendedData>\n</VTKFile>\n") = none := by
  decide +kernel

-- decision structure: the only way to exit 0 …
example : runFileMode false false .ok .ok (.fields [.passed, .filtered]) = .ok 0 := rfl
-- … and some of the ways not to
example : runFileMode false false (.raised .other) .ok (.fields [.passed]) = .ok 1 := rfl
example : runFileMode false false .ok (.raised .io) (.fields [.passed]) = .ok 1 := rfl
example : runFileMode false false .ok .ok (.fields [.passed, .missingSource]) = .ok 1 := rfl
-- the ignore flag (not set in this property) is what would let a missing array pass
example : runFileMode true false .ok .ok (.fields [.passed, .missingSource]) = .ok 0 := rfl
example : matchStatuses ["p", "q"] ["p"] (fun _ => .passed) = [.passed, .missingReference] := by decide

-- short payload: three uint16 items, header UInt64, base64; every strict prefix is rejected, the whole accepted
def wItems : List Nat := [513, 65535, 7]
example : checkDeclared 2 3 (noCompReadE 8 b64E (encodeE 8 b64E (itemsToBytes 2 wItems))) = some wItems := by
  decide +kernel
example : ∀ n ∈ List.range (encodeE 8 b64E (itemsToBytes 2 wItems)).length,
    checkDeclared 2 3 (noCompReadE 8 b64E ((encodeE 8 b64E (itemsToBytes 2 wItems)).take n)) = none := by
  decide +kernel
example : ∀ n ∈ List.range (encodeE 4 rawE (itemsToBytes 2 wItems)).length,
    checkDeclared 2 3 (noCompReadE 4 rawE ((encodeE 4 rawE (itemsToBytes 2 wItems)).take n)) = none := by
  decide +kernel

-- NOT claimed (negation witness for the compressed case with an EMPTY array): the header of a compressed
-- zero-length array is [0 blocks, block size, 0]; its first two entries alone already read as the complete
-- (empty) array — nothing is lost, but "strict prefix ⇒ rejected" is false without `items ≠ []`
example : checkDeclared 1 0 (compReadE 4 rawE (fun _ => none) [0, 0, 0, 0, 16, 0, 0, 0]) = some [] := by
  decide +kernel
-- a compressed array with one block whose bytes are cut: the codec (here: a table that knows only the complete
-- block) raises, the array is rejected
example :
    let dec : Bytes → Option Bytes := fun b => if b = [9, 9, 9] then some [1, 2] else none
    checkDeclared 1 2 (compReadE 4 rawE dec ([1, 0, 0, 0, 16, 0, 0, 0, 2, 0, 0, 0, 3, 0, 0, 0] ++ [9, 9, 9])) = some [1, 2] ∧
    checkDeclared 1 2 (compReadE 4 rawE dec ([1, 0, 0, 0, 16, 0, 0, 0, 2, 0, 0, 0, 3, 0, 0, 0] ++ [9, 9])) = none := by
  decide +kernel

end Fc.W.Wit18
