/-
  Non-vacuity witnesses for C01 on float32 / float16 arrays (Props/C01_Formats.lean).
  Units: 1.0 = 2^1074, 2^-20 = 2^1054.
-/
import FcProofs.Props.C01_Formats
namespace Fc
open Spec

/-- float32 (2,2) field; only the last entry deviates, by exactly 2^-20 -/
def fA : NdArr := ⟨.flt f32, [2, 2], [2 ^ 1074, -(2 ^ 1075), 3 * 2 ^ 1073, 2 ^ 1074]⟩
def fB : NdArr := ⟨.flt f32, [2, 2], [2 ^ 1074, -(2 ^ 1075), 3 * 2 ^ 1073, 2 ^ 1074 + 2 ^ 1054]⟩

-- the absolute tolerance 2^-20 − 2^-60 is a binary64 number that is NOT a binary32 number:
-- as a weak scalar it is rounded to float32, i.e. to 2^-20
example : f32 ≠ f64 ∧ weakTol f32 (.num 0) = some 0 ∧
    weakTol f32 (.num (2 ^ 1054 - 2 ^ 1014)) = some (2 ^ 1054) := by decide +kernel
-- … so the float32 arrays compare equal (hypotheses of C01_weak_model_eq_spec hold: fA, fB) …
example : fuzzyCheck (.num 0) (.num (2 ^ 1054 - 2 ^ 1014)) fA fB = .ok true := by decide +kernel
example : fuzzySpecWeak f32 (.num 0) (.num (2 ^ 1054 - 2 ^ 1014)) fA fB = some true := by decide +kernel
-- … while the very same values held as float64 arrays do not (the tolerance is not rounded there)
example : fuzzyCheck (.num 0) (.num (2 ^ 1054 - 2 ^ 1014))
    { fA with dtype := .flt f64 } { fB with dtype := .flt f64 } = .ok false := by decide +kernel
-- one float32 ulp of the tolerance less: unequal;  argument order irrelevant;  (n,k) ~ (n,k,1)
example : fuzzyCheck (.num 0) (.num (2 ^ 1054 - 2 ^ 1030)) fA fB = .ok false := by decide +kernel
example : fuzzyCheck (.num 0) (.num (2 ^ 1054 - 2 ^ 1014)) fB fA = .ok true := by decide +kernel
example : fuzzyCheck (.num 0) (.num (2 ^ 1054 - 2 ^ 1014)) fA { fB with shape := [2, 2, 1] } = .ok true := by
  decide +kernel
-- default relative tolerance of float32 = 2^-23: 1.0 vs 1.0 + 2^-23 passes, 1.0 + 2^-22 does not
example : fuzzyCheck .dflt (.num 0) ⟨.flt f32, [1], [2 ^ 1074]⟩ ⟨.flt f32, [1], [2 ^ 1074 + 2 ^ 1051]⟩ = .ok true ∧
    fuzzyCheck .dflt (.num 0) ⟨.flt f32, [1], [2 ^ 1074]⟩ ⟨.flt f32, [1], [2 ^ 1074 + 2 ^ 1052]⟩ = .ok false := by
  decide +kernel
-- float16: eps = 2^-10
example : fuzzyCheck .dflt (.num 0) ⟨.flt f16, [1], [2 ^ 1074]⟩ ⟨.flt f16, [1], [2 ^ 1074 + 2 ^ 1064]⟩ = .ok true ∧
    fuzzyCheck .dflt (.num 0) ⟨.flt f16, [1], [2 ^ 1074]⟩ ⟨.flt f16, [1], [2 ^ 1074 + 2 ^ 1065]⟩ = .ok false := by
  decide +kernel

/-- strong route (C01_mixed_kernel): a per-component float64 ARRAY tolerance is not rounded to
    float32 — with the same number 2^-20 − 2^-60 given as an array the pair is unequal -/
example : fuzzyCheck (.num 0) (.arr [2] [0, 2 ^ 1054 - 2 ^ 1014]) fA fB = .ok false := by decide +kernel
example : mixedFormula f32 (2 ^ 1074) (2 ^ 1074 + 2 ^ 1054) 0 true (2 ^ 1054 - 2 ^ 1014) false = false ∧
    mixedFormula f32 (2 ^ 1074) (2 ^ 1074 + 2 ^ 1054) 0 true (2 ^ 1054 - 2 ^ 1014) true = true := by
  decide +kernel

end Fc
