/-
  FcProofs.Witness.C12_Orchestration — phase 6 round 6: the translated `_categorize_files` evaluated by the kernel on a small
  directory pair and compared with the model's `categorize`; comprehension with a tuple target and `filter(lambda …)`.
-/
import FcGen.Tables
import FcProofs.Props.C12_Orchestration
namespace Fc.PyLite.WitnessC12O
open Fc Fc.PyLite Fc.PyLite.C12O Fc.DirMode

def ints : List Val → List Int
  | [] => []
  | .int n :: r => n :: ints r
  | _ :: r => ints r
def ofInts (l : List Int) : Val := .list (l.map .int)
def emb (n : Nat) : Val := .int n

/-- paths are numbers: even numbers are included, multiples of 5 excluded, numbers < 10 are supported, 12 is mapped by `--read-as` -/
def cX (sr : Val) : Ext := fun f args =>
  match f, args with
  | "PatternFilter", [_] => .ok (.str "incl")
  | "_exclude_all", [] => .ok (.str "excl")
  | "call", [.str "incl", .int n] => .ok (.bool (n % 2 == 0))
  | "call", [.str "excl", .int n] => .ok (.bool (n % 5 == 0))
  | "_make_file_type_map", [_] => .ok (.str "ftm")
  | "call", [.str "ftm", .int n] => .ok (if n == 12 then .str "reader" else .none)
  | "find_matching_file_names", [_, _] => .ok sr
  | "join", [_, v] => .ok v
  | "is_supported", [.int n] => .ok (.bool (decide (n < 10)))
  | "set", [v] => .ok v
  | ".difference", [.list a, .list b] => .ok (ofInts ((ints a).eraseDups.filter fun x => !(ints b).contains x))
  | ".union", [.list a, .list b] => .ok (ofInts (ints a ++ ints b).eraseDups)
  | "CategorizedFiles(discarded_files=,discarded_orphan_files=,files_to_compare=,missing_references=,missing_sources=,unsupported_files=)",
      [a, b, c, d, e, f] => .ok (.record [("files_to_compare", c), ("missing_sources", e), ("missing_references", d),
        ("discarded_files", a), ("unsupported_files", f), ("discarded_orphan_files", b)])
  | _, _ => .stuck

def wRes : List Nat := [2, 12, 14, 10, 7]
def wRef : List Nat := [12, 2, 14, 10, 8]
def wIncl (n : Nat) : Bool := n % 2 == 0
def wExcl (n : Nat) : Bool := n % 5 == 0
def wCat : Categories Nat := categorize wRes wRef wIncl wExcl (fun n => decide (n < 10)) (fun n => n == 12)

-- the model: 2 compared (supported), 12 compared (mapped), 14 unsupported, 10 discarded (excluded), 8 missing source,
-- 7 a discarded orphan (not included)
set_option maxRecDepth 4000 in
example : wCat.filesToCompare = [2, 12] ∧ wCat.unsupportedFiles = [14] ∧ wCat.discardedFiles = [10] ∧
    wCat.missingSources = [8] ∧ wCat.missingReferences = [] := ⟨rfl, rfl, rfl, rfl, rfl⟩

set_option maxRecDepth 4000 in
/-- the translated `_categorize_files` on this input (include patterns given, no exclude patterns, a `--read-as` mapping) -/
example : Gen.c12oCategorizeSrc.run (cX (searchV emb (findMatches wRes wRef)))
      [argsV (.list [.str "*2"]) .none (.list [.str "m"]), .str "A", .str "B"] = .ok (catV emb wCat) := by rfl

end Fc.PyLite.WitnessC12O
