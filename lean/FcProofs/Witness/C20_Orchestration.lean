/-
  FcProofs.Witness.C20_Orchestration — phase 6 round 4: the translated `as_junit_xml_element` evaluated by the kernel on a concrete
  suite and compared with the rendering trace of the MODEL's `junitElement` (the ∀-theorem for the whole element is not proved yet,
  see notes/PHASE6_A4.md; `_add_test_case` is: `C20_source_add_test_case`); iteration over an object; a hand-made mutant.
-/
import FcGen.Tables
import FcProofs.Props.C20_Orchestration
namespace Fc.PyLite.WitnessC20O
open Fc Fc.PyLite Fc.PyLite.C20O Fc.C04

def jX : Ext := fun f args =>
  match f, args with
  | "Element", [.str t] => .ok (elemV t .none)
  | "SubElement", [p, .str t] => .ok (elemV t p)
  | ".set", [e, .str k, v] => if k == "message" then .ok (setV e "message" .none) else .ok (setV e k v)
  | "str", [v] => .ok (strV v)
  | ".replace", [a, _, _] => .ok a
  | "remove_color_codes", [v] => .ok v
  | _, _ => .stuck

/-- the assumptions `JExt` are satisfiable -/
theorem jX_ok : JExt jX where
  helem _ := rfl
  hsub _ _ := rfl
  hset e k v hk := by simp [jX, hk]
  hsetm _ _ := rfl
  hstr _ := rfl
  hrepl _ _ _ := rfl
  hrcc _ := rfl

-- `for x in obj` / comprehension over an iterable object
private def itObj : Val := .record [("__iter__", .list [.int 5, .int 6])]
example : (Fn.runTr noExt ⟨"f", ["o"], [.forIn "x" (.var "o") [.yield (.var "x")]]⟩ [itObj]) = .ok (.none, [.int 5, .int 6]) := rfl
example : eval noExt (.call .sum [.comp "x" (.lit itObj) (.lit (.int 1)) (.lit (.bool true))]) [] = .ok (.int 2) := rfl
example : (Fn.run noExt ⟨"f", ["o"], [.forIn "x" (.var "o") []]⟩ [.record []]) = .stuck := rfl

/-- a small suite: an ERROR test first, then a failed one (larger inputs exceed the default heartbeats of `rfl`) -/
def wSuite : Suite := ⟨[⟨"a", .error⟩, ⟨"c", .failed⟩], none⟩
example : (junitElement "s" wSuite).tests = 2 ∧ (junitElement "s" wSuite).errors = 1 ∧ (junitElement "s" wSuite).failures = 1 ∧
    (junitElement "s" wSuite).skipped = 0 := by decide
example : (junitElement "s" wSuite).cases.map (·.children) = [["failure", "error"], ["failure"]] := by decide

/-- the translated `as_junit_xml_element` on it: the root element and EXACTLY the rendering trace of the model's `junitElement`
    (count attributes 2 / 1 / 1 / 0 — the error test is NOT counted as a failure —, one `testcase` per test in order, children by
    status) -/
example : Gen.c20oJunitElementSrc.runTr jX [jsuiteV "s" wSuite, .str "now"] =
    .ok (elemV "testsuite" .none,
         C20.junitTrace (elemV "testsuite" .none) (.str "now") (strV (.str "s")) (junitElement "s" wSuite) wSuite.tests) := by rfl

/-- `C20_source_add_test_case` instantiated: an `error` test gets a `failure` AND an `error` child -/
example : Gen.c20oAddTestCaseSrc.runTr jX [elemV "testsuite" .none, testV ⟨"a", .error⟩, .str "cn"] =
    .ok (.none, caseTrace (elemV "testsuite" .none) (.str "cn") ⟨"a", ["failure", "error"]⟩ .error) :=
  C20_source_add_test_case jX_ok _ _ _


end Fc.PyLite.WitnessC20O
