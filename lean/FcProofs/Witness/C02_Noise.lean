/-
  Witnesses for Props/C02_Noise.lean (non-vacuity, kernel-evaluated).

  `wA` (Witness/C02.lean: unit square cut along the diagonal, the diagonal points duplicated — coincident,
  distinguishable points) and noisy coordinates `wP'`: every coordinate moved by up to 3 units
  (1 unit = 2^-1074; the mesh tolerance is ≈ 1e-8·2^1074 units).
-/
import FcProofs.Props.C02_Noise
import FcProofs.Witness.C02
namespace Fc.Resid2.Witness
open Fc Fc.C02 Fc.C02.Spec Fc.C02.Witness Fc.Resid2

/-- noisy coordinates of `wA` (same shape; genuinely different values in both columns, also for the
    coincident pairs 0/4 and 2/5) -/
def wP' : List (List Int) :=
  [[3, 0], [one, 2], [one + 1, one], [0, one - 2], [1, 1], [one, one + 3]]

def wN : MeshFields := withPoints wA wP'

/-- the noisy copy really differs from the clean data set -/
example : wN ≠ wA := by decide +kernel

def wPar : NoisyPar := noisyPar wA wP'

theorem wA_pointHypWith :
    pointHypWith (meshTolOf wA.mesh) wPar.A wPar.B wPar.M wPar.C (baseOf wA).mesh = true := by decide +kernel

theorem wN_pointHypWith :
    pointHypWith (meshTolOf wN.mesh) wPar.A wPar.B wPar.M wPar.C (baseOf wN).mesh = true := by decide +kernel

theorem wA_sortIdx' :
    sortPointsIdx argsortStable (meshTolOf wA.mesh) (baseOf wA).mesh = some [4, 0, 3, 1, 5, 2] := by
  rw [← sortIdx_with isArgsort_ins wA_pointHypWith]
  decide +kernel

/-- `C02_sort_index_noise_invariant`, evaluated: the noisy copy gets the SAME index map -/
theorem wN_sortIdx :
    sortPointsIdx argsortStable (meshTolOf wN.mesh) (baseOf wN).mesh = some [4, 0, 3, 1, 5, 2] := by
  rw [← sortIdx_with isArgsort_ins wN_pointHypWith]
  decide +kernel

theorem w_noisyHypWith : noisyHypWith hDemo wA wP' wPar = true := by
  have e1 : baseHypWith hDemo wPar.A wPar.B wPar.M wPar.C wA = true := by
    simp only [baseHypWith, wA_sortIdx']
    decide +kernel
  have e2 : baseHypWith hDemo wPar.A wPar.B wPar.M wPar.C (withPoints wA wP') = true := by
    have := wN_sortIdx
    unfold wN at this
    simp only [baseHypWith, this]
    decide +kernel
  unfold noisyHypWith
  rw [e1, e2]
  decide +kernel

/-- the complete decidable hypothesis of `C02_no_false_fail_noisy_decidable` holds -/
theorem w_noisyFullHyp : noisyFullHyp hDemo wA wP' = true := by
  unfold noisyFullHyp
  have h1 : noisyHypWith hDemo wA wP' (noisyPar wA wP') = true := w_noisyHypWith
  have h2 : storedJointWith wA wP' (noisyPar wA wP') = true := by decide +kernel
  have h3 : storedHypB wA = true := by decide +kernel
  rw [h1, h2, h3]
  rfl

/-- **`C02_no_false_fail_noisy_decidable` applied**: the noisy copy, relabelled (points reversed, the two cells
    exchanged), against the clean data set, and the clean relabelled copy against the noisy data set — two
    different `argsort` routines -/
example :
    ladderPasses (ladder argsortStable argsortInsRev hDemo {} (relabelF [5, 4, 3, 2, 1, 0] wκ wN) wA) = true ∧
    ladderPasses (ladder argsortStable argsortInsRev hDemo {} wB wN) = true := by
  have hid := relabelF_id (wf2_WFP wA (by decide +kernel))
  have hidN : relabelF (List.range wA.mesh.points.length) (idCellMaps wA) (withPoints wA wP') = wN := by
    decide +kernel
  have h := C02_no_false_fail_noisy_decidable isArgsort_stable isArgsort_insRev w_noisyFullHyp
    (ρ1 := [5, 4, 3, 2, 1, 0]) (ρ2 := List.range wA.mesh.points.length) (κ1 := wκ) (κ2 := idCellMaps wA)
    (by decide) (List.Perm.refl _) wκ_ok (idCellMaps_ok wA)
  rw [hid, hidN, wB_relabel] at h
  exact h

/-- the conclusion re-evaluated directly with kernel-reducible argsorts (sanity): rung 3 is reached, and the
    two sorted views differ in their coordinates -/
example : ladderPasses (ladder argsortIns argsortInsRev hDemo {} (relabelF [5, 4, 3, 2, 1, 0] wκ wN) wA) = true := by
  decide +kernel

/-- the noise is genuine: the own-key multisets of the two stripped meshes differ (PHASE 3: `hrel` is false) -/
example : (pitems (baseOf wA).mesh).map (kvec (KC wPar.A (baseOf wA).mesh) 2 0) ≠
    (pitems (baseOf wN).mesh).map (kvec (KC wPar.A (baseOf wN).mesh) 2 0) := by decide +kernel

/-- … while the joint keys order both sides alike (`C02_joint_keys_order` on column 0, points 0 and 1) -/
example : (clusterKey wPar.A ((pitems (baseOf wA).mesh).map (pkey 0)) 0 <
      clusterKey wPar.A ((pitems (baseOf wA).mesh).map (pkey 0)) one ↔
    clusterKey wPar.A ((pitems (baseOf wA).mesh ++ pitems (baseOf wN).mesh).map (pkey 0)) 0 <
      clusterKey wPar.A ((pitems (baseOf wA).mesh ++ pitems (baseOf wN).mesh).map (pkey 0)) one) :=
  (C02_joint_keys_order (B := wPar.B) (by decide +kernel) (by decide +kernel)
    (fun v hv => by
      obtain ⟨a, ha, rfl⟩ := List.mem_map.mp hv
      exact List.mem_map_of_mem (List.mem_append_left _ ha))
    (by decide +kernel) (by decide +kernel)).1

/-- NEGATION: noise of the order of the tolerance is outside the hypothesis (here: the x-coordinate of point 0
    moved by `atol`, between `A = atol/2` and `B = 4·atol`): `np`/`hδ` fail, and so does the joint dichotomy -/
def wBad : List (List Int) := [[(meshTolOf wA.mesh).atol, 0], [one, 0], [one, one], [0, one], [0, 0], [one, one]]

example : nearPtsB 2 wA.mesh.points wBad (noisyPar wA wBad).A = false ∧
    sepCol (noisyPar wA wBad).A (noisyPar wA wBad).B
      ((pitems (baseOf wA).mesh ++ pitems (baseOf (withPoints wA wBad)).mesh).map (pkey 0)) = false := by
  decide +kernel

end Fc.Resid2.Witness
