/-
  Non-vacuity for C11: concrete non-trivial inputs meet the hypotheses and show every status;
  negation witnesses showing that the `Nodup` hypothesis of C11_once / C11_status is needed and that
  the conclusions are not trivially true.
-/
import FcProofs.Props.C11
namespace Fc

/-- names: 0 = "p", 1 = "q", 2 = "r @ QUAD" (stripped: 3 = "r"), 4 = "s", 5 = "t" -/
def wStrip : Nat → Nat := fun n => if n = 2 then 3 else n
def wIncl : Nat → Bool := fun n => n ≠ 1          -- everything but "q"
def wExcl : Nat → Bool := fun n => n = 3          -- exclude "r" (seen without its annotation)
def wSel := selectedName wStrip wIncl wExcl
def wSrc : List Fld := [⟨0, 0⟩, ⟨1, 1⟩, ⟨2, 2⟩, ⟨4, 3⟩]
def wRef : List Fld := [⟨2, 0⟩, ⟨5, 1⟩, ⟨1, 2⟩, ⟨0, 3⟩]
/-- "p" fails, everything else (incl. the filtered "q", "r @ QUAD") would raise -/
def wPred : Fld → Fld → Outcome := fun s _ => if s.name = 0 then .fail else .raise
def wPredPass : Fld → Fld → Outcome := fun s _ => if s.name = 0 then .pass else .raise

-- hypotheses of C11_once / C11_status / C11_model_eq_spec hold on this input
example : (names wSrc).Nodup ∧ (names wRef).Nodup := by decide
example : Spec.hyp wSrc wRef = true := by decide

-- all six statuses but `passed`/`error` occur: failed p, filtered q and r @ QUAD, missing_reference s, missing_source t
example : (comparatorCall wSel true wPred wSrc wRef).suite.iter =
    [⟨0, .failed⟩, ⟨5, .missing_source⟩, ⟨4, .missing_reference⟩, ⟨1, .filtered⟩, ⟨2, .filtered⟩] := by decide
example : (comparatorCall wSel true wPred wSrc wRef).suite.bool = false := by decide
-- the filtered fields would raise, yet with "p" passing the verdict is true: they do not interfere
example : (comparatorCall wSel true wPredPass wSrc wRef).suite.bool = true := by decide
example : (comparatorCall wSel true wPredPass wSrc wRef).callbacks = [⟨0, .passed⟩] := by decide
-- the exclusion filter saw the name WITHOUT the annotation: with the identity strip "r @ QUAD" is compared
example : (comparatorCall (selectedName id wIncl wExcl) true wPredPass wSrc wRef).suite.bool = false := by decide
-- domain gate
example : (comparatorCall wSel false wPredPass wSrc wRef).suite.bool = false := by decide

-- a raising predicate on a selected field gives `error` and a false verdict
example : (comparatorCall (fun _ => true) true (fun _ _ => .raise) [⟨7, 0⟩] [⟨7, 0⟩]).suite.iter = [⟨7, .error⟩] ∧
    (comparatorCall (fun _ => true) true (fun _ _ => .raise) [⟨7, 0⟩] [⟨7, 0⟩]).suite.bool = false := by decide

/-- negation witness: WITHOUT distinct names "each name once" is false — source [a], reference [a, a]:
    the name is reported twice (once compared, once missing_source); C11_once_count gives max(1,2) = 2. -/
example : ((comparatorCall (fun _ => true) true (fun _ _ => .pass) [⟨0, 0⟩] [⟨0, 0⟩, ⟨0, 1⟩]).suite.iter.map (·.name))
    = [0, 0] := by decide
example : ¬ (((comparatorCall (fun _ => true) true (fun _ _ => .pass) [⟨0, 0⟩] [⟨0, 0⟩, ⟨0, 1⟩]).suite.iter.map (·.name)).Nodup) := by
  decide

/-- first-match semantics with duplicates: the k-th source occurrence pairs with the k-th reference
    occurrence (selector trace shows tags (0,0), (1,2)) -/
example : (comparatorCall (fun _ => true) true (fun _ _ => .pass) [⟨0, 0⟩, ⟨0, 1⟩] [⟨0, 0⟩, ⟨1, 1⟩, ⟨0, 2⟩]).selector
    = [(0, 0), (1, 2)] := by decide

/-- the partition statement is not trivially satisfiable by "everything is an orphan": the orphan/orphan
    non-matching clause fails for such a result -/
example : ¬ (∀ s ∈ [1], ∀ t ∈ [1], (fun (a b : Nat) => a == b) s t = false) := by decide
example : (findMatches (fun (a b : Nat) => a == b) [1, 2, 1] [1, 1, 3]).pairs = [(1, 1), (1, 1)] ∧
    (findMatches (fun (a b : Nat) => a == b) [1, 2, 1] [1, 1, 3]).orphansSrc = [2] ∧
    (findMatches (fun (a b : Nat) => a == b) [1, 2, 1] [1, 1, 3]).orphansRef = [3] := by decide

/-- negation witness for the full statement behind C11_filter_names_partial (finding F14):
    name 0 = "a @ b" is a PLAIN (tabular / point) field name, `remove_annotation` maps it to 1 = "a".
    The inclusion filter selects exactly "a @ b"; the field differs (predicate fails).  The code filters the
    field out and the verdict is true; the user-level reading compares it and the verdict is false. -/
def f14Strip : Nat → Nat := fun n => if n = 0 then 1 else n
def f14Incl : Nat → Bool := fun n => n = 0
example : Spec.plainFixed f14Strip (fun _ => false) [⟨0, 0⟩] = false := by decide
example : (comparatorCall (selectedName f14Strip f14Incl (fun _ => false)) true (fun _ _ => .fail) [⟨0, 0⟩] [⟨0, 0⟩]).suite.bool = true ∧
    (comparatorCall (Spec.userSelected f14Strip (fun _ => false) f14Incl (fun _ => false)) true (fun _ _ => .fail) [⟨0, 0⟩] [⟨0, 0⟩]).suite.bool = false := by
  decide
example : (comparatorCall (selectedName f14Strip f14Incl (fun _ => false)) true (fun _ _ => .fail) [⟨0, 0⟩] [⟨0, 0⟩]).suite.iter
    = [⟨0, .filtered⟩] := by decide
-- the hypothesis of the partial theorem is satisfiable on a non-trivial input (annotated cell field + plain fields)
example : Spec.plainFixed wStrip (fun n => n = 2) wSrc = true := by decide

end Fc
