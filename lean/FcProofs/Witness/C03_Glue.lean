/-
  Non-vacuity of the C03 glue theorems: the concrete ladder (`Glue.ladderOps`) run on a relabelled
  pair with C02's point sorter, C08's strip / sort_cells, C03's `mesh_equal` and `DefaultEquality()`
  — evaluated by the kernel — and `C03_ladder_pass_full` applied to it.
-/
import FcProofs.Props.C03_Glue
import FcProofs.Witness.C02
namespace Fc.Glue.Witness
open Fc Fc.Spec Fc.C03 Fc.C02.Witness

/-- comparator parameters: insertion-sort argsort (kernel-reducible), C02's point sorter over it,
    the demo hash, orphan removal enabled -/
def Lw : LadderParams := paramsOf argsortIns hDemo true

theorem Lw_ok : SortParamsOk Lw.sort := paramsOf_ok argsortIns isArgsort_ins.perm hDemo true

/-- tolerances of one run: the source side's mesh tolerances (C02's `meshTolOf`) -/
def tolW (a _b : MeshFields) : Nat × Nat := ((C02.meshTolOf a.mesh).rtol, (C02.meshTolOf a.mesh).atol)

def flW : LadderFlags := ⟨false, false⟩

/-- `wA` (two triangles on the unit square, duplicated diagonal — C02's witness mesh) with the points
    stored in reverse order, corner indices renumbered accordingly, point field relabelled -/
def wB2 : MeshFields :=
  ⟨{ dim := 2,
     points := [[one, one], [0, 0], [0, one], [one, one], [one, 0], [0, 0]],
     cells := [("TRIANGLE", [[5, 4, 3], [1, 0, 2]])] },
   [⟨"p", ⟨.flt f64, [6], [6 * one, 5 * one, 4 * one, 3 * one, 2 * one, 1 * one]⟩⟩],
   [⟨"c", "TRIANGLE", ⟨.int true 64, [2], [10, 20]⟩⟩]⟩

def resW : LadderResult (Option MeshFields) := ladder (ladderOps Lw (compareTol tolW)) flW (some wB2) (some wA)

-- the comparison as stored fails its domain check, the ladder goes on and passes (sorted points)
example : compareTol tolW wB2 wA = (false, false) := by decide +kernel
theorem resW_pass : resW.suite = true := by decide +kernel
example : resW.domainEq = true := by decide +kernel

theorem wA_wfp : WFP wA := wf2_WFP wA (by decide +kernel)
theorem wB2_wfp : WFP wB2 := wf2_WFP wB2 (by decide +kernel)

/-- `C03_ladder_pass_full` applies: every hypothesis holds on the pair -/
example : ∃ S' R', Derived wB2 S' ∧ Derived wA R' ∧ fieldsPass S' R' = true ∧
    ∃ rel abs,
      (S'.mesh.numPoints = R'.mesh.numPoints ∧ S'.mesh.dim = R'.mesh.dim ∧
        ∀ i j, i < S'.mesh.numPoints → j < S'.mesh.dim →
          docFormula f64 (coord S'.mesh i j) (coord R'.mesh i j) rel abs = true) ∧
      (∀ c ∈ S'.mesh.cellTypes, ∃ t ∈ R'.mesh.cellTypes, Partner S'.mesh R'.mesh c t ∧
        CellsMatch (S'.mesh.cellsOf c) (R'.mesh.cellsOf t)) ∧
      (∀ t ∈ R'.mesh.cellTypes, ∃ c ∈ S'.mesh.cellTypes, Partner S'.mesh R'.mesh c t ∧
        CellsMatch (S'.mesh.cellsOf c) (R'.mesh.cellsOf t)) :=
  C03_ladder_pass_full Lw Lw_ok tolW flW wB2 wA wB2_wfp wA_wfp (by decide +kernel) (by decide +kernel) resW_pass

-- the rungs the theorem speaks about, computed: both sides end as the SAME data set (sorted views)
example : resW.src = resW.ref := by decide +kernel
example : (resW.src.map fun f => f.mesh.points) =
    some [[0, 0], [0, 0], [0, one], [one, 0], [one, one], [one, one]] := by decide +kernel

-- a changed field value is NOT accepted by the same ladder (the theorem is not vacuous-by-FAIL).
-- (stated on the sorted-points rung: C08's `sortCellsKey` uses `List.mergeSort`, which the kernel cannot
--  unfold, so the sorted-cells rung is not evaluated here)
def wB2bad : MeshFields :=
  { wB2 with pointFields := [⟨"p", ⟨.flt f64, [6], [6 * one, 5 * one, 4 * one, 3 * one, 2 * one, 7 * one]⟩⟩] }
example : ((ladderOps Lw (compareTol tolW)).compare ((ladderOps Lw (compareTol tolW)).permute (some wB2bad))
    ((ladderOps Lw (compareTol tolW)).permute (some wA))) = (true, false) := by decide +kernel

/-- `C03_ladder_sound_full` needs no evaluation at all: it applies to C02's pair with exchanged cells
    (which passes on the sorted-cells rung) as to every well-formed pair -/
example : ∀ S', (ladder (ladderOps Lw (compareTol tolW)) flW (some wB) (some wA)).src = some S' → Derived wB S' :=
  (C03_ladder_sound_full Lw Lw_ok (compareTol tolW) flW wB wA (wf2_WFP _ (by decide +kernel)) wA_wfp).2.1

/-- dimension rung + reordering rungs in one run: the 1-d line mesh of C17's witness, relabelled,
    against its 3-d zero-padded copy.  `C03_ladder_sound_full` gives `Derived` for both final rungs;
    here `k = 2` on the source side. -/
def lineB : MeshFields :=
  { mesh := { dim := 1, points := [[2 * one], [0], [one]], cells := [("LINE", [[1, 2], [2, 0]])] },
    pointFields := [⟨"s", ⟨.flt f64, [3], [5 * one, one, 3 * one]⟩⟩], cellFields := [] }
def lineA3 : MeshFields :=
  { mesh := { dim := 3, points := [[0, 0, 0], [one, 0, 0], [2 * one, 0, 0]],
              cells := [("LINE", [[0, 1], [1, 2]])] },
    pointFields := [⟨"s", ⟨.flt f64, [3], [one, 3 * one, 5 * one]⟩⟩], cellFields := [] }

def resL : LadderResult (Option MeshFields) :=
  ladder (ladderOps Lw (compareTol tolW)) flW (some lineB) (some lineA3)

example : resL.suite = true := by decide +kernel
example : (resL.src.map fun f => f.mesh.dim) = some 3 := by decide +kernel
example : ∀ S', resL.src = some S' → Derived lineB S' :=
  (C03_ladder_sound_full Lw Lw_ok (compareTol tolW) flW lineB lineA3
    (wf2_WFP _ (by decide +kernel)) (wf2_WFP _ (by decide +kernel))).2.1
-- with dimension matching AND reordering disabled the same pair fails
example : (ladder (ladderOps Lw (compareTol tolW)) ⟨true, true⟩ (some lineB) (some lineA3)).suite = false := by
  decide +kernel

end Fc.Glue.Witness
