/-
  FcProofs.Witness.PyLiteCli — non-vacuity of the phase-5 plumbing theorems (Props/C04_Plumbing.lean,
  C12_Plumbing.lean) and of the interpreter extensions (`xs.index(v)`, `zip`, `d[k] = v`): concrete evaluations
  checked by the kernel, a concrete external-function table PROVED to satisfy `ReadAsExt`, and the seeded /
  hand-made mutants of the translated bodies evaluating differently.
-/
import FcGen.Tables
import FcProofs.Props.C12_Plumbing
namespace Fc.PyLite.WitnessCli
open Fc Fc.PyLite Fc.PyLite.Cli

def ev (e : Expr) (env : Env := []) : Res Val := eval noExt e env
private def i (n : Int) : Expr := .lit (.int n)
private def s (x : String) : Expr := .lit (.str x)

/-! ### interpreter extensions -/
example : ev (.call .index [.tuple [s "a", s "b", s "a"], s "a"]) = .ok (.int 0) := rfl      -- the FIRST occurrence
example : ev (.call .index [.tuple [s "a", s "b"], s "b"]) = .ok (.int 1) := rfl
example : ev (.call .index [.tuple [s "a"], s "c"]) = .raise "ValueError" := rfl
example : ev (.call .zip [.tuple [i 1, i 2, i 3], .tuple [s "x", s "y"]])
    = .ok (.list [.list [.int 1, .str "x"], .list [.int 2, .str "y"]]) := rfl                 -- as long as the shorter
example : (Fn.run noExt ⟨"f", [], [.assign "d" (.lit (.dict [])), .setIndex "d" (s "p") (i 1), .setIndex "d" (s "q") (i 2),
    .setIndex "d" (s "p") (i 3), .ret (.var "d")]⟩ []) = .ok (.dict [(.str "p", .int 3), (.str "q", .int 2)]) := rfl
    -- overwriting keeps the entry's place: Python's dict
example : (Fn.run noExt ⟨"f", [], [.assign "xs" (.tuple [.tuple [i 1], .tuple [i 2]]),
    .setIndex "xs" (i 1) (.bin .add (.index (.var "xs") (i 1)) (.tuple [i 9])), .ret (.var "xs")]⟩ [])
    = .ok (.list [.list [.int 1], .list [.int 2, .int 9]]) := rfl                             -- `xs[1].append(9)`

/-! ### `FieldToleranceMap.__call__`: a per-field zero is returned; the seeded `get(name) or default` is not -/
private def zeroMap : Val := ftmVal (strDict (dictOf [("p", .num 0), ("q", .num 7)])) (some (.num 5))
example : Gen.cliFieldToleranceMapCallSrc.run noExt [zeroMap, .str "p"] = .ok (.int 0) := rfl
example : Gen.cliFieldToleranceMapCallSrc.run noExt [zeroMap, .str "q"] = .ok (.int 7) := rfl
example : Gen.cliFieldToleranceMapCallSrc.run noExt [zeroMap, .str "r"] = .ok (.int 5) := rfl
example : Gen.cliFieldToleranceMapCallSrc.run noExt [ftmVal [] none, .str "r"] = .ok .none := rfl
/-- seed C01-r3-fieldtol-zero-falsy -/
def ftmOrMutant : Fn := { name := "mutant", params := ["v0", "v1"], body := [
  .ret (.or (.call .dictGet [(.attr (.var "v0") "_field_tolerances"), (.var "v1"), (.lit .none)])
            (.attr (.var "v0") "_default"))] }
example : ftmOrMutant.run noExt [zeroMap, .str "p"] = .ok (.int 5) := rfl        -- the default instead of 0
example : ftmOrMutant.run noExt [zeroMap, .str "q"] = .ok (.int 7) := rfl        -- indistinguishable elsewhere
/-- a later binding of the same name wins (`Represents`): `-rtol p:7 -rtol p:0` -/
example : Gen.cliFieldToleranceMapCallSrc.run noExt
    [ftmVal (strDict (dictOf [("p", .num 0), ("p", .num 7)])) none, .str "p"] = .ok (.int 0) := rfl

/-! ### `PatternFilter.__call__` with a concrete `fnmatch` (whole-name equality, `*` matches all) -/
def fnm0 (name pat : String) : Bool := pat == "*" || name == pat
def fnmX : Ext := fun f args =>
  match f, args with
  | "fnmatch", [.str n, .str p] => .ok (.bool (fnm0 n p))
  | "PatternFilter(patterns=)", [v] => .ok (.record [("_patterns", v)])
  | _, _ => .stuck
theorem fnmX_ok : FnmatchIs fnmX fnm0 := fun _ _ => rfl
theorem fnmX_ctor : PatternFilterCtor fnmX := fun _ => rfl
example : Gen.cliPatternFilterCallSrc.run fnmX [pfVal ["p", "u"], .str "temp"] = .ok (.bool false) := rfl   -- no suffix match
example : Gen.cliPatternFilterCallSrc.run fnmX [pfVal ["p", "u"], .str "u"] = .ok (.bool true) := rfl
example : Gen.cliPatternFilterCallSrc.run fnmX [pfVal [], .str "u"] = .ok (.bool false) := rfl
example : Gen.cliIncludeAllSrc.run fnmX [] = .ok (pfVal ["*"]) := rfl
example : Gen.cliExcludeAllSrc.run fnmX [] = .ok (pfVal []) := rfl

/-! ### `--read-as`: a concrete table of externals that satisfies `ReadAsExt` -/
def readAsX (split : String → Option (String × String)) : Ext := fun f args =>
  match f, args with
  | "helper#1", [.str a] =>
    (match split a with
     | some rp => .ok (.list [.str rp.1, .str rp.2])
     | none => .raise "IOError")
  | "PatternFilter(patterns=)", [v] => .ok (.record [("_patterns", v)])
  | "FileTypeMap", [] => .ok (ftMapVal [])
  | "FileTypeMap(mapping=)", [v] => .ok (.record [("_mapping", v)])
  | _, _ => .stuck

/-- the assumptions of `C12_source_make_file_type_map` are satisfiable, for every `split` -/
theorem readAsX_ok (split : String → Option (String × String)) : ReadAsExt (readAsX split) split :=
  ⟨fun _ => rfl, fun _ => rfl, rfl, fun _ => rfl⟩

def split0 : String → Option (String × String)
  | "dsv:*.dat" => some ("dsv", "*.dat")
  | "dsv:*.txt" => some ("dsv", "*.txt")
  | "mesh:*.vtu" => some ("mesh", "*.vtu")
  | "dsv" => some ("dsv", "*")
  | _ => none

/-- the seeded scenario: two options for the same reader — BOTH patterns are kept, in order -/
example : Plumb.makeFileTypeMap split0 (some ["dsv:*.dat", "mesh:*.vtu", "dsv:*.txt"])
    = some [("dsv", ["*.dat", "*.txt"]), ("mesh", ["*.vtu"])] := by decide
example : Gen.cliMakeFileTypeMapSrc.run (readAsX split0) [optStrList (some ["dsv:*.dat", "mesh:*.vtu", "dsv:*.txt"])]
    = .ok (ftMapVal [("dsv", ["*.dat", "*.txt"]), ("mesh", ["*.vtu"])]) := by
  have h : Plumb.makeFileTypeMap split0 (some ["dsv:*.dat", "mesh:*.vtu", "dsv:*.txt"])
      = some [("dsv", ["*.dat", "*.txt"]), ("mesh", ["*.vtu"])] := by decide
  rw [C12_source_make_file_type_map (readAsX split0) split0 (readAsX_ok split0), h]
example : Gen.cliMakeFileTypeMapSrc.run (readAsX split0) [optStrList (some ["dsv:*.dat", "bad{"])] = .raise "IOError" := by
  have h : Plumb.makeFileTypeMap split0 (some ["dsv:*.dat", "bad{"]) = none := by decide
  rw [C12_source_make_file_type_map (readAsX split0) split0 (readAsX_ok split0), h]
example : Gen.cliMakeFileTypeMapSrc.run (readAsX split0) [.none] = .ok (ftMapVal []) := rfl

/-- seed C12-r3-readas-setdefault as a model: only the first pattern per reader survives -/
def addPatternSetdefault : Plumb.FileTypeMap → String → String → Plumb.FileTypeMap
  | [], r, p => [(r, [p])]
  | (r', ps) :: rest, r, p => if r' = r then (r', ps) :: rest else (r', ps) :: addPatternSetdefault rest r p
example : ([("dsv", "*.dat"), ("mesh", "*.vtu"), ("dsv", "*.txt")].foldl (fun acc rp => addPatternSetdefault acc rp.1 rp.2) [])
    = [("dsv", ["*.dat"]), ("mesh", ["*.vtu"])] := by decide          -- `*.txt` is lost
example : Plumb.mapped fnm0 [("dsv", ["*.dat", "*.txt"]), ("mesh", ["*.vtu"])] "*.txt" = true := by decide
example : Plumb.mapped fnm0 [("dsv", ["*.dat"]), ("mesh", ["*.vtu"])] "*.txt" = false := by decide

/-! ### `destOfFlag` is argparse's rule on the flags in use -/
example : Plumb.destOfFlag "--disable-mesh-space-dimension-matching" = "disable_mesh_space_dimension_matching" := by decide
example : Plumb.destOfFlag "--read-as" = "read_as" := by decide

end Fc.PyLite.WitnessCli
