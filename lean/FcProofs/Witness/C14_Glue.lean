/-
  Non-vacuity of `C14_reordered_zero`: C02's witness pair (two triangles with a duplicated diagonal;
  the reference stores the points in reverse order and the two cells exchanged) satisfies every
  hypothesis, and the written diff is recomputed by the kernel.
-/
import FcProofs.Props.C14_Glue
import FcProofs.Witness.C02
import FcProofs.Witness.C14
import FcModel.MeshEqual
namespace Fc.Glue.Witness
open Fc Fc.C14 Fc.C02 Fc.C02.Spec Fc.C02.Witness

/-- result and reference of the CLI call: C02's pair without the cell field, plus an int32 point field -/
def rA : MeshFields :=
  { wA with cellFields := [],
            pointFields := wA.pointFields ++ [⟨"k", ⟨.int true 32, [6, 2], [1, 2, 3, 4, 5, 6, 7, 8, 9, 10, 11, 12]⟩⟩] }
def rB : MeshFields :=
  { wB with cellFields := [],
            pointFields := wB.pointFields ++ [⟨"k", ⟨.int true 32, [6, 2], [11, 12, 9, 10, 7, 8, 5, 6, 3, 4, 1, 2]⟩⟩] }

/-- mesh equality of the CLI model: C03's `mesh_equal` with the result's tolerances -/
def meshEqW (a b : MeshFields) : Bool :=
  Fc.C03.meshEqualWith (meshTolOf a.mesh).rtol (meshTolOf a.mesh).atol a.mesh b.mesh == Verdict.ok true

theorem stripA : stripOrphans argsortIns rA = rA := by decide +kernel
theorem stripB : stripOrphans argsortIns rB = rB := by decide +kernel
theorem tolB : meshTolOf rB.mesh = wTol := by decide +kernel

-- the stored data sets differ (points reversed), so the CLI sorts; and the fields really differ as stored
example : rA.pointFields ≠ rB.pointFields := by decide +kernel

theorem hypAB : C14Hyp (sortC02 argsortIns hDemo rA) (sortC02 argsortIns hDemo rB) := by
  refine ⟨Fc.C14.Witness.ListsOk.of_check (by decide +kernel) (by decide +kernel) (by decide +kernel),
          Fc.C14.Witness.ListsOk.of_check (by decide +kernel) (by decide +kernel) (by decide +kernel), ?_⟩
  intro n ct' h
  have e1 : cellList (sortC02 argsortIns hDemo rB) = [] := by decide +kernel
  have e2 : cellList (sortC02 argsortIns hDemo rA) = [] := by decide +kernel
  rw [e1, e2] at h
  simp [dictGet] at h

/-- every hypothesis of `C14_reordered_zero` holds; conclusion: both point fields of the written
    diff are exactly zero -/
theorem diffAB : ∃ d, writeDiff (sortC02 argsortIns hDemo) meshEqW false rA rB = some d ∧
    ∀ n a, dictGet n (pointList (sortC02 argsortIns hDemo rB)) = some a →
      dictGet n (d.pointFields.map fun f => (f.name, f.values)) =
        some ⟨a.dtype, a.shape, List.replicate a.data.length (.fin 0)⟩ := by
  have hyS := (C02_hyp_sound w_pointHyp)
  have hyR := (C02_hyp_sound wB_pointHyp)
  refine C14_reordered_zero (ρ := [5, 4, 3, 2, 1, 0]) (A := sepA wTol) (B1 := sepB wTol)
    (M1 := (pointData (sepA wTol) wMesh).M) (B2 := sepB wTol) (M2 := (pointData (sepA wTol) wB.mesh).M)
    isArgsort_ins hDemo meshEqW rA rB
    (by decide +kernel) ?_ ?_ w_cands_same ?_ ?_ ?_ ?_ ?_ ?_ (by decide +kernel) hypAB
  · rw [stripA]; exact hyS.1
  · rw [stripB, tolB]; exact hyR.1
  · rw [stripA, stripB]; exact w_relabeled
  · rw [stripA, stripB]; decide +kernel
  · rw [stripA]
    intro pf hpf
    have : ∀ pf ∈ rA.pointFields, (pf.values.shape.head? = some 6 ∧ pf.values.data.length = prodList pf.values.shape) := by
      decide +kernel
    exact this pf hpf
  · rw [stripA]
    intro pf hpf
    have : rA.pointFields.all (fun pf => match pf.values.dtype with | .flt _ => true | .int _ b => decide (1 ≤ b) | .str => false) = true := by
      decide +kernel
    have := List.all_eq_true.mp this pf hpf
    cases hd : pf.values.dtype with
    | flt F => trivial
    | int s b => rw [hd] at this; simpa [numericDType] using this
    | str => rw [hd] at this; cases this
  · rw [stripA]; decide
  · rw [stripA]; exact hdist_transfer isArgsort_stable isArgsort_ins hyS.1 hyS.2

-- the same diff, computed: the float field "p" and the int32 vector field "k" hold zeros only
example : (writeDiff (sortC02 argsortIns hDemo) meshEqW false rA rB).map
    (fun d => d.pointFields.map fun f => (f.name, f.values.data)) =
    some [("p", List.replicate 6 (.fin 0)), ("k", List.replicate 12 (.fin 0))] := by decide +kernel

-- without sorting (reordering disabled) the same call raises: the meshes differ as stored
example : writeDiff (sortC02 argsortIns hDemo) meshEqW true rA rB = none := by decide +kernel

end Fc.Glue.Witness
