/-
  Witnesses for Props/C19_Dims.lean (kernel-evaluated).

  * a 2-d source `wB` (C02's witness: duplicated diagonal, points reversed, cells exchanged) against a 3-d
    reference `w3` (C02's `wA` stored with a third coordinate 0): the dimension retry HAPPENS; the hypotheses
    hold for the two ORIGINAL inputs; `C19_rerun_dims_baseHyp` applies.
  * the zero-padded copy of `wB`: exists, same tolerances, `pointHyp` still holds, the same index map
    (`C19_point_hyp_pad_invariant`, re-evaluated).
  * `tolW3`: an orphan point that carries the largest coordinate — the tolerances of the stripped view differ from
    those of the stored mesh and `_sorting_points_indices` returns a different index map under the two (when
    the PHASE-3 model remark matters).
-/
import FcProofs.Props.C19_Dims
import FcProofs.Witness.C19_Resid
namespace Fc.Resid2.Witness
open Fc Fc.Spec Fc.C19 Fc.C02 Fc.C02.Spec Fc.C02.Witness Fc.Glue Fc.Glue.Witness Fc.Resid Fc.Resid.Witness

/-- C02's `wA` with a third coordinate `0` -/
def w3 : MeshFields :=
  ⟨{ dim := 3,
     points := [[0, 0, 0], [one, 0, 0], [one, one, 0], [0, one, 0], [0, 0, 0], [one, one, 0]],
     cells := [("TRIANGLE", [[0, 1, 2], [4, 5, 3]])] },
   [⟨"p", ⟨.flt f64, [6], [1 * one, 2 * one, 3 * one, 4 * one, 5 * one, 6 * one]⟩⟩],
   [⟨"c", "TRIANGLE", ⟨.int true 64, [2], [10, 20]⟩⟩]⟩

/-- `w3` IS what `extend_space_dimension_to(3, wA)` returns -/
example : extendSpaceDim 3 wA = some w3 := by decide +kernel

theorem w3_sortIdx :
    sortPointsIdx argsortStable (meshTolOf w3.mesh) (baseOf w3).mesh = some [4, 0, 3, 1, 5, 2] := by
  have hp : pointHyp (meshTolOf w3.mesh) (baseOf w3).mesh = true := by decide +kernel
  rw [← (C02_sort_points_canonical isArgsort_ins hp).1]
  decide +kernel

theorem w3_baseHyp : baseHyp hDemo w3 = true := by
  simp only [baseHyp, w3_sortIdx]
  decide +kernel

/-- the two inputs differ in dimension and matching is enabled: the first call extends both views to 3-d -/
example : (preReorder (cmpOps Lw (compareTol tolW)) flC ⟨viewOf wB, viewOf w3⟩).src.1 = 3 ∧
    (viewOf wB).1 = 2 := by decide +kernel

/-- **`C19_rerun_dims_baseHyp` applied**: five consecutive calls of one comparator object on the 2-d / 3-d pair
    all return the first call's suite; hypotheses on the ORIGINAL inputs only (neither has orphan points) -/
example : ∀ s ∈ rerun (cmpOps Lw (compareTol tolW)) flC 5 ⟨viewOf wB, viewOf w3⟩,
    s = (runComparator (cmpOps Lw (compareTol tolW)) flC ⟨viewOf wB, viewOf w3⟩).suite :=
  C19_rerun_dims_baseHyp isArgsort_ins hDemo (compareTol tolW) flC wB w3 wB_baseHyp w3_baseHyp
    (fun p hp hc => by
      have hall : ∀ p, p < wB.mesh.points.length → wB.mesh.connected p = true := by decide
      rw [hall p hp] at hc; cases hc)
    (fun p hp hc => by
      have hall : ∀ p, p < w3.mesh.points.length → w3.mesh.connected p = true := by decide
      rw [hall p hp] at hc; cases hc) 5

/-- … and with the stable merge sort (not kernel-reducible: nothing has to be evaluated), reordering the other
    way round (3-d source, 2-d reference) -/
example : ∀ s ∈ rerun (cmpOps (paramsOf argsortStable hDemo true) (compareTol tolW)) flC 9 ⟨viewOf w3, viewOf wB⟩,
    s = (runComparator (cmpOps (paramsOf argsortStable hDemo true) (compareTol tolW)) flC ⟨viewOf w3, viewOf wB⟩).suite :=
  C19_rerun_dims_baseHyp isArgsort_stable hDemo (compareTol tolW) flC w3 wB w3_baseHyp wB_baseHyp
    (fun p hp hc => by
      have hall : ∀ p, p < w3.mesh.points.length → w3.mesh.connected p = true := by decide
      rw [hall p hp] at hc; cases hc)
    (fun p hp hc => by
      have hall : ∀ p, p < wB.mesh.points.length → wB.mesh.connected p = true := by decide
      rw [hall p hp] at hc; cases hc) 9

/-- a suite evaluated by the kernel (`wB2` = `wA` with the points reversed, 2-d; C08's `sort_cells` is not
    kernel-reducible, so a pair that passes on the point-sorted rung): the 2-d copy and the 3-d copy of one data
    set compare as equal after the dimension retry and the reordering (two calls, same suite) -/
example : rerun (cmpOps Lw (compareTol tolW)) flC 2 ⟨viewOf wB2, viewOf w3⟩ = [(true, true), (true, true)] := by
  decide +kernel

/-! ### the zero-padded copy, evaluated -/

/-- `extend_space_dimension_to(3, wB)` -/
def wB3 : MeshFields :=
  ⟨{ dim := 3,
     points := [[one, one, 0], [0, 0, 0], [0, one, 0], [one, one, 0], [one, 0, 0], [0, 0, 0]],
     cells := [("TRIANGLE", [[1, 0, 2], [5, 4, 3]])] },
   [⟨"p", ⟨.flt f64, [6], [6 * one, 5 * one, 4 * one, 3 * one, 2 * one, 1 * one]⟩⟩],
   [⟨"c", "TRIANGLE", ⟨.int true 64, [2], [20, 10]⟩⟩]⟩

theorem wB3_ext : extendSpaceDim 3 wB = some wB3 := by decide +kernel

example : wB3.mesh = padMesh 1 wB.mesh := by decide +kernel

/-- `C19_extend_keeps_tolerances`, and re-evaluated -/
example : meshTolOf wB3.mesh = meshTolOf wB.mesh := C19_extend_keeps_tolerances wB3_ext
example : meshTolOf wB3.mesh = meshTolOf wB.mesh := by decide +kernel

/-- `C19_extend_wellformed` -/
example : WFP wB3 := C19_extend_wellformed (wf2_WFP wB (by decide +kernel)) wB3_ext

/-- the hypotheses survive the padding (`C19_sort_hyp_extend_invariant`); the decidable point hypothesis of the
    padded copy re-evaluated directly -/
example : ∃ c', SortHyp hDemo true wB3 (sepA (meshTolOf wB.mesh)) (sepB (meshTolOf wB.mesh))
    (pointData (sepA (meshTolOf wB.mesh)) (baseOf wB).mesh).M c' :=
  ⟨_, (C19_sort_hyp_extend_invariant wB_sortHyp (by
      have := sortHypB_candsDim (h := hDemo) (strip := true) (f := wB) (by
        unfold sortHypB
        simp only [entering_true, wB_tol, wB_sortIdx]
        decide +kernel)
      rw [entering_true, wB_tol] at this
      exact this) wB3_ext).1⟩
example : pointHyp (meshTolOf wB3.mesh) (baseOf wB3).mesh = true := by decide +kernel

/-- the index map of the point sort is the same before and after the padding (`padMesh_sortIdx`), evaluated with
    two different argsorts -/
example : sortPointsIdx argsortIns (meshTolOf wB.mesh) (baseOf wB).mesh = some [1, 5, 2, 4, 0, 3] ∧
    sortPointsIdx argsortInsRev (meshTolOf wB3.mesh) (baseOf wB3).mesh = some [1, 5, 2, 4, 0, 3] := by
  decide +kernel

/-! ### when the tolerances of the stripped view differ from those of the stored mesh -/

/-- the unit square (coordinates 0 / `one`) plus an ORPHAN point at `2^40 · one` -/
def tolW3 : MeshFields :=
  ⟨{ dim := 2,
     points := [[0, 0], [one, 0], [one, one], [0, one], [1099511627776 * one, 0]],
     cells := [("TRIANGLE", [[0, 1, 2], [0, 2, 3]])] }, [], []⟩

/-- the hypothesis of `C19_guarded_tolerances_agree` fails (the orphan carries the largest coordinate), the two
    tolerance pairs differ — the stored-mesh `atol` (≈ 1e-8 · 2^40 ≈ 1.1e4 units `one`) exceeds the size of the
    square — and `_sorting_points_indices` of the stripped view returns DIFFERENT results under the two: with
    the view's tolerances the four corners are sorted, with the stored mesh's tolerances all corners coincide and
    the tie break by cell centres raises / re-orders -/
example : meshTolOf (baseOf tolW3).mesh ≠ meshTolOf tolW3.mesh ∧
    sortPointsIdx argsortIns (meshTolOf (baseOf tolW3).mesh) (baseOf tolW3).mesh = some [0, 3, 1, 2] ∧
    sortPointsIdx argsortIns (meshTolOf tolW3.mesh) (baseOf tolW3).mesh ≠
      sortPointsIdx argsortIns (meshTolOf (baseOf tolW3).mesh) (baseOf tolW3).mesh := by
  decide +kernel

/-- … while without the orphan the two agree (`C19_guarded_tolerances_agree_no_orphans`) -/
example : meshTolOf (baseOf wB).mesh = meshTolOf wB.mesh :=
  C19_guarded_tolerances_agree_no_orphans (by decide)

end Fc.Resid2.Witness
