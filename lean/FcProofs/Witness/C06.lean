/-
  Non-vacuity examples and negation witnesses for C06 (evaluated by the kernel with `decide`).
-/
import FcProofs.Props.C06
namespace Fc.C06
open Fc.C06.Spec

/-! ### finding F3: a later piece without a new point is dropped with all its cells -/

/-- unit square split along a diagonal … -/
def w3Whole : MeshFields :=
  ⟨⟨2, [[0, 0], [1, 0], [1, 1], [0, 1]], [("TRIANGLE", [[0, 1, 2], [0, 2, 3]])]⟩, [], []⟩
/-- … piece A: both triangles' points arrive with the first two pieces … -/
def w3A : MeshFields := ⟨⟨2, [[0, 0], [1, 0], [1, 1], [0, 1]], [("TRIANGLE", [[0, 1, 2]])]⟩, [], []⟩
/-- … piece B: the second triangle: all of its points already exist in A -/
def w3B : MeshFields := ⟨⟨2, [[0, 0], [1, 1], [0, 1]], [("TRIANGLE", [[0, 1, 2]])]⟩, [], []⟩

-- the pieces satisfy every hypothesis of the model and are a splitting of the whole data set …
example : mergeHyp [w3A, w3B] = true ∧ isPartition w3Whole [w3A, w3B] = true ∧ conforming w3Whole = true := by
  decide
-- … they are in the F3 class …
example : f3Class [w3A, w3B] = true := by decide
-- … and the merged result does NOT read as the whole data set: the full-strength statement
-- `C06_unstructured` (without the "every later piece brings a new point" hypothesis) is false.
example : (mergeAll lexsortIdx [w3A, w3B]).map (readsAsWhole · w3Whole) = some false := by decide
example : (mergeAll lexsortIdx [w3A, w3B]).map (·.cellContent.length) = some 1 := by decide

/-- a splitting of the same square outside the F3 class: the second piece brings the point (0,1) -/
def w3A' : MeshFields := ⟨⟨2, [[1, 1], [0, 0], [1, 0]], [("TRIANGLE", [[1, 2, 0]])]⟩, [], []⟩
example : mergeHyp [w3A', w3B] = true ∧ isPartition w3Whole [w3A', w3B] = true ∧
    f3Class [w3A', w3B] = false := by decide
example : (mergeAll lexsortIdx [w3A', w3B]).map (readsAsWhole · w3Whole) = some true := by decide
-- the other listing order as well
example : (mergeAll lexsortIdx [w3B, w3A']).map (readsAsWhole · w3Whole) = some true := by decide

/-! ### non-vacuity of `C06_merge_step_partial` / `C06_unstructured_partial`: a square with a point field
     and a cell field, split into its two triangles with shuffled local numbering -/

def wsWhole : MeshFields :=
  ⟨⟨2, [[0, 0], [1, 0], [1, 1], [0, 1]], [("TRIANGLE", [[0, 1, 2], [0, 2, 3]])]⟩,
   [⟨"p", ⟨.int true 32, [4], [10, 20, 30, 40]⟩⟩], [⟨"c", "TRIANGLE", ⟨.flt f64, [2], [7, 8]⟩⟩]⟩
def wsA : MeshFields :=
  ⟨⟨2, [[1, 1], [0, 0], [1, 0]], [("TRIANGLE", [[1, 2, 0]])]⟩,
   [⟨"p", ⟨.int true 32, [3], [30, 10, 20]⟩⟩], [⟨"c", "TRIANGLE", ⟨.flt f64, [1], [7]⟩⟩]⟩
def wsB : MeshFields :=
  ⟨⟨2, [[0, 1], [0, 0], [1, 1]], [("TRIANGLE", [[1, 2, 0]])]⟩,
   [⟨"p", ⟨.int true 32, [3], [40, 10, 30]⟩⟩], [⟨"c", "TRIANGLE", ⟨.flt f64, [1], [8]⟩⟩]⟩

example : PieceOk wsA 2 ["c"] ["p"] (fun _ => 1) (fun _ => 1) (fun _ => .flt f64) (fun _ => .int true 32) := by
  constructor <;> decide
example : PieceOk wsB 2 ["c"] ["p"] (fun _ => 1) (fun _ => 1) (fun _ => .flt f64) (fun _ => .int true 32) := by
  constructor <;> decide
example : bringsNewPoint wsA.mesh.points wsB.mesh.points = true ∧ f3Class [wsA, wsB] = false ∧
    f3Class [wsB, wsA] = false := by decide
example : wsWhole.mesh.points.Nodup := by decide
-- the pieces split the whole data set (cells per type with data; point items)
example : (cellItemsOf wsWhole ["c"] "TRIANGLE").Perm ([wsA, wsB].flatMap (cellItemsOf · ["c"] "TRIANGLE")) := by
  decide
example : (∀ f ∈ [wsA, wsB], ∀ it ∈ pointItemsOf f ["p"], it ∈ pointItemsOf wsWhole ["p"]) ∧
    (∀ it ∈ pointItemsOf wsWhole ["p"], ∃ f ∈ [wsA, wsB], it ∈ pointItemsOf f ["p"]) := by decide
-- all hypotheses of `C06_unstructured_partial` hold together (with the driver's sort): the theorem applies
example : ∃ m, mergeAll lexsortIdx [wsB, wsA] = some m ∧
    (∀ ct, (cellItemsOf m ["c"] ct).Perm (cellItemsOf wsWhole ["c"] ct)) ∧
    (pointItemsOf m ["p"]).Perm (pointItemsOf wsWhole ["p"]) ∧ m.mesh.points.Nodup ∧
    PieceOk m 2 ["c"] ["p"] (fun _ => 1) (fun _ => 1) (fun _ => .flt f64) (fun _ => .int true 32) :=
  C06_unstructured_partial lexsortIdx (fun pts d h => lexsortIdx_isLexSort pts d h) 2 ["c"] ["p"]
    (fun _ => 1) (fun _ => 1) (fun _ => .flt f64) (fun _ => .int true 32) wsWhole [wsB, wsA]
    (by intro f hf
        simp only [List.mem_cons, List.not_mem_nil, or_false] at hf
        rcases hf with rfl | rfl <;> (constructor <;> decide))
    (by decide)
    (by intro ct
        by_cases h : ct = "TRIANGLE"
        · subst h; decide
        · have h' : ("TRIANGLE" == ct) = false := by simpa using fun e => h e.symm
          simp [cellItemsOf, Mesh.cellsOf, wsWhole, wsA, wsB, List.find?, h'])
    (by decide) (by decide) (by decide) (by decide)
-- and the conclusion is observable, in both listing orders
example : (mergeAll lexsortIdx [wsA, wsB]).map (readsAsWholeBy ["c"] ["p"] · wsWhole) = some true ∧
    (mergeAll lexsortIdx [wsB, wsA]).map (readsAsWholeBy ["c"] ["p"] · wsWhole) = some true ∧
    (mergeAll lexsortIdx [wsA, wsB]).map (readsAsWhole · wsWhole) = some true := by decide
-- the merged cell data follows the cells: 7 stays on the lower triangle, 8 on the upper one
example : (mergeAll lexsortIdx [wsB, wsA]).map (cellItemsOf · ["c"] "TRIANGLE") =
    some [⟨"TRIANGLE", [[0, 0], [1, 1], [0, 1]], [("c", [8])]⟩,
          ⟨"TRIANGLE", [[0, 0], [1, 0], [1, 1]], [("c", [7])]⟩] := by decide

-- the driver's Bool hypothesis holds on these pieces, so `C06_hyp_sound` yields `PieceOk` for both
example : mergeHyp [wsB, wsA] = true := by decide
example : ∃ (rsC rsP : String → Nat) (dtC dtP : String → DType), ∀ f ∈ [wsB, wsA],
    PieceOk f 2 ["c"] ["p"] rsC rsP dtC dtP :=
  C06_hyp_sound wsB [wsA] (by decide)
-- a piece with coincident points fails the hypothesis (and is outside the theorems)
example : mergeHyp [⟨⟨2, [[0, 0], [0, 0]], []⟩, [], []⟩] = false := by decide

/-! ### index remapping, duplicate search -/

-- local points 1 and 3 are duplicates of global points 7 and 2; offset 10
example : mapExternal [none, some 7, none, some 2, none] 10 = [10, 7, 11, 2, 12] ∧
    filterExternal [none, some 7, none, some 2, none] = [0, 2, 4] := by decide

-- hypotheses of C06_dup_search are satisfiable with the driver's sort on a non-trivial input
example : mapDuplicatePoints (lexsortIdx [[2, 0], [0, 1], [0, 0], [1, 5]]) [[2, 0], [0, 1], [0, 0], [1, 5]]
    [[0, 0], [9, 9], [1, 5], [0, 2]] = [none, none, some 0, some 2] := by decide

/-! ### structured merger -/

-- a 3 x 2 lattice cut into (1+2) x (2): index maps of the two pieces, cells and points
example : pieceEntityIndices false [[1, 2], [2]] [0, 0] = [0, 3] ∧
    pieceEntityIndices false [[1, 2], [2]] [1, 0] = [1, 2, 4, 5] ∧
    pieceEntityIndices true [[1, 2], [2]] [0, 0] = [0, 1, 4, 5, 8, 9] ∧
    pieceEntityIndices true [[1, 2], [2]] [1, 0] = [1, 2, 3, 5, 6, 7, 9, 10, 11] := by decide

-- single-valued data merge to the whole field; the shared points 1, 5, 9 are written twice
example : mergeStructured true [[1, 2], [2]] (restrictField true [[1, 2], [2]] (fun g => (10 * g : Int))) 0
    = wholeField 12 (fun g => (10 * g : Int)) := by decide

-- a point decomposition needs at least one piece per direction (hypothesis of C06_structured_index)
example : mergeStructured true [[]] (fun _ => ([] : List Int)) 0 = [0] := by decide

/-! ### decomposition recovery, PVTR ordinates (former findings F16, F17) -/

-- 2 x 1 pieces of a 4 x 2 grid listed in reverse order, extents shifted by (3, -2, 0)
example : (structuredDecomposition [[5, 7, -2, 0, 0, 0], [3, 5, -2, 0, 0, 0]]).cellsPerAxis = [[2, 2], [2], [0]] ∧
    (structuredDecomposition [[5, 7, -2, 0, 0, 0], [3, 5, -2, 0, 0, 0]]).pieceLocations = [[1, 0], [0, 0]] ∧
    (structuredDecomposition [[5, 7, -2, 0, 0, 0], [3, 5, -2, 0, 0, 0]]).domainId [0, 0] = 1 := by decide

-- x–y grid at z = 0 split in x: ordinates assembled correctly
example : pvtrOrdinates (structuredDecomposition [[0, 1, 0, 1, 0, 0], [1, 3, 0, 1, 0, 0]])
    [[[0, 10], [0, 5], [0]], [[10, 20, 30], [0, 5], [0]]] = some [[0, 10, 20, 30], [0, 5], [0]] := by decide
-- (former finding F17, fixed by 444374c) the same grid at z = 7 keeps z = 7
example : pvtrOrdinates (structuredDecomposition [[0, 1, 0, 1, 0, 0], [1, 3, 0, 1, 0, 0]])
    [[[0, 10], [0, 5], [7]], [[10, 20, 30], [0, 5], [7]]] = some [[0, 10, 20, 30], [0, 5], [7]] := by decide
-- (former finding F16, fixed by 444374c) a grid in the x–z plane split in z, pieces listed in reverse
-- order: the z ordinates are those of the whole grid
example : pvtrOrdinates (structuredDecomposition [[0, 1, 0, 0, 1, 3], [0, 1, 0, 0, 0, 1]])
    [[[0, 10], [0], [5, 6, 7]], [[0, 10], [0], [0, 5]]] = some [[0, 10], [0], [0, 5, 6, 7]] := by decide
-- hypotheses of `C06_pvtr_line` / `C06_pvtr_ordinates_given_consulted` are satisfiable
example : axisPieces [0, 5, 6, 7] 0 [1, 2] = [[0, 5], [5, 6, 7]] ∧
    assembleLine (List.replicate 4 0) (axisPieces [0, 5, 6, 7] 0 [1, 2]) = some [0, 5, 6, 7] := by decide


/-! ### three-axis decomposition recovery and the whole structured read (non-vacuity) -/

/-- an x–z grid (y flat): 3 cells in x cut into 1 + 2, 2 cells in z in one piece; extents shifted -/
def wd3 : List (List Nat) := [[1, 2], [0], [2]]
def wOrigin : List Int := [3, -2, 0]
/-- the two pieces, listed in reverse order -/
def wL : List (List Nat) := [[1, 0, 0], [0, 0, 0]]

example : decompOk wd3 = true ∧ wL.Perm (locationsIn (piecesShape wd3)) := by decide
example : meshedDirs wd3 = [0, 2] ∧ mergerOf wd3 = [[1, 2], [2]] ∧
    wL.map (pieceExtent wd3 wOrigin) = [[4, 6, -2, -2, 0, 2], [3, 4, -2, -2, 0, 2]] ∧
    wholeExtent wd3 wOrigin = [3, 6, -2, -2, 0, 2] := by decide
-- what `C06_decomposition` states, observed on this instance
example : (structuredDecomposition (wL.map (pieceExtent wd3 wOrigin))).cellsPerAxis = [[1, 2], [0], [2]] ∧
    (structuredDecomposition (wL.map (pieceExtent wd3 wOrigin))).pieceLocations = [[1, 0], [0, 0]] ∧
    (structuredDecomposition (wL.map (pieceExtent wd3 wOrigin))).domainIdChecked [0, 0] = some 1 ∧
    (structuredDecomposition (wL.map (pieceExtent wd3 wOrigin))).domainIdChecked [1, 0] = some 0 ∧
    (structuredDecomposition (wL.map (pieceExtent wd3 wOrigin))).domainIdChecked [2, 0] = none := by decide

/-- a whole `.vtr` file over that lattice: 4 x 1 x 3 points, an int32 point field with two components,
    a float64 cell field -/
def wRect : SFile :=
  ⟨[3, 6, -2, -2, 0, 2], .rect [[0, 10, 20, 30], [7], [0, 5, 6]],
   [("p", ⟨.int true 32, [12, 2], (List.range 24).map Int.ofNat⟩)],
   [("c", ⟨.flt f64, [6], [60, 61, 62, 63, 64, 65]⟩)]⟩

example : wholeOk wRect wd3 wOrigin = true := by decide
-- the piece files: piece (1,0,0) carries x = 10..30 and 9 of the 12 points
example : (pieceFile wRect wd3 wOrigin [1, 0, 0]).geom = .rect [[10, 20, 30], [7], [0, 5, 6]] ∧
    (pieceFile wRect wd3 wOrigin [1, 0, 0]).cellFields = [("c", ⟨.flt f64, [4], [61, 62, 64, 65]⟩)] ∧
    (pieceFile wRect wd3 wOrigin [0, 0, 0]).geom = .rect [[0, 10], [7], [0, 5, 6]] := by decide
-- all hypotheses of `C06_structured` hold together: the theorem applies …
example : pvtkReadStructured UNIT (wL.map (pieceFile wRect wd3 wOrigin)) = some (wholeRead UNIT wRect) :=
  C06_structured UNIT wRect wd3 wOrigin wL (by decide) (by decide) (by decide)
-- … and its conclusion is observable (dtypes int32 / float64 and the ordinate 7 of the flat direction kept)
example : (pvtkReadStructured UNIT (wL.map (pieceFile wRect wd3 wOrigin))).map (·.mesh) =
      some (.rect [3, 0, 2] [[0, 10, 20, 30], [7], [0, 5, 6]]) ∧
    (pvtkReadStructured UNIT (wL.map (pieceFile wRect wd3 wOrigin))).map (·.cellFields) =
      some [("c", ⟨.flt f64, [6], [60, 61, 62, 63, 64, 65]⟩)] := by decide

/-- the same lattice as an image file with a basis that is not the identity (U = 2 fractional bits to keep
    the numbers small: 4 units = 1.0) -/
def wImage : SFile := ⟨[3, 6, -2, -2, 0, 2], .image [4, 0, -8] [4, 2, 8] [[0, -4, 0], [4, 0, 0], [0, 0, 4]], [], []⟩
example : wholeOk wImage wd3 wOrigin = true := by decide
-- merged grid = whole grid: origin = Origin + B·(spacing ∘ (3, -2, 0)) = (1 + 1, 0 + 3, -2 + 0)
example : pvtkReadStructured 2 (wL.map (pieceFile wImage wd3 wOrigin)) = some (wholeRead 2 wImage) ∧
    (wholeRead 2 wImage).mesh =
      .image ⟨[3, 0, 2], [8, 12, -8], [4, 2, 8], [[0, -4, 0], [4, 0, 0], [0, 0, 4]]⟩ := by decide

-- a listing that omits a piece is not covered by the theorems (and indeed reads as something else)
example : ¬ [[1, 0, 0]].Perm (locationsIn (piecesShape wd3)) := by decide
example : pvtkReadStructured UNIT ([[1, 0, 0]].map (pieceFile wRect wd3 wOrigin)) ≠ some (wholeRead UNIT wRect) := by
  decide

end Fc.C06
