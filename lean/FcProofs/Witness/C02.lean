/-
  Witnesses for property C02: the hypotheses of the theorems are satisfiable on concrete non-trivial
  inputs (non-vacuity), the model computes the expected results there, and each extra hypothesis is
  necessary (negation witnesses).

  `List.mergeSort` is defined by well-founded recursion and does not reduce in the kernel, so the
  evaluations below use a structurally recursive instance of `IsArgsort` (insertion sort, and its
  reversed-tie variant) — the theorems hold for every instance.
-/
import FcProofs.Props.C02
namespace Fc.C02.Witness
open Fc Fc.C02 Fc.C02.Spec

/-! ### kernel-reducible `argsort` instances -/

def leP (a b : Nat × Int) : Prop := a.2 ≤ b.2
instance : DecidableRel leP := fun a b => inferInstanceAs (Decidable (a.2 ≤ b.2))
instance : Std.Total leP := ⟨fun a b => Int.le_total a.2 b.2⟩
instance : IsTrans (Nat × Int) leP := ⟨fun _ _ _ h1 h2 => Int.le_trans h1 h2⟩

def argsortIns (keys : List Int) : List Nat :=
  (((List.range keys.length).zip keys).insertionSort leP).map (·.1)

def argsortInsRev (keys : List Int) : List Nat :=
  (((List.range keys.length).zip keys).reverse.insertionSort leP).map (·.1)

theorem argsort_of_pairs_ins (keys : List Int) (ps : List (Nat × Int))
    (hps : ps.Perm ((List.range keys.length).zip keys)) :
    ((ps.insertionSort leP).map (·.1)).Perm (List.range keys.length) ∧
    (((ps.insertionSort leP).map (·.1)).map fun i => keys.getD i 0).Pairwise (· ≤ ·) := by
  have hperm : (ps.insertionSort leP).Perm ((List.range keys.length).zip keys) :=
    (List.perm_insertionSort leP ps).trans hps
  constructor
  · have := hperm.map (·.1)
    rwa [List.map_fst_zip (by simp)] at this
  · rw [List.map_map, List.pairwise_map]
    refine (List.pairwise_insertionSort leP ps).imp_of_mem ?_
    intro a b ha hb hab
    have ea := mem_zip_range keys a (hperm.mem_iff.mp ha)
    have eb := mem_zip_range keys b (hperm.mem_iff.mp hb)
    simp only [Function.comp]
    rw [ea, eb]
    exact hab

theorem isArgsort_ins : IsArgsort argsortIns :=
  ⟨fun keys => (argsort_of_pairs_ins keys _ (List.Perm.refl _)).1,
   fun keys => (argsort_of_pairs_ins keys _ (List.Perm.refl _)).2⟩

theorem isArgsort_insRev : IsArgsort argsortInsRev :=
  ⟨fun keys => (argsort_of_pairs_ins keys _ (List.reverse_perm _)).1,
   fun keys => (argsort_of_pairs_ins keys _ (List.reverse_perm _)).2⟩

/-- the two instances really break ties differently -/
example : argsortIns [5, 5, 1] = [2, 0, 1] ∧ argsortInsRev [5, 5, 1] = [2, 1, 0] := by decide

/-! ### the positional run walk, incl. the "+1 upper edge" -/

example : walkRuns [true, true, false, false, true, false] = [(0, 3), (4, 6)] := by decide
example : walkRuns [false, true, true] = [] := by decide          -- an open block is not yielded

/-! ### the fuzzy lexsort on three columns (the F1 witness family) -/

/-- the unit 1.0 -/
def one : Int := 2 ^ 1074

/-- a 3x3 lattice in the x–z plane stored with three coordinates (constant y), rows shuffled -/
def xzRows : List (List Int) :=
  [[one, 0, 2 * one], [0, 0, one], [2 * one, 0, 0], [one, 0, 0], [0, 0, 2 * one], [2 * one, 0, one],
   [0, 0, 0], [one, 0, one], [2 * one, 0, 2 * one]]

def xzTol : MeshTol := meshTolOf ⟨3, xzRows, []⟩

/-- the hypotheses of `C02_lexsort_sorted` hold for this array (non-vacuity) … -/
theorem xz_sep : SepCols xzTol (sepA xzTol) (sepB xzTol) (2 * 2 ^ 1074)
    (fun j (it : Nat × List Int) => it.2.getD j 0) 3 ((List.range xzRows.length).zip xzRows) where
  hAB := sepA_sepB _
  bounds := by decide +kernel
  sep := by decide +kernel
  mag := by decide +kernel

/-- … so the theorem applies, for the unstable-tie instance as well: -/
example := C02_lexsort_sorted isArgsort_insRev xzTol _ _ _ 3 xzRows (by decide) xz_sep

/-- … and the model indeed returns the lexicographic order, whatever the tie-breaking. -/
example : fuzzyLexSortIdx argsortIns xzTol.closeIs 3 xzRows = [6, 1, 4, 3, 7, 0, 2, 5, 8] ∧
    fuzzyLexSortIdx argsortInsRev xzTol.closeIs 3 xzRows = [6, 1, 4, 3, 7, 0, 2, 5, 8] := by
  decide +kernel

/-- NEGATION WITNESS for the pinned code (defect F1, repaired upstream): the loop of the code before
    the repair — the run mask of column j is taken from column j-1 alone, no `logical_and` — -/
def lexLoopPinned {α : Type} (srt : (α → Int) → List α → List α) (close : Int → Int → Bool)
    (key : Nat → α → Int) : Nat → Nat → List α → List α
  | 0, _, l => l
  | fuel + 1, dim, l =>
    let dimEq := adjacentClose close (l.map (key (dim - 1)))
    let l' := (walkRuns dimEq).foldl (applyRun (srt (key dim))) l
    lexLoopPinned srt close key fuel (dim + 1) l'

def pinnedIdx (as : List Int → List Nat) (rows : List (List Int)) : List Nat :=
  (lexLoopPinned (fun k l => sorterOf as k l) xzTol.closeIs (fun j (it : Nat × List Int) => it.2.getD j 0) 2 1
    (sorterOf as (fun (it : Nat × List Int) => it.2.getD 0 0) ((List.range rows.length).zip rows))).map (·.1)

/-- … returns an order that is not lexicographic and depends on the tie-breaking of `argsort`:
    `C02_lexsort_sorted` and `C02_mask_and_is_split` are false for it with three columns. -/
example : pinnedIdx argsortIns xzRows = [6, 3, 2, 1, 7, 5, 4, 0, 8] ∧
    pinnedIdx argsortInsRev xzRows = [2, 3, 6, 5, 7, 1, 8, 0, 4] := by
  decide +kernel

/-! ### the point sort with coincident points -/

/-- two triangles on the unit square whose common diagonal is duplicated (a discontinuous mesh) -/
def wMesh : Mesh :=
  { dim := 2,
    points := [[0, 0], [one, 0], [one, one], [0, one], [0, 0], [one, one]],
    cells := [("TRIANGLE", [[0, 1, 2], [4, 5, 3]])] }

def wTol : MeshTol := meshTolOf wMesh
def wCands : List (List Int) := (pointSpec (sepA wTol) wMesh).cands

/-- the decidable hypothesis the driver evaluates holds … -/
example : pointHyp wTol wMesh = true := by decide +kernel

/-- … and so does the Prop-level hypothesis of the theorems (non-vacuity of `PointHypP`) -/
theorem w_hyp : PointHypP wTol (sepA wTol) (sepB wTol) (2 ^ 1074) wMesh wCands where
  dimPos := by decide
  rowLen := by decide
  sepP := ⟨sepA_sepB _, by decide +kernel, by decide +kernel, by decide +kernel⟩
  sepC := ⟨sepA_sepB _, by decide +kernel, by decide +kernel, by decide +kernel⟩
  centres := by
    have h : ∀ a ∈ pitems wMesh, ∀ b ∈ pitems wMesh, a ≠ b →
        kvec (KC (sepA wTol) wMesh) wMesh.dim 0 a = kvec (KC (sepA wTol) wMesh) wMesh.dim 0 b →
        (centresOf wMesh a.1).any (fun cs => cs.all fun c => wCands.contains c) = true := by
      decide +kernel
    intro a ha b hb hab hk
    have := h a ha b hb hab hk
    cases hc : centresOf wMesh a.1 with
    | none => rw [hc] at this; simp at this
    | some cs =>
      rw [hc] at this
      simp only [Option.any_some, List.all_eq_true, List.contains_eq_mem, decide_eq_true_eq] at this
      exact ⟨cs, rfl, this⟩

/-- the theorems apply … -/
example := C02_sort_points_sorted isArgsort_insRev w_hyp (by decide)

/-- … and the model orders the coincident points by their minimal adjacent cell centres
    (point 4 belongs to the upper-left triangle, whose centre (1/3, 2/3) is lexicographically smaller
    than (2/3, 1/3)), for both tie-breakings: -/
example : sortPointsIdx argsortIns wTol wMesh = some [4, 0, 3, 1, 5, 2] ∧
    sortPointsIdx argsortInsRev wTol wMesh = some [4, 0, 3, 1, 5, 2] := by
  decide +kernel

/-! ### negation witnesses: indistinguishable coincident points -/

/-- two coincident line cells (both end points duplicated): `Distinguishable` fails -/
def twinLines : Mesh := { dim := 1, points := [[0], [one], [0], [one]], cells := [("LINE", [[0, 1], [2, 3]])] }

example : pointHyp (meshTolOf twinLines) twinLines = false := by decide +kernel

/-- an `argsort` that breaks ties differently for arrays of different length (still `IsArgsort`) -/
def argsortMixed (keys : List Int) : List Nat :=
  if keys.length = 2 then argsortIns keys else argsortInsRev keys

theorem isArgsort_mixed : IsArgsort argsortMixed where
  perm keys := by
    unfold argsortMixed
    split
    · exact isArgsort_ins.perm keys
    · exact isArgsort_insRev.perm keys
  sorted keys := by
    unfold argsortMixed
    split
    · exact isArgsort_ins.sorted keys
    · exact isArgsort_insRev.sorted keys

/-- without the distinguishability hypothesis `hdist` the conclusion of
    `C02_sort_points_tie_independent` fails: -/
example : sortPointsIdx argsortIns (meshTolOf twinLines) twinLines ≠
    sortPointsIdx argsortMixed (meshTolOf twinLines) twinLines := by
  decide +kernel

/-- two coincident triangles carrying different point values, and the same data set with the two
    copies exchanged (points i ↔ i+3, cells exchanged): the stored meshes are identical -/
def twinMesh : Mesh :=
  { dim := 2, points := [[0, 0], [one, 0], [0, one], [0, 0], [one, 0], [0, one]],
    cells := [("TRIANGLE", [[0, 1, 2], [3, 4, 5]])] }
def twinA : MeshFields :=
  ⟨twinMesh, [⟨"p", ⟨.flt f64, [6], [1 * one, 2 * one, 3 * one, 4 * one, 5 * one, 6 * one]⟩⟩], []⟩
def twinB : MeshFields :=
  ⟨twinMesh, [⟨"p", ⟨.flt f64, [6], [4 * one, 5 * one, 6 * one, 1 * one, 2 * one, 3 * one]⟩⟩], []⟩
def hDemo (l : List Nat) : Int := l.foldl (fun a x => a * 1000 + x) 0

/-- without `Distinguishable` the conclusion of `C02_no_false_fail` fails (the as-is rung passes the
    domain check and the point field fails: hypothesis `hearly0` of the partial theorem is violated) -/
example : ladderPasses (ladder argsortIns argsortIns hDemo {} twinB twinA) = false := by
  decide +kernel

/-- a relabelled pair that does pass: the square of `wMesh` with its points reversed -/
def wA : MeshFields :=
  ⟨wMesh, [⟨"p", ⟨.flt f64, [6], [1 * one, 2 * one, 3 * one, 4 * one, 5 * one, 6 * one]⟩⟩],
   [⟨"c", "TRIANGLE", ⟨.int true 64, [2], [10, 20]⟩⟩]⟩
def wB : MeshFields :=
  ⟨{ dim := 2,
     points := [[one, one], [0, 0], [0, one], [one, one], [one, 0], [0, 0]],
     cells := [("TRIANGLE", [[1, 0, 2], [5, 4, 3]])] },
   [⟨"p", ⟨.flt f64, [6], [6 * one, 5 * one, 4 * one, 3 * one, 2 * one, 1 * one]⟩⟩],
   [⟨"c", "TRIANGLE", ⟨.int true 64, [2], [20, 10]⟩⟩]⟩

example : ladder argsortIns argsortInsRev hDemo {} wB wA =
    .done 3 ⟨true, [("p", "", .passed), ("c", "TRIANGLE", .passed)]⟩ := by
  decide +kernel

/-! ### the full noise-free canonicity theorem applies to a concrete relabelled pair -/

/-- `wB` stores `wMesh` with the points reversed (`ρ`: new ↦ old) and the two cells exchanged -/
theorem w_relabeled : Relabeled wMesh wB.mesh [5, 4, 3, 2, 1, 0] where
  dim := rfl
  perm := by decide
  points := by decide +kernel
  wf := by decide +kernel
  rows := by decide +kernel

theorem w_pointHyp : pointHyp wTol wMesh = true := by decide +kernel
theorem wB_pointHyp : pointHyp wTol wB.mesh = true := by decide +kernel

theorem w_cands_same : ∀ x, x ∈ (pointData (sepA wTol) wMesh).cands ↔ x ∈ (pointData (sepA wTol) wB.mesh).cands := by
  have h : ((pointData (sepA wTol) wMesh).cands.all fun x => (pointData (sepA wTol) wB.mesh).cands.contains x) = true ∧
      ((pointData (sepA wTol) wB.mesh).cands.all fun x => (pointData (sepA wTol) wMesh).cands.contains x) = true := by
    decide +kernel
  simp only [List.all_eq_true, List.contains_eq_mem, decide_eq_true_eq] at h
  exact fun x => ⟨h.1 x, h.2 x⟩

/-- all hypotheses of `C02_canonical_points` hold for this pair; the conclusion is obtained for the
    stable argsort on one side and the reversed-tie insertion sort on the other -/
example : ∃ L1 L2, sortPointsItems argsortStable wTol wMesh = some L1 ∧
    sortPointsItems argsortInsRev wTol wB.mesh = some L2 ∧
    L1.map (relabelItem [5, 4, 3, 2, 1, 0]) = L2 ∧ L1.map (·.2) = L2.map (·.2) :=
  C02_canonical_points isArgsort_stable isArgsort_insRev (C02_hyp_sound w_pointHyp).1
    (C02_hyp_sound wB_pointHyp).1 w_cands_same w_relabeled (by decide) (C02_hyp_sound w_pointHyp).2

/-! ### phase 2: the relabelled-pair theorems apply to `wB = relabel ρ κ wA` -/

/-- `wB` IS the relabelling of `wA` by the point order `[5,4,3,2,1,0]` and the cell order `[1,0]` -/
def wκ (ct : String) : List Nat := if ct = "TRIANGLE" then [1, 0] else []

theorem wB_relabel : relabelF [5, 4, 3, 2, 1, 0] wκ wA = wB := by decide +kernel

/-- the decidable hypothesis on the ONE underlying data set holds (non-vacuity of `BaseHyp`) -/
theorem wA_sortIdx :
    sortPointsIdx argsortStable (meshTolOf wA.mesh) (baseOf wA).mesh = some [4, 0, 3, 1, 5, 2] := by
  have hp : pointHyp (meshTolOf wA.mesh) (baseOf wA).mesh = true := by decide +kernel
  rw [← (C02_sort_points_canonical isArgsort_ins hp).1]
  decide +kernel

theorem wA_baseHyp : baseHyp hDemo wA = true := by
  simp only [baseHyp, wA_sortIdx]
  decide +kernel

theorem wκ_ok : CellMapsOk wA wκ := by
  intro ct
  by_cases e : ct = "TRIANGLE"
  · subst e; decide
  · have hne : (("TRIANGLE" : String) == ct) = false := by
      simp only [beq_eq_false_iff_ne, ne_eq]
      exact fun h => e h.symm
    have h0 : wA.mesh.cellsOf ct = [] := by
      unfold Mesh.cellsOf
      simp [wA, wMesh, hne]
    simp [wκ, e, h0]

/-- `C02_sort_canonical`: `sort(wB) = sort(wA)` as complete data sets, for the stable argsort on one
    side and the reversed-tie insertion sort on the other -/
example : ∃ S, sortMesh argsortStable hDemo (meshTolOf wB.mesh) wB = some S ∧
    sortMesh argsortInsRev hDemo (meshTolOf wA.mesh) wA = some S := by
  have h := C02_sort_canonical isArgsort_stable isArgsort_insRev (C02_base_hyp_sound wA_baseHyp)
    (ρ1 := [5, 4, 3, 2, 1, 0]) (ρ2 := List.range wA.mesh.points.length) (by decide) (List.Perm.refl _)
    wκ_ok (idCellMaps_ok wA)
  rw [wB_relabel, C02_relabel_id (by decide +kernel)] at h
  exact h

/-- … and the sorted view is the expected one (evaluated with the kernel-reducible instance) -/
example : sortMesh argsortIns hDemo (meshTolOf wB.mesh) wB = sortMesh argsortInsRev hDemo (meshTolOf wA.mesh) wA := by
  decide +kernel

/-- `C02_no_false_fail_noise_free_partial` applies to `(wB, wA)` in either role; its remaining
    hypothesis `hrigid` holds because `mesh_equal` rejects the pair as stored -/
example : ladderPasses (ladder argsortStable argsortInsRev hDemo {} wB wA) = true ∧
    ladderPasses (ladder argsortStable argsortInsRev hDemo {} wA wB) = true := by
  have h := C02_no_false_fail_noise_free_partial isArgsort_stable isArgsort_insRev
    (C02_base_hyp_sound wA_baseHyp) (ρ := [5, 4, 3, 2, 1, 0]) (κ := wκ) (by decide) wκ_ok
    (fun h => absurd (wB_relabel ▸ h) (by decide +kernel))
    (fun h => absurd (wB_relabel ▸ h) (by decide +kernel))
  rw [wB_relabel] at h
  exact h

/-- NEGATION WITNESS for `hrigid`: `twinB` is the relabelling of `twinA` that exchanges the two stacked
    triangles; `mesh_equal` accepts the pair as stored although the point order is not the identity —
    and the comparison reports a false FAIL (see above).  `twinA` is outside `Distinguishable`. -/
example : relabelF [3, 4, 5, 0, 1, 2] (fun ct => if ct = "TRIANGLE" then [1, 0] else []) twinA = twinB ∧
    meshEqual (meshTolOf twinA.mesh) twinB.mesh twinA.mesh = true ∧
    baseHyp hDemo twinA = false := by
  decide +kernel

/-! ### a data set without coincident points: `C02_no_false_fail_continuous` applies with NO extra assumption -/

/-- the unit square cut into two triangles, one point value per corner, one cell value per triangle -/
def sqA : MeshFields :=
  ⟨{ dim := 2, points := [[0, 0], [one, 0], [one, one], [0, one]], cells := [("TRIANGLE", [[0, 1, 2], [0, 2, 3]])] },
   [⟨"p", ⟨.flt f64, [4], [1 * one, 2 * one, 3 * one, 4 * one]⟩⟩],
   [⟨"c", "TRIANGLE", ⟨.int true 64, [2], [10, 20]⟩⟩]⟩

theorem sqA_sortIdx : sortPointsIdx argsortStable (meshTolOf sqA.mesh) (baseOf sqA).mesh = some [0, 3, 1, 2] := by
  have hp : pointHyp (meshTolOf sqA.mesh) (baseOf sqA).mesh = true := by decide +kernel
  rw [← (C02_sort_points_canonical isArgsort_ins hp).1]
  decide +kernel

theorem sqA_baseHyp : baseHyp hDemo sqA = true := by
  simp only [baseHyp, sqA_sortIdx]
  decide +kernel

theorem sqA_continuous : continuousHyp sqA = true := by decide +kernel

theorem sqκ_ok : CellMapsOk sqA wκ := by
  intro ct
  by_cases e : ct = "TRIANGLE"
  · subst e; decide
  · have hne : (("TRIANGLE" : String) == ct) = false := by
      simp only [beq_eq_false_iff_ne, ne_eq]
      exact fun h => e h.symm
    have h0 : sqA.mesh.cellsOf ct = [] := by
      unfold Mesh.cellsOf
      simp [sqA, hne]
    simp [wκ, e, h0]

/-- every hypothesis is discharged by evaluation; the conclusion holds for two different argsorts,
    in both roles, for the relabelling `ρ = [2,0,3,1]`, cells exchanged -/
example : ladderPasses (ladder argsortStable argsortInsRev hDemo {} (relabelF [2, 0, 3, 1] wκ sqA) sqA) = true ∧
    ladderPasses (ladder argsortStable argsortInsRev hDemo {} sqA (relabelF [2, 0, 3, 1] wκ sqA)) = true :=
  C02_no_false_fail_continuous isArgsort_stable isArgsort_insRev sqA_baseHyp sqA_continuous (by decide) sqκ_ok

/-- the relabelled data set, and the model's verdict evaluated directly (kernel-reducible argsorts) -/
example : relabelF [2, 0, 3, 1] wκ sqA =
    ⟨{ dim := 2, points := [[one, one], [0, 0], [0, one], [one, 0]], cells := [("TRIANGLE", [[1, 0, 2], [1, 3, 0]])] },
     [⟨"p", ⟨.flt f64, [4], [3 * one, 1 * one, 4 * one, 2 * one]⟩⟩],
     [⟨"c", "TRIANGLE", ⟨.int true 64, [2], [20, 10]⟩⟩]⟩ ∧
    ladder argsortIns argsortInsRev hDemo {} (relabelF [2, 0, 3, 1] wκ sqA) sqA =
      .done 3 ⟨true, [("p", "", .passed), ("c", "TRIANGLE", .passed)]⟩ := by
  decide +kernel

/-- `wA` (coincident points on the diagonal) is outside `continuousHyp` -/
example : continuousHyp wA = false := by decide +kernel

end Fc.C02.Witness
