/-
  Non-vacuity for C13: concrete non-trivial inputs meet the hypotheses of the theorems and the conclusions are
  observable on them (evaluated by the kernel); negation witnesses show that the hypotheses are needed.
-/
import FcProofs.Props.C13
namespace Fc.W.Wit13
open Fc Fc.W

-- "Man" ↦ "TWFu", one and two padding characters
def asciiOf' (t : String) : List Nat := t.toList.map Char.toNat

example : b64enc [77, 97, 110] = asciiOf' "TWFu" ∧ b64enc [77] = asciiOf' "TQ==" ∧ b64enc [77, 97] = asciiOf' "TWE=" := by
  decide

-- a (2,3) float32 array: 1.0, -0.0, max, min subnormal, 0.1f, -2.0  (bit patterns)
def wArr : WArr := ⟨"float32", 2, [3], [0x3F800000, 0x80000000, 0x7F7FFFFF, 1, 0x3DCCCCCD, 0xC0000000]⟩

example : wArr.wf = true := by decide
example : ∃ e, makeDataArray "v" wArr none = some e ∧ e.vtk = "Float32" ∧ e.ncomps = 3 ∧
    readItems e = some ("float32", wArr.items) := by
  refine ⟨_, rfl, ?_, ?_, ?_⟩ <;> decide +kernel

-- the empty payload takes the "header only" branch of NoCompressor and still reads back (the writer's
-- `connectivity` of a mesh without cells)
example : noCompRead (encodeText 0 []) = some [] := by decide +kernel
example : (makeDataArray "connectivity" ⟨"uint64", 0, [], []⟩ (some 1)).bind readItems = some ("uint64", []) := by
  decide +kernel
-- … while a point field on an empty mesh cannot be written (RuntimeError in the code)
example : makeDataArray "p" ⟨"float64", 0, [], []⟩ none = none := by decide

-- payload lengths on all three base64 residues through header + payload (8 + n bytes)
example : ∀ n ∈ [0, 1, 2, 3, 4, 5, 6, 7], noCompRead (encodeText n (List.replicate n 255)) = some (List.replicate n 255) := by
  decide +kernel

-- cells: quads first, then triangles; per type the rows in mesh order (hypotheses of C13_cells_roundtrip hold)
example :
    let all : List (Nat × List Nat) := [(9, [0, 1, 4, 3]), (9, [1, 2, 5, 4]), (5, [3, 4, 6]), (5, [4, 7, 6])]
    cornersOf (all.flatMap (·.2)) (runningSums 0 (all.map (·.2.length))) (all.map (·.1)) 5 = some [[3, 4, 6], [4, 7, 6]] ∧
    cornersOf (all.flatMap (·.2)) (runningSums 0 (all.map (·.2.length))) (all.map (·.1)) 9 = some [[0, 1, 4, 3], [1, 2, 5, 4]] := by
  decide

-- negation witness: two polygons with different corner counts — the reader takes the count of the first cell
-- for both (hypothesis `∀ r ∈ rows, r.length = k` of C13_cells_roundtrip is necessary; such meshes are outside
-- the claim, DESIGN §5.5)
example :
    let all : List (Nat × List Nat) := [(7, [0, 1, 2]), (7, [0, 1, 2, 3])]
    cornersOf (all.flatMap (·.2)) (runningSums 0 (all.map (·.2.length))) (all.map (·.1)) 7 ≠ some [[0, 1, 2], [0, 1, 2, 3]] := by
  decide

-- cell data: two blocks (2 quads with vectors of 2, 1 triangle), split by the index map
example :
    gatherRows 2 [10, 11, 20, 21, 30, 31] (typeIndices [9, 9, 5] 5) = [30, 31] ∧
    gatherRows 2 [10, 11, 20, 21, 30, 31] (typeIndices [9, 9, 5] 9) = [10, 11, 20, 21] := by decide

-- the whole chain on a small data set: model read-back = spec (what the driver re-checks on every case)
def wF : WFields :=
  { dim := 2, ptype := "float64",
    points := [[0, 0], [0x3FF0000000000000, 0], [0x3FF0000000000000, 0x3FF0000000000000], [0, 0x3FF0000000000000],
               [0x4000000000000000, 0]],
    conntype := "int64",
    cells := [("QUAD", [[0, 1, 2, 3]]), ("TRIANGLE", [[1, 4, 2]])],
    pf := [("p", ⟨"int16", 5, [], [1, 2, 3, 65535, 32768]⟩)],
    cf := [("c", "QUAD", ⟨"uint8", 1, [2], [7, 8]⟩), ("c", "TRIANGLE", ⟨"uint8", 1, [2], [9, 10]⟩)] }

example : Spec.hyp wF = true := by decide +kernel
example : (writeVtu id wF).bind readVtu = Spec.normalise wF := by decide +kernel
example : (Spec.normalise wF).isSome = true := by decide +kernel

-- hypotheses of C13_vtu_arrays_roundtrip are met by this data set
example : (writeVtu id wF).isSome = true := by decide +kernel
example : (∀ f ∈ wF.pf, ArrOk f.2) ∧ ArrOk (pointArray id wF) ∧ allCells wF.cells ≠ [] := by
  refine ⟨?_, ⟨by decide +kernel, by decide +kernel, by decide +kernel⟩, by decide⟩
  intro f hf
  simp only [wF, List.mem_singleton] at hf
  subst hf
  exact ⟨by decide +kernel, by decide +kernel, by decide +kernel⟩

-- the full theorem applies to this data set (both hypotheses are decidable and hold)
example : Spec.sizeOk wF = true := by decide +kernel
example : ∃ file R, writeVtu id wF = some file ∧ Spec.normalise wF = some R ∧ readVtu file = some R :=
  C13_vtu_roundtrip wF (by decide +kernel) (by decide +kernel)

-- four blocks in mesh order QUAD (id 9), VERTEX (id 1, no cells), TRIANGLE (5), LINE (3), a vector cell field on
-- all of them: inside `hyp`; read back in `np.unique` order LINE, TRIANGLE, QUAD, the empty block dropped
def wMix : WFields :=
  { dim := 2, ptype := "float64",
    points := [[0, 0], [0x3FF0000000000000, 0], [0x3FF0000000000000, 0x3FF0000000000000], [0, 0x3FF0000000000000],
               [0x4000000000000000, 0]],
    conntype := "int32",
    cells := [("QUAD", [[0, 1, 2, 3]]), ("VERTEX", []), ("TRIANGLE", [[1, 4, 2]]), ("LINE", [[0, 1], [1, 4]])],
    pf := [("p", ⟨"float32", 5, [2, 2], (List.range 20).map (· + 0x3F800000)⟩), ("q", ⟨"uint64", 5, [], [0, 1, 2, 3, 0xFFFFFFFFFFFFFFFF]⟩)],
    cf := [("c", "QUAD", ⟨"uint8", 1, [2], [7, 8]⟩), ("c", "TRIANGLE", ⟨"uint8", 1, [2], [9, 10]⟩),
           ("c", "VERTEX", ⟨"uint8", 0, [2], []⟩), ("c", "LINE", ⟨"uint8", 2, [2], [1, 2, 3, 4]⟩)] }

example : Spec.hyp wMix = true ∧ Spec.sizeOk wMix = true := by constructor <;> decide +kernel
example : ((writeVtu id wMix).bind readVtu).map (fun R => (R.cells.map (·.1), R.cf.map (·.perType))) =
    some (["LINE", "TRIANGLE", "QUAD"], [[("LINE", [1, 2, 3, 4]), ("TRIANGLE", [9, 10]), ("QUAD", [7, 8])]]) := by
  decide +kernel

-- a mesh without cells (one empty block) is inside `hyp`: the `uint64` empty arrays, header-only branch
def wNoCells : WFields := { wF with cells := [("QUAD", [])], cf := [] }
example : Spec.hyp wNoCells = true ∧ Spec.sizeOk wNoCells = true := by constructor <;> decide +kernel
example : ((writeVtu id wNoCells).bind readVtu).map (·.cells) = some [] := by decide +kernel

-- negation witnesses for `hyp` (each violates exactly one clause; the model read-back differs from `normalise`):
-- two blocks of the same cell type are merged by the reader
def wDup : WFields := { wF with cells := [("QUAD", [[0, 1, 2, 3]]), ("QUAD", [[1, 4, 2, 0]])], cf := [] }
example : Spec.hyp wDup = false ∧ (writeVtu id wDup).bind readVtu ≠ Spec.normalise wDup := by
  constructor <;> decide +kernel
-- one cell field with different dtypes on two cell types: the model writes the second block's values with the
-- item size of the first (900 → 132; numpy would upcast instead — outside the claim either way)
def wDt : WFields :=
  { wF with cf := [("c", "QUAD", ⟨"uint8", 1, [2], [7, 8]⟩), ("c", "TRIANGLE", ⟨"uint16", 1, [2], [900, 10]⟩)] }
example : Spec.hyp wDt = false ∧ (writeVtu id wDt).bind readVtu ≠ Spec.normalise wDt := by
  constructor <;> decide +kernel

-- `np.unique` order on a concrete types array
example : uniqueTypes [9, 9, 5, 12, 5, 3] = [3, 5, 9, 12] := by decide

-- CSV: hypothesis satisfiable; a token containing the delimiter does not survive (negation witness)
example : csvHyp [[116], [120, 49]] [[[48, 46, 53], [49]], [[49, 46, 53], [45, 49]]] = true := by decide
example : csvRead (csvWrite [[97]] [[[49, 44, 50]]]) ≠ some ([[97]], [[[49, 44, 50]]]) := by decide
-- a single empty string cell makes the line vanish
example : csvRead (csvWrite [[97]] [[[]], [[98]]]) = some ([[97]], [[[98]]]) := by decide

-- the hypotheses of C13_csv_roundtrip_iff are satisfiable, and both sides of the equivalence occur:
-- a delimiter inside a cell token (right side false) ⇒ the table is not read back
example : csvRead (csvWrite [[97]] [[[49, 44, 50]]]) ≠ some ([[97]], [[[49, 44, 50]]]) := by
  intro h
  have := (C13_csv_roundtrip_iff [[97]] [[[49, 44, 50]]] (by decide) (by decide) (by decide)).mp h
  revert this
  decide
-- no delimiter anywhere (right side true) ⇒ read back
example : csvRead (csvWrite [[116], [120, 49]] [[[48, 46, 53], [49]]]) = some ([[116], [120, 49]], [[[48, 46, 53], [49]]]) :=
  (C13_csv_roundtrip_iff [[116], [120, 49]] [[[48, 46, 53], [49]]] (by decide) (by decide) (by decide)).mpr (by decide)
-- a delimiter inside a NAME changes the header (two columns read, one written)
example : (csvRead (csvWrite [[97, 44, 98]] [])).map (·.1) = some [[97], [98]] := by decide

end Fc.W.Wit13
