/-
  FcProofs.Witness.C04_Orchestration — phase 6 round 7: `_select_predicate` evaluated by the kernel on a concrete options object:
  an EXPLICIT absolute tolerance 0.0 for field "p" is handed on (not replaced by a fallback), an absent one falls back to 0.0, an
  absent relative tolerance falls back to `_default_base_tolerance()`; a float literal is an external constant.
-/
import FcGen.Tables
import FcProofs.Props.C04_Orchestration
namespace Fc.PyLite.WitnessC04O
open Fc Fc.PyLite Fc.PyLite.Cli Fc.C04

/-- options: `-atol p:0.0 -atol 7` (units), `-rtol q:3` -/
def wOpts : Opts := ⟨false, false, false, false, false, ⟨[("q", .num 3)], none⟩, ⟨[("p", .num 0)], some (.num 7)⟩, none, none⟩
def aKvs : List (Val × Val) := strDict (dictOf wOpts.atol.named)
def rKvs : List (Val × Val) := strDict (dictOf wOpts.rtol.named)
def sX : Ext := fun f args =>
  match f, args with
  | ".absolute_tolerances", [_, n] => Gen.cliFieldToleranceMapCallSrc.run noExt [ftmVal aKvs wOpts.atol.dflt, n]
  | ".relative_tolerances", [_, n] => Gen.cliFieldToleranceMapCallSrc.run noExt [ftmVal rKvs wOpts.rtol.dflt, n]
  | "float:0.0", [] => .ok (.int 0)
  | "_default_base_tolerance", [] => .ok (.str "eps")
  | "DefaultEquality(abs_tol=,rel_tol=)", [a, r] => .ok (.record [("abs_tol", a), ("rel_tol", r)])
  | _, _ => .stuck

/-- the assumptions are satisfiable -/
theorem sX_ok : SelExt sX (.str "opts") (.str "eps") aKvs rKvs wOpts where
  habs _ := rfl
  hrel _ := rfl
  harep := represents_dictOf _
  hrrep := represents_dictOf _
  hzero := rfl
  hdflt := rfl
  hctor _ _ := rfl

def fld (n : String) : Val := .record [("name", .str n), ("values", .none)]
-- field "p": the explicit 0.0 is handed on; no relative tolerance: the default
example : Gen.c04oSelectPredicateSrc.run sX [fcSelfV (.str "opts"), fld "p", fld "other"] =
    .ok (.record [("abs_tol", .int 0), ("rel_tol", .str "eps")]) := by rfl
-- field "q": the global absolute tolerance 7, its own relative tolerance 3; the REFERENCE field's name plays no role
example : Gen.c04oSelectPredicateSrc.run sX [fcSelfV (.str "opts"), fld "q", fld "p"] =
    .ok (.record [("abs_tol", .int 7), ("rel_tol", .int 3)]) := by rfl
example : absTolOf (wOpts.atol.get "p") = .num 0 ∧ absTolOf (wOpts.atol.get "q") = .num 7 ∧ relTolOf (wOpts.rtol.get "p") = .dflt :=
  ⟨rfl, rfl, rfl⟩

end Fc.PyLite.WitnessC04O
