/-
  Non-vacuity of the C19 residual theorems (Props/C19_Resid.lean) on concrete data:
  C02's witness pair `wB = relabel ρ κ wA` (two triangles on the unit square with a duplicated
  diagonal — coincident, distinguishable points; points reversed, cells exchanged), the comparator
  `Lw = paramsOf argsortIns hDemo true` of the C03 glue witness.
-/
import FcProofs.Props.C19_Resid
import FcProofs.Witness.C19_Glue
namespace Fc.Resid.Witness
open Fc Fc.Spec Fc.C19 Fc.C02 Fc.C02.Spec Fc.C02.Witness Fc.Glue Fc.Glue.Witness

/-! ### the hypotheses hold on both inputs (C02's decidable `baseHyp`, and the tolerances are not
    changed by stripping: there are no orphan points) -/

theorem wB_sortIdx :
    sortPointsIdx argsortStable (meshTolOf wB.mesh) (baseOf wB).mesh = some [1, 5, 2, 4, 0, 3] := by
  have hp : pointHyp (meshTolOf wB.mesh) (baseOf wB).mesh = true := by decide +kernel
  rw [← (C02_sort_points_canonical isArgsort_ins hp).1]
  decide +kernel

theorem wB_baseHyp : baseHyp hDemo wB = true := by
  simp only [baseHyp, wB_sortIdx]
  decide +kernel

theorem wA_tol : meshTolOf (baseOf wA).mesh = meshTolOf wA.mesh := by decide +kernel
theorem wB_tol : meshTolOf (baseOf wB).mesh = meshTolOf wB.mesh := by decide +kernel

/-- `SortHyp` (the Prop-level hypothesis of the theorems) holds for both data sets -/
theorem wA_sortHyp : SortHyp hDemo true wA (sepA (meshTolOf wA.mesh)) (sepB (meshTolOf wA.mesh))
    (pointData (sepA (meshTolOf wA.mesh)) (baseOf wA).mesh).M
    (pointData (sepA (meshTolOf wA.mesh)) (baseOf wA).mesh).cands :=
  sortHyp_of_baseHyp (C02_base_hyp_sound wA_baseHyp) wA_tol
theorem wB_sortHyp : SortHyp hDemo true wB (sepA (meshTolOf wB.mesh)) (sepB (meshTolOf wB.mesh))
    (pointData (sepA (meshTolOf wB.mesh)) (baseOf wB).mesh).M
    (pointData (sepA (meshTolOf wB.mesh)) (baseOf wB).mesh).cands :=
  sortHyp_of_baseHyp (C02_base_hyp_sound wB_baseHyp) wB_tol

/-! ### `C19_rerun_baseHyp` / `C19_rerun_inputs` apply: five consecutive calls, same suite -/

example : ∀ s ∈ rerun (cmpOps Lw (compareTol tolW)) flC 5 ⟨viewOf wB, viewOf wA⟩,
    s = (runComparator (cmpOps Lw (compareTol tolW)) flC ⟨viewOf wB, viewOf wA⟩).suite :=
  C19_rerun_baseHyp isArgsort_ins hDemo (compareTol tolW) flC wB wA (Or.inl rfl)
    wB_baseHyp wA_baseHyp wB_tol wA_tol 5

/-- with the stable merge sort on the hashes / inside the point sort (not kernel-reducible — the
    theorem does not need to evaluate anything) and dimension matching disabled -/
example : ∀ s ∈ rerun (cmpOps (paramsOf argsortStable hDemo true) (compareTol tolW)) ⟨false, true⟩ 7
      ⟨viewOf wB, viewOf wA⟩,
    s = (runComparator (cmpOps (paramsOf argsortStable hDemo true) (compareTol tolW)) ⟨false, true⟩
      ⟨viewOf wB, viewOf wA⟩).suite :=
  C19_rerun_inputs isArgsort_stable hDemo true (compareTol tolW) ⟨false, true⟩ wB wA (Or.inr rfl)
    wB_sortHyp wA_sortHyp 7

example : (rerun (cmpOps Lw (compareTol tolW)) flC 4 ⟨viewOf wB, viewOf wA⟩).getLast? =
    some (runComparator (cmpOps Lw (compareTol tolW)) flC ⟨viewOf wB, viewOf wA⟩).suite :=
  C19_fresh_comparator_equals_reused_inputs isArgsort_ins hDemo true (compareTol tolW) flC wB wA (Or.inl rfl)
    wB_sortHyp wA_sortHyp 3

/-! ### the fully sorted view, computed THROUGH the bridge (a)

  C08's `sort_cells` sorts the corner tuples with `List.mergeSort`, which the kernel cannot unfold;
  `C19_sorted_view_is_C02` identifies the view with C02's model (insertion sort), which it can. -/

theorem wB_entering_idx :
    sortPointsIdx argsortIns (meshTolOf (entering true wB).mesh) (entering true wB).mesh = some [1, 5, 2, 4, 0, 3] := by
  decide +kernel

/-- the sorted view of `wB`, explicitly -/
def gW : MeshFields :=
  ⟨{ dim := 2,
     points := [[0, 0], [0, 0], [0, one], [one, 0], [one, one], [one, one]],
     cells := [("TRIANGLE", [[0, 4, 2], [1, 3, 5]])] },
   [⟨"p", ⟨.flt f64, [6], [5 * one, 1 * one, 4 * one, 2 * one, 6 * one, 3 * one]⟩⟩],
   [⟨"c", "TRIANGLE", ⟨.int true 64, [2], [20, 10]⟩⟩]⟩

theorem gW_eq : C02.sortCells argsortIns hDemo (applyPointMap (entering true wB) [1, 5, 2, 4, 0, 3]) = gW := by
  decide +kernel

theorem wB_sortedView : sortedView Lw wB = some gW := by
  obtain ⟨σ, hσ, _, hv⟩ := C19_sorted_view_is_C02 isArgsort_ins wB_sortHyp
  rw [wB_entering_idx] at hσ
  cases hσ
  rw [← gW_eq]
  exact hv

/-- the sorted view differs from the input, and `_permute` / `sort_cells` leave it unchanged
    (`C19_sort_cells_idempotent`; the `_permute` half re-evaluated by the kernel) -/
example : gW ≠ wB := by decide +kernel
example : permuteFields Lw gW = some gW ∧ Fc.sortCells hDemo argsortIns gW = some gW := by
  obtain ⟨g, e1, e2, e3⟩ := C19_sort_cells_idempotent isArgsort_ins wB_sortHyp
  have e1' : sortedView Lw wB = some g := e1
  rw [wB_sortedView] at e1'
  cases e1'
  exact ⟨e2, e3⟩
example : permuteFields Lw gW = some gW := by decide +kernel

/-- both inputs have the SAME sorted view (C02's canonicity, seen through the C08 model) -/
example : sortedView Lw wA = some gW := by
  obtain ⟨σ, hσ, _, hv⟩ := C19_sorted_view_is_C02 isArgsort_ins wA_sortHyp
  have h1 : sortPointsIdx argsortIns (meshTolOf (entering true wA).mesh) (entering true wA).mesh =
      some [4, 0, 3, 1, 5, 2] := by decide +kernel
  rw [h1] at hσ
  cases hσ
  have h2 : C02.sortCells argsortIns hDemo (applyPointMap (entering true wA) [4, 0, 3, 1, 5, 2]) = gW := by
    decide +kernel
  rw [← h2]
  exact hv

/-! ### (a) the bridge on the witness, (c) the second sort returns the identity -/

example : stripOrphanPoints stableArgsortBool wB = some (baseOf wB) :=
  (C19_models_agree (wf2_WFP wB (by decide +kernel))).2.2.2 ⟨0, by decide⟩

example : Fc.sortCells hDemo argsortStable wB = some (C02.sortCells argsortStable hDemo wB) :=
  (C19_models_agree (wf2_WFP wB (by decide +kernel))).2.2.1 argsortStable hDemo isArgsort_stable

example : sortPointsIdx argsortInsRev (meshTolOf gW.mesh) gW.mesh = some [0, 1, 2, 3, 4, 5] := by decide +kernel

/-! ### the hypothesis has teeth: indistinguishable coincident points are outside it -/

example : sortHypB hDemo true twinA = false := by decide +kernel

end Fc.Resid.Witness
