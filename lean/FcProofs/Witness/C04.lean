/-
  Non-vacuity for C04: a concrete non-trivial scenario meets the hypothesis of the theorems, and
  their conclusions are observable on it (evaluated by the kernel).
-/
import FcProofs.Props.C04
namespace Fc.C04
open Fc

/-- what `float()` answers for the literals used below: 1e-3 ≈ 2^-10, 0.5 = 2^-1 (powers of two so
    that the boundary cases are exact) -/
def wPf : String → FloatLit := fun s =>
  if s == "2^-10" then .num (2 ^ 1064) else if s == "0.5" then .num (2 ^ 1073) else
  if s == "0" then .num 0 else .bad

/-- x : float64 column [1.0, 2.0] ;  n : integer column ;  s : string column (ids) -/
def wRef : List Field :=
  [⟨"x", ⟨.flt f64, [2], [2 ^ 1074, 2 ^ 1075]⟩⟩, ⟨"n", ⟨.int true 64, [2], [3, 4]⟩⟩, ⟨"s", ⟨.str, [2], [0, 1]⟩⟩]

/-- result: x[1] = 2.0 + 2^-9 (exactly on the threshold rel = 2^-10 · 2.0), field `s` missing,
    an extra field `t` -/
def wRes : List Field :=
  [⟨"x", ⟨.flt f64, [2], [2 ^ 1074, 2 ^ 1075 + 2 ^ 1065]⟩⟩, ⟨"n", ⟨.int true 64, [2], [3, 4]⟩⟩,
   ⟨"t", ⟨.flt f64, [2], [0, 0]⟩⟩]

def wScen (rtol : Option (List String)) (ignSrc ignRef : Bool) : Scenario :=
  { rtolToks := rtol, atolToks := none, ignSrc := ignSrc, ignRef := ignRef, ignSeq := false, forceSeq := false,
    disableReorder := false, incl := none, excl := none, readRes := .ok, readRef := .ok,
    payload := .single ⟨.tables 2 2, wRes, wRef⟩, nameParts := ["/", "tmp", "r", "data.csv"] }

-- the hypothesis of C04_exit_zero_iff holds
example : (wScen (some ["0.5", "x:2^-10"]) true true).NamesNodup := by
  intro p hp
  simp only [Scenario.pairs, wScen, List.mem_singleton] at hp
  subst hp
  exact ⟨by decide, by decide⟩

-- per-field tolerance on the boundary + both ignore flags: exit 0
example : (fileMode wPf (wScen (some ["0.5", "x:2^-10"]) true true)).1 = .exit 0 := by decide +kernel
-- … the same through the spec (theorem C04_exit_zero_iff, evaluated)
example : Spec.exitZero wPf (wScen (some ["0.5", "x:2^-10"]) true true) = true := by decide +kernel
-- a later argument for the same field wins (tolerance 0 → the deviation fails)
example : (fileMode wPf (wScen (some ["x:2^-10", "x:0"]) true true)).1 = .exit 1 := by decide +kernel
-- a tolerance for another field does not help `x` (isolation)
example : (fileMode wPf (wScen (some ["n:0.5"]) true true)).1 = .exit 1 := by decide +kernel
-- without the ignore flags the one-sided fields fail
example : (fileMode wPf (wScen (some ["x:2^-10"]) false true)).1 = .exit 1 := by decide +kernel
example : (fileMode wPf (wScen (some ["x:2^-10"]) true false)).1 = .exit 1 := by decide +kernel
-- rejected arguments raise out of main; spec: not exit 0
example : (fileMode wPf (wScen (some ["a:b:c"]) true true)).1 = .raisedOut := by decide +kernel
example : (fileMode wPf (wScen (some ["x:2^-10*max"]) true true)).1 = .raisedOut := by decide +kernel
-- hypotheses of C04_tolerance_isolation are satisfiable
example : classifyTok "n:0.5" = .named "n" "0.5" ∧ "n" ≠ removeAnnotation "x" := by decide
-- annotation is removed before the lookup
example : removeAnnotation "c0 @ QUAD" = "c0" ∧ removeAnnotation "a @ b @ TRIANGLE" = "a @ b" := by decide

end Fc.C04
