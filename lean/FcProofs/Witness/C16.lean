/-
  Non-vacuity examples and negation witnesses for C16 (evaluated by the kernel).
-/
import FcProofs.Props.C16
namespace Fc.C16
open Fc Fc.Spec Fc.C03

/-! ### F7 — ImageMesh.equals compares the spacing with the coordinate-scaled absolute tolerance -/

/-- 1.0 in units -/
def one : Int := 2 ^ 1074
def idBasis : List (List Int) := [[one, 0, 0], [0, one, 0], [0, 0, one]]

/-- two cells in x, origin x = 1024, spacing 1 — with its DEFAULT tolerances (rel 1e-8, abs 1.026e-5) -/
def f7a0 : ImageGrid := ⟨[2, 0, 0], [1024 * one, 0, 0], [one, one, one], idBasis, Gen.C16.meshDefaultRelTol, 0⟩
def f7a : ImageGrid := { f7a0 with abs := f7a0.defaultAbsTol.getD 0 }
/-- the same grid with x-spacing 1 + 2^-17 (7.6e-6, below the absolute tolerance) -/
def f7b0 : ImageGrid := { f7a0 with spacing := [one + 2 ^ 1057, one, one] }
def f7b : ImageGrid := { f7b0 with abs := f7b0.defaultAbsTol.getD 0 }

example : f7a.ok = true ∧ f7b.ok = true ∧ f7a.axisBasis = true ∧ f7b.axisBasis = true := by decide +kernel

/-- **negation of the full `C16_structured_sound` for image meshes (F7)**: the short-cut answers "equal" in
    both orders, the explicit representation of the same two grids (their generated points: the last point is
    1026 vs 1026 + 2^-16, 1.5e-5 apart) answers "unequal" — with the same tolerances and in both orders. -/
def f7ma : Mesh := f7a.toMesh.getD ⟨0, [], []⟩
def f7mb : Mesh := f7b.toMesh.getD ⟨0, [], []⟩

theorem C16_F7_witness :
    imageEquals f7a f7b = .ok true ∧ imageEquals f7b f7a = .ok true ∧
    f7a.toMesh = some f7ma ∧ f7b.toMesh = some f7mb ∧
    meshEqualWith f7a.rel f7a.abs f7ma f7mb = .ok false ∧
    meshEqualWith f7b.rel f7b.abs f7mb f7ma = .ok false ∧
    equals (.image f7a) (.explicit ⟨f7mb, f7b.rel, f7b.abs⟩) = .ok false := by
  decide +kernel

-- the hypotheses and the conclusion of the partial theorem are met by the witness pair
example : ∃ ma mb, f7a.toMesh = some ma ∧ f7b.toMesh = some mb ∧
    cellsEqual ma mb = .ok true ∧ ma.numPoints = 3 := by
  refine ⟨f7ma, f7mb, ?_, ?_, ?_, ?_⟩ <;> decide +kernel

/-! ### F14 — the short-cuts and PermutedMesh.equals use the receiver's tolerances only -/

/-- ordinates x = [0, 4]; tolerances rel 0, abs 1.0 -/
def f14a : RectGrid := ⟨[1, 0, 0], [[0, 4 * one], [], []], 0, 2 ^ 1074⟩
/-- ordinates x = [0.5, 4]; tolerances rel 0, abs 0 -/
def f14b : RectGrid := ⟨[1, 0, 0], [[2 ^ 1073, 4 * one], [], []], 0, 0⟩

/-- **negation of the full `C16_symm` (F14)**: `a.equals(b)` is true, `b.equals(a)` is false; the same holds
    for the PermutedMesh views of the two grids, while the explicit meshes (smaller tolerance) agree on false -/
theorem C16_F14_witness :
    f14a.ok = true ∧ f14b.ok = true ∧
    equals (.rect f14a) (.rect f14b) = .ok true ∧ equals (.rect f14b) (.rect f14a) = .ok false ∧
    equals (.permuted f14a.view) (.permuted f14b.view) = .ok true ∧
    equals (.permuted f14b.view) (.permuted f14a.view) = .ok false ∧
    equals (.explicit f14a.view) (.explicit f14b.view) = .ok false ∧
    equals (.explicit f14b.view) (.explicit f14a.view) = .ok false := by
  decide +kernel

/-! ### non-vacuity -/

/-- a 2x1 pixel grid as rectilinear mesh, and the same grid with one ordinate moved by 2^-30 (within 1e-8·2) -/
def rA : RectGrid := ⟨[2, 1, 0], [[0, one, 2 * one], [0, one], []], Gen.C16.meshDefaultRelTol, 2 ^ 1048⟩
def rB : RectGrid := ⟨[2, 1, 0], [[0, one + 2 ^ 1044, 2 * one], [0, one], [0]], Gen.C16.meshDefaultRelTol, 2 ^ 1048⟩
/-- … and with a different constant in the flat direction (the F6 witness, fixed) -/
def rC : RectGrid := ⟨[2, 1, 0], [[0, one, 2 * one], [0, one], [5 * one]], Gen.C16.meshDefaultRelTol, 2 ^ 1048⟩

example : rA.ok = true ∧ rB.ok = true ∧ rC.ok = true := by decide +kernel
-- hypothesis of C16_structured_sound_rect is satisfiable with different parameters; conclusion observable
example : rectEquals rA rB = .ok true ∧ meshEqualWith rA.rel rA.abs rA.toMesh rB.toMesh = .ok true := by
  decide +kernel
-- all three directions count (F6 fixed): flat-direction constant differs ⇒ unequal, in both representations
example : rectEquals rA rC = .ok false ∧ meshEqualWith rA.rel rA.abs rA.toMesh rC.toMesh = .ok false := by
  decide +kernel
-- the generated explicit mesh: 6 points, one PIXEL block with 2 cells
example : rA.toMesh.cells = [("PIXEL", [[0, 1, 3, 4], [1, 2, 4, 5]])] ∧ rA.toMesh.numPoints = 6 := by decide +kernel

/-- structured mesh of the same grid: QUAD cells (reordered corners) -/
def sA : StructGrid := ⟨[2, 1, 0], 3, rA.toMesh.points, Gen.C16.meshDefaultRelTol, 2 ^ 1048⟩
example : sA.ok = true ∧ sA.toMesh.cells = [("QUAD", [[0, 1, 4, 3], [1, 2, 5, 4]])] := by decide +kernel
-- mixed representations: rectilinear (PIXEL) vs structured (QUAD) of the same grid are equal in both orders
-- (pixel~quad, corner sets), an instance of C16_symm with receiverTol = false
example : receiverTol (.rect rA) (.struct sA) = false ∧
    equals (.rect rA) (.struct sA) = .ok true ∧ equals (.struct sA) (.rect rA) = .ok true := by decide +kernel
-- one-sided type block (F2 fixed): quad-only vs quad + triangle is unequal in both orders, never an exception
def qOnly : TMesh := ⟨⟨2, [[0, 0], [one, 0], [one, one], [0, one], [2 * one, 0]], [("QUAD", [[0, 1, 2, 3]])]⟩,
  Gen.C16.meshDefaultRelTol, 2 ^ 1048⟩
def qTri : TMesh := ⟨⟨2, [[0, 0], [one, 0], [one, one], [0, one], [2 * one, 0]],
  [("QUAD", [[0, 1, 2, 3]]), ("TRIANGLE", [[1, 4, 2]])]⟩, Gen.C16.meshDefaultRelTol, 2 ^ 1048⟩
example : (wfEq qOnly.mesh) = true ∧ (wfEq qTri.mesh) = true ∧
    equals (.explicit qOnly) (.explicit qTri) = .ok false ∧ equals (.explicit qTri) (.explicit qOnly) = .ok false := by
  decide +kernel

end Fc.C16
