/-
  Non-vacuity for C15 and negation witnesses for the hypotheses of its theorems.
-/
import FcProofs.Props.C15
namespace Fc

def passS : TSuite := ⟨[.passed, .skipped], none⟩
def failS : TSuite := ⟨[.passed, .failed], none⟩
def domS : TSuite := ⟨[], some .failed⟩      -- "domains unequal": status failed, no tests
/-- step suites: everything passes except step `p` -/
def devAt (p : Nat) (bad : TSuite) : Nat → Nat → TSuite := fun i j => if i = p ∧ j = p then bad else passS

-- hypotheses are satisfiable: the shapes `_compare_field_data` returns are coherent
example : Spec.consistent passS = true ∧ Spec.consistent failS = true ∧ Spec.consistent domS = true := by decide

-- iteration from a stale cursor (left at 7 by an earlier, longer-running use): 0,1,2
example : (iterSeq ⟨3, 7⟩).1 = [some 0, some 1, some 2] := by rw [iterSeq_closed 3 7 (by decide)]; decide
-- abandoned after 2 of 4, then complete, then past the end
example : rounds ⟨4, 9⟩ [2, 5, 0, 6] =
    [[.yield 0, .yield 1], [.yield 0, .yield 1, .yield 2, .yield 3, .stop], [],
     [.yield 0, .yield 1, .yield 2, .yield 3, .stop, .stop]] := by decide

-- a deviating LAST step of 3 fails; a deviating FIRST step fails although the later steps pass
example : (compareSequences ⟨false, false⟩ ⟨3, 0⟩ ⟨3, 0⟩ (devAt 2 failS)).passed = false := by
  rw [compareSequences_closed _ _ _ _ _ (by decide) (by decide)]; decide
example : (compareSequences ⟨false, false⟩ ⟨3, 0⟩ ⟨3, 0⟩ (devAt 0 domS)).passed = false := by
  rw [compareSequences_closed _ _ _ _ _ (by decide) (by decide)]; decide
example : (compareSequences ⟨false, false⟩ ⟨3, 0⟩ ⟨3, 0⟩ (devAt 5 failS)).passed = true := by
  rw [compareSequences_closed _ _ _ _ _ (by decide) (by decide)]; decide
-- the deviation lies beyond the common range: ignore-missing passes, force fails, neither compares nothing
example : (compareSequences ⟨true, false⟩ ⟨4, 0⟩ ⟨3, 0⟩ (devAt 3 failS)).passed = true := by
  rw [compareSequences_closed _ _ _ _ _ (by decide) (by decide)]; decide
example : (compareSequences ⟨false, true⟩ ⟨4, 0⟩ ⟨3, 0⟩ (devAt 3 failS)).passed = false ∧
    (compareSequences ⟨false, true⟩ ⟨4, 0⟩ ⟨3, 0⟩ (devAt 3 failS)).compared = [(0, 0), (1, 1), (2, 2)] := by
  rw [compareSequences_closed _ _ _ _ _ (by decide) (by decide)]; decide
example : compareSequences ⟨false, false⟩ ⟨4, 0⟩ ⟨3, 0⟩ (devAt 3 failS) = .suite ⟨[], some .failed⟩ [] := by
  rw [compareSequences_closed _ _ _ _ _ (by decide) (by decide)]; decide

/-- negation witness for the coherence hypothesis of C15_verdict: a step suite that claims `passed` while
    containing a failed test (never produced by `_compare_field_data`) is truthy by itself, but the merged
    suite is not — `_merged_result` drops the explicit status and the tests decide. -/
def incoherent : TSuite := ⟨[.failed], some .passed⟩
example : Spec.consistent incoherent = false := by decide
example : incoherent.bool = true ∧
    (compareSequences ⟨false, false⟩ ⟨1, 0⟩ ⟨1, 0⟩ (fun _ _ => incoherent)).passed = false ∧
    Spec.seqVerdict ⟨false, false⟩ 1 1 (fun _ => incoherent.bool) = true := by
  rw [compareSequences_closed _ _ _ _ _ (by decide) (by decide)]; decide

/-- outside the property: two LIVE iterators over the same object share the cursor (history 0,1,0,1 on two
    generators of a 4-step source): the second generator's reset rewinds the first one -/
example : (runHist ⟨4, 0⟩ [.fresh, .fresh] [0, 0, 1, 0, 1]).1.map (fun e => (e.1, e.2.1)) =
    [(0, .yield 0), (0, .yield 1), (1, .yield 0), (0, .yield 1), (1, .yield 2)] := by decide

/-- outside the quantifier: an empty sequence — the first `get` raises (IndexError), the comparison raises,
    the exit code is 1 -/
example : (iterSeq ⟨0, 0⟩).1 = [none] := iterSeq_empty 0
example : compareSequences ⟨false, false⟩ ⟨0, 0⟩ ⟨0, 0⟩ (fun _ _ => passS) = .raised := by
  unfold compareSequences
  rw [iterSeq_empty]
  rfl
example : fileModeExit .sequence .sequence true .raised = 1 := by decide

-- mixed kinds
example : fileModeExit .sequence .fieldData true (.suite passS []) = 1 ∧
    fileModeExit .fieldData .sequence true (.suite passS []) = 1 ∧
    fileModeExit .fieldData .fieldData true (.suite passS []) = 0 := by decide

-- merge table facts regenerated from the source: failed beats error beats skipped; nothing else sets a status
example : mergedResult (some .error) (some .failed) = some .failed ∧
    mergedResult (some .skipped) (some .error) = some .error ∧
    mergedResult (some .passed) (some .skipped) = some .skipped ∧
    mergedResult (some .passed) (some .passed) = none := by decide
example : Gen.mergedDefaultIsNone = true ∧ Gen.exitCodeIsNot = true := by decide

end Fc
