/-
  Non-vacuity and negation witnesses for C08 (evaluated by the kernel with `decide`).
-/
import FcProofs.Props.C08
namespace Fc
open Spec

/-- 2-d data set: 6 points (point 4 is referenced by nothing), one quad, two triangles, a vector
    point field and a scalar cell field; coordinates / values are small integers here because
    the C08 model never computes with them. -/
def w8 : MeshFields :=
  { mesh := { dim := 2,
              points := [[0, 0], [1, 0], [1, 1], [0, 1], [7, 7], [2, 0]],
              cells := [("QUAD", [[0, 1, 2, 3]]), ("TRIANGLE", [[1, 5, 2], [5, 2, 1]])] },
    pointFields := [⟨"v", ⟨.int true 64, [6, 2], [10, 11, 20, 21, 30, 31, 40, 41, 50, 51, 60, 61]⟩⟩],
    cellFields := [⟨"c", "QUAD", ⟨.int true 64, [1], [100]⟩⟩,
                   ⟨"c", "TRIANGLE", ⟨.int true 64, [2], [200, 300]⟩⟩] }

/-- a partial point map (drops the orphan 4, shuffles the rest) and a swap of the triangles -/
def w8pp : Option (List Nat) := some [5, 0, 3, 2, 1]
def w8cp : Option CellPerms := some [("TRIANGLE", [1, 0]), ("QUAD", [0])]

-- the hypothesis of C08_permuted_iso is satisfiable on a non-trivial input …
example : permHypB w8 w8pp w8cp = true := by decide
example : PermHyp w8 w8pp w8cp := permHypB_PermHyp _ _ _ (by decide)
-- … the layer really moves things …
example : (applyPermuted w8pp w8cp w8).map (·.mesh.points) =
    some [[2, 0], [0, 0], [0, 1], [1, 1], [1, 0]] := by decide
example : (applyPermuted w8pp w8cp w8).map (·.mesh.cells) =
    some [("QUAD", [[1, 4, 3, 2]]), ("TRIANGLE", [[0, 3, 4], [4, 0, 3]])] := by decide
-- … and the conclusion is observable
example : (applyPermuted w8pp w8cp w8).map (sameContent w8) = some true := by decide

-- the inverse table of the map above has max+1 = 6 slots, slot 4 is never assigned; reading it is
-- an error of the model (the real code would read uninitialised memory)
example : makeInverse [5, 0, 3, 2, 1] = some [some 1, some 4, some 3, some 2, none, some 0] := by decide
example : readInverse [some 1, some 4, some 3, some 2, none, some 0] 4 = none := by decide

-- a map that does NOT cover a referenced point (drops point 2): outside the hypothesis, and the
-- model reports the error instead of producing garbage
example : permHypB w8 (some [5, 0, 3, 1]) none = false := by decide
example : applyPermuted (some [5, 0, 3, 1]) none w8 = none := by decide

/-- an argsort of the boolean mask that is NOT stable (false keys in decreasing index order) -/
def unstableArgsort (keys : List Bool) : List Nat :=
  ((List.range keys.length).filter (fun i => !keys.getD i false)).reverse ++
  (List.range keys.length).filter (fun i => keys.getD i false)

instance : DecidableRel boolLe := fun a b => by unfold boolLe; exact inferInstance

-- it is an argsort of the mask of w8 (hypothesis of C08_filter_map / C08_strip) …
example : IsBoolArgsort (isUnconnectedMask w8.mesh) (unstableArgsort (isUnconnectedMask w8.mesh)) := by
  unfold IsBoolArgsort IsArgsortBy
  constructor
  · decide
  · decide
-- … the filter map enumerates exactly the referenced points, but NOT in increasing order:
example : unconnectedFilterMap unstableArgsort w8.mesh = some [5, 3, 2, 1, 0] := by decide
-- relative order is kept only by the stable argsort (C08_filter_map_stable)
example : unconnectedFilterMap stableArgsortBool w8.mesh = some [0, 1, 2, 3, 5] := by decide
-- content is preserved either way (C08_strip)
example : (stripOrphanPoints unstableArgsort w8).map (sameContent w8) = some true := by decide
example : (stripOrphanPoints unstableArgsort w8).map (·.mesh.numPoints) = some 5 := by decide

-- nothing referenced: strip raises (C08_strip_unreferenced_raises)
example : stripOrphanPoints stableArgsortBool
    { w8 with mesh := { w8.mesh with cells := [] }, cellFields := [] } = none := by decide

/-! ### extension -/

-- C08_extend on w8 (2 → 3): the vector field gets one zero component per row, scalars untouched
example : (extendSpaceDim 3 w8).map (·.pointFields) =
    some [⟨"v", ⟨.int true 64, [6, 3],
      [10, 11, 0, 20, 21, 0, 30, 31, 0, 40, 41, 0, 50, 51, 0, 60, 61, 0]⟩⟩] := by decide
example : extendSpaceDim 3 w8 = extendSpec 3 w8 := by decide
example : extendSpaceDim 1 w8 = none := by decide

/-- a 2-d data set with a "tensor" field of shape (n, 1, 1): numpy broadcasts the single value
    into the 2 × 2 block -/
def w8t : MeshFields :=
  { mesh := { dim := 2, points := [[0, 0], [1, 0], [1, 1]], cells := [("TRIANGLE", [[0, 1, 2]])] },
    pointFields := [⟨"t", ⟨.int true 64, [3, 1, 1], [5, 6, 7]⟩⟩],
    cellFields := [] }

example : WFP w8t := wf2_WFP _ (by decide)
example : (extendSpaceDim 3 w8t).map (·.pointFields) =
    some [⟨"t", ⟨.int true 64, [3, 3, 3],
      [5, 5, 0, 5, 5, 0, 0, 0, 0,  6, 6, 0, 6, 6, 0, 0, 0, 0,  7, 7, 0, 7, 7, 0, 0, 0, 0]⟩⟩] := by decide
example : extendSpec 3 w8t = none := by decide

/-- negation witness for the full statement of `C08_extend_error_only_partial` -/
example : ¬ (∀ (f f' : MeshFields) (sd : Nat), WFP f → extendSpaceDim sd f = some f' →
    extendSpec sd f = some f') := by
  intro h
  cases hx : extendSpaceDim 3 w8t with
  | none => revert hx; decide
  | some r =>
    have := h w8t r 3 (wf2_WFP _ (by decide)) hx
    have hs : extendSpec 3 w8t = none := by decide
    rw [hs] at this
    cases this

end Fc
