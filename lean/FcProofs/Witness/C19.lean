/-
  FcProofs.Witness.C19 — non-vacuity examples and negation witnesses for the C19 theorems.
-/
import FcProofs.Props.C19
namespace Fc.C19.Witness
open Fc Fc.C19

/-! ### effect summaries -/

/-- a pixel mesh with one point field and one cell field: arrays 0 (points), 1 (connectivity), 2, 3 -/
def pixelMesh : EObj := ⟨2, .stored 0, [("PIXEL", .stored 1)], [⟨"p", [], .stored 2⟩], [⟨"c", "PIXEL", [], .stored 3⟩], []⟩
def w0 : World := ⟨4, [pixelMesh], [], 0⟩

example : w0.wf := by unfold World.wf; decide

/-- a history that sorts, converts to meshio and back, diffs, merges and writes -/
def history : List EStep :=
  [⟨.view .sort 0, true⟩, ⟨.toMeshio 1, true⟩, ⟨.fromMeshio 2, true⟩, ⟨.diff 1 1, true⟩, ⟨.merge 0 0 true, true⟩,
   ⟨.compare 0 1, true⟩, ⟨.write 4, true⟩, ⟨.diff 0 3, false⟩]

example : ∀ s ∈ history, s.op.isCurrent = true := by decide

/-- the history does write arrays (the theorem is not about an empty written set) … -/
example : (runSteps w0 history).written.length > 20 := by decide
/-- … but none of the inputs -/
example : Spec.inputsUntouched w0 history = true := by decide
/-- aliasing is real: the meshio mesh made from the *unsorted* input hands out the input's own points and point
    data (arrays 0 and 2), a copy of the connectivity and rebuilt cell data -/
example : (effectsOf w0 [⟨.toMeshio 0, true⟩]).map (·.result) =
    [some (.inr ⟨2, .stored 0, [("QUAD", .stored 4)], [⟨"p", [], .stored 2⟩], [⟨"c", "QUAD", [], .stored 5⟩], []⟩)] := by
  decide

/-- **negation witness** (why the summaries matter): with the summary of `to_meshio` *before* the repair of F10
    — `reordered = connectivity` aliases the mesh's own pixel connectivity and is assigned row by row — the
    input array 1 is written, the conclusion of `C19_no_input_writes` fails -/
example : Spec.inputsUntouched w0 [⟨.toMeshioInPlace 0, true⟩] = false := by decide
example : 1 ∈ w0.reachable ∧ 1 ∈ (runSteps w0 [⟨.toMeshioInPlace 0, true⟩]).written := by decide
/-- the current summary writes the copy (array 4) instead -/
example : (runSteps w0 [⟨.toMeshio 0, true⟩]).written = [4] := by decide

/-! ### predicate objects -/

def big : NdArr := ⟨.flt f64, [2], [1000000 * 2 ^ 1074, 2000000 * 2 ^ 1074]⟩
def bigOff : NdArr := ⟨.flt f64, [2], [1000000 * 2 ^ 1074, 2000001 * 2 ^ 1074]⟩
def small : NdArr := ⟨.flt f64, [2], [1 * 2 ^ 1074, 2 * 2 ^ 1074]⟩
def smallOff : NdArr := ⟨.flt f64, [2], [1 * 2 ^ 1074, 3 * 2 ^ 1074]⟩

/-- abs_tol = ScaledTolerance(2^-20): 2^-20 · 2e6 ≈ 1.9 accepts an error of 1 on the big field; a tolerance
    remembered from that call would also accept the error of 1 on the small field — the state machine (like the
    code) does not: T then F -/
def scaledPred : PredObj := PredObj.fresh .default (.num 0) (.scaled (some (2 ^ 1054)))

example : (runPred scaledPred [.call big bigOff, .call small smallOff]).2 = [.ok true, .ok false] := by decide +kernel
/-- the object does remember something (the state changes), yet the verdicts are those of fresh objects -/
example : (runPred scaledPred [.call big bigOff]).1.lastAbs ≠ none := by decide +kernel
example : (runPred scaledPred [.call big bigOff, .call small smallOff]).2 =
    Spec.specPred .default (.num 0) (.scaled (some (2 ^ 1054))) [.call big bigOff, .call small smallOff] :=
  C19_fresh_equals_reused _ _

/-! ### the comparator ladder -/

/-- toy data sets: (stage, dimension); stage 0 raw, 1 extended, 2 points sorted, 3 canonical.
    `cmp` passes only on the canonical stage. -/
def toy : LadderOps (Nat × Nat) (Bool × Nat) where
  cmp := fun s _ => (decide (s.1 = 3), s.1)
  ok := fun s => s.1
  dim := fun d => d.2
  structured := fun _ => false
  ext := fun m d => (max d.1 1, m)
  perm := fun d => (max d.1 2, d.2)
  sortc := fun d => (3, d.2)

theorem toy_facts : LadderFacts toy := by
  refine ⟨?_, ?_, ?_, ?_, ?_⟩ <;> intros <;> simp [toy]

/-- the first call climbs all rungs (dimension 2 vs 3: extend, sort points, sort cells: 3 callbacks) and passes;
    the second call of the same object passes at once from the views the first one left behind -/
example : (runComparator toy ⟨false, false⟩ ⟨(0, 2), (0, 3)⟩).callbacks = 3 ∧
    (runComparator toy ⟨false, false⟩ ⟨(0, 2), (0, 3)⟩).suite = (true, 3) ∧
    (runComparator toy ⟨false, false⟩ (runComparator toy ⟨false, false⟩ ⟨(0, 2), (0, 3)⟩).state).callbacks = 0 := by
  decide

example : rerun toy ⟨false, false⟩ 4 ⟨(0, 2), (0, 3)⟩ = [(true, 3), (true, 3), (true, 3), (true, 3)] := by decide

/-- **what `LadderFacts` excludes**: if sorting an already sorted data set could change the verdict
    (`cmp` passes on stage 3 only the first time it is reached — here modelled by a `perm` that is not
    idempotent at the verdict level), a re-run would disagree -/
def bad : LadderOps (Nat × Nat) (Bool × Nat) where
  cmp := fun s _ => (decide (s.1 = 4), s.1)
  ok := fun s => s.1
  dim := fun d => d.2
  structured := fun _ => false
  ext := fun m d => (d.1, m)
  perm := fun d => (d.1 + 1, d.2)          -- every application moves on
  sortc := fun d => (d.1 + 1, d.2)

example : (rerun bad ⟨false, false⟩ 2 ⟨(0, 3), (0, 3)⟩).map (·.1) = [false, true] := by decide

end Fc.C19.Witness
