/-
  Non-vacuity for C01: concrete non-trivial operands meet the hypotheses, and the theorems'
  conclusions are observable on them (evaluated by the kernel with `decide`).
-/
import FcProofs.Props.C01
namespace Fc
open Spec

/-- a (3,2,2) tensor field whose only deviating entry is the very last one, sitting exactly on
    the threshold:  a = 1.0,  b = 1.0 + 2^-20,  rel = 2^-21 · … chosen so that
    |b-a| = 2^-20 = abs.  Units: 1.0 = 2^1074. -/
def wA : NdArr := ⟨.flt f64, [3, 2, 2], List.replicate 12 (2 ^ 1074)⟩
def wB : NdArr := ⟨.flt f64, [3, 2, 2], List.replicate 11 (2 ^ 1074) ++ [2 ^ 1074 + 2 ^ 1054]⟩

example : C01Hyp (.num 0) (.arr [2, 2] [0, 0, 0, 2 ^ 1054]) wA wB :=
  ⟨rfl, rfl, (by intro s us h; cases h), (by intro s us h; cases h; rfl)⟩

-- on the boundary: equal;  one unit in the last place of the tolerance less: unequal
example : fuzzyCheck (.num 0) (.arr [2, 2] [0, 0, 0, 2 ^ 1054]) wA wB = .ok true := by decide +kernel
example : fuzzyCheck (.num 0) (.arr [2, 2] [0, 0, 0, 2 ^ 1054 - 2 ^ 1001]) wA wB = .ok false := by decide +kernel
-- the tolerance belongs to the last component only: moving it to another component fails
example : fuzzyCheck (.num 0) (.arr [2, 2] [2 ^ 1054, 0, 0, 0]) wA wB = .ok false := by decide +kernel
-- hypotheses of C01_exact_implies_float are satisfiable on the boundary
example : rndMag f64 (2 ^ 1054) 0 = some (2 ^ 1054) ∧
    exactFormula (2 ^ 1074) (2 ^ 1074 + 2 ^ 1054) 0 (2 ^ 1054) = true := by decide +kernel
-- (n,) vs (n,1) compatible, (n,) vs (n,1,1) not
example : shapesCompatible [5] [5, 1] = true ∧ shapesCompatible [5] [5, 1, 1] = false := by decide

end Fc

namespace Fc
open Spec
-- hypotheses of the slack theorem are satisfiable: 1.0 vs 1.0 + 2^-20 with rel = 2^-20
example : rndMag f64 (max (2 ^ 1074 : Int).natAbs (2 ^ 1074 + 2 ^ 1054 : Int).natAbs * 2 ^ 1054) UNIT ≠ none ∧
    docFormula f64 (2 ^ 1074) (2 ^ 1074 + 2 ^ 1054) (2 ^ 1054) 0 = true := by decide +kernel
end Fc
