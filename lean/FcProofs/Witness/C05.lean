/-
  Non-vacuity for C05: concrete configurations meet the hypotheses of the theorems and their
  conclusions are observable (evaluated by the kernel); negation witnesses show that the hypotheses
  that look technical are needed (and document what is outside the claim).
-/
import FcProofs.Props.C05
namespace Fc
open Spec

/-- a toy codec standing in for zlib: append a marker byte / strip it again -/
def toyCompress (b : List Nat) : List Nat := b ++ [7]
def toyDecompress (b : List Nat) (_ : Nat) : Option (List Nat) := some b.dropLast

/-- big-endian, UInt32 header, base64, compressed with block size 3 (two full blocks + a partial one) -/
def wCfg : WriteCfg := ⟨⟨4, .be, true, true⟩, true, 3⟩
def wItems : List Nat := [1, 2, 3, 4, 5, 6, 255, 0]      -- four UInt16 / Int16 items, little-endian

theorem isBytes_of_all (l : List Nat) (h : l.all (· < 256) = true) : IsBytes l := by
  intro b hb
  have := List.all_eq_true.mp h b hb
  simpa using this

example : C05Hyp wCfg toyCompress toyDecompress 2 wItems where
  hs_pos := by decide
  sz_pos := by decide
  whole := by decide
  bytes := isBytes_of_all _ (by decide)
  fitLen := by decide
  comp := by
    intro _
    refine ⟨by decide, by decide, ?_, by decide, by decide, by decide⟩
    intro b hb
    have : ∀ c ∈ chunks wCfg.blockSize (toFileOrder wCfg.rc.bo 2 wItems), (toyCompress c).all (· < 256) = true := by
      decide
    exact isBytes_of_all _ (this b hb)

-- the conclusion of C05_array on this instance, with another array's base64 chunk behind it
example : readArray wCfg.rc toyDecompress 2 (encodeArray wCfg toyCompress 2 wItems ++ b64encode [9, 9]) = some wItems := by
  decide

-- the same logical items under a different configuration (little-endian, UInt64 header, raw, uncompressed)
def wCfg2 : WriteCfg := ⟨⟨8, .le, false, false⟩, true, 0⟩
example : readArray wCfg2.rc toyDecompress 2 (encodeArray wCfg2 toyCompress 2 wItems ++ [1, 2, 3]) = some wItems := by
  decide
example : encodeArray wCfg toyCompress 2 wItems ≠ encodeArray wCfg2 toyCompress 2 wItems := by decide

-- zero-length payload in a compressed file (num_blocks = 0; finding F11, fixed): empty data, no error
example : readArray wCfg.rc toyDecompress 2 (encodeArray wCfg toyCompress 2 []) = some [] := by decide

-- base64: all three padding residues, and the decoder running on into the next chunk only when
-- there is no padding
example : b64decodeLenient (b64encode [1] ++ b64encode [2, 3]) = some [1] := by decide
example : b64decodeLenient (b64encode [1, 2] ++ b64encode [3]) = some [1, 2] := by decide
example : b64decodeLenient (b64encode [1, 2, 3] ++ b64encode [4]) = some [1, 2, 3, 4] := by decide
-- lenient: characters outside the alphabet ('\n' = 10, '_' = 95) are skipped; a dangling character is an error
example : b64decodeLenient ([10, 95] ++ b64encode [1, 2, 3]) = some [1, 2, 3] := by decide
example : b64decodeLenient [65] = none := by decide

-- separate header: UInt32 header chunk `....==` stops the decoder, the reader re-synchronises behind it
example : noCompRead 4 .le b64Encoder (encodeUncompressed b64Encoder 4 .le false [10, 20, 30, 40, 50]) = some [10, 20, 30, 40, 50] := by
  decide

-- hypothesis `fitLen` is needed: a 256-byte array does not fit a one-byte header (the count wraps to 0)
example : noCompRead 1 .le rawEncoder (encodeUncompressed rawEncoder 1 .le true (List.replicate 256 0)) = some [] := by
  decide +kernel

-- hypothesis `decompress (compress b) = b` is needed: with a codec pair that is not inverse the data differ
example : readArray wCfg.rc (fun b _ => some b) 2 (encodeArray wCfg toyCompress 2 wItems) ≠ some wItems := by decide

-- VTU layout: triangles and a quad interleaved; hypothesis holds, conclusion observable
def wCells : List (Nat × List Nat) := [(5, [0, 1, 2]), (9, [1, 2, 3, 4]), (5, [2, 3, 4])]
example : ∀ a ∈ wCells, ∀ b ∈ wCells, a.1 = b.1 → a.2.length = b.2.length := by decide
example : vtuContent wCells = [(5, [[0, 1, 2], [2, 3, 4]], [0, 2]), (9, [[1, 2, 3, 4]], [1])] := by decide
example : splitCellData [10, 20, 30] (vtuContent wCells) = some [(5, [10, 30]), (9, [20])] := by decide

-- outside the claim (DESIGN §5.5): polygons (type 7) with varying corner counts — the reader takes the
-- corner count of the FIRST cell of a type for all of them, so the homogeneity hypothesis is needed
def wPolys : List (Nat × List Nat) := [(7, [0, 1, 2]), (7, [0, 1, 2, 3])]
example : vtuLayout (vtuArrays wPolys).1 (vtuArrays wPolys).2.1 (vtuArrays wPolys).2.2 ≠ some (vtuContent wPolys) := by
  decide

-- ascii: Int16 items -1 and 1 ↔ tokens
example : asciiTokens true 2 [255, 255, 1, 0] = [-1, 1] := by decide
example : asciiRead 2 [-1, 1] = [255, 255, 1, 0] := by decide

-- ---- raw-appended fallback parser (finding C05-RAWTAG)
-- (the encoding is looked for in the 100 bytes before the data: a realistic head is longer than that)
def wHead : List Nat := strBytes "<VTKFile>" ++ List.replicate 100 32 ++ strBytes "<AppendedData encoding=\"raw\">_"
def wTail : List Nat := strBytes "</VTKFile>"

-- an appendix without the needle: hypothesis of C05_raw_appendix_end_partial holds, and the whole
-- fallback extraction returns the appendix and the encoding name
example : ∀ j, j < (wHead ++ [1, 0, 0, 0, 60, 47]).length →
    startsWith closeTag ((wHead ++ [1, 0, 0, 0, 60, 47] ++ closeTag ++ wTail).drop j) = false := by decide +kernel
example : fallbackAppendix (wHead ++ [1, 0, 0, 0, 60, 47] ++ closeTag ++ wTail)
    = some ([1, 0, 0, 0, 60, 47], strBytes "raw") := by decide +kernel

-- NEGATION WITNESS of the full statement: the payload bytes contain `</AppendedData>`; the end of the
-- appendix is found too early and the extracted appendix is cut (4 of 22 bytes survive)
def wBad : List Nat := [18, 0, 0, 0] ++ closeTag ++ [1, 2, 3]
example : bfind closeTag (wHead ++ wBad ++ closeTag ++ wTail) 0 ≠ some (wHead ++ wBad).length := by decide +kernel
example : fallbackAppendix (wHead ++ wBad ++ closeTag ++ wTail) = some ([18, 0, 0, 0], strBytes "raw") := by decide +kernel
-- … and a payload containing `<AppendedData` derails the encoding detection (rfind takes the last occurrence)
def wBad2 : List Nat := [16, 0, 0, 0] ++ openTag ++ [1, 2, 3]
example : (fallbackAppendix (wHead ++ wBad2 ++ closeTag ++ wTail)).map (·.2) ≠ some (strBytes "raw") := by decide +kernel

-- ---- phase 2: file-level fallback theorem, VTP layout, ascii byte order

/-- `wHead` split into the pieces of `Spec.RawFile`: a realistic header, a binary appendix that contains
    `<`, `>`, `_`, `"` and a truncated closing tag, the standard tail -/
def wRaw : RawFile :=
  ⟨strBytes "<VTKFile>" ++ List.replicate 100 32, [32], [61], strBytes "raw", [], [10],
   [1, 0, 0, 0, 60, 47, 62, 95, 34, 60, 47, 65, 112, 112], strBytes "\n</VTKFile>\n"⟩

-- the hypotheses of C05_fallback_appendix hold on it and the conclusion is observable
example : wRaw.HeadOk := by decide +kernel
example : wRaw.AppendixOk := by decide +kernel
example : fallbackAppendix wRaw.content = some (wRaw.appendix, strBytes "raw") := by decide +kernel
-- other legal header styles: blanks around `=`, further attributes, indentation before `_`, base64
def wRaw2 : RawFile :=
  { wRaw with a1 := strBytes " foo=\"1\" ", a2 := strBytes " = ", a3 := strBytes " bar=\"2\" ", ws := strBytes "\n   ",
              enc := strBytes "base64", appendix := b64encode [1, 2, 3, 4] }
example : wRaw2.HeadOk ∧ wRaw2.AppendixOk := by decide +kernel
example : fallbackAppendix wRaw2.content = some (b64encode [1, 2, 3, 4], strBytes "base64") := by decide +kernel

-- NEGATION WITNESSES.  AppendixOk is needed (class C05-RAWTAG): same header, appendix `wBad` / `wBad2`
example : ¬ ({ wRaw with appendix := wBad } : RawFile).AppendixOk := by decide +kernel
example : fallbackAppendix ({ wRaw with appendix := wBad } : RawFile).content
    ≠ some (wBad, strBytes "raw") := by decide +kernel
example : ¬ ({ wRaw with appendix := wBad2 } : RawFile).AppendixOk := by decide +kernel
example : fallbackAppendix ({ wRaw with appendix := wBad2 } : RawFile).content
    ≠ some (wBad2, strBytes "raw") := by decide +kernel
-- HeadOk is needed: a `_` between `>` and the marker moves the start of the data …
example : ¬ ({ wRaw with ws := [95] } : RawFile).HeadOk := by decide +kernel
example : fallbackAppendix ({ wRaw with ws := [95] } : RawFile).content
    = some (95 :: wRaw.appendix, strBytes "raw") := by decide +kernel
-- … an attribute value `encoding` in front of the attribute of that name derails the detection …
example : ¬ ({ wRaw with a1 := strBytes " x=\"encoding\" " } : RawFile).HeadOk := by decide +kernel
example : (fallbackAppendix ({ wRaw with a1 := strBytes " x=\"encoding\" " } : RawFile).content).map (·.2)
    ≠ some (strBytes "raw") := by decide +kernel
-- … and so does a second `<AppendedData` behind the closing tag (the backward search sees it)
example : (fallbackAppendix ({ wRaw with post := strBytes "<AppendedData/>" } : RawFile).content).map (·.2)
    ≠ some (strBytes "raw") := by decide +kernel

-- byte search lemmas are not vacuous: needle with a border (`aa` in `a·aa`) is outside `findAt_first_occ`
example : occ [97, 97] [97] = false ∧ findAt [97, 97] ([97] ++ [97, 97] ++ []) 0 = some 0 := by decide

-- VTP: two vertices, no lines, a triangle and a quad (rows of different length), one strip
def wSecs : List (Nat × List (List Nat)) := [(2, [[0], [1]]), (4, []), (7, [[0, 1, 2], [1, 2, 3, 4]]), (6, [[0, 1, 2, 3]])]
example : vtpArrays wSecs = [(2, 2, [0, 1], [1, 2]), (4, 0, [], []), (7, 2, [0, 1, 2, 1, 2, 3, 4], [3, 7]),
    (6, 1, [0, 1, 2, 3], [4])] := by decide
example : vtpLayout (vtpArrays wSecs) = [(2, [[0], [1]], [0, 1]), (7, [[0, 1, 2], [1, 2, 3, 4]], [2, 3]),
    (6, [[0, 1, 2, 3]], [4])] := by decide
example : splitCellData [10, 20, 30, 40, 50] (vtpLayout (vtpArrays wSecs))
    = some [(2, [10, 20]), (7, [30, 40]), (6, [50])] := by decide
-- a count attribute that disagrees with the offsets array (not producible by the spec writer) shifts the
-- ranges: the model follows the code (ranges from the ATTRIBUTES), the theorem speaks about written files only
example : vtpLayout [(2, 3, [0, 1], [1, 2]), (7, 1, [0, 1, 2], [3])]
    = [(2, [[0], [1]], [0, 1, 2]), (7, [[0, 1, 2]], [3])] := by decide

-- ascii: with a byte-order dependent dtype (the seeded refactoring) a BigEndian header swaps every item,
-- so the statement of C05_ascii_byte_order is false for such a reader; the source as it is reads natively
example : asciiItemsWith true .be 4 [1] = [0, 0, 0, 1] ∧ asciiItemsWith true .le 4 [1] = [1, 0, 0, 0] := by decide
example : asciiItems .be 4 [1] = [1, 0, 0, 0] := by decide

end Fc
