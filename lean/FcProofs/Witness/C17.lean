/-
  Non-vacuity and negation witnesses for C17 (evaluated by the kernel).
  Units: 1.0 = 2^1074.
-/
import FcProofs.Props.C17
namespace Fc
open Spec

def one : Int := 2 ^ 1074

/-- a 1-d line mesh with a scalar and a (n,1,1) tensor point field (float64) and a scalar cell field -/
def w17 : MeshFields :=
  { mesh := { dim := 1, points := [[0], [one], [2 * one]], cells := [("LINE", [[0, 1], [1, 2]])] },
    pointFields := [⟨"s", ⟨.flt f64, [3], [one, 3 * one, 5 * one]⟩⟩,
                    ⟨"t", ⟨.flt f64, [3, 1, 1], [7 * one, 9 * one, 11 * one]⟩⟩],
    cellFields := [⟨"c", "LINE", ⟨.int true 64, [2], [4, 8]⟩⟩] }

/-- its zero-padded 3-d copy -/
def w17g : MeshFields :=
  { mesh := { dim := 3, points := [[0, 0, 0], [one, 0, 0], [2 * one, 0, 0]],
              cells := [("LINE", [[0, 1], [1, 2]])] },
    pointFields := [⟨"s", ⟨.flt f64, [3], [one, 3 * one, 5 * one]⟩⟩,
                    ⟨"t", ⟨.flt f64, [3, 3, 3],
                      [7 * one, 0, 0, 0, 0, 0, 0, 0, 0,  9 * one, 0, 0, 0, 0, 0, 0, 0, 0,
                       11 * one, 0, 0, 0, 0, 0, 0, 0, 0]⟩⟩],
    cellFields := [⟨"c", "LINE", ⟨.int true 64, [2], [4, 8]⟩⟩] }

example : extendSpaceDim 3 w17 = some w17g := by decide +kernel
example : paddedCopy 3 w17 = some w17g := by decide +kernel

def cellsEqW (a b : Mesh) : Bool := a.cells == b.cells
def relW : Nat := 2 ^ 1047      -- ~ 1e-8
def absW : Nat := 2 ^ 1048

-- the reflexivity hypotheses of C17_pad_equal hold on this copy …
example : fuzzyCheck (.num relW) (.num absW) w17g.mesh.pointsArr w17g.mesh.pointsArr = .ok true := by
  decide +kernel
example : w17g.namedFields.all (fun p => defaultCheck .dflt (.num 0) p.2 p.2 == .ok true) = true := by
  decide +kernel
-- … and its conclusion is observable: PASS in either role with matching enabled,
example : compareDimMatch (runComparison (domainEqual relW absW cellsEqW) (defaultCheck .dflt (.num 0)))
    (fun _ _ => false) false w17 w17g = some true := by decide +kernel
example : compareDimMatch (runComparison (domainEqual relW absW cellsEqW) (defaultCheck .dflt (.num 0)))
    (fun _ _ => false) false w17g w17 = some true := by decide +kernel
-- FAIL with matching disabled (C17_disabled, C17_disabled_no_extension)
example : compareDimMatch (runComparison (domainEqual relW absW cellsEqW) (defaultCheck .dflt (.num 0)))
    (fun _ _ => false) true w17 w17g = some false := by decide +kernel
example : pointsEqual relW absW w17.mesh w17g.mesh = false := by decide +kernel

/-- the copy with one extra coordinate set to 2^-20 (far beyond the tolerance 2^-26) -/
def w17bad : MeshFields :=
  { w17g with mesh := { w17g.mesh with points := [[0, 0, 0], [one, 0, 2 ^ 1054], [2 * one, 0, 0]] } }

example : compareDimMatch (runComparison (domainEqual relW absW cellsEqW) (defaultCheck .dflt (.num 0)))
    (fun _ _ => false) false w17 w17bad = some false := by decide +kernel

-- hypotheses of C17_nonzero_rejected are satisfiable (z = 2^-20, rel = 2^-27, abs = 2^-26, y = 2^-21)
example : rndMag f64 (2 ^ 1054) 0 = some (2 ^ 1054) ∧ rndMag f64 (2 ^ 1053) 0 = some (2 ^ 1053) ∧
    (2 ^ 1054 : Nat) * relW ≤ 2 ^ 1053 * 2 ^ UNIT ∧ (2 ^ 1053 : Nat) < 2 ^ 1054 ∧ absW < 2 ^ 1054 := by
  decide +kernel
example : fuzzyEq1 f64 0 (2 ^ 1054) relW true absW true = false := by decide +kernel

-- the unconditional "rel < 1 ⇒ rejected" of the design is false for subnormal z:
-- z = 1 unit (5e-324), rel = 0.75, abs = 0: the product 0.75 units rounds up to 1 unit
example : fuzzyEq1 f64 0 1 (3 * 2 ^ 1072) true 0 true = true := by decide +kernel

-- scalar field "s" is untouched by the extension, the tensor "t" is padded
example : w17g.pointFields[0]? = w17.pointFields[0]? := by decide +kernel

end Fc
