/-
  FcProofs.Props.C02_Source — C02, tie to the source text by TRANSLATION (see C04_Source.lean).
  The generator `_numpy_utils.walk_adjacent_true_index_ranges` (`Fc.Gen.c02WalkTrueRangesSrc`,
  harness/fcv/tables/pylite_c02.py; `yield` appends to the output list) against the model's `walkRuns`
  (FcModel/Lexsort.lean).  Loop simulation lemma: FcProofs/Lemmas/PyLiteC02.lean.
-/
import FcGen.Tables
import FcProofs.Lemmas.PyLiteC02
set_option linter.unusedSimpArgs false
namespace Fc
open PyLite PyLite.C02

/-- Run to exhaustion with `include_upper_edge=True` (the only way it is called), the generator yields
    exactly the model's `walkRuns mask`, for every boolean array: the loop over `range(len(mask))`, the
    block-open / block-close tests, the reset of the flag and the `end + 1` upper edge. -/
theorem C02_source_walk_true_ranges (mask : List Bool) :
    Gen.c02WalkTrueRangesSrc.runGen noExt [boolList mask, .bool true]
      = .ok ((C02.walkRuns mask).map pairVal) := by
  simp only [Gen.c02WalkTrueRangesSrc, boolList, C02.walkRuns]
  pylite_eval
  generalize hf : forLoop _ _ _ = r
  -- invariant: the array and the flag argument are unchanged, `begin` and `in_true_block` hold the
  -- model's loop variables (the variables are the normalised names of FcGen/Tables.lean)
  let Inv : Nat → Bool → St → Prop := fun bg inb st =>
    st.env.lookup "v0" = some (.list (mask.map .bool)) ∧ st.env.lookup "v1" = some (.bool true) ∧
    st.env.lookup "v3" = some (.int bg) ∧ st.env.lookup "v2" = some (.bool inb)
  have key := forLoop_walkRuns_all mask Inv hf
  obtain ⟨st', rfl, h2⟩ := key (by simp [Inv, List.lookup]) (by
    -- one iteration
    intro i b bg inb st hb ⟨e0, e1, e2, e4⟩
    have hidx := indexOf_map_nat Val.bool mask i b hb
    cases b <;> cases inb <;>
      simp [Inv, e0, e1, e2, e4, hidx, List.lookup, Val.truthy, Res.bind, Res.map, pairVal])
  simpa [C02.walkRuns] using h2

end Fc
