/-
  Property C14, glue part — `C14_identical_zero` assumes (`canon`) that after the CLI's `sort` both
  sides hold identical arrays in every common point field.  Here that hypothesis is DERIVED from
  C02's canonicity theorem (`C02_canonical_points`) for a reference that is a relabelled copy of the
  result, in C02's own model of `sort` (`Fc.C02.sortMesh` — strip orphans, fuzzy-lexicographic point
  sort with duplicate tie break, hash-sorted cells — used as the `sortF` parameter of C14's CLI model).

  Level of generality (what the two packages' models allow):
  * the relabelling is stated on the ORPHAN-STRIPPED data sets (`Relabeled`: points in the order `ρ`,
    corners renumbered, cells and type blocks in any order; point fields relabelled with `ρ`) — bridge
    hypotheses `hrel`, `hpf`.  For data sets without orphan points and the identity strip map this is
    "ref = relabel ρ res" itself; deriving it from a relabelling of the unstripped data sets needs the
    strip map's interaction with `ρ` (not proved);
  * noise-free copies (C02's full theorem is the noise-free one);
  * point fields only (as `C14_identical_zero`; cell fields need `C02_canonical_cells` + the cell index maps);
  * `hEq` (the sorted meshes compare equal — C03/C16's `mesh_equal` on identical points and identically
    sorted cells) and `hyp` (comparable field sets) stay hypotheses, as in `C14_identical_zero`: they
    are not canonicity statements.
-/
import FcProofs.Lemmas.GlueC14
namespace Fc
open Fc.C14 Fc.C02 Fc.C02.Spec

/-- **C02 ∘ C08-style transport (C02's model): relabelled copies have identical sorted point data.**
    Exposed as a property theorem because it is the statement the `canon` hypothesis of
    `C14_identical_zero` (and `hcanon` of `C02_no_false_fail_partial`, point-field part) asks for. -/
theorem C14_sorted_point_data_identical {as1 as2 : List Int → List Nat} (h1 : IsArgsort as1) (h2 : IsArgsort as2)
    {t1 t2 : MeshTol} {A B1 M1 B2 M2 : Nat} {S R : MeshFields} {c1 c2 : List (List Int)} {ρ : List Nat}
    (hy1 : PointHypP t1 A B1 M1 S.mesh c1) (hy2 : PointHypP t2 A B2 M2 R.mesh c2)
    (hc : ∀ x, x ∈ c1 ↔ x ∈ c2) (hrel : Relabeled S.mesh R.mesh ρ)
    (hpf : R.pointFields = Glue.relabelPointFields ρ S.pointFields)
    (hrows : ∀ pf ∈ S.pointFields, pf.values.hasRows S.mesh.points.length)
    (hn1 : S.mesh.points ≠ [])
    (hdist : ∀ a ∈ pitems S.mesh, ∀ b ∈ pitems S.mesh,
      kvec (KC A S.mesh) S.mesh.dim 0 a = kvec (KC A S.mesh) S.mesh.dim 0 b →
      kvec (KM A c1 as1 t1 S.mesh) S.mesh.dim 0 a = kvec (KM A c1 as1 t1 S.mesh) S.mesh.dim 0 b → a = b) :
    ∃ S' R', C02.sortPoints as1 t1 S = some S' ∧ C02.sortPoints as2 t2 R = some R' ∧
      S'.mesh.points = R'.mesh.points ∧ S'.pointFields = R'.pointFields := by
  obtain ⟨S', R', _, e1, e2, e3, e4, _⟩ :=
    Glue.sorted_fields_identical h1 h2 hy1 hy2 hc hrel hpf hrows hn1 hdist
  exact ⟨S', R', e1, e2, e3, e4⟩

/-- **C14 (reordered ⇒ zero).**  `fieldcompare file res ref --diff` where the reference is a
    relabelled copy of the result (bridge `hrel`, `hpf` on the orphan-stripped data sets) and the
    meshes differ as stored (`hdiff`, so the CLI sorts both sides): under C02's hypotheses
    (`PointHypP` on both sides, same candidate centres, coincident points distinguishable) the
    diff file that is written holds EXACTLY ZERO in every point field of the reference — for every
    argsort routine, without assuming anything about what `sort` produces. -/
theorem C14_reordered_zero {as : List Int → List Nat} (has : IsArgsort as) (h : List Nat → Int)
    (meshEq : MeshFields → MeshFields → Bool) (res ref : MeshFields)
    {A B1 M1 B2 M2 : Nat} {c1 c2 : List (List Int)} {ρ : List Nat}
    (hdiff : meshEq res ref = false)
    (hy1 : PointHypP (meshTolOf res.mesh) A B1 M1 (stripOrphans as res).mesh c1)
    (hy2 : PointHypP (meshTolOf ref.mesh) A B2 M2 (stripOrphans as ref).mesh c2)
    (hc : ∀ x, x ∈ c1 ↔ x ∈ c2)
    (hrel : Relabeled (stripOrphans as res).mesh (stripOrphans as ref).mesh ρ)
    (hpf : (stripOrphans as ref).pointFields = Glue.relabelPointFields ρ (stripOrphans as res).pointFields)
    (hrows : ∀ pf ∈ (stripOrphans as res).pointFields,
      pf.values.hasRows (stripOrphans as res).mesh.points.length)
    (hnum : ∀ pf ∈ (stripOrphans as res).pointFields, numericDType pf.values.dtype)
    (hn1 : (stripOrphans as res).mesh.points ≠ [])
    (hdist : ∀ a ∈ pitems (stripOrphans as res).mesh, ∀ b ∈ pitems (stripOrphans as res).mesh,
      kvec (KC A (stripOrphans as res).mesh) (stripOrphans as res).mesh.dim 0 a =
        kvec (KC A (stripOrphans as res).mesh) (stripOrphans as res).mesh.dim 0 b →
      kvec (KM A c1 as (meshTolOf res.mesh) (stripOrphans as res).mesh) (stripOrphans as res).mesh.dim 0 a =
        kvec (KM A c1 as (meshTolOf res.mesh) (stripOrphans as res).mesh) (stripOrphans as res).mesh.dim 0 b →
      a = b)
    (hEq : meshEq (Glue.sortC02 as h ref) (Glue.sortC02 as h res) = true)
    (hyp : C14Hyp (Glue.sortC02 as h res) (Glue.sortC02 as h ref)) :
    ∃ d, writeDiff (Glue.sortC02 as h) meshEq false res ref = some d ∧
      ∀ n a, dictGet n (pointList (Glue.sortC02 as h ref)) = some a →
        dictGet n (d.pointFields.map fun f => (f.name, f.values)) =
          some ⟨a.dtype, a.shape, List.replicate a.data.length (.fin 0)⟩ := by
  obtain ⟨S', R', pm, eS, eR, _, hfields, hS'⟩ :=
    Glue.sorted_fields_identical has has hy1 hy2 hc hrel hpf hrows hn1 hdist
  have hw : writeDiffInputs (Glue.sortC02 as h) meshEq false res ref =
      (Glue.sortC02 as h res, Glue.sortC02 as h ref) := by
    simp [writeDiffInputs, hdiff]
  have hpl : pointList (Glue.sortC02 as h ref) = pointList (Glue.sortC02 as h res) := by
    unfold pointList
    rw [Glue.sortC02_pointFields as h ref R' eR, Glue.sortC02_pointFields as h res S' eS, hfields]
  have canon : ∀ n a1 a2, dictGet n (pointList (Glue.sortC02 as h ref)) = some a1 →
      dictGet n (pointList (Glue.sortC02 as h res)) = some a2 → a1 = a2 ∧ numericDType a1.dtype := by
    intro n a1 a2 g1 g2
    rw [hpl, g2] at g1
    cases g1
    refine ⟨rfl, ?_⟩
    have hmem := dictGet_mem g2
    unfold pointList at hmem
    rw [Glue.sortC02_pointFields as h res S' eS, hS', Glue.relabelPointFields, List.map_map] at hmem
    obtain ⟨pf, hpfm, he⟩ := List.mem_map.mp hmem
    simp only [Function.comp, Prod.mk.injEq] at he
    rw [← he.2]
    exact hnum pf hpfm
  have main := C14_identical_zero (Glue.sortC02 as h) meshEq false res ref
    (by rw [hw]; exact hEq) (by rw [hw]; exact hyp) (by rw [hw]; exact canon)
  rw [hw] at main
  obtain ⟨d, hd, hz⟩ := main
  refine ⟨d, hd, ?_⟩
  intro n a ha
  exact hz n a a ha (by rw [← hpl]; exact ha)

end Fc
