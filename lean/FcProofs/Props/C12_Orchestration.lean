/-
  FcProofs.Props.C12_Orchestration — C12, phase 6 round 6: the directory-mode categorisation `_cli/_dir_mode.py: _categorize_files`
  tied to the model (`Fc.DirMode.categorize`, FcModel/DirMode.lean) by TRANSLATION.  Translated body: `Fc.Gen.c12oCategorizeSrc`
  (harness/fcv/tables/pylite_c12_orch.py); presentation and assumptions: FcProofs/Lemmas/PyLiteC12Orch.lean.
-/
import FcGen.Tables
import FcProofs.Lemmas.PyLiteC12Orch
set_option linter.unusedSimpArgs false
set_option linter.unusedVariables false
namespace Fc
open PyLite PyLite.C12O DirMode

/-- **`_categorize_files(args, res_dir, ref_dir)` is the model's `DirMode.categorize`**, for ALL path lists, filter truth tables,
    `is_supported` / `--read-as` tables and both ways of giving each filter (patterns or default): matched names filtered by
    `include and not exclude`; missing sources = considered reference orphans, missing references = considered source orphans;
    discarded = matches minus filtered; compared = supported ++ (unsupported with a mapping); unsupported = the rest;
    discarded orphans = union of the two orphan differences — each with exactly the list / set operations of the source.
    Assumptions: `CatExt` (sets presented in the order the model fixes), `FilterChoice` for the two filters. -/
theorem C12_source_categorize {α : Type} [DecidableEq α] {X : Ext} {emb : α → Val} {rd fd inclV exclV ftmV iv ev rav : Val}
    {resPaths refPaths : List α} {incl excl supported mapped : α → Bool}
    (hX : CatExt X emb rd fd inclV exclV ftmV rav resPaths refPaths incl excl supported mapped)
    (hi : FilterChoice X iv "PatternFilter" "_include_all" inclV)
    (he : FilterChoice X ev "PatternFilter" "_exclude_all" exclV) :
    Gen.c12oCategorizeSrc.run X [argsV iv ev rav, rd, fd] =
      .ok (catV emb (categorize resPaths refPaths incl excl supported mapped)) := by
  obtain ⟨ti, hti, hiv⟩ := hi
  obtain ⟨te, hte, hev⟩ := he
  have hincl := hX.hincl
  have hexcl := hX.hexcl
  have hset := hX.hset
  have hdiff := hX.hdiff
  have hunion := hX.hunion
  simp only [pl] at hset hdiff hunion
  simp only [Gen.c12oCategorizeSrc, argsV]
  orch_eval_nb [dictLookup, indexOf, hti, hiv, hte, hev, hX.hftm, hX.hfind, searchV, pl, builtin]
  -- the names of the matched pairs
  generalize hc1 : compM _ (List.map _ _) = c1
  have h1 : c1 = .ok ((findMatches resPaths refPaths).matched.map emb) := by
    rw [← hc1]; exact compM_map_total _ (pairP emb) emb (fun a => by simp [pairP]) _
  subst h1
  orch_eval_nb [dictLookup, indexOf, builtin, hset, hdiff, hunion, hX.hctor, catV, pl]
  -- filtered matches
  generalize hc2 : compM _ (List.map _ _) = c2
  have h2 : c2 = .ok (((findMatches resPaths refPaths).matched.filter (consider incl excl)).map emb) := by
    rw [← hc2]; exact compM_filter_emb _ emb _ (fun a => by
      cases hia : incl a <;> cases hea : excl a <;> simp [hincl, hexcl, consider, hia, hea, truthy_bool, Res.bind]) _
  subst h2
  orch_eval_nb [dictLookup, indexOf, builtin, hset, hdiff, hunion, hX.hctor, catV, pl]
  -- missing sources
  generalize hc3 : compM _ (List.map _ _) = c3
  have h3 : c3 = .ok (((findMatches resPaths refPaths).orphansReference.filter (consider incl excl)).map emb) := by
    rw [← hc3]; exact compM_filter_emb _ emb _ (fun a => by
      cases hia : incl a <;> cases hea : excl a <;> simp [hincl, hexcl, consider, hia, hea, truthy_bool, Res.bind]) _
  subst h3
  orch_eval_nb [dictLookup, indexOf, builtin, hset, hdiff, hunion, hX.hctor, catV, pl]
  -- missing references
  generalize hc4 : compM _ (List.map _ _) = c4
  have h4 : c4 = .ok (((findMatches resPaths refPaths).orphansSource.filter (consider incl excl)).map emb) := by
    rw [← hc4]; exact compM_filter_emb _ emb _ (fun a => by
      cases hia : incl a <;> cases hea : excl a <;> simp [hincl, hexcl, consider, hia, hea, truthy_bool, Res.bind]) _
  subst h4
  orch_eval_nb [dictLookup, indexOf, builtin, hset, hdiff, hunion, hX.hctor, catV, pl]
  -- supported files
  generalize hc5 : compM _ (List.map _ _) = c5
  have h5 : c5 = .ok ((((findMatches resPaths refPaths).matched.filter (consider incl excl)).filter supported).map emb) := by
    rw [← hc5]; exact compM_filter_emb _ emb _ (fun a => by
      obtain ⟨j, hj1, hj2⟩ := hX.hjoin a
      cases hs : supported a <;> simp [hj1, hj2, hs, truthy_bool, Res.bind]) _
  subst h5
  orch_eval_nb [dictLookup, indexOf, builtin, hset, hdiff, hunion, hX.hctor, catV, pl]
  -- unsupported files with a `--read-as` mapping
  generalize hc6 : compM _ (List.map _ _) = c6
  have h6 : c6 = .ok (((setDiff ((findMatches resPaths refPaths).matched.filter (consider incl excl))
      ((findMatches resPaths refPaths).matched.filter fun a => supported a && consider incl excl a)).filter mapped).map emb) := by
    rw [← hc6]; exact compM_filter_emb _ emb mapped (fun a => by
      have hm := hX.hmap a
      cases hma : mapped a <;> simp [hma] at hm <;> simp [hm, truthy_bool]) _
  subst h6
  orch_eval_nb [dictLookup, indexOf, builtin, hset, hdiff, hunion, hX.hctor, catV, pl]
  simp [categorize, List.map_append]

end Fc
